package main

import (
	"bytes"
	"fmt"
	"regexp"
	"regexp/syntax"
	"strconv"
	"strings"
	"sync"
	"time"

	"github.com/scrapli/scrapligo/channel"
	"github.com/scrapli/scrapligo/driver/generic"
	"github.com/scrapli/scrapligo/driver/network"
	"github.com/scrapli/scrapligo/driver/opoptions"
	"github.com/scrapli/scrapligo/driver/options"
	"github.com/scrapli/scrapligo/util"

	"verifgo/facts"
	"verifgo/sim"
	"verifgo/vlib"
)

func init() { props["C12"] = runC12 }

// ---------------------------------------------------------------------------------------------
// cases

type c12ev struct {
	input     string
	resp      int // index into facts.C12Patterns, -1 = no expected response
	hidden    bool
	out       string // what the device prints after this event's return, before ask / prompt
	ask       string // the question the device ends its reaction with ("" = a prompt)
	devHidden bool   // the device does not echo this event's input
	pre       string // a prompt-like status line the device prints (and holds) before out / ask
}

type c12case struct {
	seed     uint64
	kind     string // inter | esc | send
	thorough bool
	depth    int
	exact    bool
	nl       string
	segClass int
	segK     int
	readSize int
	delayUs  int
	pauseUs  int
	wrap     int
	setup    int  // 0 clean: the device is silent until the first return and a GetPrompt precedes the operation; 1 stale: the device shows its prompt on connect and nothing reads it; 2 shifted: prompt on connect, then a GetPrompt (which returns at the stale prompt and leaves its own answer behind)
	host     string
	weird    string // "" or the name of the out-of-domain twist that was applied
	echoTail   int  // the device keeps back the last echoTail bytes of every echo for c12hold (0 = no)
	shownSecret bool // a hidden input's text also occurs in the device's output
	winAdv     bool // one event's answer is longer than the search depth and has lines that END in the text the read waits for
	statusLine bool // some event carries a prompt-like status line (in domain)
	clean    bool   // built without any twist, from a clean queue, with questions no proper prefix of which matches their pattern, and with hidden inputs the device does not echo

	// inter
	events    []c12ev
	complete  []int
	earlyAt   int    // the device shows a completion prompt after this event (-1 never)
	earlyMode string // done | abort

	// esc / netinter: the level tree, the level the device starts in, the level asked for
	tree      string // ios | ios-tcl | junos
	start     string
	viaOption bool // netinter: the level is requested with WithPrivilegeLevel (else it is the default desired level)
	preAcquire bool  // esc / netinter: the level was already acquired once on the same driver before the call under test
	badOpt     string // inter / netinter: "" | all | channel — an operation option that fails (for every options object / only for the channel's)
	silentAt  int  // inter: the device never answers this event (-1 never); run with a short per-operation timeout
	interim   bool // send: the answer ends in an interim prompt passed with WithInterimPromptPattern
	detour    string // escalation: a prompt of an unrelated level shown (and held) before the outcome's reaction
	outcome   string // ask | grant | refuse | detour-only
	secret    string // AuthSecondary
	devSecret string // what the device accepts
	askText   string
	target    string
	escAuth   bool

	// send
	shape   string // how the command was built ("" = one of the stock commands)
	prevCmd string // a plain command sent (and answered with prevOut) before the one under test
	prevOut string
	cmd   string
	eager bool
	out   string
}

var c12words = []string{"Interface", "up", "down", "Gi0/1", "10.0.0.1", "is", "line", "protocol", "a #b", "x > y", "100%", "ü", "(config)", "::", "cost=5", "erase", "nvram:", "[OK]", "bytes", "copied"}

var c12ask = map[int][]string{
	0: {"Proceed with reload? [confirm]", "Clear logging buffer [confirm]"},
	1: {"Are you sure (yes/no)?", "Overwrite? (YES/NO)"},
	2: {"Password:", "password:"},
	3: {"Destination filename [startup-config]?", "Destination filename [r1-confg]?"},
	4: {"New secret:"},
}

func c12out(r *vlib.Rng, nl string, maxLines int) string {
	var b strings.Builder
	for l := r.Intn(maxLines + 1); l > 0; l-- {
		switch r.Intn(8) {
		case 0:
		case 1:
			b.WriteString("  ")
		default:
			for w := r.Range(1, 5); w > 0; w-- {
				b.WriteString(r.Pick(c12words))
				b.WriteString(" ")
			}
			b.WriteString("ok")
			if r.Chance(1, 4) {
				b.WriteString(strings.Repeat(" ", r.Range(1, 3)))
			}
		}
		b.WriteString(nl)
	}
	return b.String()
}

func c12secret(r *vlib.Rng) string {
	return "S" + string(r.Bytes(r.Range(3, 12), []byte("abcXYZ0189!%$#>*.[](){}|\\^+? -_")))+"x"
}

func genC12(seed uint64, thorough bool) c12case {
	r := vlib.NewRng(seed)
	cs := c12case{seed: seed, thorough: thorough, earlyAt: -1, silentAt: -1, tree: "ios", start: "exec"}
	switch k := r.Intn(100); {
	case k < 40:
		cs.kind = "inter"
	case k < 58:
		cs.kind = "netinter"
	case k < 85:
		cs.kind = "esc"
	default:
		cs.kind = "send"
	}
	cs.host = r.Pick([]string{"router", "r1", "core-sw.lab", "a@b:/x"})
	cs.nl = r.Pick([]string{"\n", "\n", "\r\n"})
	cs.segClass = r.Intn(5)
	cs.segK = r.Range(2, 24)
	cs.readSize = []int{1, 3, 64, 8192, 65536}[r.Intn(5)]
	if cs.segClass != 1 && r.Chance(1, 2) {
		cs.readSize = 8192
	}
	cs.delayUs = []int{20, 50, 250}[r.Intn(3)]
	if cs.segClass == 1 || cs.readSize <= 3 {
		cs.delayUs = 20 // one byte per read: keep the session short
	}
	if r.Chance(1, 2) {
		cs.pauseUs = r.Range(30, 300)
	}
	cs.exact = r.Chance(1, 4)
	if !cs.exact && r.Chance(1, 4) {
		cs.wrap = r.Range(3, 12)
	}
	cs.setup = []int{0, 0, 0, 0, 0, 1, 2}[r.Intn(7)]
	maxLines := 4
	if thorough {
		maxLines = 12
	}
	longest := 0
	note := func(s string) {
		for _, ln := range strings.Split(strings.ReplaceAll(s, "\r", ""), "\n") {
			if len(ln) > longest {
				longest = len(ln)
			}
		}
	}
	if cs.kind == "esc" || cs.kind == "netinter" {
		c12genEsc(&cs, r)
	}
	switch cs.kind {
	case "inter", "netinter":
		n := r.Range(1, 6)
		if cs.kind == "netinter" {
			n = r.Range(1, 4)
		}
		prevQ := -1
		for i := 0; i < n; i++ {
			var e c12ev
			e.resp = -1
			q := -1
			if i < n-1 && r.Chance(3, 4) || i == n-1 && r.Chance(1, 5) {
				q = r.Intn(5)
			}
			if q >= 0 {
				e.resp = q
				e.ask = r.Pick(c12ask[q])
			}
			// the input answers the previous question
			switch {
			case i == 0:
				e.input = r.Pick([]string{"clear logging", "reload", "copy running-config startup-config", "write erase", "x",
					"clear counters all", "reload in 100", "copy flash: tftp://10.0.0.1/aa", "clear access-list counters acl-foo"})
			case prevQ == 2 || prevQ == 4:
				e.hidden = true
				e.devHidden = !r.Chance(1, 6)
				e.input = c12secret(r)
				if r.Chance(1, 3) {
					// a secret whose text also occurs in what the device displays (part of the host
					// name, a word of the output, a single letter): the result is still the whole dialogue
					h := cs.host
					e.input = r.Pick([]string{h, h[:len(h)/2+1], h[len(h)/2:], "y", "ok", "up", "is", "line", "lab", "#"})
					cs.shownSecret = true
				}
			default:
				e.input = r.Pick([]string{"y", "yes", "n", "", "startup-config", "flash:/cfg.txt", "show clock", "all", "yess", "show access"})
				if prevQ == -1 && e.input == "" {
					e.input = "show clock"
				}
				if e.input == "" && cs.exact && !r.Chance(1, 8) {
					e.input = "y" // exact matching of an empty input stalls (twist exact-empty-input): keep it rare
				}
			}
			e.out = c12out(r, cs.nl, maxLines)
			if q < 0 && e.resp < 0 && r.Chance(1, 3) {
				e.out = "" // a confirmation that prints nothing
			}
			if !e.hidden && e.input != "" && r.Chance(1, 10) {
				// the caller hides an input the device does echo: no echo read, the echo is consumed
				// by the read after the return (any position, also the first event)
				e.hidden, e.devHidden = true, false
			}
			prevQ = q
			cs.events = append(cs.events, e)
		}
		if r.Chance(1, 30) {
			// one event whose output is longer than the default search depth
			i := r.Intn(n)
			cs.events[i].out = c12out(r, cs.nl, 6) + strings.Repeat("filler line of output ok"+cs.nl, 44)
		}
		switch r.Intn(4) {
		case 0:
			cs.complete = []int{facts.C12Index("doneprompt")}
		case 1:
			cs.complete = []int{facts.C12Index("doneprompt"), facts.C12Index("abortprompt")}
		case 2:
			cs.complete = []int{facts.C12Index("abortprompt"), facts.C12Index("doneprompt")}
		}
		if cs.kind == "netinter" {
			// the device stays in its level: no completion prompt is ever shown
		} else if len(cs.complete) > 0 && n >= 2 && r.Chance(1, 2) {
			cs.earlyAt = r.Intn(n - 1)
			cs.earlyMode = "done"
			if len(cs.complete) == 2 && r.Bool() {
				cs.earlyMode = "abort"
			}
		} else if len(cs.complete) > 0 && r.Chance(1, 3) {
			cs.earlyAt = n - 1 // completion pattern after the last event: nothing is cut short
			cs.earlyMode = "done"
		}
		// in-domain twist: before the expected response of an event that is followed by another
		// one, the device shows — in a read of its own, then pausing — a line that looks like a
		// prompt but is neither the expected response nor a complete pattern
		if r.Chance(1, 7) {
			var cand []int
			for i := 0; i+1 < n; i++ {
				if cs.events[i].resp >= 0 && i != cs.earlyAt {
					cand = append(cand, i)
				}
			}
			if len(cand) > 0 {
				i := cand[r.Intn(len(cand))]
				cs.events[i].pre = r.Pick([]string{"stage:1/2>", cs.host + "#", "copy:50/100$", "(busy)#"})
				// … or the text the LAST event waits for (its question), shown early: event i's own
				// read must not stop at it
				if last := cs.events[n-1]; last.ask != "" && last.resp != cs.events[i].resp && last.resp >= 2 && r.Chance(1, 2) {
					cs.events[i].pre = last.ask
				}
				cs.statusLine = true
			}
		}
		if cs.kind == "inter" && !cs.statusLine && cs.earlyAt < 0 && r.Chance(1, 25) {
			// the device falls silent after an event: the operation must end in its own (short,
			// per-operation) timeout and nothing further may be typed. Fast transport so that the
			// dialogue up to there takes a few milliseconds.
			cs.weird = "silent"
			cs.silentAt = r.Intn(n)
			cs.exact = false // (exact matching of an empty input stalls by itself)
			cs.segClass, cs.readSize, cs.delayUs, cs.pauseUs, cs.setup = 0, 8192, 20, 0, 0 // clean queue: a stale prompt would answer for the device
		}
		// out-of-domain twists (never gate the oracle: the Lean side reports dom = 0 for them)
		if !cs.statusLine && cs.weird == "" && cs.kind == "inter" && r.Chance(1, 10) {
			i := r.Intn(n)
			switch r.Intn(3) {
			case 0:
				if cs.events[i].ask != "" {
					cs.weird = "decoy"
					cs.events[i].out = "note: " + cs.events[i].ask + " was seen" + cs.nl + cs.events[i].out
				}
			case 1:
				if cs.events[i].ask != "" {
					cs.weird = "trailing-space-question"
					cs.events[i].ask += " "
				}
			case 2:
				cs.weird = "prompt-like-output"
				cs.events[i].out = cs.host + "#" + cs.nl + cs.events[i].out
			}
		}
		if cs.tree == "junos" && cs.kind == "netinter" {
			// the junos shell level's pattern is `^.*[%$]\s?$`: a read that ends right after "100%"
			// looks like its prompt; keep such words out of these dialogues
			for i := range cs.events {
				cs.events[i].out = strings.ReplaceAll(cs.events[i].out, "100%", "100pc")
			}
		}
		for _, e := range cs.events {
			note(e.out)
			note(e.pre)
			if l := len(e.ask) + len(e.input) + len(e.input)/3 + 2; l > longest {
				longest = l
			}
		}
		if l := len(cs.host) + 10 + len(cs.events[0].input)*4/3; l > longest {
			longest = l
		}
	case "esc":
		longest = len(cs.host) + 90
	case "send":
		cs.cmd = r.Pick([]string{"show version", "show ip interface brief", "x", "ping 10.0.0.1 repeat 2",
			"show access", "clear counters all", "ping 10.0.0.1 repeat 100", "show process cpu | i sss", "show ip bgp summ"})
		cs.eager = r.Chance(1, 3)
		cs.interim = !cs.eager && r.Chance(1, 4)
		cs.out = c12out(r, cs.nl, maxLines)
		if r.Chance(3, 5) {
			c12genCmdShape(&cs, r)
			if r.Chance(1, 4) {
				cs.exact, cs.wrap = true, 0
			}
		}
		note(cs.out)
		note(cs.prevOut)
		if cs.shape == "" {
			if l := len(cs.host) + 4 + len(cs.cmd)*4/3; l > longest {
				longest = l
			}
		}
	}
	cs.depth = 1000
	if r.Chance(1, 3) {
		// (for shaped plain commands the echo line may well be longer than the search depth: the
		// echo read widens its window to twice the input, the prompt read starts after a newline)
		cs.depth = longest + len(cs.host) + 3 + r.Intn(40)
	}
	if cs.weird != "silent" && r.Chance(1, 3) {
		cs.echoTail = r.Range(1, 2)
	}
	if cs.shape != "" && len(cs.cmd) > 2 && r.Chance(2, 3) {
		// the echo split at any offset, also inside the repeated part: the tail arrives later
		hi := len(cs.cmd) - 1
		if hi > 120 {
			hi = 120
		}
		cs.echoTail = r.Range(1, hi)
	}
	if (cs.kind == "netinter" || cs.kind == "esc") && cs.depth < longest+len(cs.host)+40 {
		cs.depth = longest + len(cs.host) + 40 + r.Intn(40) // prompts of the trees are longer (user@host..., banners)
	}
	if (cs.kind == "inter" || cs.kind == "netinter") && cs.weird == "" && !cs.statusLine && r.Chance(1, 40) {
		cs.weird = "bad-option"
		cs.badOpt = r.Pick([]string{"all", "channel"})
	}
	if (cs.kind == "inter" || cs.kind == "netinter") && cs.weird == "" && !cs.statusLine && r.Chance(1, 9) {
		c12genWindowAdversarial(&cs, r, longest)
	}
	cs.clean = cs.weird == "" && (cs.setup == 0 || c12staleOK(cs))
	for _, e := range cs.events {
		if strings.HasSuffix(e.ask, ")?") || e.hidden && !e.devHidden {
			cs.clean = false
		}
	}
	if (cs.kind == "inter" || cs.kind == "netinter") && cs.exact && cs.weird == "" {
		for i, e := range cs.events {
			if e.input == "" && e.resp >= 0 && !e.hidden && (cs.earlyAt < 0 || i <= cs.earlyAt) {
				// ReadUntilExplicit of an empty input waits for a chunk the device never sends
				cs.weird = "exact-empty-input"
				cs.clean = false
			}
		}
	}
	return cs
}

// c12genWindowAdversarial makes one event's answer adversarial for the search window: it is longer
// than the search depth (from depth-50, the control, to depth+2000) and every third line of it ENDS
// — after a blank, never at a line start — in the very text the read after that event waits for
// (the prompt, or the expected question). Whatever the read position, a window that is cut at
// `len - depth` without moving on to the next line boundary starts inside such a line at some
// offset of the token; the transport delivers one or a few bytes per read so that every cut
// position is looked at. Inside the quantifier: no line of the answer matches a stop pattern.
func c12genWindowAdversarial(cs *c12case, r *vlib.Rng, longest int) {
	var cand []int
	for i, e := range cs.events {
		if i == cs.earlyAt || e.pre != "" {
			continue
		}
		if e.resp == -1 || e.resp == 2 || e.resp == 3 || e.resp == 4 {
			cand = append(cand, i)
		}
	}
	if len(cand) == 0 {
		return
	}
	i := cand[r.Intn(len(cand))]
	for _, c := range cand { // prefer an event that is followed by another one: pacing is observable there
		if c+1 < len(cs.events) && r.Chance(2, 3) {
			i = c
			break
		}
	}
	e := &cs.events[i]
	token := e.ask
	if e.resp == -1 {
		token = cs.host + "#"
		if cs.kind == "netinter" {
			if l := c12treeByName(cs.tree).level(cs.target); l != nil {
				token = l.prompt(cs.host)
			} else {
				return
			}
		}
	}
	line := func(k int) string {
		if k%3 == 0 {
			return fmt.Sprintf("Gi0/%d is up, line protocol is up, uplink-to %s", k%48, token)
		}
		return fmt.Sprintf("  %d packets input, %d bytes, 0 no buffer ok", 1000+k*37, 90000+k*911)
	}
	if l := len(line(0)) + 4; l > longest {
		longest = l
	}
	small := !r.Chance(1, 6)
	if small {
		cs.depth = longest + 3 + r.Intn(60)
	} else {
		cs.depth = 1000
	}
	extra := r.Range(-50, 2000)
	if !small {
		extra = r.Range(-50, 500)
	}
	if !cs.thorough && extra > 700 {
		extra = 100 + extra%600
	}
	want := cs.depth + extra
	var b strings.Builder
	for k := 0; b.Len() < want; k++ {
		b.WriteString(line(k))
		b.WriteString(cs.nl)
	}
	// sweep the position of the tokens relative to the end of the answer
	b.WriteString(strings.Repeat(".", r.Intn(len(token)+3)) + " ok" + cs.nl)
	e.out = b.String()
	cs.winAdv = true
	// one or a few bytes per read
	cs.delayUs, cs.pauseUs, cs.echoTail = 20, 0, 0
	if small || r.Chance(1, 3) {
		cs.segClass, cs.readSize = 1, 8192
	} else {
		cs.segClass, cs.segK, cs.readSize = 2, r.Range(2, 7), 8192
	}
}

// c12genCmdShape draws the plain command under test by shape: lengths around the powers of two a
// matcher might cut at, up to beyond the search depth; self-similar texts (periodic, one long run,
// a tail that repeats an earlier part); commands that are a prefix / suffix / part of the command
// sent before or of what the device printed before.
func c12genCmdShape(cs *c12case, r *vlib.Rng) {
	n := []int{1, 2, 63, 64, 65, 66, 80, 128, 129, 200, 500, 1100}[r.Intn(12)]
	if !cs.thorough && n > 500 && !r.Chance(1, 3) {
		n = 130
	}
	alpha := []byte("abcdefghijklmnopqrstuvwxyz0123456789 -/.:|=")
	fit := func(b []byte) string { // exactly n bytes, no blank at either end (the device line is what it is)
		for len(b) < n {
			b = append(b, alpha[r.Intn(len(alpha))])
		}
		b = b[:n]
		if b[0] == ' ' {
			b[0] = 'e'
		}
		if b[n-1] == ' ' {
			b[n-1] = '='
		}
		return string(b)
	}
	rep := func(unit string) []byte { return []byte(strings.Repeat(unit, n/len(unit)+1)) }
	switch r.Intn(7) {
	case 0:
		cs.shape = "random"
		cs.cmd = fit(nil)
	case 1:
		cs.shape = "run"
		cs.cmd = fit(append([]byte("echo "), rep(r.Pick([]string{"=", "-", "a", "0"}))...))
	case 2:
		cs.shape = "periodic"
		cs.cmd = fit(rep(r.Pick([]string{"ab", "abc ", "10.0.0.1 ", "set x y; ", "0123456789"})))
	case 3:
		cs.shape = "tail-repeats"
		// X filler X: the last |X| bytes already occur at the start
		x := r.Bytes(r.Range(1, 70), alpha)
		b := append([]byte{}, x...)
		for len(b)+len(x) < n {
			b = append(b, alpha[r.Intn(len(alpha))])
		}
		if len(b)+len(x) > n && n > len(x) {
			b = b[:n-len(x)]
		}
		cs.cmd = fit(append(b, x...))
	case 4:
		cs.shape = "prefix-of-previous"
		cs.prevCmd = fit(rep("show interfaces Gi0/1 counters "))
		cs.cmd = cs.prevCmd[:1+r.Intn(len(cs.prevCmd))]
	case 5:
		cs.shape = "suffix-of-previous"
		cs.prevCmd = fit(rep("ping 10.0.0.1 size 100 repeat 5 "))
		cs.cmd = cs.prevCmd[r.Intn(len(cs.prevCmd)):]
	case 6:
		cs.shape = "part-of-previous-output"
		cs.cmd = fit(rep("interface Gi0/1 description uplink "))
		cs.prevCmd = "show history"
		cs.prevOut = "  " + cs.cmd + " " + cs.nl + " " + cs.cmd[:len(cs.cmd)/2+1] + cs.nl
	}
	cs.cmd = strings.TrimSpace(cs.cmd)
	if cs.cmd == "" {
		cs.cmd = "q"
	}
	if cs.prevCmd != "" {
		cs.prevCmd = strings.TrimSpace(cs.prevCmd)
		if cs.prevOut == "" {
			cs.prevOut = c12out(r, cs.nl, 2)
		}
	}
}

// c12genEsc draws the escalation side of a case (kinds esc and netinter): tree, start and target
// level, what the device does at the level that wants the secret, and the twists.
func c12genEsc(cs *c12case, r *vlib.Rng) {
	cs.tree = []string{"ios", "ios", "ios", "ios-tcl", "junos"}[r.Intn(5)]
	t := c12treeByName(cs.tree)
	cs.secret = c12secret(r)
	cs.devSecret = cs.secret
	cs.askText = r.Pick([]string{"Password:", "password:", "Enable password:"})
	if cs.tree == "junos" {
		cs.askText = r.Pick([]string{"Password:", "password:"})
	}
	cs.escAuth = true
	cs.start = "exec"
	cs.target = t.authLevel().name
	switch k := r.Intn(100); {
	case k < 40:
		cs.outcome = "ask"
	case k < 58:
		cs.outcome = "grant"
	case k < 70:
		cs.outcome = "refuse"
	case k < 80:
		cs.outcome = "ask"
		cs.devSecret = cs.secret + "!" // the device denies our secret
		cs.weird = "denied"
	case k < 88:
		cs.outcome = "ask"
		cs.askText = "Password: " // matches one byte before its end: not exact
		cs.weird = "trailing-space-question"
	case k < 91:
		cs.outcome = "ask"
		cs.askText = "Secret code:" // no pattern matches: the operation times out
		cs.weird = "unknown-question"
	case k < 96:
		cs.outcome = "grant"
		cs.secret = "" // no secondary secret configured: plain SendInput
		cs.weird = "no-secret"
	default:
		cs.outcome = "grant"
		cs.escAuth = false
		cs.weird = "no-escalate-auth"
	}
	if cs.kind == "netinter" && (cs.weird == "trailing-space-question" || cs.weird == "unknown-question") {
		cs.outcome, cs.askText, cs.weird = "ask", "Password:", ""
	}
	// in-domain: the device answers the escalate command with the prompt of an unrelated level
	// (matches the channel's joined prompt pattern, but neither the previous nor the target
	// level) before asking — or instead of asking
	if cs.tree != "junos" && cs.kind == "esc" && cs.weird == "" && cs.outcome == "ask" && r.Chance(1, 4) {
		cs.detour = cs.host + "(config)#"
		cs.statusLine = true
		if r.Chance(1, 4) {
			cs.outcome, cs.detour = "detour-only", ""
		}
	}
	// other start and target levels: deeper targets, de-escalation, no change at all
	if cs.detour == "" && cs.outcome != "detour-only" && r.Chance(1, 2) {
		cs.target = t.lv[r.Intn(len(t.lv))].name
		if r.Chance(1, 2) {
			cs.start = t.lv[r.Intn(len(t.lv))].name
		}
	}
	cs.viaOption = r.Bool()
	cs.preAcquire = r.Chance(1, 5) && cs.weird != "unknown-question" && cs.outcome != "detour-only"
	if cs.weird == "" && cs.detour == "" && cs.outcome != "detour-only" {
		switch r.Intn(40) {
		case 0:
			// a level the driver does not know at all
			cs.weird, cs.target, cs.viaOption = "no-such-level", "no-such-level", true
		case 1:
			// the device sits in a level the driver has no entry for (its prompt matches the joined
			// pattern through the configuration pattern, which not-contains then rules out)
			cs.weird, cs.tree, cs.start, cs.target = "unknown-level", "ios-tcl", "tclsh", "privilege-exec"
		case 2:
			// the device prints nothing at all
			cs.weird, cs.setup, cs.preAcquire = "mute", 0, false
		}
	}
}

// ---------------------------------------------------------------------------------------------
// running one case against the real drivers

type c12op struct {
	kind     string   // gp | inter | esc | send
	tokens   []string // the operation in the model's session request
	w0, w1   int      // writes [w0,w1) of the session belong to this operation
	impl     [][]byte
	result   string
	hasRes   bool
	err      string
}

type c12obs struct {
	dur      time.Duration
	line     string // model request for the whole session
	main     int    // index of the operation under test (inter / send)
	fatal    string
	ops      []c12op
	err      string // error class of the call under test
	writes   []sim.WriteEvent
	wstates  []sim.WriteState
	lines    []sim.LineEvent
	lstates  []sim.WriteState
	emitted  []byte
	splitEsc bool
	endMode  string
	asked    int
	typed    bool // bad-option sessions: something of the dialogue was written nevertheless
}

func c12seg(cs c12case) func(int) int {
	sr := vlib.NewRng(cs.seed ^ 0x5eed12)
	switch cs.segClass {
	case 1:
		return sim.SegFixed(1)
	case 2:
		return sim.SegFixed(cs.segK)
	case 3, 4:
		return func(avail int) int { return 1 + sr.Intn(avail+cs.segK)%(cs.segK*3) }
	}
	return nil
}

type c12chunk struct{ start, end int }

// c12chunks lists the reads the transport delivered (as offsets into the emitted stream), plus one
// final pseudo chunk for what the device emitted but nobody read before Close.
func c12chunks(p *sim.Pipe) []c12chunk {
	var out []c12chunk
	pos := 0
	for _, sz := range p.ReadLog {
		out = append(out, c12chunk{pos, pos + sz})
		pos += sz
	}
	if pos < p.Emitted {
		out = append(out, c12chunk{pos, p.Emitted})
	}
	return out
}

// c12react returns the chunks whose last byte was emitted in (lo, hi], and the index of the first.
func c12react(stream []byte, chunks []c12chunk, lo, hi int) ([][]byte, int) {
	var out [][]byte
	first := -1
	for i, c := range chunks {
		if c.end > lo && c.end <= hi {
			if first < 0 {
				first = i
			}
			out = append(out, stream[c.start:c.end])
		}
	}
	return out, first
}

func c12idx(is []int) string {
	if len(is) == 0 {
		return "."
	}
	var s []string
	for _, i := range is {
		s = append(s, strconv.Itoa(i))
	}
	return strings.Join(s, ",")
}

// c12sessLine builds the model request for a whole session: the chunks delivered before the first
// write (q0), one chunk list per write (the device's reaction, cut where the reads ended), and the
// operations in order.
func c12sessLine(p *sim.Pipe, depth int, prompt string, ops []c12op) string {
	stream := p.EmittedBytes()
	chunks := c12chunks(p)
	f := []string{"c12", "sess", strconv.Itoa(depth), "0a", prompt}
	first := p.Emitted
	if len(p.Writes) > 0 {
		first = p.Writes[0].EmittedBefore
	}
	q, _ := c12react(stream, chunks, -1, first)
	var eb []int
	for _, w := range p.Writes {
		eb = append(eb, w.EmittedBefore)
	}
	eb = append(eb, p.Emitted)
	f = append(f, vlib.HexList(q), strconv.Itoa(len(p.Writes)), c12idx(eb))
	for k := range p.Writes {
		hi := p.Emitted
		if k+1 < len(p.Writes) {
			hi = p.Writes[k+1].EmittedBefore
		}
		rc, _ := c12react(stream, chunks, p.Writes[k].EmittedBefore, hi)
		f = append(f, vlib.HexList(rc))
	}
	for _, op := range ops {
		f = append(f, op.tokens...)
	}
	return strings.Join(f, " ")
}

// level trees: the fields of network.PrivilegeLevel plus what the device prints as the prompt
type c12lvl struct {
	name, prev, esc, deesc string
	pat, escp              string // names in facts.C12Patterns
	auth                   bool
	notContains            []string
	prompt                 func(host string) string
	banner                 string
}

type c12tree struct {
	name string
	lv   []c12lvl
}

func c12treeByName(name string) c12tree {
	ios := []c12lvl{
		{name: "exec", pat: "exec", prompt: func(h string) string { return h + ">" }},
		{name: "privilege-exec", prev: "exec", esc: "enable", deesc: "disable", pat: "privexec", escp: "enablepass", auth: true,
			prompt: func(h string) string { return h + "#" }},
		{name: "configuration", prev: "privilege-exec", esc: "configure terminal", deesc: "end", pat: "configuration",
			prompt: func(h string) string { return h + "(config)#" }, banner: "Enter configuration commands, one per line.  End with CNTL/Z.\n"},
	}
	switch name {
	case "ios-tcl":
		ios[2].notContains = []string{"tcl)"}
		ios = append(ios, c12lvl{name: "tclsh", prev: "privilege-exec", esc: "tclsh", deesc: "tclquit", pat: "tclsh",
			prompt: func(h string) string { return h + "(tcl)#" }})
		return c12tree{name, ios}
	case "junos":
		return c12tree{name, []c12lvl{
			{name: "exec", pat: "jexec", prompt: func(h string) string { return "user@" + h + ">" }},
			{name: "configuration", prev: "exec", esc: "configure", deesc: "exit configuration-mode", pat: "jconf",
				prompt: func(h string) string { return "user@" + h + "#" }, banner: "Entering configuration mode\n"},
			{name: "shell", prev: "exec", esc: "start shell", deesc: "exit", pat: "jshell", notContains: []string{"root"},
				prompt: func(h string) string { return "user@" + h + "%" }},
			{name: "root-shell", prev: "exec", esc: "start shell user root", deesc: "exit", pat: "jroot", escp: "jpass", auth: true,
				prompt: func(h string) string { return "root@" + h + ":~ #" }},
		}}
	}
	return c12tree{"ios", ios}
}

func (t c12tree) level(name string) *c12lvl {
	for i := range t.lv {
		if t.lv[i].name == name {
			return &t.lv[i]
		}
	}
	return nil
}

func (t c12tree) authLevel() *c12lvl {
	for i := range t.lv {
		if t.lv[i].auth {
			return &t.lv[i]
		}
	}
	return nil
}

func (t c12tree) privLevels(escAuth bool) map[string]*network.PrivilegeLevel {
	P := func(n string) string {
		if n == "" {
			return ""
		}
		return facts.C12Patterns[facts.C12Index(n)].Src
	}
	m := map[string]*network.PrivilegeLevel{}
	for _, l := range t.lv {
		m[l.name] = &network.PrivilegeLevel{Name: l.name, Pattern: P(l.pat), NotContains: l.notContains, PreviousPriv: l.prev,
			Deescalate: l.deesc, Escalate: l.esc, EscalateAuth: l.auth && escAuth, EscalatePrompt: P(l.escp)}
	}
	return m
}

func (t c12tree) devLevels(host string) []sim.EscLevel {
	var out []sim.EscLevel
	for _, l := range t.lv {
		out = append(out, sim.EscLevel{Name: l.name, Prompt: l.prompt(host), Prev: l.prev, Escalate: l.esc, Deescalate: l.deesc,
			Auth: l.auth, Banner: l.banner})
	}
	return out
}

// joined is the network driver's channel prompt pattern: the alternation of all level patterns
func (t c12tree) joined() string {
	var is []int
	for _, l := range t.lv {
		is = append(is, facts.C12Index(l.pat))
	}
	return c12idx(is)
}

// c12expectAcquire is the specification of AcquirePriv on a tree device: walk from the start
// level to the target along the tree (down to the common ancestor, then up), the hop into the
// level that asks for the secret being subject to the device's outcome.
func c12expectAcquire(cs c12case, t c12tree) (end, err string) {
	cur := cs.start
	switch cs.weird {
	case "no-such-level", "unknown-level":
		return cur, "privilege"
	case "mute":
		return cur, "timeout"
	}
	for n := 0; n < 20; n++ {
		if cur == cs.target {
			return cur, "nil"
		}
		child := ""
		for x := cs.target; x != ""; x = t.level(x).prev {
			if t.level(x).prev == cur {
				child = x
				break
			}
		}
		if child == "" {
			cur = t.level(cur).prev
			continue
		}
		if t.level(child).auth {
			switch {
			case cs.outcome == "refuse" || cs.weird == "denied":
				return cur, "privilege"
			case cs.outcome == "detour-only":
				return "configuration", "timeout"
			case cs.weird == "unknown-question":
				return cur, "timeout"
			}
		}
		cur = child
	}
	return cur, "privilege"
}

// operations that are expected to run into their timeout get a short one; all others a generous
// one (a 1-byte segmentation at a 250 µs read delay needs tens of milliseconds per dialogue)
// c12subseq: in-order subsequence (the specification of the fuzzy echo matcher).
func c12subseq(in, out string) bool {
	i := 0
	for j := 0; j < len(out) && i < len(in); j++ {
		if in[i] == out[j] {
			i++
		}
	}
	return i == len(in)
}

// c12staleOK: a session that starts with the login prompt still in the queue is nevertheless
// in-domain when its first input's echo is awaited (the echo read swallows the stale bytes) and
// the input is not already an in-order subsequence of the stale bytes plus a proper prefix of the
// echo (so the echo read of a conforming implementation ends exactly at the end of the echo).
func c12staleOK(cs c12case) bool {
	if cs.wrap != 0 || cs.exact {
		return false
	}
	var first string
	switch cs.kind {
	case "send":
		first = cs.cmd
		if cs.prevCmd != "" {
			first = cs.prevCmd
		}
	case "inter":
		if cs.events[0].resp < 0 || cs.events[0].hidden {
			return false
		}
		first = cs.events[0].input
	default:
		return false
	}
	if first == "" {
		return false
	}
	stale := cs.host + "#\n" + cs.host + "#"
	return !c12subseq(first, stale+first[:len(first)-1])
}

// c12completeSlice builds the slice handed to WithCompletePatterns. How a caller builds it is its
// own business: exactly sized, or (two cases in three) with spare capacity as append or
// make(.., n, n+4) leave it — also an empty one with capacity. The library must not let its
// per-event pattern lists share that spare room.
func c12completeSlice(cs c12case) ([]*regexp.Regexp, bool) {
	spare := cs.seed%3 != 0
	if len(cs.complete) == 0 && !spare {
		return nil, false
	}
	cp := make([]*regexp.Regexp, 0, len(cs.complete))
	if spare {
		cp = make([]*regexp.Regexp, 0, len(cs.complete)+4)
	}
	for _, i := range cs.complete {
		cp = append(cp, regexp.MustCompile(facts.C12Patterns[i].Src))
	}
	return cp, true
}

// c12badOption is an operation option that fails: for every options object ("all") or only when it
// is applied to the channel's operation options ("channel").
func c12badOption(kind string) util.Option {
	return func(o interface{}) error {
		if kind == "all" {
			return util.ErrBadOption
		}
		if _, ok := o.(*channel.OperationOptions); ok {
			return util.ErrBadOption
		}
		return util.ErrIgnoredOption
	}
}

// c12hold is how long a device keeps back the rest of its reaction after a status line: long
// against the read delay (an implementation that stops at the status line types ahead well within
// it), short against the operation timeout
const c12hold = 4 * time.Millisecond

// c12silentTimeout is the per-operation timeout of the sessions whose device falls silent: two
// orders of magnitude above what the dialogue up to the silence takes on the fast transport those
// sessions use, far below the driver-level timeout
const c12silentTimeout = 500 * time.Millisecond

func c12timeout(cs c12case) time.Duration {
	if cs.weird == "unknown-question" || cs.outcome == "detour-only" || cs.weird == "mute" {
		return 150 * time.Millisecond // stalls right after the escalate command: a few bytes in
	}
	return 3 * time.Second
}

func runC12case(cs c12case) (o c12obs) {
	t0 := time.Now()
	defer func() { o.dur = time.Since(t0) }()
	commonOpts := func() []util.Option {
		return []util.Option{options.WithAuthBypass(), options.WithTimeoutOps(c12timeout(cs)),
			options.WithReadDelay(time.Duration(cs.delayUs) * time.Microsecond),
			options.WithPromptSearchDepth(cs.depth), options.WithTransportReadSize(cs.readSize)}
	}
	snapshot := func(p *sim.Pipe, cli *sim.CLI) {
		o.writes = append([]sim.WriteEvent{}, p.Writes...)
		o.lines = append([]sim.LineEvent{}, cli.Lines...)
		o.emitted = append([]byte{}, p.EmittedBytes()...)
		o.splitEsc = p.SplitAtoms > 0
		o.endMode = cli.Mode
	}
	switch cs.kind {
	case "inter", "send":
		prompts := map[string]string{"exec": cs.host + "#", "done": cs.host + "(done)#", "abort": cs.host + "(abort)>"}
		var script []sim.DlgStep
		if cs.kind == "inter" {
			for i, e := range cs.events {
				st := sim.DlgStep{Out: e.out, Ask: e.ask, NextMode: "exec", Pre: e.pre, Hold: c12hold}
				if i+1 < len(cs.events) {
					st.Hidden = cs.events[i+1].devHidden
				}
				if i == cs.earlyAt {
					st.Ask, st.NextMode, st.Hidden = "", cs.earlyMode, false
				}
				if i == cs.silentAt {
					st = sim.DlgStep{Silent: true}
				}
				script = append(script, st)
			}
		} else {
			script = []sim.DlgStep{{Out: cs.out, NextMode: "exec"}}
			if cs.interim {
				script[0].Ask = "..." // the device waits for more input: an interim prompt, not the prompt
			}
			if cs.prevCmd != "" {
				script = append([]sim.DlgStep{{Out: cs.prevOut, NextMode: "exec"}}, script...)
			}
		}
		dev := sim.NewDialogue("exec", prompts, script)
		dev.NL = cs.nl
		dev.EchoWrap = cs.wrap
		dev.EchoTail, dev.EchoHold = cs.echoTail, c12hold
		dev.Seg = c12seg(cs)
		dev.ReadPause = time.Duration(cs.pauseUs) * time.Microsecond
		if cs.setup != 0 {
			dev.Start()
		}
		opts := append([]util.Option{options.WithCustomTransport(dev)}, commonOpts()...)
		d, err := generic.NewDriver("h", opts...)
		if err != nil {
			o.fatal = "new:" + err.Error()
			return o
		}
		if err := d.Open(); err != nil {
			o.fatal = "open:" + errClass(err)
			return o
		}
		w0 := 0
		if cs.setup != 1 {
			if _, err := d.GetPrompt(); err != nil {
				o.fatal = "getprompt:" + errClass(err)
				_ = d.Close()
				return o
			}
			w0 = 1
			o.ops = append(o.ops, c12op{kind: "gp", tokens: []string{"gp"}, w0: 0, w1: 1, impl: [][]byte{[]byte("\n")}, err: "nil"})
		}
		var op c12op
		op.kind = cs.kind
		var opOpts []util.Option
		if cs.exact {
			opOpts = append(opOpts, opoptions.WithExactMatchInput())
		}
		switch {
		case cs.silentAt >= 0:
			// the operation's own timeout, far below the driver's
			opOpts = append(opOpts, opoptions.WithTimeoutOps(c12silentTimeout))
		case cs.seed%4 == 0:
			opOpts = append(opOpts, opoptions.WithTimeoutOps(c12timeout(cs)))
		}
		if cs.kind == "inter" {
			var evs []*channel.SendInteractiveEvent
			for _, e := range cs.events {
				ev := &channel.SendInteractiveEvent{ChannelInput: e.input, HideInput: e.hidden}
				if e.resp >= 0 {
					ev.ChannelResponse = facts.C12Patterns[e.resp].Src
				}
				evs = append(evs, ev)
			}
			if cp, pass := c12completeSlice(cs); pass {
				opOpts = append(opOpts, opoptions.WithCompletePatterns(cp))
			}
			if cs.badOpt != "" {
				opOpts = append(opOpts, c12badOption(cs.badOpt))
			}
			r, err := d.SendInteractive(evs, opOpts...)
			op.err = errClass(err)
			if err == nil {
				op.result, op.hasRes = r.Result, true
			}
		} else {
			opOpts = append(opOpts, opoptions.WithNoStripPrompt())
			if cs.prevCmd != "" {
				// history: an earlier plain command on the same channel
				b, err := d.Channel.SendInput(cs.prevCmd, opOpts...)
				pop := c12op{kind: "send", w0: w0, w1: w0 + 2, impl: [][]byte{[]byte(cs.prevCmd), []byte("\n")}, err: errClass(err),
					tokens: []string{"send", b2s(cs.exact), "0", ".", vlib.Hex([]byte(cs.prevCmd))}}
				if err == nil {
					pop.result, pop.hasRes = string(b), true
				}
				o.ops = append(o.ops, pop)
				w0 += 2
			}
			if cs.eager {
				opOpts = append(opOpts, opoptions.WithEager())
			}
			if cs.interim {
				opOpts = append(opOpts, opoptions.WithInterimPromptPattern([]*regexp.Regexp{
					regexp.MustCompile(facts.C12Patterns[facts.C12Index("interim")].Src)}))
			}
			b, err := d.Channel.SendInput(cs.cmd, opOpts...)
			op.err = errClass(err)
			if err == nil {
				op.result, op.hasRes = string(b), true
			}
		}
		o.err = op.err
		_ = d.Close()
		dev.Snapshot(func() {
			snapshot(dev.Pipe, dev.CLI)
			o.wstates = append([]sim.WriteState{}, dev.WriteStates...)
			o.lstates = append([]sim.WriteState{}, dev.LineStates...)
			op.w0, op.w1 = w0, len(dev.Writes)
			for _, w := range dev.Writes[w0:] {
				op.impl = append(op.impl, w.Data)
			}
			if cs.badOpt != "" {
				// the operation must fail before anything is written: it is not part of the model's session
				o.typed = len(dev.Writes) > w0
				o.main = -1
				o.line = c12sessLine(dev.Pipe, cs.depth, "d", o.ops)
				return
			}
			if cs.kind == "inter" {
				op.tokens = []string{"inter", b2s(cs.exact), c12idx(cs.complete), strconv.Itoa(len(cs.events))}
				for _, e := range cs.events {
					rs := "-"
					if e.resp >= 0 {
						rs = strconv.Itoa(e.resp)
					}
					op.tokens = append(op.tokens, vlib.Hex([]byte(e.input)), rs, b2s(e.hidden))
				}
			} else {
				im := "."
				if cs.interim {
					im = strconv.Itoa(facts.C12Index("interim"))
				}
				op.tokens = []string{"send", b2s(cs.exact), b2s(cs.eager), im, vlib.Hex([]byte(cs.cmd))}
			}
			o.ops = append(o.ops, op)
			o.main = len(o.ops) - 1
			o.line = c12sessLine(dev.Pipe, cs.depth, "d", o.ops)
		})
	case "esc", "netinter":
		t := c12treeByName(cs.tree)
		dev := sim.NewEscDevice(cs.host, cs.outcome, cs.devSecret, cs.askText)
		dev.Tree = t.devLevels(cs.host)
		dev.CLI.Mode = cs.start
		dev.Mute = cs.weird == "mute"
		dev.Detour, dev.Hold = cs.detour, c12hold
		dev.EchoTail, dev.EchoHold = cs.echoTail, c12hold
		for i, e := range cs.events {
			st := sim.DlgStep{Out: e.out, Ask: e.ask, Pre: e.pre, Hold: c12hold}
			if i+1 < len(cs.events) {
				st.Hidden = cs.events[i+1].devHidden
			}
			dev.Script = append(dev.Script, st)
		}
		dev.NL = cs.nl
		dev.EchoWrap = cs.wrap
		dev.Seg = c12seg(cs)
		dev.ReadPause = time.Duration(cs.pauseUs) * time.Microsecond
		if cs.setup != 0 {
			dev.Start()
		}
		desired := cs.target
		var opOpts []util.Option
		if cs.kind == "netinter" && cs.viaOption {
			// the default desired level is another one; the operation asks for its own
			desired = cs.start
			opOpts = append(opOpts, opoptions.WithPrivilegeLevel(cs.target))
		}
		drvTree := t
		if cs.weird == "unknown-level" {
			drvTree = c12tree{t.name, nil}
			for _, l := range t.lv {
				if l.name != "tclsh" {
					drvTree.lv = append(drvTree.lv, l)
				}
			}
		}
		if drvTree.level(desired) == nil {
			desired = "exec"
		}
		opts := append([]util.Option{options.WithCustomTransport(dev), options.WithPrivilegeLevels(drvTree.privLevels(cs.escAuth)),
			options.WithDefaultDesiredPriv(desired), options.WithAuthSecondary(cs.secret)}, commonOpts()...)
		d, err := network.NewDriver("h", opts...)
		if err != nil {
			o.fatal = "new:" + err.Error()
			return o
		}
		if err := d.Open(); err != nil {
			o.fatal = "open:" + errClass(err)
			return o
		}
		var mainOp c12op
		if cs.preAcquire {
			_ = d.AcquirePriv(cs.target) // history: the level was acquired (or not) once before
		}
		if cs.kind == "esc" {
			o.err = errClass(d.AcquirePriv(cs.target))
		} else {
			var evs []*channel.SendInteractiveEvent
			for _, e := range cs.events {
				ev := &channel.SendInteractiveEvent{ChannelInput: e.input, HideInput: e.hidden}
				if e.resp >= 0 {
					ev.ChannelResponse = facts.C12Patterns[e.resp].Src
				}
				evs = append(evs, ev)
			}
			if cs.exact {
				opOpts = append(opOpts, opoptions.WithExactMatchInput())
			}
			if cp, pass := c12completeSlice(cs); pass {
				opOpts = append(opOpts, opoptions.WithCompletePatterns(cp))
			}
			if cs.badOpt != "" {
				opOpts = append(opOpts, c12badOption(cs.badOpt))
			}
			r, err := d.SendInteractive(evs, opOpts...)
			o.err = errClass(err)
			if err == nil {
				mainOp.result, mainOp.hasRes = r.Result, true
			}
		}
		_ = d.Close()
		dev.Snapshot(func() {
			snapshot(dev.Pipe, dev.CLI)
			o.wstates = append([]sim.WriteState{}, dev.WriteStates...)
			o.lstates = append([]sim.WriteState{}, dev.LineStates...)
			o.asked = dev.Asked
			o.main = -1
			// split the session's writes into operations: a lone return is a GetPrompt; a level
			// command starts an operation that owns the following return and, if present, the secret
			// and its return; anything else starts the interactive operation, which owns the rest
			ws := dev.Writes
			idx := func(n string) string {
				if n == "" {
					return "-"
				}
				return strconv.Itoa(facts.C12Index(n))
			}
			for i := 0; i < len(ws); {
				data := string(ws[i].Data)
				if data == "\n" {
					o.ops = append(o.ops, c12op{kind: "gp", tokens: []string{"gp"}, w0: i, w1: i + 1, impl: [][]byte{ws[i].Data}, err: "nil"})
					i++
					continue
				}
				var op c12op
				var lvl *c12lvl
				deesc := false
				for k := range t.lv {
					if t.lv[k].esc != "" && t.lv[k].esc == data {
						lvl = &t.lv[k]
					}
				}
				if lvl == nil {
					for k := range t.lv {
						if t.lv[k].deesc != "" && t.lv[k].deesc == data {
							lvl, deesc = &t.lv[k], true
						}
					}
				}
				if lvl == nil && cs.badOpt != "" {
					o.typed = true
					break
				}
				if lvl == nil {
					// the interactive operation
					op = mainOp
					op.kind, op.w0, op.w1 = "inter", i, len(ws)
					for _, w := range ws[i:] {
						op.impl = append(op.impl, w.Data)
					}
					op.tokens = []string{"inter", b2s(cs.exact), c12idx(cs.complete), strconv.Itoa(len(cs.events))}
					for _, e := range cs.events {
						rs := "-"
						if e.resp >= 0 {
							rs = strconv.Itoa(e.resp)
						}
						op.tokens = append(op.tokens, vlib.Hex([]byte(e.input)), rs, b2s(e.hidden))
					}
					op.err = o.err
					o.ops = append(o.ops, op)
					o.main = len(o.ops) - 1
					break
				}
				op.kind = "esc"
				op.w0 = i
				j := i + 1
				if j < len(ws) && string(ws[j].Data) == "\n" {
					j++
					if !deesc && lvl.auth && cs.secret != "" && j < len(ws) && string(ws[j].Data) == cs.secret {
						j++
						if j < len(ws) && string(ws[j].Data) == "\n" {
							j++
						}
					}
				}
				op.w1 = j
				for _, w := range ws[op.w0:op.w1] {
					op.impl = append(op.impl, w.Data)
				}
				if !deesc && lvl.auth {
					op.tokens = []string{"esc", idx(t.level(lvl.prev).pat), idx(lvl.pat), idx(lvl.escp), b2s(cs.escAuth),
						vlib.Hex(ws[i].Data), vlib.Hex([]byte(cs.secret))}
				} else {
					op.tokens = []string{"esc", idx(t.lv[0].pat), idx(lvl.pat), "-", "0", vlib.Hex(ws[i].Data), "-"}
				}
				op.err = "nil"
				o.ops = append(o.ops, op)
				i = j
			}
			if o.main < 0 && len(o.ops) > 0 && o.err == "timeout" {
				o.ops[len(o.ops)-1].err = "timeout"
			}
			o.line = c12sessLine(dev.Pipe, cs.depth, drvTree.joined(), o.ops)
		})
	}
	return o
}

// ---------------------------------------------------------------------------------------------
// oracle helpers (independent of the model)

// c12canon is the specification of post-processing: CR dropped, trailing spaces of every line
// dropped, surrounding newlines dropped.
func c12canon(b []byte) string {
	text := strings.ReplaceAll(string(b), "\r", "")
	lines := strings.Split(text, "\n")
	for i := range lines {
		lines[i] = strings.TrimRight(lines[i], " ")
	}
	return strings.Trim(strings.Join(lines, "\n"), "\n")
}

type c12trace struct {
	writes   [][]byte
	redacted []bool
	consumed []int // number of chunks delivered to the operation before each write
	total    int   // number of chunks delivered to the operation
}

func c12parseTrace(s string) (t c12trace, ok bool) {
	if s == "." {
		return t, true
	}
	n := 0
	for _, it := range strings.Split(s, ",") {
		if len(it) < 2 {
			return t, false
		}
		b, err := vlib.UnHex(it[1:])
		if err != nil {
			return t, false
		}
		switch it[0] {
		case 'd':
			n++
		case 'w', 'r':
			t.writes = append(t.writes, b)
			t.redacted = append(t.redacted, it[0] == 'r')
			t.consumed = append(t.consumed, n)
		default:
			return t, false
		}
	}
	t.total = n
	return t, true
}

func c12join(bs [][]byte) string {
	var s []string
	for _, b := range bs {
		s = append(s, strconv.Quote(string(b)))
	}
	return "[" + strings.Join(s, " ") + "]"
}

// ---------------------------------------------------------------------------------------------

func runC12(c *ctx) {
	res := c.res
	res.Rule = "sessions of the real drivers over causal dialogue devices: generic.Driver.SendInteractive with 1-6 events (visible/hidden in every order incl. inputs the caller hides but the device echoes, with/without expected response, early completion through complete patterns, completion pattern after the last event, prompt-like status lines held before the expected response, a device that falls silent under a per-operation timeout, rejected operation options); network.Driver.SendInteractive with and without WithPrivilegeLevel over three level trees (IOS, IOS+tclsh with not-contains, junos-like with shell/root-shell) from every start level to every target level (escalation with password question, de-escalation, no change, level acquired before, unknown / non-existent level, mute device); network.Driver.AcquirePriv on the same trees against a device that asks / grants / refuses / denies / asks with a trailing space / asks something unknown / shows an unrelated level first (plus no secret configured, escalate-auth off); plain Channel.SendInput eager / not eager / with an interim prompt; outputs beyond the search depth; segmentations whole/1-byte/fixed/random, read sizes 1..65536, read delays, transport delivery pauses, echo tail held back, CRLF, wrapped echo, exact/fuzzy input matching, search depths from longest line+3 to 1000, clean / stale / shifted queue at the start. non-trivial = in-domain (every read of the operation ended exactly at the end of what the device had printed) case with >= 2 events, or an escalation, or a plain send; distinct by case seed"
	if c.replay != "" {
		f := strings.Fields(c.replay)
		if len(f) >= 2 && f[0] == "c12case" {
			seed, _ := strconv.ParseUint(f[1], 10, 64)
			c12check(c, []c12case{genC12(seed, len(f) > 2 && f[2] == "thorough")})
			return
		}
		res.Note("replay of a raw model line is evaluated by the model only: %s", c.replay)
		return
	}
	// vlib.NewRng(seed+1) is vlib.NewRng(seed) shifted by one output: take exactly one output of
	// the run's generator and derive every case from that fork, so that different VERIF_SEEDs give
	// unrelated case sets
	base := c.rng.Fork()
	rxDiff(c, []string{"Channel.promptPattern"}, c.n(150, 2000))
	c12rxDiff(c, base.Fork(), c.n(120, 2500))
	n := c.n(2500, 40000)
	cases := make([]c12case, n)
	for i := range cases {
		cases[i] = genC12(base.U64(), c.thorough())
	}
	for lo := 0; lo < len(cases); lo += 250 {
		hi := lo + 250
		if hi > len(cases) {
			hi = len(cases)
		}
		c12check(c, cases[lo:hi])
		nf := 0
		for k, v := range res.Distribution {
			if strings.HasPrefix(k, "finding:") {
				nf += v
			}
		}
		if nf >= 20 && hi < len(cases) {
			// a broken tree makes many sessions run into their timeout: enough evidence, stop
			res.Note("stopped after %d of %d sessions: %d failing checks recorded", hi, len(cases), nf)
			break
		}
	}
}

// c12rxDiff ties the Lean engine running the generated table terms to Go's regexp on the same
// table sources.
func c12rxDiff(c *ctx, r *vlib.Rng, per int) {
	var lines []string
	var want []string
	noise := []string{"\n", " ", "x", "#", ">", "router", "(done)", "password:", "Password: ", "[confirm]", "(yes/no)?", "\r", "é", "New secret:", "enable ", "(", ")", "\n"}
	for i, p := range facts.C12Patterns {
		re := regexp.MustCompile(p.Src)
		syn, _ := syntax.Parse(p.Src, syntax.Perl)
		for k := 0; k < per; k++ {
			var s []byte
			for j := r.Range(0, 3); j >= 0; j-- {
				switch r.Intn(3) {
				case 0:
					s = append(s, r.Pick(noise)...)
				default:
					s = append(s, sampleRe(r, syn, 0)...)
				}
				if r.Chance(1, 3) {
					s = append(s, r.Pick(noise)...)
				}
			}
			if r.Chance(1, 5) && len(s) > 0 {
				s[r.Intn(len(s))] = r.Bytes(1, []byte("aZ0 #>\n:("))[0]
			}
			if len(s) > 120 {
				s = s[:120]
			}
			lines = append(lines, fmt.Sprintf("c12 rx %d %s", i, vlib.Hex(s)))
			want = append(want, b2s(re.Match(s)))
		}
	}
	ans := c.ask(lines)
	for i := range lines {
		c.res.Count("rxdiff:c12table")
		if ans[i] != want[i] {
			c.res.Fail("correspondence", lines[i], fmt.Sprintf("regex engine on table pattern: %s: Go %s, Lean %s", lines[i], want[i], ans[i]), "rx:c12table")
		}
	}
	c.res.Note("C12 pattern table (%d patterns) diffed against Go regexp on %d subjects", len(facts.C12Patterns), len(lines))
}

// c12askParallel runs the model driver on slices of the request lines concurrently (the replay of a
// long dialogue costs the model far more than the session cost the implementation).
func c12askParallel(c *ctx, lines []string) []string {
	k := vlib.Conc(8)
	if k < 1 {
		k = 1
	}
	if len(lines) < 2*k {
		return c.ask(lines)
	}
	out := make([]string, len(lines))
	var wg sync.WaitGroup
	for p := 0; p < k; p++ {
		wg.Add(1)
		go func(p int) {
			defer wg.Done()
			var idx []int
			var part []string
			for i := p; i < len(lines); i += k {
				idx = append(idx, i)
				part = append(part, lines[i])
			}
			ans := c.ask(part)
			for j, i := range idx {
				out[i] = ans[j]
			}
		}(p)
	}
	wg.Wait()
	return out
}

func c12check(c *ctx, cases []c12case) {
	res := c.res
	obs := make([]c12obs, len(cases))
	tRun := time.Now()
	var wg sync.WaitGroup
	sem := make(chan struct{}, vlib.Conc(16))
	for i := range cases {
		wg.Add(1)
		sem <- struct{}{}
		go func(i int) {
			defer wg.Done()
			obs[i] = runC12case(cases[i])
			<-sem
		}(i)
	}
	wg.Wait()
	res.Distribution["sessions-ms"] += int(time.Since(tRun) / time.Millisecond)
	var lines []string
	var refs []int
	for i := range obs {
		if obs[i].line != "" && obs[i].fatal == "" && len(obs[i].ops) > 0 {
			lines = append(lines, obs[i].line)
			refs = append(refs, i)
		}
	}
	tAsk := time.Now()
	ans := c12askParallel(c, lines)
	res.Distribution["model-ms"] += int(time.Since(tAsk) / time.Millisecond)
	answers := map[int]string{}
	for k, i := range refs {
		answers[i] = ans[k]
	}
	for i, cs := range cases {
		o := obs[i]
		tier := ""
		if cs.thorough {
			tier = " thorough"
		}
		caseLine := fmt.Sprintf("c12case %d%s", cs.seed, tier)
		key := strconv.FormatUint(cs.seed, 10)
		res.Count("kind:" + cs.kind)
		res.Count(fmt.Sprintf("seg:%d", cs.segClass))
		res.Count(fmt.Sprintf("setup:%d", cs.setup))
		if cs.weird != "" {
			res.Count("twist:" + cs.weird)
		}
		if o.fatal != "" {
			res.Case(key, false)
			res.Fail("machinery", caseLine, "session could not be set up: "+o.fatal, "setup")
			continue
		}
		if o.splitEsc {
			res.Case(key, false)
			res.Count("nodom:split-escape")
			continue
		}
		if c.replay != "" {
			fmt.Printf("case %+v\nrequest %s\nanswer %s\nerr %s\n", cs, o.line, answers[i], o.err)
			for k, w := range o.writes {
				fmt.Printf("  write %d %q emitted=%d delivered=%d reads=%d state=%+v\n", k, w.Data, w.EmittedBefore, w.DeliveredBefore, w.ReadsBefore, o.wstates[k])
			}
			for _, op := range o.ops {
				fmt.Printf("  op %s [%d,%d) err=%s result=%q\n", op.kind, op.w0, op.w1, op.err, op.result)
			}
			fmt.Printf("  emitted %q\n", o.emitted)
		}
		if ms := int(o.dur / time.Millisecond); o.err != "timeout" && ms > res.Distribution["max-session-ms"] {
			res.Distribution["max-session-ms"] = ms
		}
		if o.err == "timeout" {
			res.Count("timeouts: twist=" + cs.weird + " kind=" + cs.kind)
			if cs.weird == "" {
				res.Note("timeout in %s setup=%d", caseLine, cs.setup)
			}
		}
		parts := strings.Split(answers[i], " | ")
		if len(o.ops) == 0 {
			parts = nil // nothing was written at all: nothing to replay
		}
		if len(parts) != len(o.ops) {
			res.Case(key, false)
			res.Fail("machinery", caseLine, fmt.Sprintf("driver answered %q for %d operations ; request %s", answers[i], len(o.ops), o.line), "driver")
			continue
		}
		// per operation: correspondence with the model
		allDom := true
		okAll := true
		traces := make([]c12trace, len(o.ops))
		delivered := 0 // chunks the model has consumed so far in the session
		for j, op := range o.ops {
			f := strings.Fields(parts[j])
			if len(f) != 5 {
				res.Fail("machinery", caseLine, "driver answered "+parts[j]+" for operation "+strconv.Itoa(j)+" of "+o.line, "driver")
				okAll = false
				break
			}
			dom := f[0] == "1" && f[4] == "1"
			if f[4] != "1" {
				res.Count("nodom:window-unsound")
			}
			if op.kind != "gp" {
				allDom = allDom && dom
			}
			mok := f[1] == "1"
			mres, _ := vlib.UnHex(f[2])
			tr, ok := c12parseTrace(f[3])
			if !ok {
				res.Fail("machinery", caseLine, "unparsable trace "+f[3], "driver")
				okAll = false
				break
			}
			traces[j] = tr
			// (a) what was written, in order
			if c12join(tr.writes) != c12join(op.impl) {
				res.Fail("correspondence", caseLine, fmt.Sprintf("operation %d (%s): implementation wrote %s, model %s ; request %s", j, op.kind, c12join(op.impl), c12join(tr.writes), o.line), "writes-differ")
				okAll = false
				break
			}
			// (b) outcome and result
			implOK := op.err == "nil"
			if implOK != mok {
				res.Fail("correspondence", caseLine, fmt.Sprintf("operation %d (%s): implementation error class %s, model ok=%v ; request %s", j, op.kind, op.err, mok, o.line), "outcome-differs")
				okAll = false
				break
			}
			if !implOK && op.err != "timeout" {
				res.Fail("correspondence", caseLine, fmt.Sprintf("operation %d (%s): implementation error class %s where the model runs dry (timeout)", j, op.kind, op.err), "error-class:"+op.err)
				okAll = false
				break
			}
			if op.hasRes && string(mres) != op.result {
				res.Fail("correspondence", caseLine, fmt.Sprintf("operation %d (%s): implementation result %q, model %q ; request %s", j, op.kind, op.result, mres, o.line), "result-differs")
				okAll = false
				break
			}
			// (c) the trace order: the implementation wrote no earlier than the model — before each
			// write the transport had delivered at least the chunks the model had consumed
			for k := range tr.writes {
				have := o.writes[op.w0+k].ReadsBefore
				if have < delivered+tr.consumed[k] {
					res.Fail("correspondence", caseLine, fmt.Sprintf("operation %d (%s): write %d %q was issued when %d chunk(s) had been delivered; the model has consumed %d before it ; request %s", j, op.kind, k, op.impl[k], have, delivered+tr.consumed[k], o.line), "wrote-before-delivery")
					okAll = false
					break
				}
			}
			delivered += tr.total
			if !okAll {
				break
			}
		}
		res.TracesVsImpl++
		res.Count(fmt.Sprintf("dom:%v", allDom))
		if cs.echoTail > 0 {
			res.Count(fmt.Sprintf("echo-tail-held setup=%d dom:%v clean:%v", cs.setup, allDom, cs.clean))
		}
		if cs.kind == "inter" || cs.kind == "netinter" {
			res.Count(fmt.Sprintf("complete-patterns slice spare-capacity:%v", cs.seed%3 != 0))
		}
		if cs.shownSecret {
			res.Count(fmt.Sprintf("hidden input text occurs in the output dom:%v clean:%v", allDom, cs.clean))
		}
		if cs.winAdv {
			db := "small"
			if cs.depth == 1000 {
				db = "default"
			}
			res.Count(fmt.Sprintf("window-adversarial answer depth:%s dom:%v", db, allDom))
		}
		if cs.statusLine {
			res.Count(fmt.Sprintf("status-line/detour kind=%s outcome=%s dom:%v", cs.kind, cs.outcome, allDom))
		}
		nontriv := allDom && okAll && (cs.kind != "inter" || len(cs.events) >= 2)
		res.Case(key, nontriv)
		res.Count(fmt.Sprintf("exact:%v", cs.exact))
		res.Count(fmt.Sprintf("echo wrapped:%v tail-held:%v", cs.wrap > 0, cs.echoTail > 0))
		if cs.kind == "inter" || cs.kind == "send" {
			res.Count(fmt.Sprintf("per-op-timeout-option:%v", cs.silentAt >= 0 || cs.seed%4 == 0))
		}
		if cs.kind == "inter" || cs.kind == "netinter" {
			res.Count(fmt.Sprintf("events:%d", len(cs.events)))
			early := "none"
			switch {
			case cs.earlyAt >= 0 && cs.earlyAt < len(cs.events)-1:
				early = "cuts-short"
			case cs.earlyAt >= 0:
				early = "after-last-event"
			}
			res.Count(fmt.Sprintf("complete-patterns:%d early-completion:%s", len(cs.complete), early))
			order, big := "", false
			for _, e := range cs.events {
				switch {
				case e.hidden && e.devHidden:
					order += "H"
				case e.hidden:
					order += "h" // hidden by the caller, echoed by the device
				case e.resp >= 0:
					order += "V"
				default:
					order += "v" // visible, no expected response: echo not awaited
				}
				if len(e.out) > cs.depth {
					big = true
				}
			}
			if len(order) > 3 {
				order = order[:3] + "+"
			}
			res.Count("order:" + order)
			if big {
				res.Count(fmt.Sprintf("event-output>depth dom:%v", allDom))
			}
		}
		if cs.kind == "esc" || cs.kind == "netinter" {
			res.Count(fmt.Sprintf("tree:%s %s->%s", cs.tree, cs.start, cs.target))
			res.Count(fmt.Sprintf("%s outcome:%s dom:%v", cs.kind, cs.outcome, allDom))
		}
		if cs.kind == "netinter" {
			res.Count(fmt.Sprintf("netinter via-option:%v", cs.viaOption))
		}
		if cs.interim {
			res.Count(fmt.Sprintf("send interim dom:%v", allDom))
		}
		if cs.kind == "send" {
			lb := "<=64"
			switch l := len(cs.cmd); {
			case l > cs.depth:
				lb = ">depth"
			case l > 128:
				lb = "129.."
			case l > 64:
				lb = "65..128"
			}
			res.Count(fmt.Sprintf("send shape:%s len:%s exact:%v", cs.shape, lb, cs.exact))
			res.Count(fmt.Sprintf("send echo-split:%v eager:%v dom:%v", cs.echoTail > 0, cs.eager, allDom))
		}
		if i%257 == 0 {
			res.Sample(map[string]any{"case": caseLine, "kind": cs.kind, "events": len(cs.events), "complete": cs.complete, "early_at": cs.earlyAt,
				"outcome": cs.outcome, "twist": cs.weird, "target": cs.target, "depth": cs.depth, "seg": cs.segClass, "read_size": cs.readSize,
				"pause_us": cs.pauseUs, "setup": cs.setup, "err": o.err, "ops": len(o.ops), "dom": allDom})
		}
		// oracles that need no model: never gated by exactness nor by the correspondence — a secret
		// typed at a command prompt, or a hidden input whose echo is awaited, is a violation
		// whatever the segmentation did
		if cs.kind == "esc" || cs.kind == "netinter" {
			c12secretOracle(res, caseLine, cs, o)
		}
		if (cs.kind == "inter" || cs.kind == "netinter") && o.main >= 0 {
			c12hiddenOracle(res, caseLine, cs, o)
		}
		if cs.kind == "netinter" {
			// the events are sent only once the requested level was acquired
			if _, aerr := c12expectAcquire(cs, c12treeByName(cs.tree)); aerr != "nil" && o.main >= 0 {
				res.Fail("oracle", caseLine, fmt.Sprintf("the level %s cannot be acquired (expected error class %s) but the dialogue was started: %s", cs.target, aerr, c12join(o.ops[o.main].impl)), "dialogue-without-level")
			}
		}
		if cs.silentAt >= 0 && okAll {
			c12silentOracle(res, caseLine, cs, o)
		}
		if cs.badOpt != "" {
			// an operation whose options are rejected types nothing of the dialogue
			wantErr := "badoption"
			if cs.kind == "netinter" && cs.badOpt == "channel" {
				// the network driver acquires the level before the channel looks at the options
				if _, aerr := c12expectAcquire(cs, c12treeByName(cs.tree)); aerr != "nil" {
					wantErr = aerr
				}
			}
			if o.err != wantErr {
				res.Fail("oracle", caseLine, fmt.Sprintf("an operation option failed (%s): the operation returned error class %s, expected %s", cs.badOpt, o.err, wantErr), "bad-option:"+o.err)
			} else if o.typed {
				res.Fail("oracle", caseLine, fmt.Sprintf("an operation option failed (%s) but part of the dialogue was written", cs.badOpt), "typed-despite-option-error")
			}
			continue
		}
		// in-domain: the model found every read exact. When the correspondence is broken the model's
		// judgement is void; the oracles then run on the sessions the generator built without any
		// twist from a clean queue (which are in-domain on a conforming implementation), so that a
		// concrete failing input is reported instead of a bare model disagreement.
		inDom := allDom
		if !okAll {
			inDom = cs.clean
			traces = nil
		} else if cs.clean && !allDom {
			res.Count("clean-but-nodom")
			if c.replay == "" && res.Distribution["clean-but-nodom"] <= 6 {
				res.Note("clean-but-nodom %s", caseLine)
			}
		}
		if !inDom {
			continue
		}
		res.InDomain++
		switch cs.kind {
		case "inter":
			c12interOracle(res, caseLine, cs, o, traces, "prompt:exec")
		case "esc":
			c12escOracle(res, caseLine, cs, o, traces)
		case "netinter":
			if c12escOracle(res, caseLine, cs, o, traces) && o.main >= 0 {
				c12interOracle(res, caseLine, cs, o, traces, "prompt:"+cs.target)
			}
		case "send":
			c12sendOracle(res, caseLine, cs, o, traces)
		}
	}
}

// paced reports a violation when write k arrived before everything the device had printed so far
// had been handed out by Read.
func c12paced(res *vlib.Result, caseLine string, o c12obs, k int, what string) bool {
	w := o.writes[k]
	if w.DeliveredBefore != w.EmittedBefore {
		res.Fail("oracle", caseLine, fmt.Sprintf("%s (write %d, %q) was sent when the device had printed %d bytes but only %d had been delivered: typed ahead of %q", what, k, w.Data, w.EmittedBefore, w.DeliveredBefore, o.emitted[w.DeliveredBefore:w.EmittedBefore]), "typed-ahead:"+strings.Fields(what)[0])
		return false
	}
	return true
}

func c12interOracle(res *vlib.Result, caseLine string, cs c12case, o c12obs, traces []c12trace, base string) {
	op := o.ops[o.main]
	if op.err != "nil" {
		res.Fail("oracle", caseLine, "well-formed dialogue returned error class "+op.err, "error:"+op.err)
		return
	}
	// spec: all inputs in order, each followed by a return, up to the event after which the device
	// showed a completion pattern
	var want [][]byte
	var wantStates []string
	for i, e := range cs.events {
		want = append(want, []byte(e.input), []byte("\n"))
		st := base
		if i > 0 && cs.events[i-1].ask != "" {
			st = "ask:" + strconv.Itoa(i-1)
		}
		wantStates = append(wantStates, st)
		if i == cs.earlyAt {
			break
		}
	}
	if c12join(op.impl) != c12join(want) {
		res.Fail("oracle", caseLine, fmt.Sprintf("device received %s, the dialogue demands %s", c12join(op.impl), c12join(want)), "wrong-device-input")
		return
	}
	if traces != nil && c12join(traces[o.main].writes) != c12join(want) {
		res.Fail("machinery", caseLine, "in-domain case: model writes differ from the spec", "model-vs-spec")
	}
	// every input arrived in the device state it answers
	ls := o.lstates
	ln := o.lines
	before := 0 // complete lines the device received before the operation
	for _, w := range o.writes[:op.w0] {
		if string(w.Data) == "\n" {
			before++
		}
	}
	if before <= len(ls) && before <= len(ln) {
		ls, ln = ls[before:], ln[before:]
	}
	for i := range wantStates {
		if i >= len(ls) || ls[i].Mode != wantStates[i] || ln[i].Line != cs.events[i].input {
			res.Fail("oracle", caseLine, fmt.Sprintf("input %d %q arrived in device state %v (line log %v), expected state %s", i, cs.events[i].input, ls, ln, wantStates[i]), "wrong-device-state")
			return
		}
	}
	// pacing: every input after the first, and every return that follows an awaited echo, was sent
	// only after all the device had printed was delivered
	for k := op.w0; k < op.w1; k++ {
		rel := k - op.w0
		ev := cs.events[rel/2]
		if rel%2 == 0 && rel > 0 {
			if !c12paced(res, caseLine, o, k, fmt.Sprintf("input of event %d", rel/2)) {
				return
			}
		}
		if rel%2 == 1 && ev.resp >= 0 && !ev.hidden && !(ev.input == "" && !cs.exact) {
			if !c12paced(res, caseLine, o, k, fmt.Sprintf("return of event %d (visible, awaited echo)", rel/2)) {
				return
			}
		}
		// hidden inputs: the return follows at once — the device printed nothing in between that
		// could have been awaited
	}
	// the result is the whole dialogue
	start := 0
	if cs.setup == 0 {
		start = o.writes[op.w0].EmittedBefore
	}
	if want := c12canon(o.emitted[start:]); (cs.setup == 0 || cs.setup == 1 && cs.kind == "inter") && op.result != want {
		res.Fail("oracle", caseLine, fmt.Sprintf("result %q, the whole dialogue is %q", op.result, want), "wrong-result")
	}
}

// c12hiddenOracle: hidden inputs must not be awaited. If the device does not echo a hidden input,
// waiting for its echo would stall the dialogue: so a hidden event whose device does not echo must
// still get its return (checked for every case, in or out of domain, that did not time out for
// another reason).
func c12hiddenOracle(res *vlib.Result, caseLine string, cs c12case, o c12obs) {
	op := o.ops[o.main]
	for rel := 0; rel < len(op.impl) && rel/2 < len(cs.events); rel += 2 {
		ev := cs.events[rel/2]
		if string(op.impl[rel]) != ev.input {
			break // the writes do not follow the event list at all: reported elsewhere
		}
		if ev.hidden && ev.devHidden && rel+1 >= len(op.impl) {
			res.Fail("oracle", caseLine, fmt.Sprintf("hidden input of event %d was written but its return never followed (error class %s): the echo of a hidden input was awaited", rel/2, op.err), "hidden-awaited")
		}
	}
}

func c12secretOracle(res *vlib.Result, caseLine string, cs c12case, o c12obs) {
	if cs.secret == "" {
		return
	}
	secretWrites := 0
	for k, w := range o.writes {
		if !bytes.Contains(w.Data, []byte(cs.secret)) {
			continue
		}
		secretWrites++
		st := o.wstates[k]
		if st.Mode != "password" {
			res.Fail("oracle", caseLine, fmt.Sprintf("the secondary secret was written (write %d) while the device was in state %q, not at its password question (outcome %s, twist %q)", k, st.Mode, cs.outcome, cs.weird), "secret-at-prompt")
			return
		}
		if k+1 >= len(o.writes) || string(o.writes[k+1].Data) != "\n" {
			res.Fail("oracle", caseLine, fmt.Sprintf("the secret was written (write %d) but its return never followed (error class %s): the echo of a hidden input was awaited", k, o.err), "hidden-awaited")
			return
		}
		// and the password question had been delivered in full (bar at most its trailing space)
		if w.DeliveredBefore < w.EmittedBefore-1 {
			res.Fail("oracle", caseLine, fmt.Sprintf("the secondary secret was written when %d of %d printed bytes had been delivered", w.DeliveredBefore, w.EmittedBefore), "secret-typed-ahead")
			return
		}
	}
	for k, l := range o.lines {
		if strings.Contains(l.Line, cs.secret) && o.lstates[k].Mode != "password" {
			res.Fail("oracle", caseLine, fmt.Sprintf("a line containing the secret arrived in device state %q", o.lstates[k].Mode), "secret-at-prompt")
			return
		}
	}
	if cs.outcome != "ask" && secretWrites > 0 {
		res.Fail("oracle", caseLine, "the device never asked for a password but the secret was written", "secret-at-prompt")
		return
	}
	if cs.outcome == "ask" && cs.weird != "unknown-question" && secretWrites != o.asked {
		res.Fail("oracle", caseLine, fmt.Sprintf("the device asked %d time(s) for the password, the secret was written %d time(s)", o.asked, secretWrites), "secret-count")
	}
	if cs.weird == "unknown-question" && secretWrites > 0 {
		res.Fail("oracle", caseLine, "the secret was written at a question that is not the escalate prompt", "secret-at-prompt")
	}
}

// c12escOracle judges the level acquisition of a session (AcquirePriv itself, or the one
// network.Driver.SendInteractive performs first); true = acquired as the specification says.
func c12escOracle(res *vlib.Result, caseLine string, cs c12case, o c12obs, traces []c12trace) bool {
	wantMode, wantErr := c12expectAcquire(cs, c12treeByName(cs.tree))
	if gotErr := o.err; (cs.kind == "esc" || wantErr != "nil") && gotErr != wantErr {
		res.Fail("oracle", caseLine, fmt.Sprintf("acquiring %s from %s (tree %s) returned error class %s, expected %s (outcome %s twist %q)", cs.target, cs.start, cs.tree, gotErr, wantErr, cs.outcome, cs.weird), "error:"+gotErr)
		return false
	}
	if o.endMode != wantMode {
		res.Fail("oracle", caseLine, fmt.Sprintf("device ended in mode %s, expected %s (tree %s, %s -> %s)", o.endMode, wantMode, cs.tree, cs.start, cs.target), "wrong-mode")
		return false
	}
	// pacing of every write of every escalation operation but its first
	for j, op := range o.ops {
		if op.kind != "esc" {
			continue
		}
		for k := op.w0 + 1; k < op.w1; k++ {
			rel := k - op.w0
			if rel == 3 {
				continue // the return after the (hidden) secret is not paced
			}
			what := []string{"", "return of the escalate command", "secret", ""}[rel]
			if !c12paced(res, caseLine, o, k, fmt.Sprintf("%s (operation %d)", what, j)) {
				return false
			}
		}
		if traces != nil {
			for k, red := range traces[j].redacted {
				if red != (k == 2) {
					res.Fail("machinery", caseLine, "model redaction flags differ from the spec", "model-vs-spec")
				}
			}
		}
	}
	return wantErr == "nil"
}

// c12silentOracle: the device fell silent after event silentAt. The operation must end in a timeout
// (its own, short one) and nothing may be typed after that event's return.
func c12silentOracle(res *vlib.Result, caseLine string, cs c12case, o c12obs) {
	op := o.ops[o.main]
	var want [][]byte
	for i, e := range cs.events {
		want = append(want, []byte(e.input), []byte("\n"))
		if i == cs.silentAt {
			break
		}
	}
	if op.err != "timeout" {
		res.Fail("oracle", caseLine, fmt.Sprintf("the device never answered event %d, the operation returned error class %s", cs.silentAt, op.err), "silent:"+op.err)
		return
	}
	if c12join(op.impl) != c12join(want) {
		res.Fail("oracle", caseLine, fmt.Sprintf("the device never answered event %d; it received %s, the dialogue allows %s", cs.silentAt, c12join(op.impl), c12join(want)), "typed-into-silence")
		return
	}
	if o.dur > 2*time.Second {
		// the per-operation timeout (500 ms) was not the one that ended the operation (the driver's is 3 s)
		res.Fail("oracle", caseLine, fmt.Sprintf("the operation's own timeout of %v was not honoured: the session took %v", c12silentTimeout, o.dur), "op-timeout-ignored")
	}
}

func c12sendOracle(res *vlib.Result, caseLine string, cs c12case, o c12obs, traces []c12trace) {
	op := o.ops[o.main]
	if op.err != "nil" {
		res.Fail("oracle", caseLine, "plain send returned error class "+op.err, "error:"+op.err)
		return
	}
	want := [][]byte{[]byte(cs.cmd), []byte("\n")}
	if c12join(op.impl) != c12join(want) {
		res.Fail("oracle", caseLine, fmt.Sprintf("device received %s, expected %s", c12join(op.impl), c12join(want)), "wrong-device-input")
		return
	}
	if !c12paced(res, caseLine, o, op.w0+1, "return of the plain command") {
		return
	}
	// the result of a (non-eager) send is everything the device printed after the return — up to
	// the prompt, or to the interim prompt the caller declared
	if !cs.eager {
		if want := c12canon(o.emitted[o.writes[op.w0+1].EmittedBefore:]); op.result != want {
			res.Fail("oracle", caseLine, fmt.Sprintf("result %q, the device answered %q (interim prompt: %v)", op.result, want, cs.interim), "wrong-result")
		}
	}
}
