package main

// C07 — Close always completes: no panic, deadlock, leaked goroutine or data race.
//
// Gating tie: forced schedules. Each case is one child process (c07_child.go) in which a
// controller installed on scrapligo's `verif` yield points releases one goroutine at a time
// following a seeded random schedule over sim.Pipe based transports (generic driver over sim.CLI,
// NETCONF driver over sim.NCServer; blocked read returns EOF / an error / stays blocked on close;
// data / EOF / error arrivals; Close once or twice; an operation or RPC in flight). The observed
// event sequence is validated against the Lean transition system (`c07 validate`: is this a run
// of the model, from a start state that satisfies the proved invariant?), the observed end state
// is compared with the model's, and the property oracle is evaluated on the observation.
// Natural-timing scenarios (no control) and a `-race` stress binary complete the picture.

import (
	"bytes"
	"encoding/json"
	"fmt"
	"os"
	"os/exec"
	"path/filepath"
	"regexp"
	"sort"
	"strings"
	"sync"
	"time"

	"verifgo/vlib"
)

func init() { props["C07"] = runC07 }

type c07Obs struct {
	spec     c07Spec
	events   []string
	fin      *c07Final
	initR    string
	initN    string
	exit     int
	panicMsg string
	panicFn  string
	timedOut bool
	setupErr string
	vevents  []string
	raw      string
}

var c07PanicRe = regexp.MustCompile(`(?m)^(?:panic|fatal error): (.*)$`)
var c07GoroutineFnRe = regexp.MustCompile(`(?m)^goroutine \d+ \[running\]:\n(?:panic\(.*\n\t.*\n)?([^\n(]+(?:\([^)]*\))?[^\n(]*)\(`)

func c07RunChild(spec c07Spec) c07Obs {
	o := c07Obs{spec: spec}
	cmd := exec.Command(os.Args[0], "C07", "-replay", "child "+spec.String())
	var out, errb bytes.Buffer
	cmd.Stdout, cmd.Stderr = &out, &errb
	done := make(chan error, 1)
	if err := cmd.Start(); err != nil {
		o.exit = -1
		o.raw = err.Error()
		return o
	}
	go func() { done <- cmd.Wait() }()
	select {
	case <-done:
	case <-time.After(12 * time.Second):
		_ = cmd.Process.Kill()
		<-done
		o.timedOut = true
	}
	o.exit = cmd.ProcessState.ExitCode()
	o.raw = out.String() + "\n--stderr--\n" + errb.String()
	started := false
	for _, l := range strings.Split(out.String(), "\n") {
		switch {
		case strings.HasPrefix(l, "INIT {"):
			m := map[string]string{}
			if json.Unmarshal([]byte(l[5:]), &m) == nil {
				o.initR, o.initN = m["R"], m["N"]
			}
		case strings.HasPrefix(l, "SETUP-ERROR"):
			o.setupErr = l
		case l == "INIT-DONE":
			started = true
			o.events = nil
		case strings.HasPrefix(l, "EV "):
			f := strings.Fields(l)
			if len(f) == 3 {
				o.events = append(o.events, f[1]+":"+f[2])
			}
		case strings.HasPrefix(l, "FINAL "):
			var f c07Final
			if json.Unmarshal([]byte(l[6:]), &f) == nil {
				o.fin = &f
			}
		case l == "WATCHDOG":
			o.timedOut = true
		}
	}
	if !started {
		o.events = nil
	}
	if m := c07PanicRe.FindStringSubmatch(errb.String()); m != nil {
		o.panicMsg = strings.TrimSpace(m[1])
		if i := strings.Index(o.panicMsg, " [recovered]"); i > 0 {
			o.panicMsg = o.panicMsg[:i]
		}
		if g := c07GoroutineFnRe.FindStringSubmatch(errb.String()); g != nil {
			o.panicFn = strings.TrimPrefix(g[1], "github.com/scrapli/scrapligo/")
		}
	}
	return o
}

func c07GenSched(r *vlib.Rng, nc, hasOp bool) []string {
	op := "O"
	if nc {
		op = "W"
	}
	pick := func(withK bool) string {
		x := r.Intn(100)
		switch {
		case withK && x < 30:
			return "K"
		case x < 55:
			return "R"
		case x < 70:
			if nc {
				return "N"
			}
			return "R"
		case x < 82:
			if hasOp {
				return op
			}
			return "R"
		default:
			return []string{"Ed", "Ee", "Ex", "Ex"}[r.Intn(4)]
		}
	}
	var s []string
	for i, n := 0, r.Intn(9); i < n; i++ {
		s = append(s, pick(false))
	}
	for i, n := 0, 8+r.Intn(18); i < n; i++ {
		s = append(s, pick(true))
	}
	return s
}

func c07b01(b bool) string {
	if b {
		return "1"
	}
	return "0"
}

func c07Contains(xs []string, sub string) bool {
	for _, x := range xs {
		if strings.Contains(x, sub) {
			return true
		}
	}
	return false
}

func runC07(c *ctx) {
	if strings.HasPrefix(c.replay, "child ") {
		runC07Child(strings.TrimPrefix(c.replay, "child "))
		return
	}
	res := c.res
	res.Rule = "a case is one schedule (or natural-timing scenario) of one driver/transport configuration run in a child process; non-trivial = its sequence of model states differs from every other case's"
	var specs []c07Spec
	if c.replay != "" {
		s, _ := parseC07Spec(c.replay)
		specs = append(specs, s)
	} else {
		// natural timing: every configuration × {idle, eof, err, data} × transport Close ok / errors
		k := 0
		for _, nc := range []bool{false, true} {
			for mode := 0; mode < 3; mode++ {
				for _, tw := range []bool{false, true} {
					for _, nat := range []string{"idle", "eof", "err", "data"} {
						// (generic and network driver alternate)
						k++
						specs = append(specs, c07Spec{NC: nc, Net: !nc && k%2 == 1, Mode: mode, Twice: tw, HasOp: c.rng.Chance(1, 3), Natural: nat})
						// erroring Close: with and without an operation / RPC in flight, alternating
						specs = append(specs, c07Spec{NC: nc, Net: !nc && k%4 >= 2, Mode: mode, Twice: tw, HasOp: k%2 == 0, CloseErr: true, Natural: nat})
					}
				}
			}
		}
		// transports whose IsAlive() follows the peer (false once a Read returned EOF / an error;
		// false as soon as the peer hung up): all three driver kinds × {idle, peer closed the
		// stream, read error} × Close once / twice
		for drv := 0; drv < 3; drv++ {
			for alive := 1; alive <= 2; alive++ {
				for _, nat := range []string{"idle", "eof", "err"} {
					for _, tw := range []bool{false, true} {
						for mode := 0; mode < 2; mode++ {
							k++
							specs = append(specs, c07Spec{NC: drv == 2, Net: drv == 1, Mode: mode, Twice: tw, HasOp: k%3 == 0,
								CloseErr: k%4 == 0, Alive: alive, Natural: nat})
						}
					}
				}
			}
		}
		// API scenarios (c07_api.go): Close during every kind of in-flight operation, during Open,
		// with on-close functions, on platform-built drivers, before / after a failed Open, from two
		// goroutines, while data streams in; each with varied transport close behaviour
		rounds := 3
		if c.thorough() {
			rounds = 24
		}
		for r := 0; r < rounds*c.scale; r++ {
			for _, sc := range c07ApiScenarios {
				kinds := sc.Kinds
				if sc.Name == "op-rpc-reply" {
					kinds = "cccc" // the window "reply stored while Close runs" is narrow: more tries
				}
				for _, kd := range kinds {
					k++
					specs = append(specs, c07Spec{Api: sc.Name, NC: kd == 'c', Net: kd == 'n', Plat: kd == 'p', Mode: c.rng.Intn(2),
						Twice: c.rng.Chance(1, 3), CloseErr: c.rng.Chance(1, 4), Slow: c.rng.Chance(1, 4),
						Alive: []int{0, 0, 1, 2}[c.rng.Intn(4)], Jit: 1 + c.rng.Intn(1<<20)})
				}
			}
		}
		n := c.n(480, 4000)
		if n > 4000 {
			n = 4000 // the failing-input search widens by -scale; keep a run within minutes
		}
		for i := 0; i < n; i++ {
			nc := c.rng.Bool()
			hasOp := c.rng.Chance(1, 2)
			alive := 0
			if c.rng.Chance(1, 2) {
				alive = 1 + c.rng.Intn(2)
			}
			pre := c.rng.Chance(1, 25) // Close before Open
			if pre {
				hasOp = false
			}
			specs = append(specs, c07Spec{NC: nc, Net: !nc && c.rng.Bool(), PreOpen: pre, Mode: c.rng.Intn(3), Twice: c.rng.Chance(1, 3), HasOp: hasOp,
				CloseErr: c.rng.Chance(1, 3), Alive: alive, Sched: c07GenSched(c.rng, nc, hasOp)})
		}
	}

	obs := make([]c07Obs, len(specs))
	var wg sync.WaitGroup
	sem := make(chan struct{}, vlib.Conc(8))
	for i := range specs {
		wg.Add(1)
		sem <- struct{}{}
		go func(i int) {
			defer wg.Done()
			obs[i] = c07RunChild(specs[i])
			<-sem
		}(i)
	}
	wg.Wait()

	// model side
	var lines []string
	var idx []int
	for i, o := range obs {
		if o.spec.Natural != "" || o.spec.Api != "" || o.fin == nil && len(o.events) == 0 {
			continue
		}
		initR, initN := "blocked", "absent"
		if o.initR != "" {
			initR = o.initR
		}
		if o.initN != "" {
			initN = o.initN
		}
		if o.setupErr != "" || (o.fin != nil && !o.fin.Controlled) {
			continue
		}
		opO, opW := "absent", "absent"
		if o.spec.HasOp {
			if o.spec.NC {
				opW = "start"
			} else {
				opO = "start"
			}
		}
		// (`blocked` = "did not reach a yield point within 40 ms" is advisory for the model)
		vev := o.events
		o.vevents = vev
		obs[i] = o
		unknown := ""
		for _, e := range vev {
			if !strings.Contains("RKONWE", e[:1]) || e[1] != ':' {
				unknown = e
				break
			}
		}
		if unknown != "" {
			res.TracesVsImpl++
			res.Fail("correspondence", o.spec.String(), fmt.Sprintf("a goroutine the model does not have reached a yield point: %s; events=%v", unknown, vev),
				"corr:event:"+unknown)
			continue
		}
		evs := strings.Join(vev, ",")
		if evs == "" {
			evs = "."
		}
		lines = append(lines, fmt.Sprintf("c07 validate %s %d %s %s %s %s %s %s %s", c07b01(o.spec.NC), o.spec.Mode, c07b01(o.spec.Twice),
			c07b01(o.spec.CloseErr), initR, opO, initN, opW, evs))
		idx = append(idx, i)
	}
	ans := c.ask(lines)
	model := map[int]map[string]string{}
	for j, a := range ans {
		m := map[string]string{}
		for _, f := range strings.Fields(a) {
			if kv := strings.SplitN(f, "=", 2); len(kv) == 2 {
				m[kv[0]] = kv[1]
			}
		}
		m["_raw"] = a
		model[idx[j]] = m
	}

	states := map[string]bool{}
	hooksMissing := false
	for i, o := range obs {
		cas := o.spec.String()
		kind := "forced"
		if o.spec.Natural != "" {
			kind = "natural:" + o.spec.Natural
		}
		if o.spec.Api != "" {
			kind = "api:" + o.spec.Api
		}
		res.Count("kind:" + kind)
		drv := "generic"
		if o.spec.NC {
			drv = "netconf"
		} else if o.spec.Net {
			drv = "network"
		} else if o.spec.Plat {
			drv = "platform"
		}
		if o.spec.Api != "" {
			res.Count("api:" + o.spec.Api + ":" + drv)
			res.Count(fmt.Sprintf("api-transport:cerr=%s,slow=%s,alive=%d", c07b01(o.spec.CloseErr), c07b01(o.spec.Slow), o.spec.Alive))
		}
		res.Count(fmt.Sprintf("cfg:drv=%s,mode=%d,twice=%s,cerr=%s,alive=%d", drv, o.spec.Mode, c07b01(o.spec.Twice), c07b01(o.spec.CloseErr), o.spec.Alive))
		res.InDomain++
		key := cas
		if m := model[i]; m != nil {
			key = m["path"]
			for _, s := range strings.Split(m["path"], ".") {
				states[s] = true
			}
		}
		res.Case(key, true)
		if o.fin != nil && o.spec.Natural == "" && o.spec.Api == "" && !o.fin.Controlled {
			hooksMissing = true
		}
		if o.setupErr != "" {
			res.Count("outcome:setup-error")
			res.Note("case skipped, the session could not be set up: %s (%s)", o.setupErr, cas)
			continue
		}
		// ---- oracle: the property's observable statement on the implementation
		switch {
		case o.panicMsg != "":
			res.Fail("oracle", cas, fmt.Sprintf("a goroutine panicked: %q in %s (%s)\n%s", o.panicMsg, o.panicFn, kind, c07Tail(o.raw, 900)),
				"panic:"+o.panicMsg+":"+o.panicFn)
			res.Count("outcome:panic")
			continue
		case o.fin == nil:
			res.Fail("oracle", cas, fmt.Sprintf("child ended without a verdict (exit %d, timed out %v)\n%s", o.exit, o.timedOut, c07Tail(o.raw, 900)),
				"hang:child-no-verdict")
			res.Count("outcome:no-verdict")
			continue
		}
		f := o.fin
		want := 1
		if o.spec.Twice || o.spec.Api == "concurrent" {
			want = 2
		}
		// which clauses apply: "the transport is closed" is demanded after a successful open (and
		// whenever Open got as far as opening the transport); for two concurrent Close calls it is
		// demanded once both have returned (the one that loses the race may return first)
		transportClause := o.spec.Api == "" || f.Opened || f.OpenCalls > 0
		perCall := o.spec.Api != "concurrent" && (o.spec.Api == "" || f.Opened)
		if o.spec.PreOpen {
			res.Count("kind:forced-pre-open")
		}
		hung := -1
		for k := 0; k < want; k++ {
			if k >= len(f.CloseRet) || !f.CloseRet[k] {
				hung = k
				break
			}
		}
		bad := false
		if hung >= 0 {
			res.Fail("oracle", cas, fmt.Sprintf("Close call #%d did not return (%s); goroutines left: %v; events: %v", hung+1, kind, f.Alive, o.events),
				fmt.Sprintf("hang:close#%d:nc=%s", hung+1, c07b01(o.spec.NC)))
			res.Count("outcome:hang")
			bad = true
		} else {
			// "the transport is closed": when a Close call returns, the transport implementation's
			// Close has been called (at least once; the model says exactly once, which the
			// end-state correspondence below compares)
			for k := 0; perCall && k < want && k < len(f.CallsAtRet); k++ {
				if f.CallsAtRet[k] < 1 {
					res.Fail("oracle", cas, fmt.Sprintf("Close call #%d returned (err=%q) but the transport implementation's Close had not been called (%s; IsAlive variant %d); events: %v",
						k+1, f.CloseErr[k], kind, o.spec.Alive, o.events), fmt.Sprintf("transport-not-closed:close#%d", k+1))
					res.Count("outcome:transport-not-closed")
					bad = true
					break
				}
			}
			if !bad && transportClause && f.CloseCalls < 1 {
				res.Fail("oracle", cas, fmt.Sprintf("Close returned but the transport was never closed (%s; notes %v)", kind, f.ApiNotes), "transport-not-closed")
				bad = true
			}
			var leaked []string
			for _, g := range f.Alive {
				if o.spec.Mode == 2 && (g == "channel.(*Channel).read" || strings.HasPrefix(g, "channel.(*Channel).Close.func")) {
					// the transport's read does not unblock on close: the read loop (and whoever
					// waits for it) is outside the property's quantifier
					continue
				}
				leaked = append(leaked, g)
			}
			if len(leaked) > 0 {
				res.Fail("oracle", cas, fmt.Sprintf("library goroutines outlive Close (%s): %v; events: %v; notes: %v", kind, leaked, o.events, f.ApiNotes),
					"leak:"+strings.Join(leaked, ","))
				res.Count("outcome:leak")
				bad = true
			}
			if f.OpStarted && !f.OpReturned {
				res.Fail("oracle", cas, fmt.Sprintf("the in-flight operation / Open never returned (%s); goroutines left: %v", kind, f.Alive), "hang:operation")
				bad = true
			}
		}
		if !bad {
			res.Count("outcome:ok")
		}
		// ---- correspondence: is the observed run a run of the model, and do the end states agree
		m := model[i]
		if m == nil {
			continue
		}
		res.TracesVsImpl++
		if m["dom"] != "1" {
			res.Fail("machinery", cas, "start state outside the model's invariant: "+m["_raw"], "bad-start-state")
			continue
		}
		if m["valid"] != "1" {
			at := 0
			fmt.Sscanf(m["at"], "%d", &at)
			ev := "?"
			if at >= 0 && at < len(o.vevents) {
				ev = o.vevents[at]
			}
			res.Fail("correspondence", cas, fmt.Sprintf("observed event #%d %s is not possible in the model; events=%v; model=%s", at, ev, o.events, m["_raw"]),
				"corr:event:"+ev)
			continue
		}
		ok := false
		for _, alt := range strings.Split(m["final"], "|") {
			fm := map[string]string{}
			for _, kv := range strings.Split(alt, ";") {
				if p := strings.SplitN(kv, ":", 2); len(p) == 2 {
					fm[p[0]] = p[1]
				}
			}
			kret := fm["k"] == "ret" && (!o.spec.Twice || fm["second"] == "1")
			rdead := fm["r"] == "dead" || fm["r"] == "never"
			ndead := fm["n"] == "dead" || fm["n"] == "absent"
			// what the last completed Close returned (the transport's error or nil)
			errOK := true
			if hung < 0 && kret {
				errOK = (fm["err"] == "1") == (f.CloseErr[want-1] != "")
			}
			if kret == (hung < 0) && errOK && fm["calls"] == fmt.Sprint(f.CloseCalls) &&
				rdead == !c07Contains(f.Alive, "channel.(*Channel).read") &&
				ndead == !c07Contains(f.Alive, "netconf.(*Driver).read") {
				ok = true
			}
		}
		if !ok {
			res.Fail("correspondence", cas, fmt.Sprintf("end state differs: observed close_returned=%v close_err=%q close_calls=%d alive=%v; model final=%s", f.CloseRet, f.CloseErr, f.CloseCalls, f.Alive, m["final"]),
				"corr:final-state")
		}
		if m["quiet"] == "1" && m["good"] != "1" {
			res.Fail("machinery", cas, "model end state is quiescent but not good: "+m["_raw"], "model-vs-spec")
		}
	}
	if hooksMissing {
		res.Fail("machinery", "", "the scrapligo tree has no `verif` yield hooks (util.VerifYield): forced schedules could not be run, only natural-timing scenarios", "verif-hooks-missing")
	}
	res.Note("distinct model states visited by validated traces: %d (of 332032 reachable)", len(states))
	if len(obs) > 0 {
		for _, o := range obs {
			if o.spec.Natural == "" && len(o.events) > 0 {
				res.Sample(map[string]any{"case": o.spec.String(), "events": o.events})
			}
		}
	}
	if c.replay == "" {
		c07Race(c)
	}
}

func c07Tail(s string, n int) string {
	if len(s) > n {
		return "…" + s[len(s)-n:]
	}
	return s
}

var c07HangRe = regexp.MustCompile(`(?m)^HANG (\S+)`)

// first frame below "Read at … by goroutine N:" / "Previous write at … by goroutine M:"
var c07RaceAccessRe = regexp.MustCompile(`(?m)^(?:Read|Write|Previous read|Previous write) at [^\n]*\n\s+([^\s(]+(?:\([^)]*\))?[^\s(]*)\(`)

// c07Race builds the stress program with the race detector and runs it under several GOMAXPROCS.
func c07Race(c *ctx) {
	build := filepath.Dir(c.driver)
	mod := filepath.Join(build, "go.mod")
	if _, err := os.Stat(mod); err != nil {
		build = filepath.Join("..", ".build")
		mod = filepath.Join(build, "go.mod")
	}
	bin := filepath.Join(build, "c07race")
	args := []string{"build", "-race", "-modfile", mod, "-tags", "verif,internaltie", "-o", bin, "./cmd/c07race"}
	out, err := exec.Command("go", args...).CombinedOutput()
	if err != nil {
		args[5] = "verif"
		out, err = exec.Command("go", args...).CombinedOutput()
	}
	if err != nil {
		c.res.Note("race stress not run: go build -race failed: %s", c07Tail(string(out), 300))
		return
	}
	procs := []string{"4"}
	iters := "120"
	if c.thorough() {
		procs = []string{"1", "2", "4", "16"}
		iters = "1500"
	}
	for _, p := range procs {
		cmd := exec.Command(bin, fmt.Sprint(c.seed), iters)
		cmd.Env = append(os.Environ(), "GOMAXPROCS="+p, "GORACE=halt_on_error=0 exitcode=66")
		var ob bytes.Buffer
		cmd.Stdout, cmd.Stderr = &ob, &ob
		done := make(chan error, 1)
		_ = cmd.Start()
		go func() { done <- cmd.Wait() }()
		select {
		case <-done:
		case <-time.After(4 * time.Minute):
			_ = cmd.Process.Kill()
			<-done
		}
		s := ob.String()
		cas := fmt.Sprintf("race-stress seed=%d iters=%s GOMAXPROCS=%s", c.seed, iters, p)
		c.res.Case(cas, true)
		c.res.InDomain++
		c.res.Count("kind:race-stress")
		if strings.Contains(s, "WARNING: DATA RACE") {
			blocks := strings.Split(s, "WARNING: DATA RACE")
			seen := map[string]bool{}
			for _, b := range blocks[1:] {
				var fs []string
				for _, m := range c07RaceAccessRe.FindAllStringSubmatch(b, -1) {
					if len(fs) < 2 {
						fs = append(fs, strings.TrimPrefix(m[1], "github.com/scrapli/scrapligo/"))
					}
				}
				sort.Strings(fs)
				sig := "race:" + strings.Join(fs, "|")
				if !seen[sig] {
					seen[sig] = true
					c.res.Fail("oracle", cas, "the race detector reports unsynchronised accesses:\n"+c07Tail("WARNING: DATA RACE"+b, 1100), sig)
				}
			}
		}
		if m := c07PanicRe.FindStringSubmatch(s); m != nil {
			c.res.Fail("oracle", cas, "panic during the race stress: "+c07Tail(s, 900), "panic:"+strings.TrimSpace(m[1])+":stress")
		} else if hm := c07HangRe.FindStringSubmatch(s); hm != nil {
			c.res.Fail("oracle", cas, "a Close (or operation) did not return during the race stress: "+c07Tail(s, 600), "hang:stress:"+hm[1])
		} else if !strings.Contains(s, "STRESS-DONE") {
			c.res.Fail("oracle", cas, "race stress did not finish: "+c07Tail(s, 900), "hang:stress")
		}
	}
}
