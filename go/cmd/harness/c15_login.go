package main

// C15, end to end through the DRIVER: generic.NewDriver(..., WithTransportType("telnet")) against a
// loopback telnet server that negotiates, prints a banner and then either
//   - asks for user name and password (the channel's in-channel telnet authentication answers; the
//     user-name prompt arrives inside the negotiation window — so it sits in the transport's
//     initialBuf and must come out of the first Read, in front of everything else — or after it), or
//   - is used with WithAuthBypass, and the channel's reads are compared byte for byte.
// Judged: Open succeeds; the server received exactly the demanded replies, then the login lines, then
// the command (nothing else, in that order); the bytes requeued after the login and the result of a
// first command are what the server sent; with bypass the channel delivers exactly the opening's
// data followed by the later text. This also executes Telnet.Write and GetInChannelAuthType.

import (
	"bytes"
	"fmt"
	"net"
	"strconv"
	"strings"
	"sync"
	"sync/atomic"
	"time"

	"github.com/scrapli/scrapligo/driver/generic"
	"github.com/scrapli/scrapligo/driver/options"
	"github.com/scrapli/scrapligo/util"

	"verifgo/vlib"
)

type c15login struct {
	class      string
	opening    []byte
	cuts       []int
	tms        int
	rs         int
	bypass     bool
	promptLate bool // login mode: the user-name prompt is sent only after the negotiation window has passed
}

const (
	c15User    = "admin"
	c15Pass    = "s3cret-pw"
	c15Cmd     = "show version"
	c15Output  = "Software, Version 15.2\nuptime is 4 weeks"
	c15PostLog = "\nLast access today from 10.0.0.1\nrouter>"
)

func (g *c15login) line() string {
	mode := "login"
	if g.bypass {
		mode = "bypass"
	}
	late := 0
	if g.promptLate {
		late = 1
	}
	return fmt.Sprintf("c15 login %s T=%d R=%d late=%d cuts=%s mode=%s", vlib.Hex(g.opening), g.tms, g.rs, late, intsStr(g.cuts), mode)
}

func c15parseLogin(line string) (*c15login, error) {
	f := strings.Fields(line)
	if len(f) < 3 || f[0] != "c15" || f[1] != "login" {
		return nil, fmt.Errorf("not a c15 login case: %q", line)
	}
	op, err := vlib.UnHex(f[2])
	if err != nil {
		return nil, err
	}
	g := &c15login{class: "replay", opening: op, tms: 320}
	for _, kv := range f[3:] {
		switch {
		case strings.HasPrefix(kv, "T="):
			g.tms, _ = strconv.Atoi(kv[2:])
		case strings.HasPrefix(kv, "R="):
			g.rs, _ = strconv.Atoi(kv[2:])
		case kv == "late=1":
			g.promptLate = true
		case strings.HasPrefix(kv, "cuts="):
			g.cuts = strInts(kv[5:])
		case kv == "mode=bypass":
			g.bypass = true
		}
	}
	sum := 0
	for _, c := range g.cuts {
		sum += c
	}
	if sum != len(op) {
		g.cuts = nil
		if len(op) > 0 {
			g.cuts = []int{len(op)}
		}
	}
	return g, nil
}

var c15Banner = []byte("abcdefghijklmnopqrstuvwxyzABCDEFGHIJKLMNOPQRSTUVWXYZ0123456789  \n\n")

// an in-domain opening whose data neither looks like a prompt nor contains CR / ESC (the channel
// strips those; that is C01's business)
func c15genLoginOpening(r *vlib.Rng) []byte {
	var b []byte
	n := r.Range(1, 14)
	for i := 0; i < n; i++ {
		switch k := r.Intn(100); {
		case k < 45:
			opt := c15Options[r.Intn(len(c15Options))]
			if r.Chance(1, 4) {
				opt = byte(r.Intn(256))
			}
			b = append(b, c15IAC, byte(251+r.Intn(4)), opt)
		case k < 55:
			b = append(b, c15IAC, byte(241+r.Intn(9)))
		case k < 60:
			b = append(b, c15IAC, c15IAC)
		default:
			b = append(b, r.Bytes(r.Range(1, 20), c15Banner)...)
		}
	}
	return b
}

type c15loginObs struct {
	setupErr  string
	openErr   error
	requeued  []byte // login: what the channel holds right after Open; bypass: the channel's reads up to the terminator
	cmdErr    error
	cmdResult string
	recv      []byte
	timingBad bool
}

const c15BypassTail = "later text\nrouter>\x04"

func c15runLogin(g *c15login, tms int) (o c15loginObs) {
	T := time.Duration(tms) * time.Millisecond
	ln, err := net.Listen("tcp", "127.0.0.1:0")
	if err != nil {
		o.setupErr = err.Error()
		return o
	}
	defer ln.Close()
	port := ln.Addr().(*net.TCPAddr).Port
	openDone := make(chan struct{})
	srvDone := make(chan struct{})
	var mu sync.Mutex
	var recv []byte
	var stamps []time.Time
	go func() {
		defer close(srvDone)
		ln.(*net.TCPListener).SetDeadline(time.Now().Add(10 * time.Second))
		conn, err := ln.Accept()
		if err != nil {
			return
		}
		defer conn.Close()
		if tc, ok := conn.(*net.TCPConn); ok {
			tc.SetNoDelay(true)
		}
		conn.SetDeadline(time.Now().Add(30 * time.Second))
		lines := make(chan string, 16)
		var echo atomic.Bool
		rdone := make(chan struct{})
		go func() {
			defer close(rdone)
			defer close(lines)
			buf := make([]byte, 4096)
			var cur []byte
			skip := 0
			for {
				n, err := conn.Read(buf)
				mu.Lock()
				recv = append(recv, buf[:n]...)
				mu.Unlock()
				for _, c := range buf[:n] {
					// the client's negotiation replies (IAC verb option) are not part of a line
					if skip > 0 {
						skip--
						continue
					}
					if c == c15IAC {
						skip = 2
						continue
					}
					if echo.Load() {
						conn.Write([]byte{c}) // the device echoes what is typed at its prompt
					}
					cur = append(cur, c)
					if c == '\n' {
						lines <- string(cur)
						cur = nil
					}
				}
				if err != nil {
					return
				}
			}
		}()
		rest := g.opening
		for _, c := range g.cuts {
			conn.Write(rest[:c])
			rest = rest[c:]
			stamps = append(stamps, time.Now())
		}
		if g.bypass {
			select {
			case <-openDone:
			case <-time.After(20 * time.Second):
			}
			conn.Write([]byte(c15BypassTail))
			<-rdone
			return
		}
		if g.promptLate {
			time.Sleep(T + 20*time.Millisecond) // well past the negotiation window (TimeoutSocket/2 of silence)
		}
		conn.Write([]byte("Username:"))
		stamps = append(stamps, time.Now())
		next := func() bool {
			select {
			case _, ok := <-lines:
				return ok
			case <-time.After(10 * time.Second):
				return false
			}
		}
		if !next() {
			<-rdone
			return
		}
		conn.Write([]byte("Password:"))
		if !next() {
			<-rdone
			return
		}
		echo.Store(true)
		conn.Write([]byte(c15PostLog))
		if !next() {
			<-rdone
			return
		}
		conn.Write([]byte(c15Output + "\nrouter>"))
		<-rdone
	}()
	opts := []util.Option{options.WithTransportType("telnet"), options.WithPort(port), options.WithTimeoutSocket(T),
		options.WithTimeoutOps(4 * time.Second), options.WithAuthUsername(c15User), options.WithAuthPassword(c15Pass)}
	if g.rs > 0 {
		opts = append(opts, options.WithTransportReadSize(g.rs))
	}
	if g.bypass {
		opts = append(opts, options.WithAuthBypass())
	}
	d, err := generic.NewDriver("127.0.0.1", opts...)
	if err != nil {
		o.setupErr = err.Error()
		ln.Close()
		return o
	}
	t0 := time.Now()
	func() {
		defer func() {
			if p := recover(); p != nil {
				o.openErr = fmt.Errorf("panic in driver Open: %v", p)
			}
		}()
		o.openErr = d.Open()
	}()
	close(openDone)
	if o.openErr == nil {
		if g.bypass {
			deadline := time.Now().Add(4 * time.Second)
			for time.Now().Before(deadline) && bytes.IndexByte(o.requeued, 4) < 0 && len(o.requeued) < len(g.opening)+256 {
				b, err := d.Channel.Read()
				if err != nil {
					break
				}
				if b == nil {
					time.Sleep(200 * time.Microsecond)
					continue
				}
				o.requeued = append(o.requeued, b...)
			}
		} else {
			o.requeued, _ = d.Channel.ReadAll()
			r, err := d.SendCommand(c15Cmd)
			o.cmdErr = err
			if r != nil {
				o.cmdResult = r.Result
			}
		}
		func() { defer func() { recover() }(); d.Close() }()
	} else {
		func() { defer func() { recover() }(); d.Transport.Close(true) }()
	}
	select {
	case <-srvDone:
	case <-time.After(35 * time.Second):
		o.setupErr = "loopback server did not finish"
		return o
	}
	mu.Lock()
	o.recv = append([]byte{}, recv...)
	mu.Unlock()
	prev := t0
	lim := len(stamps)
	if g.promptLate && lim > 0 {
		lim-- // the late prompt is late on purpose
	}
	for _, s := range stamps[:lim] {
		if s.Sub(prev) > T/8+2*time.Millisecond {
			o.timingBad = true
		}
		prev = s
	}
	return o
}

func runC15Login(c *ctx, cases []*c15login) {
	res := c.res
	if len(cases) == 0 {
		return
	}
	lines := make([]string, len(cases))
	for i, g := range cases {
		lines[i] = "c15 open " + vlib.Hex(g.opening)
	}
	ans := c.ask(lines)
	leans := make([]c15lean, len(cases))
	for i := range cases {
		l, ok := c15parseLean(ans[i])
		if !ok {
			res.Fail("machinery", cases[i].line(), "driver answered "+ans[i], "driver")
			return
		}
		leans[i] = l
	}
	judge := func(i int, o c15loginObs) (kind, detail, sig string) {
		g, l := cases[i], leans[i]
		if o.setupErr != "" {
			return "setup", o.setupErr, "setup"
		}
		if !l.dom {
			return "", "", "" // generated in-domain by construction; a replayed case may not be
		}
		where := fmt.Sprintf("generic driver over telnet, server opening %s (segments %v, T=%dms, read size %s)", c15short(vlib.Hex(g.opening)), g.cuts, g.tms, c15rs(g.rs))
		if o.openErr != nil {
			return "oracle", fmt.Sprintf("%s: driver Open failed: %v (server received %s)", where, o.openErr, c15short(vlib.Hex(o.recv))), "login:open-error"
		}
		replies, _ := vlib.UnHex(hexListFlat(l.specRepl))
		data, _ := vlib.UnHex(l.specData)
		if g.bypass {
			want := append(append([]byte{}, data...), c15BypassTail...)
			if !bytes.Equal(o.requeued, want) {
				return "oracle", fmt.Sprintf("%s, auth bypass: the channel delivered %q, the server's data is %q", where, o.requeued, want), "login:channel-data-wrong"
			}
			if !bytes.Equal(o.recv, replies) {
				return "oracle", fmt.Sprintf("%s, auth bypass: server received %x, demanded replies %s", where, o.recv, l.specRepl), "login:server-received-wrong"
			}
			return "", "", ""
		}
		want := append(append([]byte{}, replies...), []byte(c15User+"\n"+c15Pass+"\n"+c15Cmd+"\n")...)
		if !bytes.Equal(o.recv, want) {
			return "oracle", fmt.Sprintf("%s: server received %q, expected the replies %s, then user name, password and the command, one line each", where, o.recv, l.specRepl), "login:server-received-wrong"
		}
		if string(o.requeued) != c15PostLog {
			return "oracle", fmt.Sprintf("%s: after the login the channel holds %q, the server sent %q after the password", where, o.requeued, c15PostLog), "login:requeued-wrong"
		}
		if o.cmdErr != nil || o.cmdResult != c15Output {
			return "oracle", fmt.Sprintf("%s: first command: error %v result %q, expected %q", where, o.cmdErr, o.cmdResult, c15Output), "login:command-result-wrong"
		}
		return "", "", ""
	}
	obs := make([]c15loginObs, len(cases))
	run := func(idx []int, wide bool) {
		var wg sync.WaitGroup
		sem := make(chan struct{}, vlib.Conc(16))
		for _, i := range idx {
			wg.Add(1)
			sem <- struct{}{}
			go func(i int) {
				defer wg.Done()
				defer func() { <-sem }()
				t := cases[i].tms
				if wide {
					t = 640
				}
				obs[i] = c15runLogin(cases[i], t)
			}(i)
		}
		wg.Wait()
	}
	all := make([]int, len(cases))
	for i := range all {
		all[i] = i
	}
	run(all, false)
	var again []int
	for i := range cases {
		if k, _, _ := judge(i, obs[i]); k != "" || obs[i].timingBad {
			again = append(again, i)
		}
	}
	if len(again) > 16 {
		again = again[:16]
	}
	for range again {
		res.Count("login:repeat-with-wide-window")
	}
	run(again, true)
	for i, g := range cases {
		mode := "login-prompt-inside-window"
		if g.promptLate {
			mode = "login-prompt-after-window"
		}
		if g.bypass {
			mode = "auth-bypass"
		}
		res.Count("login:" + mode)
		res.Count("login:read-size-" + c15rs(g.rs))
		res.Case("l:"+g.line(), true)
		if leans[i].dom {
			res.InDomain++
		}
		res.TracesVsImpl++
		kind, detail, sig := judge(i, obs[i])
		switch kind {
		case "":
		case "setup":
			res.Note("loopback setup failed for one driver-level case: %s", detail)
		default:
			res.Fail(kind, g.line(), detail, sig)
		}
	}
}

func c15genLogins(c *ctx, r *vlib.Rng) []*c15login {
	var out []*c15login
	n := 36
	if c.thorough() {
		n = 300
	}
	n *= c.scale
	for i := 0; i < n; i++ {
		g := &c15login{class: "driver", opening: c15genLoginOpening(r)}
		if i == 0 {
			g.opening = []byte{c15IAC, c15DO, 24, c15IAC, c15WILL, 1, c15IAC, c15WILL, 3, 'h', 'i', '\n'}
		}
		g.cuts = r.Cuts(len(g.opening), r.Intn(4))
		g.tms = []int{160, 240, 320}[r.Intn(3)]
		switch i % 3 {
		case 1:
			g.promptLate = true
		case 2:
			g.bypass = true
		}
		if r.Chance(1, 3) {
			g.rs = []int{1, 2, 7, 64}[r.Intn(4)]
		}
		out = append(out, g)
	}
	return out
}
