//go:build verif

package main

import "github.com/scrapli/scrapligo/util"

// c07InstallHook plugs the schedule controller into scrapligo's `verif` yield points. It lives
// behind the `verif` tag, like the hooks themselves (they are part of the scrapligo baseline now).
func c07InstallHook(f func(string)) bool {
	util.VerifYield = f
	return true
}
