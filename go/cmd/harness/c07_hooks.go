//go:build internaltie

package main

import "github.com/scrapli/scrapligo/util"

// c07InstallHook plugs the schedule controller into scrapligo's `verif` yield points. It lives
// behind the `internaltie` tag so the harness still builds against a tree without the hooks.
func c07InstallHook(f func(string)) bool {
	util.VerifYield = f
	return true
}
