package main

// C19, "history" class: several platforms are constructed from the SAME definition named by a
// string (an embedded definition by name, or one YAML file by path), each with its own host and
// its own user options (optionally through NewPlatformVariant); only THEN are the drivers fetched
// (in construction order or in reverse) and inspected. Demanded (`construct_pure`): every driver
// carries the options and the host of its own construction, whatever was constructed from the same
// name before or after it.

import (
	"fmt"
	"os"
	"path/filepath"
	"reflect"
	"strings"

	"github.com/scrapli/scrapligo/driver/generic"
	"github.com/scrapli/scrapligo/driver/network"
	"github.com/scrapli/scrapligo/platform"

	"verifgo/vlib"
)

type c19HStep struct {
	host    string
	variant bool
	user    []c19Opt
}

type c19History struct {
	rev   bool
	asset string   // embedded definition name ("" = file)
	plat  *c19Plat // file source (with a variant block when some step uses it)
	steps []c19HStep
}

func (h *c19History) line() string {
	var st []string
	for _, s := range h.steps {
		v := "n"
		if s.variant {
			v = "v"
		}
		st = append(st, vlib.Hex([]byte(s.host))+"@"+v+"@"+encodeOpts(s.user))
	}
	order, src := "fwd", "asset:"+h.asset
	if h.rev {
		order = "rev"
	}
	if h.asset == "" {
		src = "file:" + h.plat.encode()
	}
	return fmt.Sprintf("c19 history %s %s %s", order, src, strings.Join(st, "+"))
}

func decodeHistory(line string) (c19History, bool) {
	f := strings.Fields(line)
	h := c19History{}
	if len(f) != 5 || f[1] != "history" {
		return h, false
	}
	h.rev = f[2] == "rev"
	switch {
	case strings.HasPrefix(f[3], "asset:"):
		h.asset = f[3][6:]
	case strings.HasPrefix(f[3], "file:"):
		p, err := decodePlat(f[3][5:])
		if err != nil {
			return h, false
		}
		h.plat = p
	default:
		return h, false
	}
	for _, s := range strings.Split(f[4], "+") {
		parts := strings.SplitN(s, "@", 3)
		if len(parts) != 3 {
			return h, false
		}
		hb, err := vlib.UnHex(parts[0])
		if err != nil {
			return h, false
		}
		u, err := decodeOpts(parts[2])
		if err != nil {
			return h, false
		}
		h.steps = append(h.steps, c19HStep{host: string(hb), variant: parts[1] == "v", user: u})
	}
	return h, len(h.steps) > 0
}

// stepPlat: the definition as step s sees it (with or without the variant block applied).
func (h *c19History) stepPlat(s *c19HStep) *c19Plat {
	p := *h.plat
	if !s.variant {
		p.variant = nil
	}
	return &p
}

func (h *c19History) leanLines() []string {
	var ls []string
	if h.asset != "" {
		return nil
	}
	for i := range h.steps {
		p := h.stepPlat(&h.steps[i])
		cs := c19Case{ctor: p.merged().driverType, plat: p, user: h.steps[i].user}
		ls = append(ls, cs.leanLine())
	}
	return ls
}

func genHistory(r *vlib.Rng, platNames []string, platDoc map[string]string) c19History {
	h := c19History{rev: r.Bool()}
	if r.Chance(1, 3) {
		h.asset = r.Pick([]string{"cisco_iosxe", "arista_eos", "juniper_junos", "nokia_srl"})
	} else {
		p := &c19Plat{driverType: r.Pick([]string{"network", "generic"}), ddp: "exec"}
		p.privs = genOpt(r, "WithPrivilegeLevels", false).args[0]
		if r.Bool() {
			p.fwc = []string{r.Pick(c19Words[:5])}
		}
		for j := r.Intn(3); j > 0; j-- {
			n := platNames[r.Intn(len(platNames))]
			p.opts = append(p.opts, genPlatOpt(r, n, platDoc[n], false))
		}
		if r.Chance(1, 3) {
			p.variant = &c19Plat{fwc: []string{"% variant"}, ddp: r.Pick([]string{"", "cfg"}), oo: r.Bool()}
		}
		h.plat = p
	}
	for k := r.Range(2, 3); k > 0; k-- {
		s := c19HStep{host: "host-" + string(rune('a'+len(h.steps))), variant: h.plat != nil && h.plat.variant != nil && r.Chance(1, 2)}
		for j := r.Range(1, 4); j > 0; j-- {
			s.user = append(s.user, genOpt(r, r.Pick([]string{"WithPort", "WithTimeoutOps", "WithAuthUsername", "WithAuthPassword", "WithFailedWhenContains",
				"WithOnOpen", "WithTransportType", "WithPromptSearchDepth", "WithLogger", "WithSystemTransportOpenArgs", "WithTermWidth", "WithReturnChar"}), false))
		}
		h.steps = append(h.steps, s)
	}
	return h
}

func evalHistory(h *c19History, answers []string, baseline map[string]c19Fields, res *vlib.Result) {
	line := h.line()
	type built struct {
		p   *platform.Platform
		err error
	}
	src := h.asset
	if h.asset == "" {
		// one path for the whole history: that is the point
		src = filepath.Join(c19Dir, fmt.Sprintf("hist-%d-%d.yaml", os.Getpid(), c19FileSeq.Add(1)))
		if err := os.WriteFile(src, h.plat.yaml(), 0o644); err != nil {
			res.Fail("machinery", line, err.Error(), "harness")
			return
		}
		defer os.Remove(src)
	}
	bs := make([]built, len(h.steps))
	panicked := func() (msg string) {
		defer func() {
			if rr := recover(); rr != nil {
				msg = fmt.Sprint(rr)
			}
		}()
		for i, s := range h.steps {
			opts := c19BuildOpts(s.user, 0)
			if s.variant {
				bs[i].p, bs[i].err = platform.NewPlatformVariant(src, "v1", s.host, opts...)
			} else {
				bs[i].p, bs[i].err = platform.NewPlatform(src, s.host, opts...)
			}
		}
		return ""
	}()
	if panicked != "" {
		res.Fail("oracle", line, "panic while constructing several platforms from the same definition: "+panicked, "history:panic")
		return
	}
	order := make([]int, len(h.steps))
	for i := range order {
		order[i] = i
		if h.rev {
			order[i] = len(h.steps) - 1 - i
		}
	}
	for _, i := range order {
		s := &h.steps[i]
		where := fmt.Sprintf("construction %d of %d from %s (host %s, options %v; drivers fetched %s after all constructions)", i+1, len(h.steps),
			map[bool]string{true: "embedded definition " + h.asset, false: "one definition file"}[h.asset != ""], s.host, optNames(s.user),
			map[bool]string{true: "in reverse order", false: "in construction order"}[h.rev])
		var mF c19Fields
		mErr := ""
		ctor := "network"
		if h.asset == "" {
			ctor = h.stepPlat(s).merged().driverType
			f := strings.Fields(answers[i])
			if len(f) != 3 {
				res.Fail("machinery", line, "driver answered "+answers[i], "driver")
				return
			}
			var ok bool
			mF, mErr, _, ok = parseModelRes(f[1][6:])
			if !ok {
				res.Fail("machinery", line, "driver answered "+answers[i][:min(200, len(answers[i]))], "driver")
				return
			}
		}
		if bs[i].err != nil {
			if got := c19errClass(bs[i].err); h.asset != "" || got != mErr {
				res.Fail("oracle", line, fmt.Sprintf("%s: construction fails (%v), model %q", where, bs[i].err, mErr), "history:wrong-error")
			}
			continue
		}
		if mErr != "" {
			res.Fail("oracle", line, fmt.Sprintf("%s: construction succeeds, model error %q", where, mErr), "history:wrong-error")
			continue
		}
		got := c19Fields{}
		var gd *generic.Driver
		if ctor == "network" {
			var nd *network.Driver
			nd, err := bs[i].p.GetNetworkDriver()
			if err != nil || nd == nil {
				res.Fail("oracle", line, fmt.Sprintf("%s: GetNetworkDriver: %v", where, err), "history:getter")
				continue
			}
			renderStruct("network.Driver", reflect.ValueOf(nd).Elem(), got)
			gd = nd.Driver
		} else {
			var err error
			gd, err = bs[i].p.GetGenericDriver()
			if err != nil || gd == nil {
				res.Fail("oracle", line, fmt.Sprintf("%s: GetGenericDriver: %v", where, err), "history:getter")
				continue
			}
		}
		renderGeneric(gd, got)
		if ctor == "network" {
			canonPrompt(got)
		}
		res.InDomain++
		if h := specS(got, "transport.Args.Host"); h != s.host {
			res.Fail("oracle", line, fmt.Sprintf("%s: the driver's host is %q", where, h), "history:host")
		}
		// the Go-side table: every field this construction's user options name
		if exp, ok := goSpec(nil, s.user); ok {
			bad := false
			for fk, want := range exp {
				g, have := got[fk]
				if !have || fk == "channel.Channel.PromptPattern" {
					continue
				}
				if c19Additive["WithSystemTransportOpenArgs"] && fk == "transport.System.ExtraArgs" && h.asset == "" {
					continue // platform options may add their own: judged against the model below
				}
				if !valEq(g, want) {
					res.Fail("oracle", line, fmt.Sprintf("%s: %s is %s, this construction's options say %s", where, fk, showVal(g), showVal(want)), "history:own-option-lost:"+fk)
					bad = true
					break
				}
			}
			if bad {
				continue
			}
		}
		// file source: the whole configuration against the model of this construction alone
		if mF != nil {
			b := c19Fields{}
			for k, v := range baseline[ctor] {
				b[k] = v
			}
			b["transport.Args.Host"] = sv(s.host)
			if fk, d := diffFields(ctor, got, mF, b); fk != "" {
				res.Fail("oracle", line, where+": "+d, "history:wrong-field:"+fk)
			}
		}
	}
}

func runC19Histories(c *ctx, baseline map[string]c19Fields, platNames []string, platDoc map[string]string) int {
	res := c.res
	var hs []c19History
	if c.replay != "" {
		if h, ok := decodeHistory(c.replay); ok {
			hs = append(hs, h)
		}
	} else {
		for i := 0; i < c.n(500, 20000); i++ {
			hs = append(hs, genHistory(c.rng, platNames, platDoc))
		}
	}
	if len(hs) == 0 {
		return 0
	}
	var lines []string
	idx := make([]int, len(hs))
	for i := range hs {
		idx[i] = len(lines)
		lines = append(lines, hs[i].leanLines()...)
	}
	ans := c.ask(lines)
	shrunk := map[string]bool{}
	for i := range hs {
		h := &hs[i]
		res.Count("class:history")
		res.Case(h.line(), true)
		before := len(res.Findings)
		evalHistory(h, ans[idx[i]:idx[i]+len(h.leanLines())], baseline, res)
		for fi := before; fi < len(res.Findings) && c.replay == ""; fi++ {
			fd := &res.Findings[fi]
			if fd.Kind != "oracle" || shrunk[fd.Signature] {
				continue
			}
			shrunk[fd.Signature] = true
			cur := *h
			same := func(cand *c19History) (string, bool) {
				scratch := vlib.NewResult("C19")
				evalHistory(cand, c.ask(cand.leanLines()), baseline, scratch)
				for _, g := range scratch.Findings {
					if g.Signature == fd.Signature {
						return g.Detail, true
					}
				}
				return "", false
			}
			detail, budget := fd.Detail, 40
			for changed := true; changed && budget > 0; {
				changed = false
				for j := 0; j < len(cur.steps) && len(cur.steps) > 2 && budget > 0; j++ {
					cand := cur
					cand.steps = append(append([]c19HStep{}, cur.steps[:j]...), cur.steps[j+1:]...)
					budget--
					if d, ok := same(&cand); ok {
						cur, detail, changed = cand, d, true
						j--
					}
				}
				for si := range cur.steps {
					for j := 0; j < len(cur.steps[si].user) && budget > 0; j++ {
						cand := cur
						cand.steps = append([]c19HStep{}, cur.steps...)
						st := cand.steps[si]
						st.user = append(append([]c19Opt{}, st.user[:j]...), st.user[j+1:]...)
						cand.steps[si] = st
						budget--
						if d, ok := same(&cand); ok {
							cur, detail, changed = cand, d, true
							j--
						}
					}
				}
			}
			fd.Case, fd.Detail = cur.line(), detail
		}
	}
	return len(hs)
}
