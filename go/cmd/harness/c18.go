package main

import (
	"bytes"
	"go/ast"
	"go/parser"
	"go/token"
	"path/filepath"
	"errors"
	"fmt"
	"io"
	"regexp"
	"sort"
	"strconv"
	"strings"
	"sync"
	"sync/atomic"
	"time"

	"github.com/scrapli/scrapligo/driver/generic"
	"github.com/scrapli/scrapligo/driver/network"
	"github.com/scrapli/scrapligo/driver/opoptions"
	"github.com/scrapli/scrapligo/driver/options"
	"github.com/scrapli/scrapligo/response"
	"github.com/scrapli/scrapligo/util"

	"verifgo/facts"
	"verifgo/sim"
	"verifgo/vlib"
)

func init() { props["C18"] = runC18 }

// timing constants (ms): a short and a long stage timeout and the delay of a "slow" emission;
// the margins between them (600 ms / 1100 ms) are the declared slack of the timing cases.
const (
	c18Short = 300
	c18Long  = 2000
	c18Delay = 900
)

var (
	errC18User   = errors.New("c18: user callback failed")
	errC18Budget = errors.New("c18: callback invoked too often")
	errC18Ctor   = errors.New("c18: NewCallback did not store what its options were given")
	errC18Panic  = errors.New("c18: panic in SendWithCallbacks")
)

// c18cb is one generated callback.
type c18cb struct {
	contains    string
	notContains string
	reSrc       string // "" = no regex
	re          *regexp.Regexp
	insensitive bool
	reset       bool
	once        bool
	complete    bool
	nextTimeout int // ms, 0 = unset
	fnErr       bool
	nilFn       bool
	reply       string // line the function writes to the device ("" = nothing)
	delayed     bool   // the function makes the device emit its next emission after c18Delay
	viaOptions  bool   // built with NewCallback + opoptions (else struct literal)
	name        string
	optSeed     uint64 // order of the constructor options, explicit defaults
	inner       string // the function runs Channel.SendInput(inner) itself (when the queue is empty), before any reply
}

type c18op struct {
	input      string
	timeout    int      // ms
	opFW       []string // opoptions.WithFailedWhenContains for this operation
	ignoredOpt bool     // an option meant for another object is passed too (must be ignored silently)
	optErr     bool     // an option that returns an error: the operation must fail before writing anything
	writeErr   int      // 0 none; 1 the transport refuses the input; 2 it refuses the return after the input
}

type c18case struct {
	seed      uint64
	cbs       []c18cb
	emissions [][][]byte
	banner    bool // emission 0 is spontaneous (sent before the first operation)
	ops       []c18op
	kind      string
	echo      bool                // the device echoes what is typed (input, replies)
	network   bool                // run through network.Driver (SendWithCallbacks is promoted from the embedded generic.Driver)
	drvFW     []string            // options.WithFailedWhenContains on the driver
	special   map[string][][]byte // answers to the commands callback functions run themselves
	innerBody map[string]string
	readFault string // "", "eio", "eof": the transport fails after faultAt chunks have been delivered
	faultAt   int
	tscale    int // wall-clock scale of every timeout / delay (1; 4 when a case is re-run after a suspected load-induced timeout)
}

var c18words = []string{"login:", "Password:", "hello", "bad", "Continue? [y/n]", "ERROR", "done", "router#",
	"--More--", "yes", "no", "ok", "warning", "passphrase", "42 packets", "Abort",
	"café", "über", "señal", "日本", "Zugriff verweigert: Ü", "é", "code: 7", "code: x", "login:admin", "Password: s3cret"}
var c18filler = []string{"the", "quick", "interface", "is", "up", "10.0.0.1", "...", "%", "line protocol", "x"}

// regexes a user might pass: lower case, or with their own case flag, plus (for the sensitivity
// dimension) one written in upper case without a flag. None matches the empty string.
var c18res = []string{`[a-z]+#`, `pass(word|phrase):?`, `(?i)ERROR`, `more`, `\d+ packets`, `(?m)^ok$`, `y/n`,
	`ERROR`, `(?i)continue\?`, `log[a-z]n`, `(?i:Abort)|warning`, `\[y/n\]$`,
	`caf[eé]`, `(?i)ÜBER`, `日本語?`, `se[nñ]al:?`, `é+`,
	// upper-case escapes and classes, case groups, mixed-case literals: a pattern must reach the
	// matcher exactly as the user wrote it (lower-casing its text would flip \S \D \W \B \A, [A-Z] …)
	`(?i)password: ?\S+`, `code: \D`, `login:\S`, `\W\d+ packets`, `\Bore--`, `\A(x|%|up|the)\b`, `ok ?\z`,
	`[A-Z]{3,}`, `\pL+#`, `\x41bort|\x61bort:`, `(?i)Warn(?-i:ing)`, `(?-i:ERROR)|yes\b`, `Abort`, `(?i)Login:\S*\s`, `\D\S\W\z`}

func c18caseVar(r *vlib.Rng, w string) string {
	switch r.Intn(5) {
	case 0:
		return strings.ToUpper(w)
	case 1:
		return strings.ToLower(w)
	case 2:
		if rs := []rune(w); len(rs) > 0 {
			return strings.ToUpper(string(rs[:1])) + strings.ToLower(string(rs[1:]))
		}
	}
	return w
}

func c18cut(r *vlib.Rng, text string) [][]byte {
	b := []byte(text)
	var out [][]byte
	// a cut INSIDE a multi-byte character (between its lead byte and a continuation byte)
	var inside []int
	for i := 1; i < len(b); i++ {
		if b[i]&0xC0 == 0x80 {
			inside = append(inside, i)
		}
	}
	if len(inside) > 0 && r.Chance(1, 3) {
		k := inside[r.Intn(len(inside))]
		return [][]byte{b[:k], b[k:]}
	}
	for _, n := range r.Cuts(len(b), []int{0, 0, 1, 2, 2, 2, 3}[r.Intn(7)]) {
		out = append(out, b[:n])
		b = b[n:]
	}
	return out
}

func genC18(seed uint64, thorough bool) c18case {
	r := vlib.NewRng(seed)
	cs := c18case{seed: seed}
	if seed == 1 || seed == 2 {
		// the F10 witness (DESIGN §6): contains=hello, not-contains=bad must fire on `hello world`
		// (seed 1) and must not fire on `hello bad world` (seed 2)
		cs.kind = "witness"
		cs.cbs = []c18cb{{contains: "hello", notContains: "bad", insensitive: true, reset: true, complete: true, viaOptions: true, name: "hello-not-bad"}}
		cs.emissions = [][][]byte{{[]byte([]string{"", "hello world", "hello bad world"}[seed])}}
		cs.ops = []c18op{{input: "go", timeout: c18Short}}
		return cs
	}
	if r.Chance(1, 22) {
		return genC18Delayed(r, cs)
	}
	if r.Chance(1, 12) {
		return genC18Utf8(r, cs)
	}
	if r.Chance(1, 40) {
		return genC18Odd(r, cs)
	}
	// most dialogues should get somewhere: a case predicted to end in a plain timeout is kept with
	// probability 1/4 only (timeouts cost wall-clock time), otherwise drawn again
	for try := 0; ; try++ {
		d := genC18Dialogue(r, c18case{seed: seed}, thorough)
		if try >= 5 || c18predict(&d) != "timeout" || r.Chance(1, 4) {
			return d
		}
	}
}

// c18predict plays operation 0 against the script under the harness's schedule (every function
// returns only when all emitted chunks are queued) and returns the expected kind of ending.
func c18predict(cs *c18case) string {
	var queue [][]byte
	next := 0
	emit := func() {
		if next < len(cs.emissions) {
			queue = append(queue, cs.emissions[next]...)
			next++
		}
	}
	if cs.banner || cs.ops[0].input != "" {
		emit()
	}
	var acc []byte
	fired := map[int]bool{}
	pendingEmpty := false
	for step := 0; step < 400; step++ {
		switch {
		case len(queue) > 0:
			acc = append(acc, queue[0]...)
			queue = queue[1:]
		case pendingEmpty:
			pendingEmpty = false
		default:
			return "timeout"
		}
		hit := -1
		for i := range cs.cbs {
			if c18trigger(&cs.cbs[i], acc) {
				hit = i
				break
			}
		}
		if hit < 0 {
			continue
		}
		cb := &cs.cbs[hit]
		if cb.once && fired[hit] {
			return "once"
		}
		fired[hit] = true
		if cb.fnErr {
			return "fn"
		}
		if cb.complete {
			return "complete"
		}
		if cb.reply != "" {
			emit()
		}
		if cb.reset {
			acc = nil
		}
		pendingEmpty = len(queue) == 0
	}
	return "runaway"
}

func genC18Dialogue(r *vlib.Rng, cs c18case, thorough bool) c18case {
	cs.kind = "dialogue"
	n := r.Range(1, 5)
	if r.Chance(1, 40) {
		n = 0
	}
	var trigWords []string
	for i := 0; i < n; i++ {
		var cb c18cb
		k := r.Intn(20)
		if k < 12 || k >= 17 {
			cb.contains = c18caseVar(r, r.Pick(c18words))
			trigWords = append(trigWords, cb.contains)
		}
		if k >= 12 {
			cb.reSrc = r.Pick(c18res)
			cb.re = regexp.MustCompile(cb.reSrc)
		}
		if r.Chance(7, 20) {
			cb.notContains = c18caseVar(r, r.Pick(c18words))
			trigWords = append(trigWords, cb.notContains)
		}
		cb.insensitive = r.Chance(3, 4)
		cb.reset = r.Chance(3, 4)
		cb.once = r.Chance(1, 4)
		cb.complete = r.Chance(1, 4) || (i == n-1 && r.Chance(3, 4))
		cb.fnErr = r.Chance(1, 25)
		if !cb.reset && !cb.once && !cb.complete && !cb.fnErr {
			// a trigger that stays true on output that is never reset would fire for ever
			if r.Bool() {
				cb.once = true
			} else {
				cb.complete = true
			}
		}
		if r.Chance(3, 20) {
			cb.nextTimeout = []int{c18Short, c18Short + 50, c18Short + 120, c18Long}[r.Intn(4)]
		}
		if cb.complete && !cb.fnErr && r.Chance(1, 8) {
			cb.nilFn = true
		}
		if !cb.complete && !cb.fnErr && cb.reset && r.Chance(1, 14) {
			// no function on an intermediate entry: the stage just changes (output reset, maybe a new
			// timeout); with reset-output the following scan does not depend on timing
			cb.nilFn = true
		}
		if !cb.nilFn && r.Chance(3, 5) {
			cb.reply = r.Pick([]string{"y", "n", "secret", "show version", "", "q"})
		}
		cb.viaOptions = cb.reset && r.Chance(5, 6)
		cb.optSeed = r.U64()
		cb.name = "cb" + strconv.Itoa(i)
		cs.cbs = append(cs.cbs, cb)
	}
	// device script
	ne := r.Range(1, 5)
	maxTok := 5
	if thorough {
		maxTok = 9
	}
	for e := 0; e < ne; e++ {
		var sb strings.Builder
		for t := r.Range(1, maxTok); t > 0; t-- {
			switch {
			case len(trigWords) > 0 && r.Chance(1, 2):
				sb.WriteString(c18caseVar(r, r.Pick(trigWords)))
			case r.Chance(1, 3):
				sb.WriteString(c18caseVar(r, r.Pick(c18words)))
			default:
				sb.WriteString(r.Pick(c18filler))
			}
			sb.WriteString(r.Pick([]string{" ", " ", "\n", "", ": "}))
		}
		cs.emissions = append(cs.emissions, c18cut(r, sb.String()))
	}
	nops := 1
	if r.Chance(1, 8) {
		nops = 2
	}
	for o := 0; o < nops; o++ {
		op := c18op{input: r.Pick([]string{"start", "copy run start", "x", "reload"}), timeout: c18Short + 10*r.Intn(10)}
		if o == 0 && r.Chance(1, 6) {
			op.input = ""
			cs.banner = true
		}
		cs.ops = append(cs.ops, op)
	}
	c18decorate(r, &cs)
	return cs
}

var c18fw = [][]string{{"ERROR"}, {"bad", "% "}, {"Abort", "warning", "no"}, {"never-there"}, {"login:", "Password:"}}

// c18decorate adds the dimensions around the callback loop: echoing device, driver flavour, failure
// strings (driver / operation), foreign and failing operation options, a function that runs a
// channel operation of its own, transport faults.
func c18decorate(r *vlib.Rng, cs *c18case) {
	cs.echo = r.Chance(2, 5)
	cs.network = r.Chance(1, 4)
	pickFW := func() []string {
		if r.Bool() && len(cs.emissions) > 0 { // a piece of what the device will say
			var all []byte
			for _, ch := range cs.emissions[r.Intn(len(cs.emissions))] {
				all = append(all, ch...)
			}
			if t := strings.TrimSpace(string(all)); len(t) >= 3 {
				a := r.Intn(len(t) - 2)
				return []string{"never-there", t[a : a+3+r.Intn(len(t)-a-2)]}
			}
		}
		return c18fw[r.Intn(len(c18fw))]
	}
	if r.Chance(1, 5) {
		cs.drvFW = pickFW()
	}
	for k := range cs.ops {
		op := &cs.ops[k]
		if r.Chance(1, 5) {
			op.opFW = pickFW()
		}
		op.ignoredOpt = r.Chance(1, 6)
		op.optErr = r.Chance(1, 25)
	}
	if len(cs.ops) < 3 && r.Chance(1, 6) { // one more operation on the same objects (also after a timeout)
		cs.ops = append(cs.ops, c18op{input: r.Pick([]string{"again", "retry", ""}), timeout: c18Short + 10*r.Intn(10)})
	}
	switch {
	case r.Chance(1, 30):
		k := r.Intn(len(cs.ops))
		if cs.ops[k].input != "" && !cs.ops[k].optErr {
			cs.ops[k].writeErr = 1 + r.Intn(2)
		}
	case r.Chance(1, 14):
		cs.echo = false
		total := 0
		for _, e := range cs.emissions {
			total += len(e)
		}
		cs.readFault = r.Pick([]string{"eio", "eof"})
		cs.faultAt = r.Intn(total + 1)
		// once the transport has failed, the poll that follows a function's return yields the error
		// or (for a moment) nothing, depending on timing: keep only callbacks for which an empty
		// poll changes nothing (output reset, or the operation is over)
		for i := range cs.cbs {
			if !cs.cbs[i].complete && !cs.cbs[i].fnErr {
				cs.cbs[i].reset = true
			}
		}
	}
	if cs.echo && cs.readFault == "" && r.Chance(1, 2) {
		for i := range cs.cbs {
			cb := &cs.cbs[i]
			if !cb.nilFn && !cb.fnErr && !cb.delayed && r.Chance(1, 2) {
				cb.inner = "show inner " + strconv.Itoa(i)
				body := r.Pick([]string{"inner line one\ninner value 42", "ok", "a b c\n\nd", "Status: ERROR 7"})
				if cs.special == nil {
					cs.special = map[string][][]byte{}
					cs.innerBody = map[string]string{}
				}
				cs.special[cb.inner] = c18cut(r, "\n"+body+"\nrouter#")
				cs.innerBody[cb.inner] = body
				break
			}
		}
	}
}

// genC18Delayed: the NextTimeout / stage-deadline cases. cb0 fires on the first emission and makes
// the device speak again only after c18Delay; cb1 completes on that late emission. Whether the
// operation completes or times out is decided by the timeout that governs the second stage.
func genC18Delayed(r *vlib.Rng, cs c18case) c18case {
	cs.kind = "delayed"
	base := []int{c18Short, c18Long}[r.Intn(2)]
	nt := []int{0, c18Short, c18Long}[r.Intn(3)]
	cs.cbs = []c18cb{
		{contains: "proceed?", insensitive: true, reset: true, nextTimeout: nt, delayed: true, name: "ask", viaOptions: r.Bool()},
		{contains: "finished", insensitive: true, reset: true, complete: true, name: "fin", viaOptions: true},
	}
	if r.Bool() { // a prelude callback that changes the timeout first: the later setting must win / stick
		pre := c18cb{contains: "banner", insensitive: true, reset: true, nextTimeout: []int{0, c18Short, c18Long}[r.Intn(3)], name: "pre", viaOptions: true, reply: "go"}
		cs.cbs = append([]c18cb{pre}, cs.cbs...)
		cs.emissions = append(cs.emissions, c18cut(r, "welcome banner\n"))
	}
	cs.emissions = append(cs.emissions, c18cut(r, "this will take a while, proceed?"), c18cut(r, "\nwork finished\nrouter#"))
	cs.ops = []c18op{{input: "start", timeout: base}}
	return cs
}

// genC18Utf8: a trigger with multi-byte characters whose bytes arrive in different reads. One
// case-insensitive (or sensitive) completing callback on a contains text or a pattern; the device
// sends filler + the trigger in some letter case + filler, cut at one byte offset drawn uniformly
// from every offset of the trigger (so also inside each of its characters), or byte by byte.
func genC18Utf8(r *vlib.Rng, cs c18case) c18case {
	cs.kind = "utf8cut"
	type tw struct{ contains, re, sample string }
	pool := []tw{{"café", "", "café"}, {"CAFÉ", "", "café"}, {"über", "", "ÜBER"}, {"日本", "", "日本"}, {"é", "", "É"},
		{"señal ok", "", "SEÑAL OK"}, {"", `caf[eé]`, "CAFÉ"}, {"", `(?i)ÜBER`, "über"}, {"", `日本語?`, "日本語"}, {"", `é+`, "éÉé"},
		{"Ü", "", "ü"}, {"", `se[nñ]al:?`, "Señal:"}}
	t := pool[r.Intn(len(pool))]
	cb := c18cb{contains: t.contains, reSrc: t.re, insensitive: r.Chance(4, 5), reset: true, complete: true, name: "utf8", viaOptions: r.Bool()}
	if cb.reSrc != "" {
		cb.re = regexp.MustCompile(cb.reSrc)
	}
	if r.Chance(1, 4) {
		cb.notContains = r.Pick([]string{"ÖDE", "nö", "本日"})
	}
	cs.cbs = []c18cb{cb}
	if r.Chance(1, 3) { // an ASCII callback in front that does not fire
		cs.cbs = append([]c18cb{{contains: "never-there", insensitive: true, reset: true, name: "none", viaOptions: true}}, cs.cbs...)
	}
	sample := t.sample
	if r.Bool() {
		sample = c18caseVar(r, sample)
	}
	pre := r.Pick([]string{"", "x ", "Menü: ", "状態 "})
	post := r.Pick([]string{"", "\n", " ok", "!"})
	text := []byte(pre + sample + post)
	var chunks [][]byte
	if r.Chance(1, 4) {
		for i := range text {
			chunks = append(chunks, text[i:i+1])
		}
	} else {
		k := len(pre) + 1 + r.Intn(len(sample)) // 1 .. len(sample): every offset of the trigger, incl. just after it
		if k >= len(text) {
			k = len(text) - 1
		}
		if k < 1 {
			k = 1
		}
		chunks = [][]byte{text[:k], text[k:]}
		if len(text) < 2 {
			chunks = [][]byte{text}
		}
	}
	cs.emissions = [][][]byte{chunks}
	cs.ops = []c18op{{input: "go", timeout: c18Short}}
	return cs
}

// genC18Odd: the malformed / degenerate stream: empty callback list, callbacks with neither
// contains nor pattern (struct literal), upper-case pattern on folded text, non-ASCII output.
func genC18Odd(r *vlib.Rng, cs c18case) c18case {
	cs.kind = "odd"
	switch r.Intn(4) {
	case 0: // no callbacks at all
	case 1: // a callback that can never trigger, then a real one
		cs.cbs = []c18cb{{insensitive: true, reset: true, complete: true, name: "void"},
			{contains: "DONE", insensitive: r.Bool(), reset: true, complete: true, name: "done"}}
	case 2: // upper-case pattern: never matches folded text, matches raw text when case sensitive
		cs.cbs = []c18cb{{reSrc: `DONE`, re: regexp.MustCompile(`DONE`), insensitive: r.Bool(), reset: true, complete: true, name: "re"}}
	case 3: // non-ASCII output (outside the modelled domain, compared for information only)
		cs.cbs = []c18cb{{contains: "fertig", insensitive: true, reset: true, complete: true, name: "de"}}
		cs.emissions = append(cs.emissions, c18cut(r, "Übertragung läuft …\n"))
	}
	cs.emissions = append(cs.emissions, c18cut(r, r.Pick([]string{"all DONE\n", "all done\n", "FERTIG\n", "nothing here\n"})))
	cs.ops = []c18op{{input: "go", timeout: c18Short}}
	return cs
}

// ---- the property's statement, evaluated independently of the Lean model ----

func c18trigger(cb *c18cb, acc []byte) bool {
	text, cont, nc := string(acc), cb.contains, cb.notContains
	if cb.insensitive {
		text, cont, nc = strings.ToLower(text), strings.ToLower(cont), strings.ToLower(nc)
	}
	pos := (cb.contains != "" && strings.Contains(text, cont)) || (cb.re != nil && cb.re.MatchString(text))
	return pos && !(cb.notContains != "" && strings.Contains(text, nc))
}

type c18event struct {
	idx int
	arg string
}

type c18run struct {
	outcome string // complete | once | fn | timeout | other:<class>
	result  string
	events  []c18event
	fired   []int
	sawSentinel bool
}

func (r c18run) String() string {
	var ev []string
	for _, e := range r.events {
		ev = append(ev, fmt.Sprintf("%d:%q", e.idx, e.arg))
	}
	s := r.outcome
	if r.outcome == "complete" {
		s += fmt.Sprintf("(%q)", r.result)
	}
	return s + " [" + strings.Join(ev, " ") + "]"
}

func (r c18run) same(o c18run) bool {
	if r.outcome != o.outcome || r.result != o.result || len(r.events) != len(o.events) {
		return false
	}
	for i := range r.events {
		if r.events[i] != o.events[i] {
			return false
		}
	}
	return true
}

type c18arrival struct {
	gap      int
	data     []byte
	sentinel bool // marks "the poll error would be seen here" for c18specOp
}

// c18spec runs the property's wording over an arrival history.
func c18spec(cbs []c18cb, fired0 []int, timeout int, arrivals []c18arrival) c18run {
	var run c18run
	fired := map[int]bool{}
	for _, i := range fired0 {
		fired[i] = true
	}
	finish := func(o string) c18run {
		run.outcome = o
		for i := range fired {
			run.fired = append(run.fired, i)
		}
		sort.Ints(run.fired)
		return run
	}
	var acc, full []byte
	t, el := timeout, 0
	for _, a := range arrivals {
		if el+a.gap >= t {
			return finish("timeout")
		}
		if a.sentinel {
			run.sawSentinel = true
			return finish("timeout")
		}
		el += a.gap
		acc = append(acc, a.data...)
		full = append(full, a.data...)
		hit := -1
		for i := range cbs {
			if c18trigger(&cbs[i], acc) {
				hit = i
				break
			}
		}
		if hit < 0 {
			continue
		}
		cb := &cbs[hit]
		if cb.once {
			if fired[hit] {
				return finish("once")
			}
			fired[hit] = true
		}
		run.events = append(run.events, c18event{hit, string(acc)})
		if cb.fnErr {
			return finish("fn")
		}
		if cb.complete {
			run.result = string(full)
			return finish("complete")
		}
		if cb.reset {
			acc = nil
		}
		if cb.nextTimeout != 0 {
			t = cb.nextTimeout
		}
		el = 0
	}
	return finish("timeout")
}

// c18specOp is the property's reading of one whole operation: a refused option or a failing input
// write ends it before any callback can run; a poll error ends it unless it had ended already.
func c18specOp(cs *c18case, k int, armed bool, fired0 []int, arrivals []c18arrival) c18run {
	op := cs.ops[k]
	if op.optErr {
		return c18run{outcome: "opt", fired: append([]int{}, fired0...)}
	}
	if op.input != "" && op.writeErr != 0 {
		return c18run{outcome: "write", fired: append([]int{}, fired0...)}
	}
	if !armed {
		return c18spec(cs.cbs, fired0, op.timeout, arrivals)
	}
	// with a pending poll error: the loop sees the history, then the error instead of silence
	probe := append(append([]c18arrival{}, arrivals...), c18arrival{gap: 0, data: nil, sentinel: true})
	r := c18spec(cs.cbs, fired0, op.timeout, probe)
	if r.sawSentinel {
		r.outcome, r.result = "read", ""
	}
	return r
}

// ---- running the real code ----

type c18fire struct {
	skipFrom, skipTo int    // chunks [skipFrom, skipTo) were consumed by the function's own channel operation
	innerRan         bool
	innerRes         string
	innerErr         string
	idx      int
	arg      string
	consumed int // chunks handed to the callback loop when the function returned
	depth    int // chunks still queued at that moment
	op       int
}

type c18opObs struct {
	run       c18run // as observed (events of nil-function callbacks cannot be seen)
	errText   string
	elapsedMs int
	lastEvMs  int // time from the last function return (or the start) to the return of the operation
	consumed  int // chunks consumed when the operation returned
	startAt   int // chunks consumed when the operation started
	emitted   int // chunks the device had emitted when the operation returned
	failed    bool   // Response.Failed != nil
	armed     bool   // the transport fault had happened when the operation returned
	skipped   bool   // not run (an earlier operation broke the transport)
	pendingLate bool // a late emission was still pending when the operation returned (appended to the history)
}

type c18obs struct {
	ops      []c18opObs
	fires    []c18fire
	chunks   []sim.ScriptChunk
	readLog  []int
	written  string
	syncFail bool
	newErr   string
	delayedE map[int]bool // emissions that were sent by the delay timer
	ctorMismatch string
	emittedRaw []byte     // the device's own record of every byte it emitted
}

type c18log struct {
	bytes  atomic.Int64
	writes atomic.Int64
}

func (l *c18log) Write(b []byte) (int, error) {
	// order matters: settle() waits on the byte count and the chunk count is read right after it,
	// so the chunk count must be complete by the time the bytes are visible
	l.writes.Add(1)
	l.bytes.Add(int64(len(b)))
	return len(b), nil
}

var _ io.Writer = (*c18log)(nil)

func c18build(cb *c18cb, fn func(*generic.Driver, string) error, tscale int) (*generic.Callback, error) {
	if cb.nilFn {
		fn = nil
	}
	if cb.viaOptions {
		var o []util.Option
		if cb.contains != "" {
			o = append(o, opoptions.WithCallbackContains(cb.contains))
		}
		if cb.notContains != "" {
			o = append(o, opoptions.WithCallbackNotContains(cb.notContains))
		}
		if cb.re != nil {
			o = append(o, opoptions.WithCallbackContainsRe(cb.re))
		}
		or := vlib.NewRng(cb.optSeed)
		if !cb.insensitive {
			o = append(o, opoptions.WithCallbackInsensitive(false))
		} else if or.Bool() {
			o = append(o, opoptions.WithCallbackInsensitive(true)) // the default, spelled out
		}
		if or.Chance(2, 3) {
			o = append(o, opoptions.WithCallbackResetOutput()) // also the default
		}
		if cb.once {
			o = append(o, opoptions.WithCallbackOnce())
		}
		if cb.complete {
			o = append(o, opoptions.WithCallbackComplete())
		}
		if cb.nextTimeout != 0 {
			o = append(o, opoptions.WithCallbackNextTimeout(time.Duration(cb.nextTimeout*tscale)*time.Millisecond))
		}
		if or.Chance(2, 3) {
			o = append(o, opoptions.WithCallbackName(cb.name))
		}
		for i := len(o) - 1; i > 0; i-- { // the options in any order
			j := or.Intn(i + 1)
			o[i], o[j] = o[j], o[i]
		}
		g, err := generic.NewCallback(fn, o...)
		if err == nil && (g.Contains != cb.contains || g.NotContains != cb.notContains || g.Insensitive != cb.insensitive ||
			!g.ResetOutput || g.Once != cb.once || g.Complete != cb.complete ||
			g.NextTimeout != time.Duration(cb.nextTimeout*tscale)*time.Millisecond ||
			(g.ContainsRe == nil) != (cb.re == nil) || (cb.re != nil && g.ContainsRe.String() != cb.re.String())) {
			got := "<nil>"
			if g.ContainsRe != nil {
				got = g.ContainsRe.String()
			}
			return g, fmt.Errorf("%w: fields %q %q re=%q insensitive=%v once=%v complete=%v next=%v", errC18Ctor, g.Contains, g.NotContains, got, g.Insensitive, g.Once, g.Complete, g.NextTimeout)
		}
		return g, err
	}
	return &generic.Callback{Callback: fn, Contains: cb.contains, NotContains: cb.notContains, ContainsRe: cb.re,
		Insensitive: cb.insensitive, ResetOutput: cb.reset, Once: cb.once, Complete: cb.complete,
		NextTimeout: time.Duration(cb.nextTimeout*tscale) * time.Millisecond, Name: cb.name}, nil
}

func runC18case(cs c18case) c18obs {
	o := c18obs{delayedE: map[int]bool{}}
	if cs.tscale < 1 {
		cs.tscale = 1
	}
	ms := func(x int) time.Duration { return time.Duration(x*cs.tscale) * time.Millisecond }
	dev := sim.NewScript(cs.emissions)
	dev.Echo = cs.echo
	dev.Special = cs.special
	if cs.readFault != "" {
		off, n := 0, 0
		for _, e := range cs.emissions {
			for _, ch := range e {
				if n < cs.faultAt {
					off += len(ch)
					n++
				}
			}
		}
		if cs.readFault == "eio" {
			dev.ErrAt = off
		} else {
			dev.EOFAt = off
		}
	}
	lg := &c18log{}
	dopts := []util.Option{options.WithCustomTransport(dev), options.WithAuthBypass(),
		options.WithTimeoutOps(3 * time.Second), options.WithReadDelay(50 * time.Microsecond), options.WithChannelLog(lg)}
	if cs.drvFW != nil {
		dopts = append(dopts, options.WithFailedWhenContains(cs.drvFW))
	}
	var d *generic.Driver
	var send func(string, []*generic.Callback, time.Duration, ...util.Option) (*response.Response, error)
	if cs.network {
		dopts = append(dopts, options.WithPrivilegeLevels(map[string]*network.PrivilegeLevel{
			"exec": {Name: "exec", Pattern: `(?im)^[a-z0-9.\-@()/:]{1,48}#\s*$`}}), options.WithDefaultDesiredPriv("exec"))
		nd, err := network.NewDriver("h", dopts...)
		if err != nil {
			o.newErr = "new:" + err.Error()
			return o
		}
		if err := nd.Open(); err != nil {
			o.newErr = "open:" + errClass(err)
			return o
		}
		defer nd.Close()
		d = nd.Driver
		send = nd.SendWithCallbacks // promoted from the embedded generic driver
	} else {
		gd, err := generic.NewDriver("h", dopts...)
		if err != nil {
			o.newErr = "new:" + err.Error()
			return o
		}
		if err := gd.Open(); err != nil {
			o.newErr = "open:" + errClass(err)
			return o
		}
		defer gd.Close()
		d = gd
		send = gd.SendWithCallbacks
	}
	// settle: everything the device has emitted so far is in the channel queue (the log is written
	// after the enqueue), so the queue depth tells what the next poll will find
	settle := func() bool {
		deadline := time.Now().Add(3 * time.Second)
		for {
			dev.Mu.Lock()
			em := dev.Emitted
			for _, lim := range []int{dev.ErrAt, dev.EOFAt} {
				if lim >= 0 && em > lim {
					em = lim // nothing beyond the fault offset is ever delivered
				}
			}
			dev.Mu.Unlock()
			if lg.bytes.Load() >= int64(em) {
				return true
			}
			if time.Now().After(deadline) {
				o.syncFail = true
				return false
			}
			time.Sleep(20 * time.Microsecond)
		}
	}
	curOp := 0
	calls := 0
	innerUsed := map[int]bool{} // a function runs its own channel operation the first time only
	var lastRet time.Time
	var cbs []*generic.Callback
	for i := range cs.cbs {
		i := i
		cb := &cs.cbs[i]
		fn := func(dd *generic.Driver, arg string) error {
			calls++
			if calls > 40 {
				return errC18Budget
			}
			f := c18fire{idx: i, arg: arg, op: curOp}
			if cb.fnErr {
				settle()
				f.depth = dd.Channel.Q.GetDepth()
				f.consumed = int(lg.writes.Load()) - f.depth
				o.fires = append(o.fires, f)
				return errC18User
			}
			if cb.inner != "" && !innerUsed[i] {
				innerUsed[i] = true
				settle()
				if dp := dd.Channel.Q.GetDepth(); dp == 0 {
					// the function runs a channel operation of its own: what that consumes never
					// reaches the callback loop
					f.skipFrom = int(lg.writes.Load())
					res, ierr := dd.Channel.SendInput(cb.inner)
					settle()
					f.skipTo = int(lg.writes.Load()) - dd.Channel.Q.GetDepth()
					f.innerRan, f.innerRes = true, string(res)
					if ierr != nil {
						f.innerErr = ierr.Error()
					}
				} else if err := dd.Channel.WriteAndReturn([]byte(cb.inner), false); err != nil {
					return err
				}
			}
			if cb.delayed {
				dev.Mu.Lock()
				o.delayedE[dev.Next] = true
				dev.Mu.Unlock()
				time.AfterFunc(ms(c18Delay), dev.EmitNextLocked)
			} else if cb.reply != "" {
				if err := dd.Channel.WriteAndReturn([]byte(cb.reply), false); err != nil {
					return err
				}
			}
			settle()
			f.depth = dd.Channel.Q.GetDepth()
			f.consumed = int(lg.writes.Load()) - f.depth
			o.fires = append(o.fires, f)
			lastRet = time.Now()
			return nil
		}
		g, err := c18build(cb, fn, cs.tscale)
		if errors.Is(err, errC18Ctor) {
			o.ctorMismatch = fmt.Sprintf("callback %d: %v", i, err)
			err = nil
		}
		if err != nil {
			o.newErr = "callback:" + errClass(err)
			return o
		}
		cbs = append(cbs, g)
	}
	if cs.banner {
		dev.EmitNextLocked()
	}
	broken := false
	for k, op := range cs.ops {
		curOp = k
		var ob c18opObs
		if broken {
			ob.skipped = true
			o.ops = append(o.ops, ob)
			continue
		}
		var oo []util.Option
		if op.opFW != nil {
			oo = append(oo, opoptions.WithFailedWhenContains(op.opFW))
		}
		if op.ignoredOpt {
			oo = append(oo, opoptions.WithCallbackOnce(), options.WithPromptSearchDepth(7)) // meant for other objects
		}
		if op.optErr {
			oo = append(oo, func(interface{}) error { return fmt.Errorf("%w: refused by the harness", util.ErrBadOption) })
		}
		if op.writeErr != 0 {
			dev.SetFaults(func(p *sim.Pipe) {
				p.WriteErrAfter = p.Written
				if op.writeErr == 2 {
					p.WriteErrAfter += len(op.input)
				}
			})
		}
		settle()
		ob.startAt = int(lg.writes.Load()) - d.Channel.Q.GetDepth()
		nf := len(o.fires)
		t0 := time.Now()
		lastRet = t0
		r, err := func() (rr *response.Response, ee error) {
			defer func() {
				if p := recover(); p != nil {
					ee = fmt.Errorf("%w: %v", errC18Panic, p)
				}
			}()
			return send(op.input, cbs, ms(op.timeout), oo...)
		}()
		ob.elapsedMs = int(time.Since(t0) / time.Millisecond)
		ob.lastEvMs = int(time.Since(lastRet) / time.Millisecond)
		switch {
		case err == nil:
			ob.run.outcome = "complete"
			ob.run.result = r.Result
			ob.failed = r.Failed != nil
		case errors.Is(err, sim.ErrWrite):
			ob.run.outcome = "write"
		case errors.Is(err, sim.ErrIO) || errClass(err) == "connection":
			ob.run.outcome = "read"
		case errClass(err) == "badoption":
			ob.run.outcome = "opt"
		case errors.Is(err, errC18User):
			ob.run.outcome = "fn"
		case errors.Is(err, errC18Panic):
			ob.run.outcome = "other:panic"
		case errors.Is(err, errC18Budget):
			ob.run.outcome = "other:runaway"
		case errClass(err) == "timeout":
			ob.run.outcome = "timeout"
		case errClass(err) == "operation":
			ob.run.outcome = "once"
		default:
			ob.run.outcome = "other:" + errClass(err)
		}
		if err != nil {
			ob.errText = err.Error()
		}
		for _, f := range o.fires[nf:] {
			ob.run.events = append(ob.run.events, c18event{f.idx, f.arg})
		}
		settle()
		ob.consumed = int(lg.writes.Load()) - d.Channel.Q.GetDepth()
		dev.Mu.Lock()
		ob.emitted = len(dev.EmittedChunks)
		ob.armed = (dev.ErrAt >= 0 && dev.Delivered >= dev.ErrAt) || (dev.EOFAt >= 0 && dev.Delivered >= dev.EOFAt)
		dev.Mu.Unlock()
		o.ops = append(o.ops, ob)
		if ob.armed || ob.run.outcome == "write" || ob.run.outcome == "read" || strings.HasPrefix(ob.run.outcome, "other") {
			broken = true // the transport is gone (or the library misbehaved): no further operation
		}
	}
	dev.Snapshot(func() {
		o.chunks = append(o.chunks, dev.EmittedChunks...)
		o.readLog = append(o.readLog, dev.ReadLog...)
		o.emittedRaw = append([]byte{}, dev.EmittedBytes()...)
	})
	o.written = string(dev.AllWritten())
	return o
}

// c18arrivals rebuilds the arrival history of operation k from what was observed: the chunks in
// emission order from the operation's first chunk on, an empty poll after chunk n for every function
// return that left the queue empty with n chunks consumed, the delay in front of a late emission.
func c18arrivals(cs *c18case, o *c18obs, k int) []c18arrival {
	emptiesAfter := map[int]int{}
	for _, f := range o.fires {
		if f.op == k && f.depth == 0 {
			emptiesAfter[f.consumed]++
		}
	}
	var out []c18arrival
	start := o.ops[k].startAt
	for n := emptiesAfter[start]; n > 0; n-- {
		out = append(out, c18arrival{gap: 0})
	}
	skip := func(ci int) bool {
		for _, f := range o.fires {
			if f.innerRan && f.skipFrom <= ci && ci < f.skipTo {
				return true
			}
		}
		return false
	}
	end := o.ops[k].emitted
	if o.ops[k].armed && o.ops[k].consumed < end {
		end = o.ops[k].consumed // the poll error overtakes whatever was still queued
	}
	seenEm := map[int]bool{}
	for ci := start; ci < len(o.chunks) && ci < end; ci++ {
		ch := o.chunks[ci]
		if skip(ci) {
			for n := emptiesAfter[ci+1]; n > 0; n-- {
				out = append(out, c18arrival{gap: 0})
			}
			continue
		}
		gap := 0
		if o.delayedE[ch.Emission] && !seenEm[ch.Emission] {
			gap = c18Delay
		}
		seenEm[ch.Emission] = true
		out = append(out, c18arrival{gap: gap, data: ch.Data})
		for n := emptiesAfter[ci+1]; n > 0; n-- {
			out = append(out, c18arrival{gap: 0})
		}
	}
	// a late emission that was still pending when the operation returned (it timed out first) is
	// part of the history the device would have produced: it arrives after the delay
	if k == len(o.ops)-1 {
		for e := range cs.emissions {
			if o.delayedE[e] && !seenEm[e] {
				o.ops[k].pendingLate = true
				for j, ch := range cs.emissions[e] {
					gap := 0
					if j == 0 {
						gap = c18Delay
					}
					out = append(out, c18arrival{gap: gap, data: ch})
				}
			}
		}
	}
	return out
}

func c18line(cs *c18case, k int, armed bool, fired0 []int, timeout int, arrivals []c18arrival) string {
	f := []string{"c18", "op", strconv.Itoa(timeout)}
	if len(fired0) == 0 {
		f = append(f, ".")
	} else {
		var s []string
		for _, i := range fired0 {
			s = append(s, strconv.Itoa(i))
		}
		f = append(f, strings.Join(s, ","))
	}
	re := "-"
	if armed {
		re = "0"
	}
	f = append(f, vlib.Hex([]byte(cs.ops[k].input)), b2s(cs.ops[k].optErr), b2s(cs.ops[k].writeErr != 0), re)
	f = append(f, strconv.Itoa(len(cs.cbs)))
	for i := range cs.cbs {
		cb := &cs.cbs[i]
		re := "-"
		if cb.reSrc != "" {
			term, _ := facts.PatternToLean(cb.reSrc)
			re = vlib.Hex([]byte(term))
		}
		f = append(f, vlib.Hex([]byte(cb.contains)), vlib.Hex([]byte(cb.notContains)), re, b2s(cb.insensitive),
			b2s(cb.reset), b2s(cb.once), b2s(cb.complete), strconv.Itoa(cb.nextTimeout), b2s(cb.fnErr))
	}
	if len(arrivals) == 0 {
		f = append(f, ".")
	} else {
		var s []string
		for _, a := range arrivals {
			s = append(s, strconv.Itoa(a.gap)+":"+vlib.Hex(a.data))
		}
		f = append(f, strings.Join(s, ","))
	}
	return strings.Join(f, " ")
}

// c18parseRun reads `outcome events fired` as the Lean driver prints them.
func c18parseRun(f []string) (c18run, bool) {
	var r c18run
	if len(f) != 3 {
		return r, false
	}
	switch {
	case strings.HasPrefix(f[0], "complete:"):
		r.outcome = "complete"
		b, err := vlib.UnHex(f[0][9:])
		if err != nil {
			return r, false
		}
		r.result = string(b)
	default:
		r.outcome = f[0]
	}
	if f[1] != "." {
		for _, it := range strings.Split(f[1], ",") {
			p := strings.SplitN(it, ":", 2)
			if len(p) != 2 {
				return r, false
			}
			i, _ := strconv.Atoi(p[0])
			b, err := vlib.UnHex(p[1])
			if err != nil {
				return r, false
			}
			r.events = append(r.events, c18event{i, string(b)})
		}
	}
	if f[2] != "." {
		for _, it := range strings.Split(f[2], ",") {
			i, _ := strconv.Atoi(it)
			r.fired = append(r.fired, i)
		}
		sort.Ints(r.fired)
	}
	return r, true
}

// visible drops the events the harness cannot observe (callbacks without a function).
func c18visible(cs *c18case, r c18run) c18run {
	out := r
	out.events = nil
	for _, e := range r.events {
		if e.idx < len(cs.cbs) && cs.cbs[e.idx].nilFn {
			continue
		}
		out.events = append(out.events, e)
	}
	return out
}

func runC18(c *ctx) {
	res := c.res
	res.Rule = "dialogues: real generic.Driver.SendWithCallbacks over a causal scripted device; 1-5 callbacks (contains / not-contains / regex lower-case, (?i) or upper-case / sensitivity / once / complete / reset-output / next-timeout / failing or nil function / reply written to the device), built through NewCallback+opoptions or struct literals; 1-5 device emissions made of trigger words in varied case and filler, cut whole / bytewise / randomly; 1-2 operations on the same callback objects; late emissions vs short/long stage timeouts; multi-byte triggers (é/É, ü/Ü, ñ, 日本) cut inside a character at every byte offset or read byte by byte; degenerate lists and out-of-alphabet output. non-trivial = in-domain case in which at least one callback ran; distinct by case seed"
	if c.replay != "" {
		f := strings.Fields(c.replay)
		if len(f) >= 2 && f[0] == "c18case" {
			seed, _ := strconv.ParseUint(f[1], 10, 64)
			c18check(c, []c18case{genC18(seed, len(f) > 2 && f[2] == "thorough")})
			return
		}
		res.Note("replay of a raw model line is evaluated by the model only: %s", c.replay)
		return
	}
	c18Internal(c)
	c18RxPool(c)
	c18FoldTie(c)
	c18Constructor(c)
	c18OptionSource(c)
	rxDiff(c, []string{"Channel.promptPattern"}, c.n(60, 600))
	n := c.n(1500, 30000)
	cases := []c18case{genC18(1, false), genC18(2, false)}
	for i := 0; i < n; i++ {
		cases = append(cases, genC18(c.rng.U64(), c.thorough()))
	}
	c18check(c, cases)
}

// c18Constructor: NewCallback demands a contains text or a pattern; callback options refuse other targets.
func c18Constructor(c *ctx) {
	res := c.res
	if _, err := generic.NewCallback(nil); errClass(err) != "badoption" {
		res.Fail("oracle", "c18 constructor", fmt.Sprintf("NewCallback without contains/pattern returned %v, expected a bad-option error", err), "constructor")
	}
	if _, err := generic.NewCallback(nil, opoptions.WithCallbackNotContains("x"), opoptions.WithCallbackOnce()); errClass(err) != "badoption" {
		res.Fail("oracle", "c18 constructor", fmt.Sprintf("NewCallback with only not-contains returned %v, expected a bad-option error", err), "constructor")
	}
	// an option that fails (here: one meant for another object, which answers "ignored") makes the
	// constructor fail: unlike the driver constructors, NewCallback does not skip ignored options
	if cbx, err := generic.NewCallback(nil, opoptions.WithCallbackContains("x"), opoptions.WithNoStripPrompt()); err == nil || cbx != nil {
		res.Fail("oracle", "c18 constructor", fmt.Sprintf("NewCallback with a foreign option returned %v, %v; expected an error and no callback", cbx, err), "constructor-option-error")
	}
	if cbx, err := generic.NewCallback(nil, func(interface{}) error { return util.ErrBadOption }, opoptions.WithCallbackContains("x")); errClass(err) != "badoption" || cbx != nil {
		res.Fail("oracle", "c18 constructor", fmt.Sprintf("NewCallback with a failing option returned %v, %v; expected that error and no callback", cbx, err), "constructor-option-error")
	}
	cb, err := generic.NewCallback(nil, opoptions.WithCallbackContains("x"))
	if err != nil || !cb.Insensitive || !cb.ResetOutput || cb.Once || cb.Complete || cb.NextTimeout != 0 {
		res.Fail("oracle", "c18 constructor", fmt.Sprintf("NewCallback defaults: %+v err %v (expected case-insensitive, reset-output, not once, not complete)", cb, err), "constructor-defaults")
	}
	var notACallback struct{}
	for name, o := range map[string]util.Option{"contains": opoptions.WithCallbackContains("x"), "notcontains": opoptions.WithCallbackNotContains("x"),
		"once": opoptions.WithCallbackOnce(), "complete": opoptions.WithCallbackComplete(), "reset": opoptions.WithCallbackResetOutput(),
		"insensitive": opoptions.WithCallbackInsensitive(true), "next": opoptions.WithCallbackNextTimeout(time.Second), "name": opoptions.WithCallbackName("n"),
		"re": opoptions.WithCallbackContainsRe(regexp.MustCompile("x"))} {
		if err := o(&notACallback); errClass(err) != "ignored" {
			res.Fail("oracle", "c18 constructor", fmt.Sprintf("callback option %s applied to a foreign object returned %v", name, err), "constructor-ignored")
		}
	}
	res.Count("constructor-checks")
}

// c18OptionSource: source fact over driver/opoptions/callback.go, re-read on every run: every
// WithCallback* option does nothing but store its argument (or `true`) in one field of the callback
// — no recompilation, no rewriting of a pattern or text. Anything else in an option body makes the
// model's reading "the callback holds what the user gave" unfounded.
func c18OptionSource(c *ctx) {
	res := c.res
	path := filepath.Join(repoDir(), "driver", "opoptions", "callback.go")
	fset := token.NewFileSet()
	file, err := parser.ParseFile(fset, path, nil, 0)
	if err != nil {
		res.Fail("correspondence", "c18 source opoptions/callback.go", "cannot parse: "+err.Error(), "source-fact:opoptions")
		return
	}
	n := 0
	for _, d := range file.Decls {
		fd, ok := d.(*ast.FuncDecl)
		if !ok || !strings.HasPrefix(fd.Name.Name, "WithCallback") {
			continue
		}
		n++
		var lit *ast.FuncLit
		ast.Inspect(fd.Body, func(x ast.Node) bool {
			if l, ok := x.(*ast.FuncLit); ok && lit == nil {
				lit = l
			}
			return lit == nil
		})
		bad := ""
		stores := 0
		if lit == nil {
			bad = "no option closure"
		} else {
			for _, st := range lit.Body.List {
				switch v := st.(type) {
				case *ast.AssignStmt:
					if v.Tok == token.DEFINE { // c, ok := o.(*generic.Callback)
						if _, isTA := v.Rhs[0].(*ast.TypeAssertExpr); !isTA || len(v.Rhs) != 1 {
							bad = "unexpected definition"
						}
						continue
					}
					sel, isSel := v.Lhs[0].(*ast.SelectorExpr)
					if v.Tok != token.ASSIGN || len(v.Lhs) != 1 || !isSel {
						bad = "unexpected assignment"
						continue
					}
					switch rhs := v.Rhs[0].(type) {
					case *ast.Ident: // the parameter, or true
						if fd.Type.Params.NumFields() == 1 && rhs.Name != fd.Type.Params.List[0].Names[0].Name {
							bad = "stores " + rhs.Name + " instead of its argument"
						}
						if fd.Type.Params.NumFields() == 0 && rhs.Name != "true" {
							bad = "stores " + rhs.Name
						}
					default:
						bad = "stores a computed value"
					}
					_ = sel
					stores++
				case *ast.IfStmt: // if !ok { return util.ErrIgnoredOption }
					if u, isU := v.Cond.(*ast.UnaryExpr); !isU || u.Op != token.NOT || v.Else != nil || len(v.Body.List) != 1 {
						bad = "conditional logic in the option body"
					}
				case *ast.ReturnStmt:
				default:
					bad = "unexpected statement"
				}
			}
			if bad == "" && stores != 1 {
				bad = fmt.Sprintf("%d stores", stores)
			}
		}
		if bad != "" {
			res.Fail("correspondence", "c18 source opoptions/callback.go "+fd.Name.Name, fd.Name.Name+": "+bad+" (an option must store its argument unchanged in one field)", "source-fact:opoptions")
		}
	}
	res.Distribution["source-fact:callback-options"] = n
	if n < 9 {
		res.Note("only %d WithCallback* options found in opoptions/callback.go", n)
	}
}

// c18FoldTie: the model's `fold` against bytes.ToLower on texts over the modelled alphabet, whole
// and cut at every byte offset (each fragment folded on its own, as a per-read fold would do).
func c18FoldTie(c *ctx) {
	res := c.res
	r := c.rng.Fork()
	var texts [][]byte
	for _, w := range append(append([]string{}, c18words...), "CAFÉ", "ÜBER", "Ñ", "×÷ßÿ", "日本語", "ァイル", "Àþ", "\xc3", "\x89", "\xe6\x97", "a\xc3b", "\xe6a\xa5") {
		for _, v := range []string{w, strings.ToUpper(w), strings.ToLower(w)} {
			b := []byte(v)
			texts = append(texts, b)
			for k := 1; k < len(b); k++ {
				texts = append(texts, b[:k], b[k:])
			}
		}
	}
	alpha := []byte{'a', 'Z', ' ', 0xC3, 0x89, 0xA9, 0x9C, 0xBC, 0x97, 0xE6, 0xE3, 0xE9, 0x80, 0xBF, 0xA5}
	for k := c.n(400, 4000); k > 0; k-- {
		texts = append(texts, r.Bytes(r.Range(1, 7), alpha))
	}
	var lines []string
	for _, t := range texts {
		lines = append(lines, "c18 fold "+vlib.Hex(t))
	}
	ans := c.ask(lines)
	for i, t := range texts {
		want := "1 " + vlib.Hex(bytes.ToLower(t))
		if strings.HasPrefix(ans[i], "0 ") {
			res.Count("fold-tie:out-of-alphabet") // e.g. Ÿ = ToUpper(ÿ): not claimed by the model
			continue
		}
		if ans[i] != want {
			res.Fail("correspondence", lines[i], fmt.Sprintf("bytes.ToLower(%q) = %q, model answers %s", t, bytes.ToLower(t), ans[i]), "fold-tie")
		}
	}
	res.Distribution["fold-tie:cases"] = len(texts)
}

// c18RxPool: the callback patterns travel to the model as rendered terms; diff the Lean engine on
// the re-read term against Go's regexp on texts built from the harness vocabulary.
func c18RxPool(c *ctx) {
	res := c.res
	r := c.rng.Fork()
	var lines []string
	var want []string
	var desc []string
	for _, src := range c18res {
		term, ok := facts.PatternToLean(src)
		if !ok {
			res.Fail("machinery", "c18 re "+src, "pattern does not parse", "rx-pool")
			continue
		}
		re := regexp.MustCompile(src)
		for k := c.n(40, 400); k > 0; k-- {
			var sb strings.Builder
			for t := r.Range(0, 4); t > 0; t-- {
				sb.WriteString(c18caseVar(r, r.Pick(append(c18words, c18filler...))))
				sb.WriteString(r.Pick([]string{" ", "\n", ""}))
			}
			text := sb.String()
			if r.Chance(1, 3) {
				text = strings.ToLower(text)
			}
			lines = append(lines, "c18 re "+vlib.Hex([]byte(term))+" "+vlib.Hex([]byte(text)))
			want = append(want, b2s(re.MatchString(text)))
			desc = append(desc, fmt.Sprintf("%q on %q", src, text))
		}
	}
	ans := c.ask(lines)
	for i := range lines {
		if ans[i] != want[i] {
			res.Fail("correspondence", lines[i], fmt.Sprintf("regex %s: Go %s, Lean engine %s", desc[i], want[i], ans[i]), "rx-pool")
		}
	}
	res.Distribution["rx-pool:cases"] = len(lines)
}

// c18check runs the cases 12 at a time. A case whose only discrepancy is that the implementation
// timed out early in an otherwise correct run (its events are a prefix of the demanded ones) may be
// a victim of machine load, which is legitimate behaviour (output that does not arrive in time is a
// timeout): up to 12 such cases are re-run one at a time with every timeout and delay scaled by 4
// and judged on that run. Anything else (and anything that persists) is reported.
func c18check(c *ctx, cases []c18case) {
	retry := c18round(c, cases, vlib.Conc(12), true)
	if len(retry) > 0 {
		c.res.Distribution["retried-after-early-timeout"] = len(retry)
		for i := range retry {
			retry[i].tscale = 4
		}
		c18round(c, retry, 1, false)
	}
}

func c18round(c *ctx, cases []c18case, par int, first bool) (retry []c18case) {
	res := c.res
	for i := range cases {
		if cases[i].tscale < 1 {
			cases[i].tscale = 1
		}
	}
	count := func(b string) {
		if first {
			res.Count(b)
		}
	}
	obs := make([]c18obs, len(cases))
	var wg sync.WaitGroup
	sem := make(chan struct{}, par)
	for i := range cases {
		wg.Add(1)
		sem <- struct{}{}
		go func(i int) {
			defer wg.Done()
			obs[i] = runC18case(cases[i])
			<-sem
		}(i)
	}
	wg.Wait()
	// one model request per operation
	type ref struct{ ci, op int }
	var lines []string
	var refs []ref
	arrs := map[ref][]c18arrival{}
	fired0s := map[ref][]int{}
	specs := map[ref]c18run{}
	for i := range cases {
		cs := &cases[i]
		o := &obs[i]
		var fired []int
		for k := range o.ops {
			if o.ops[k].skipped {
				continue
			}
			a := c18arrivals(cs, o, k)
			rf := ref{i, k}
			arrs[rf] = a
			fired0s[rf] = fired
			sp := c18specOp(cs, k, o.ops[k].armed, fired, a)
			specs[rf] = sp
			lines = append(lines, c18line(cs, k, o.ops[k].armed, fired, cs.ops[k].timeout, a))
			refs = append(refs, rf)
			fired = sp.fired
		}
	}
	ans := c.ask(lines)
	byCase := map[int][]int{}
	for li, rf := range refs {
		byCase[rf.ci] = append(byCase[rf.ci], li)
	}
	for i := range cases {
		cs := &cases[i]
		o := &obs[i]
		tier := ""
		if c.thorough() {
			tier = " thorough"
		}
		caseLine := fmt.Sprintf("c18case %d%s", cs.seed, tier)
		count("kind:" + cs.kind)
		count(fmt.Sprintf("callbacks:%d", len(cs.cbs)))
		count(fmt.Sprintf("flavour: network=%v echo=%v", cs.network, cs.echo))
		for _, cb := range cs.cbs {
			count(fmt.Sprintf("cb: reset=%v once=%v complete=%v", cb.reset, cb.once, cb.complete))
			if cb.nilFn && !cb.complete {
				count("cb: no function, not complete")
			}
			if cb.inner != "" {
				count("cb: runs a channel operation")
			}
		}
		if o.newErr != "" {
			res.Fail("machinery", caseLine, "could not set the case up: "+o.newErr, "setup")
			continue
		}
		if o.ctorMismatch != "" {
			// obligation: a callback option stores its argument (the compiled pattern keeps its String())
			res.Fail("correspondence", caseLine, "NewCallback + opoptions: "+o.ctorMismatch+"; given "+c18descCbs(cs), "constructor-stores-arguments")
		}
		for _, cb := range cs.cbs {
			count(fmt.Sprintf("built: via NewCallback+opoptions=%v regex=%v", cb.viaOptions, cb.reSrc != ""))
		}
		if o.syncFail {
			count("sync-failed")
			if first {
				res.Case(caseLine, false)
			}
			continue
		}
		// the scripted segmentation must be what the transport delivered
		okSeg := len(o.readLog) <= len(o.chunks)
		for k := 0; okSeg && k < len(o.readLog); k++ {
			okSeg = o.readLog[k] == len(o.chunks[k].Data)
		}
		if !okSeg {
			res.Fail("machinery", caseLine, fmt.Sprintf("reads %v do not follow the scripted chunks", o.readLog), "segmentation")
			continue
		}
		// self-check: the history the verdict is based on is the history the device produced. The
		// reported chunks are exactly the device's byte stream; every range attributed to a callback
		// function's own channel operation is that operation's exchange (echo + answer); every chunk
		// of an operation is either an arrival of the loop or inside such a range.
		if msg := c18selfCheck(cs, o, func(k int) []c18arrival { return arrs[ref{i, k}] }); msg != "" {
			res.Fail("machinery", caseLine, "arrival history does not match what the device emitted: "+msg, "arrivals-vs-device")
			continue
		}
		nontriv := false
		allDom := true
		bad := false
		innerSeen := map[int]bool{}
		var wantWritten strings.Builder
		for _, li := range byCase[i] {
			rf := refs[li]
			k := rf.op
			ob := o.ops[k]
			f := strings.Fields(ans[li])
			if len(f) != 10 {
				res.Fail("machinery", caseLine, "driver answered "+ans[li]+" for "+lines[li], "driver")
				bad = true
				break
			}
			dom := f[0] == "1"
			lspec, ok1 := c18parseRun(f[1:4])
			lmodel, ok2 := c18parseRun(f[4:7])
			lasis, ok3 := c18parseRun(f[7:10])
			if !ok1 || !ok2 || !ok3 {
				res.Fail("machinery", caseLine, "unreadable driver answer "+ans[li], "driver")
				bad = true
				break
			}
			gspec := specs[rf]
			allDom = allDom && dom
			count("outcome:" + ob.run.outcome)
			count(fmt.Sprintf("events:%d", len(ob.run.events)))
			if !dom {
				count("nodom")
				continue
			}
			// machinery: the theorem statement (Lean spec) = the Go reading of the property = the model
			if !lspec.same(gspec) || fmt.Sprint(lspec.fired) != fmt.Sprint(gspec.fired) {
				res.Fail("machinery", caseLine, fmt.Sprintf("op %d: Lean trigger-run %v fired %v, Go trigger-run %v fired %v; request %s", k, lspec, lspec.fired, gspec, gspec.fired, lines[li]), "leanspec-vs-gospec")
				bad = true
				break
			}
			if !lspec.same(lmodel) {
				res.Fail("machinery", caseLine, fmt.Sprintf("op %d: model %v, spec %v", k, lmodel, lspec), "model-vs-spec")
				bad = true
				break
			}
			hasNC := false
			for _, cb := range cs.cbs {
				hasNC = hasNC || cb.notContains != ""
			}
			want := c18visible(cs, gspec)
			sig := func(base string) string {
				if hasNC && c18visible(cs, lasis).same(ob.run) && !lasis.same(lspec) {
					return "not-contains-inverted"
				}
				if ob.run.outcome == "other:panic" && want.outcome == "timeout" && c18prefix(ob.run.events, want.events) && len(ob.run.events) == len(want.events) {
					return "timeout-race-panic" // nil result received from the closed channel when the stage deadline fires
				}
				if ob.run.outcome == "timeout" && c18prefix(ob.run.events, want.events) && len(ob.run.events) < len(want.events) {
					return "trigger-held-no-callback" // a trigger held on the accumulated output, yet nothing ran and the operation timed out
				}
				if ob.run.outcome == "timeout" && c18prefix(ob.run.events, want.events) && !setupOrRead(want.outcome) {
					return "early-timeout-vs-" + want.outcome // all visible callbacks ran, then a timeout where the property demands another ending
				}
				return base
			}
			// oracle: the property on the implementation
			if first && len(retry) < 12 && !want.same(ob.run) && ob.run.outcome == "timeout" && c18prefix(ob.run.events, want.events) && !setupOrRead(want.outcome) {
				retry = append(retry, *cs)
				count("early-timeout-suspect")
				bad = true
				break
			}
			if !want.same(ob.run) {
				res.Fail("oracle", caseLine, fmt.Sprintf("op %d (input %q, timeout %d ms, callbacks %s): observed %v, the property demands %v; arrivals %s; error text %q after %d ms",
					k, cs.ops[k].input, cs.ops[k].timeout, c18descCbs(cs), ob.run, want, c18descArr(arrs[rf]), ob.errText, ob.elapsedMs), sig("wrong-run:"+ob.run.outcome+"-vs-"+want.outcome))
				bad = true
				break
			}
			// correspondence: implementation = model
			if !c18visible(cs, lmodel).same(ob.run) {
				res.Fail("correspondence", caseLine, fmt.Sprintf("op %d: impl %v, model %v; request %s", k, ob.run, lmodel, lines[li]), sig("impl-vs-model"))
				bad = true
				break
			}
			// a timeout error is never returned before the stage's timeout has passed
			if ob.run.outcome == "timeout" {
				final := cs.ops[k].timeout
				for _, e := range gspec.events {
					if nt := cs.cbs[e.idx].nextTimeout; nt != 0 {
						final = nt
					}
				}
				if cs.kind != "delayed" && ob.lastEvMs < final*cs.tscale-5 {
					res.Fail("oracle", caseLine, fmt.Sprintf("op %d: timeout error after %d ms in a stage whose timeout is %d ms", k, ob.lastEvMs, final), "early-timeout")
					bad = true
					break
				}
			}
			if len(gspec.events) > 0 {
				nontriv = true
			}
			// failure marking of the final response: the strings given for the operation, otherwise the driver's
			if ob.run.outcome == "complete" {
				fw := cs.ops[k].opFW
				if len(fw) == 0 {
					fw = cs.drvFW
				}
				wantFailed := false
				for _, w := range fw {
					wantFailed = wantFailed || strings.Contains(ob.run.result, w)
				}
				if len(fw) > 0 {
					count(fmt.Sprintf("failed-when: in force, failed=%v", wantFailed))
				}
				if ob.failed != wantFailed {
					res.Fail("oracle", caseLine, fmt.Sprintf("op %d: Response.Failed set=%v, but the failure strings in force %q and the result %q demand %v (operation strings %q, driver strings %q)",
						k, ob.failed, fw, ob.run.result, wantFailed, cs.ops[k].opFW, cs.drvFW), "failed-marking")
					bad = true
					break
				}
			}
			// a channel operation run by a callback function itself returns its own exchange
			for _, fr := range o.fires {
				if fr.op == k && fr.innerRan {
					count("inner-operation-ran")
					if want := cs.innerBody[cs.cbs[fr.idx].inner]; fr.innerErr != "" || fr.innerRes != want {
						res.Fail("oracle", caseLine, fmt.Sprintf("op %d: Channel.SendInput(%q) inside callback %d returned %q err %q, expected %q", k, cs.cbs[fr.idx].inner, fr.idx, fr.innerRes, fr.innerErr, want), "inner-operation-result")
						bad = true
					}
				}
			}
			if bad {
				break
			}
			switch {
			case cs.ops[k].optErr:
			case cs.ops[k].input != "" && cs.ops[k].writeErr == 1:
			case cs.ops[k].input != "" && cs.ops[k].writeErr == 2:
				wantWritten.WriteString(cs.ops[k].input)
			case cs.ops[k].input != "":
				wantWritten.WriteString(cs.ops[k].input + "\n")
			}
			for _, e := range gspec.events {
				cb := &cs.cbs[e.idx]
				if cb.nilFn || cb.fnErr {
					continue
				}
				if cb.inner != "" && !innerSeen[e.idx] {
					innerSeen[e.idx] = true
					wantWritten.WriteString(cb.inner + "\n")
				}
				if !cb.delayed && cb.reply != "" {
					wantWritten.WriteString(cb.reply + "\n")
				}
			}
			if k > 0 && o.ops[k].startAt < o.ops[k-1].emitted {
				count("next-operation-starts-with-leftover-output")
			}
			for _, fl := range []struct {
				on bool
				n  string
			}{{cs.ops[k].optErr, "op:option-error"}, {cs.ops[k].ignoredOpt, "op:foreign-options"}, {cs.ops[k].writeErr != 0, "op:write-fault"},
				{ob.armed, "op:read-fault-" + cs.readFault}, {cs.ops[k].opFW != nil, "op:failed-when"}, {cs.ops[k].input == "", "op:empty-input"}, {k > 0, fmt.Sprintf("op:number-%d", k+1)}} {
				if fl.on {
					count(fl.n)
				}
			}
		}
		if first {
			res.Case(strconv.FormatUint(cs.seed, 10), nontriv && allDom && !bad)
		}
		if bad {
			continue
		}
		if allDom {
			if first {
				res.InDomain++
			}
			if o.written != wantWritten.String() {
				res.Fail("oracle", caseLine, fmt.Sprintf("device received %q, expected %q", o.written, wantWritten.String()), "wrong-device-input")
			}
		}
		if i%197 == 0 && len(o.ops) > 0 {
			res.Sample(map[string]any{"case": caseLine, "kind": cs.kind, "callbacks": c18descCbs(cs), "arrivals": c18descArr(arrs[ref{i, 0}]),
				"observed": o.ops[0].run.String(), "dom": allDom})
		}
	}
	res.TracesVsImpl += len(cases)
	return retry
}

func c18selfCheck(cs *c18case, o *c18obs, arr func(int) []c18arrival) string {
	var all []byte
	for _, ch := range o.chunks {
		all = append(all, ch.Data...)
	}
	if !bytes.Equal(all, o.emittedRaw) {
		return fmt.Sprintf("chunk list %q, device stream %q", all, o.emittedRaw)
	}
	for _, f := range o.fires {
		if !f.innerRan {
			continue
		}
		var got, want []byte
		for ci := f.skipFrom; ci < f.skipTo && ci < len(o.chunks); ci++ {
			got = append(got, o.chunks[ci].Data...)
		}
		want = append(want, cs.cbs[f.idx].inner...)
		for _, ch := range cs.special[cs.cbs[f.idx].inner] {
			want = append(want, ch...)
		}
		if !bytes.Equal(got, want) {
			return fmt.Sprintf("chunks %d..%d attributed to callback %d's own operation are %q, its exchange is %q", f.skipFrom, f.skipTo, f.idx, got, want)
		}
		if f.consumed != f.skipTo {
			return fmt.Sprintf("callback %d: consumed %d after its own operation ended at %d", f.idx, f.consumed, f.skipTo)
		}
	}
	for k := range o.ops {
		if o.ops[k].skipped {
			continue
		}
		end := o.ops[k].emitted
		if o.ops[k].armed && o.ops[k].consumed < end {
			end = o.ops[k].consumed
		}
		var want, got []byte
		for ci := o.ops[k].startAt; ci < end && ci < len(o.chunks); ci++ {
			inner := false
			for _, f := range o.fires {
				inner = inner || (f.innerRan && f.skipFrom <= ci && ci < f.skipTo)
			}
			if !inner {
				want = append(want, o.chunks[ci].Data...)
			}
		}
		for _, a := range arr(k) {
			if a.gap == 0 || !o.ops[k].pendingLate {
				got = append(got, a.data...)
			}
		}
		if !bytes.HasPrefix(got, want) || (!o.ops[k].pendingLate && len(got) != len(want)) {
			return fmt.Sprintf("operation %d: arrivals carry %q, the device emitted %q for the loop", k, got, want)
		}
		if k > 0 && !o.ops[k-1].skipped && o.ops[k].startAt < o.ops[k-1].consumed {
			return fmt.Sprintf("operation %d starts at chunk %d, before the %d chunks operation %d consumed", k, o.ops[k].startAt, o.ops[k-1].consumed, k-1)
		}
	}
	return ""
}

// setupOrRead: endings that machine load cannot turn into a timeout (they do not wait for output)
func setupOrRead(o string) bool { return o == "opt" || o == "write" || o == "read" }

func c18prefix(a, b []c18event) bool {
	if len(a) > len(b) {
		return false
	}
	for i := range a {
		if a[i] != b[i] {
			return false
		}
	}
	return true
}

func c18descCbs(cs *c18case) string {
	var s []string
	for i, cb := range cs.cbs {
		d := fmt.Sprintf("#%d{", i)
		if cb.contains != "" {
			d += fmt.Sprintf("contains=%q ", cb.contains)
		}
		if cb.notContains != "" {
			d += fmt.Sprintf("not=%q ", cb.notContains)
		}
		if cb.reSrc != "" {
			d += fmt.Sprintf("re=%q ", cb.reSrc)
		}
		for _, fl := range []struct {
			on bool
			n  string
		}{{!cb.insensitive, "sensitive"}, {!cb.reset, "noreset"}, {cb.once, "once"}, {cb.complete, "complete"}, {cb.fnErr, "fails"}, {cb.nilFn, "nofn"}, {cb.delayed, "slow"}, {cb.viaOptions, "opts"}} {
			if fl.on {
				d += fl.n + " "
			}
		}
		if cb.nextTimeout != 0 {
			d += fmt.Sprintf("next=%d ", cb.nextTimeout)
		}
		if cb.inner != "" {
			d += fmt.Sprintf("runs=%q ", cb.inner)
		}
		if cb.reply != "" {
			d += fmt.Sprintf("reply=%q ", cb.reply)
		}
		s = append(s, strings.TrimSpace(d)+"}")
	}
	return strings.Join(s, " ")
}

func c18descArr(a []c18arrival) string {
	var s []string
	for _, x := range a {
		if x.gap != 0 {
			s = append(s, fmt.Sprintf("+%dms %q", x.gap, x.data))
		} else {
			s = append(s, fmt.Sprintf("%q", x.data))
		}
	}
	return "[" + strings.Join(s, " ") + "]"
}
