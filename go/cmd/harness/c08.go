package main

import (
	"bytes"
	"encoding/json"
	"errors"
	"fmt"
	"os"
	"os/exec"
	"regexp"
	"strconv"
	"strings"
	"sync"
	"time"

	"github.com/scrapli/scrapligo/driver/netconf"
	"github.com/scrapli/scrapligo/driver/opoptions"
	"github.com/scrapli/scrapligo/driver/options"
	"github.com/scrapli/scrapligo/util"

	"verifgo/facts"
	"verifgo/sim"
	"verifgo/vlib"
)

func init() { props["C08"] = runC08 }

// ---------------------------------------------------------------------------------------------
// plan

const c08IDToken = "@@ID@@"

type c08call struct {
	mode      int // 0 now, 1 late, 2 never
	payload   []byte
	chunks    []int
	before    []int // late replies of earlier calls emitted right before this call's reply
	after     []int
	release   []int // late replies released after this call returned (between calls)
	timeoutMs int
	// history elements: idleFactor*(previous call's timeout) of silence before this call;
	// useDefault = no per-operation timeout, the driver's TimeoutOps (plan.opsMs) is in force
	idleFactor int
	useDefault bool
	filter     string
	rogue      []byte // payload of an unsolicited extra message emitted before the reply (malformed stream)
	// coverage elements (own random stream, see c08AddCoverage)
	subID          int        // the reply itself carries <subscription-id>subID</subscription-id> (0: no)
	notifBefore    []c08notif // notifications emitted right before / right after the reply
	notifAfter     []c08notif
	notifBetween   []c08notif // ... after the call returned
	getSubs        []int      // GetSubscriptionMessages(id) after the call (and what follows it)
	writeFail      bool       // the client's first write of this call fails: the request never leaves
	writeFailFinal bool       // 1.1: the final return (third write) fails: the server has the request, the call fails
	marker         bool       // the payload carries the other version's end-of-message marker as data
}

// c08notif is one unsolicited message. sub = the subscription it belongs to (0: none); msgid != 0:
// its payload also carries the text message-id="msgid" (it is still not a reply to anything).
type c08notif struct {
	payload []byte
	chunks  []int
	sub     int
	msgid   int
}

type c08plan struct {
	name  string
	opsMs int // driver-level TimeoutOps (0: 2000 ms)
	// version matrix: what the server advertises and what the client prefers. matrix=false means
	// the plain cell (server advertises 1.0 plus 1.1 iff v11, no preference). v11 is always the
	// version that has to be selected.
	matrix         bool
	caps10, caps11 bool
	preferred      string
	v11            bool
	echo           int
	trailingLF     bool
	seg            []int
	calls          []c08call
	malformed      bool
	selfClose      bool  // options.WithNetconfForceSelfClosingTags
	subIDs         []int // subscription ids in use (GetSubscriptionMessages for each at the end)
	faultAt        int   // > 0: the transport starts failing every read right before call faultAt
	quotes         int   // directed: 1 = replies carry message-id='N', 2 = message-id = "N"
	// driver options the routing must not depend on (0 / "" = the library's default)
	searchDepth int    // options.WithPromptSearchDepth
	readDelayUs int    // options.WithReadDelay, microseconds (0: 50)
	readSize    int    // options.WithTransportReadSize
	returnChar  string // options.WithReturnChar (1.0, non-echoing sessions only)
}

func c08Payload(r *vlib.Rng, v11 bool, bait int) []byte {
	var b bytes.Buffer
	if r.Chance(1, 6) {
		b.WriteString(`<?xml version="1.0" encoding="UTF-8"?>` + "\n")
	}
	b.WriteString(`<rpc-reply xmlns="urn:ietf:params:xml:ns:netconf:base:1.0" message-id="` + c08IDToken + `">`)
	n := r.Intn(7)
	for i := 0; i < n; i++ {
		switch r.Intn(12) {
		case 0:
			b.WriteString("<ok/>")
		case 1:
			b.WriteString("<data>\n#" + strconv.Itoa(r.Intn(200)) + "\n</data>")
		case 2:
			b.WriteString(`<x message-id="` + strconv.Itoa(r.Intn(400)) + `"/>`)
		case 3:
			b.WriteString(`<y MESSAGE-ID="` + strconv.Itoa(100+r.Intn(30)) + `"/>`)
		case 4:
			b.WriteString("]]>]]")
		case 5:
			b.WriteString("<v>héllo ✓</v>")
		case 6:
			b.WriteString("\n#\n")
		case 7:
			b.WriteString(string(r.Bytes(r.Range(1, 60), []byte("abc#0123456789\n<>/ ]\"=-"))))
		case 8:
			b.WriteString("<rpc-error><error-severity>error</error-severity></rpc-error>")
		case 9:
			b.WriteString("</rpc-reply-ish>")
		default:
			b.WriteString("<x>" + strconv.Itoa(r.Intn(100000)) + "</x>")
		}
	}
	switch bait {
	case 1: // a payload line that is exactly "##" (known finding F2 when a read ends after it)
		b.WriteString("<a>line1\n##\nline3</a>")
	case 2:
		b.WriteString("<a>line1\n##tail\nline3</a>")
	case 3: // documented out-of-domain: the text "</rpc>" inside a reply
		b.WriteString("<a></rpc></a>")
	}
	b.WriteString("</rpc-reply>")
	out := b.Bytes()
	out = bytes.ReplaceAll(out, []byte("]]>]]>"), []byte("]]>]]"))
	if !v11 || bait == 0 {
		// keep random text from forming "##" lines by accident
		out = bytes.ReplaceAll(out, []byte("\n##"), []byte("\n#."))
	}
	return out
}

// c08KeepIDWhole merges chunk boundaries that fall inside ` message-id="<token>"` of the reply's
// own id attribute. The token is 6 bytes, the id 3: sizes are computed on the rendered payload.
func c08KeepIDWhole(payload []byte, chunks []int) []int {
	rendered := bytes.Replace(payload, []byte(c08IDToken), []byte("101"), 1)
	i := bytes.Index(rendered, []byte(`message-id="101"`))
	if i < 0 {
		return chunks
	}
	lo, hi := i, i+len(`message-id="101"`)
	var out []int
	pos := 0
	for _, k := range chunks {
		end := pos + k
		if pos >= len(rendered) {
			break
		}
		if end > len(rendered) {
			end = len(rendered)
		}
		if end > lo && end < hi { // boundary inside the attribute: extend this chunk past it
			end = hi
		}
		if end > pos {
			out = append(out, end-pos)
		}
		pos = end
	}
	return out
}

func c08Seg(r *vlib.Rng, echo bool) []int {
	n := r.Range(1, 12)
	out := make([]int, n)
	for i := range out {
		switch k := r.Intn(10); {
		case k < 5:
			out[i] = r.Range(24, 400)
		case k < 9:
			out[i] = r.Range(6, 24)
		default:
			out[i] = r.Range(1, 5)
		}
	}
	if r.Chance(1, 5) {
		out = []int{1 << 20} // everything available
	}
	return out
}

func c08GenPlan(r *vlib.Rng, maxCalls int) c08plan {
	p := c08plan{v11: r.Bool(), echo: r.Intn(3), trailingLF: r.Bool()}
	p.seg = c08Seg(r, p.echo != 0)
	n := r.Range(1, maxCalls)
	if r.Chance(1, 4) {
		n = r.Range(1, 4)
	}
	p.malformed = r.Chance(1, 6)
	var pendingLate []int
	for i := 0; i < n; i++ {
		c := c08call{timeoutMs: r.Range(40, 80)}
		switch k := r.Intn(10); {
		case k < 6:
			c.mode = 0
		case k < 9:
			c.mode = 1
		default:
			c.mode = 2
		}
		bait := 0
		if r.Chance(1, 30) {
			bait = r.Range(1, 2)
		} else if r.Chance(1, 400) {
			bait = 3
		}
		c.payload = c08Payload(r, p.v11, bait)
		if p.v11 {
			switch r.Intn(4) {
			case 0:
			case 1:
				c.chunks = r.Cuts(len(c.payload), 2)
			case 2:
				c.chunks = r.Cuts(len(c.payload), 3)
			default:
				c.chunks = []int{r.Range(1, 80), r.Range(1, 80)}
			}
			if !r.Chance(1, 12) {
				// usually keep the message-id attribute inside one chunk (splitting it is known finding F13)
				c.chunks = c08KeepIDWhole(c.payload, c.chunks)
			}
		}
		c.filter = "<f" + strconv.Itoa(i) + ">" + string(r.Bytes(r.Intn(120), []byte("abcdefghij klmnop"))) + "</f" + strconv.Itoa(i) + ">"
		// earlier late replies: release some here
		var keep []int
		for _, j := range pendingLate {
			switch k := r.Intn(6); {
			case k == 0:
				c.before = append(c.before, j)
			case k == 1 && p.echo != sim.C08EchoMerged:
				c.after = append(c.after, j)
			case k == 2:
				c.release = append(c.release, j)
			default:
				keep = append(keep, j)
			}
		}
		pendingLate = keep
		if c.mode == 1 {
			if r.Chance(1, 2) {
				c.release = append(c.release, i) // right after its own timeout
			} else {
				pendingLate = append(pendingLate, i)
			}
		}
		if p.malformed && r.Chance(1, 3) {
			switch r.Intn(5) {
			case 0:
				c.rogue = []byte(`<rpc-reply message-id="0"><ok/></rpc-reply>`)
			case 1:
				c.rogue = []byte(`<notification><eventTime>now</eventTime></notification>`)
			case 2: // an answer to a request that has not been made yet
				c.rogue = []byte(`<rpc-reply message-id="` + strconv.Itoa(101+i+1) + `"><early/></rpc-reply>`)
			case 3: // a second answer to an old request
				c.rogue = []byte(`<rpc-reply message-id="` + strconv.Itoa(101+r.Intn(i+1)) + `"><again/></rpc-reply>`)
			default:
				c.rogue = []byte(`<rpc-reply message-id="99999999999999999999999"><huge/></rpc-reply>`)
			}
		}
		p.calls = append(p.calls, c)
	}
	return p
}

// effective timeout of call k in ms (unscaled)
func (p c08plan) timeoutOf(k int) int {
	if p.calls[k].useDefault {
		if p.opsMs > 0 {
			return p.opsMs
		}
		return 2000
	}
	return p.calls[k].timeoutMs
}

// c08AddHistory decorates a plan with history elements, from its own random stream so that the
// base plan of a seed stays what it always was: idle gaps of 1x / 2x the previous call's timeout
// (after successes and after genuine timeouts), per-operation timeouts that differ from call to
// call (50..150 ms, long then short, short then long), calls that rely on the driver's TimeoutOps.
func c08AddHistory(p *c08plan, h *vlib.Rng) {
	if !h.Chance(1, 3) {
		return
	}
	if h.Chance(1, 3) {
		p.opsMs = 150
	}
	for k := range p.calls {
		c := &p.calls[k]
		switch h.Intn(4) {
		case 0:
			c.timeoutMs = h.Range(50, 70)
		case 1:
			c.timeoutMs = h.Range(120, 150)
		}
		if p.opsMs > 0 && h.Chance(1, 3) {
			c.useDefault = true
		}
		if k > 0 {
			switch g := h.Intn(20); {
			case g < 3:
				c.idleFactor = 1
			case g < 5:
				c.idleFactor = 2
			}
		}
	}
}

// c08AddMatrix picks a legal cell of server capabilities x preferred version whose outcome is the
// plan's version, and sometimes turns a merged echo into a coalesced (pty style) one. Own random
// stream: the base plan of a seed stays what it always was.
func c08AddMatrix(p *c08plan, h *vlib.Rng) {
	p.matrix = true
	if p.v11 {
		switch h.Intn(4) {
		case 0:
			p.caps10, p.caps11, p.preferred = false, true, ""
		case 1:
			p.caps10, p.caps11, p.preferred = false, true, "1.1"
		case 2:
			p.caps10, p.caps11, p.preferred = true, true, ""
		default:
			p.caps10, p.caps11, p.preferred = true, true, "1.1"
		}
	} else {
		switch h.Intn(3) {
		case 0:
			p.caps10, p.caps11, p.preferred = true, false, ""
		case 1:
			p.caps10, p.caps11, p.preferred = true, false, "1.0"
		default:
			p.caps10, p.caps11, p.preferred = true, true, "1.0"
		}
	}
	if p.echo == sim.C08EchoMerged && h.Bool() {
		p.echo = sim.C08EchoCoalesced
	}
}

func (p c08plan) cell() string {
	if !p.matrix {
		return "plain"
	}
	c := ""
	if p.caps10 {
		c += "1.0"
	}
	if p.caps11 {
		c += "+1.1"
	}
	pr := p.preferred
	if pr == "" {
		pr = "unset"
	}
	return "server=" + c + ",preferred=" + pr
}

func c08NotifPayload(sub, seq, msgid int, twoOnLine bool) []byte {
	var b bytes.Buffer
	b.WriteString(`<notification xmlns="urn:ietf:params:xml:ns:netconf:notification:1.0"><eventTime>2026-01-01T00:00:00Z</eventTime>`)
	b.WriteString(`<push-update xmlns="urn:ietf:params:xml:ns:yang:ietf-yang-push">`)
	if sub != 0 {
		b.WriteString(`<subscription-id>` + strconv.Itoa(sub) + `</subscription-id>`)
		if twoOnLine {
			// the pattern's greedy .* takes the LAST id of a line: same id again, so the routing is unambiguous
			b.WriteString(`<of><subscription-id>` + strconv.Itoa(sub) + `</subscription-id></of>`)
		}
	}
	b.WriteString("\n<seq>" + strconv.Itoa(seq) + "</seq>")
	if msgid != 0 {
		b.WriteString(`<about message-id="` + strconv.Itoa(msgid) + `"/>`)
	}
	b.WriteString(`</push-update></notification>`)
	return b.Bytes()
}

// c08AddCoverage decorates a plan with the elements the coverage review asked for, from its own
// random stream (the base plan of a seed stays what it always was): notifications interleaved with
// the replies (before / after a reply, between calls; with a subscription id, without one, with
// message-id text of an OLD request), replies that carry a subscription id, GetSubscriptionMessages
// calls, the ForceSelfClosingTags option, a client write that fails (the id is consumed, the
// request never leaves), a transport that starts failing every read in mid-session.
func c08AddCoverage(p *c08plan, h *vlib.Rng) {
	p.selfClose = h.Chance(1, 6)
	merged := p.echo == sim.C08EchoMerged || p.echo == sim.C08EchoCoalesced
	seq := 0
	if h.Chance(1, 3) && !p.malformed {
		p.subIDs = []int{7}
		if h.Bool() {
			p.subIDs = append(p.subIDs, 4242)
		}
		mk := func(k int) c08notif {
			seq++
			n := c08notif{sub: p.subIDs[h.Intn(len(p.subIDs))]}
			switch h.Intn(8) {
			case 0:
				n.sub = 0 // an unsolicited message of no subscription
			case 1:
				if k > 0 {
					n.msgid = 101 + h.Intn(k) // text of an OLD request's id (harmless: nobody waits for it)
				}
			}
			n.payload = c08NotifPayload(n.sub, seq, n.msgid, h.Chance(1, 5))
			if p.v11 && h.Chance(1, 4) {
				n.chunks = []int{bytes.IndexByte(n.payload, '>') + 1} // cut after the opening tag
			}
			return n
		}
		for k := range p.calls {
			c := &p.calls[k]
			if h.Chance(1, 4) {
				for i := h.Range(1, 2); i > 0; i-- {
					c.notifBefore = append(c.notifBefore, mk(k))
				}
			}
			if h.Chance(1, 5) && !merged {
				c.notifAfter = append(c.notifAfter, mk(k))
			}
			if h.Chance(1, 4) {
				for i := h.Range(1, 3); i > 0; i-- {
					c.notifBetween = append(c.notifBetween, mk(k))
				}
			}
			if h.Chance(1, 3) {
				c.getSubs = append(c.getSubs, p.subIDs[h.Intn(len(p.subIDs))])
			}
			if c.mode == 0 && c.rogue == nil && h.Chance(1, 6) {
				c.subID = p.subIDs[h.Intn(len(p.subIDs))]
				c.payload = []byte(`<rpc-reply xmlns="urn:ietf:params:xml:ns:netconf:base:1.0" message-id="` + c08IDToken +
					`"><subscription-result xmlns="urn:ietf:params:xml:ns:yang:ietf-event-notifications">ok</subscription-result>` +
					`<subscription-id>` + strconv.Itoa(c.subID) + `</subscription-id></rpc-reply>`)
				c.chunks = nil
			}
		}
	}
	for k := range p.calls {
		c := &p.calls[k]
		if c.mode == 2 && c.rogue == nil && len(c.before)+len(c.after) == 0 && h.Chance(1, 8) {
			c.writeFail = true
			c.notifBefore, c.notifAfter = nil, nil
		} else if p.v11 && p.echo <= sim.C08EchoSep && c.rogue == nil && k == len(p.calls)-1 && h.Chance(1, 5) {
			// only as the last call: scrapligo's final return doubles as the line feed that opens
			// the next request's first chunk, so after this failure the stream is no longer framed
			c.writeFailFinal = true
		}
	}
	if len(p.calls) >= 3 && h.Chance(1, 12) {
		p.faultAt = h.Range(1, len(p.calls)-1)
	}
}

const c08StdOpen = `<rpc-reply xmlns="urn:ietf:params:xml:ns:netconf:base:1.0" message-id="` + c08IDToken + `">`

// c08MoveID rewrites the opening tag of a generated reply so that the message-id attribute stands
// somewhere else: 1 first, 2 after k other attributes, 3 / 4 after >= 1000 / >= 5000 bytes of
// namespace declarations, 5 on an element with the nc: prefix.
func c08MoveID(payload []byte, kind int, h *vlib.Rng) []byte {
	i := bytes.Index(payload, []byte(c08StdOpen))
	if i < 0 || kind == 0 {
		return payload
	}
	id := `message-id="` + c08IDToken + `"`
	ns := `xmlns="urn:ietf:params:xml:ns:netconf:base:1.0"`
	var open string
	closeTag := ""
	switch kind {
	case 1:
		open = "<rpc-reply " + id + " " + ns + ">"
	case 2:
		open = "<rpc-reply " + ns
		for k, n := 0, h.Range(1, 40); k < n; k++ {
			open += fmt.Sprintf(` a%d="v%d"`, k, h.Intn(1000))
		}
		open += " " + id + ">"
	case 3, 4:
		want := 1000
		if kind == 4 {
			want = 5000
		}
		open = "<rpc-reply " + ns
		for k := 0; len(open) < want+40; k++ {
			open += fmt.Sprintf(` xmlns:m%d="urn:example:params:xml:ns:yang:module-%d"`, k, k)
			if k%7 == 6 {
				open += "\n  "
			}
		}
		open += " " + id + ">"
	default:
		open = `<nc:rpc-reply xmlns:nc="urn:ietf:params:xml:ns:netconf:base:1.0" ` + id + ">"
		closeTag = "</nc:rpc-reply>"
	}
	out := append(append(append([]byte{}, payload[:i]...), open...), payload[i+len(c08StdOpen):]...)
	if closeTag != "" {
		if j := bytes.LastIndex(out, []byte("</rpc-reply>")); j >= 0 {
			out = append(append(append([]byte{}, out[:j]...), closeTag...), out[j+len("</rpc-reply>"):]...)
		}
	}
	return out
}

// c08Filler is n bytes of harmless reply content (no delimiter, no line starting with #).
func c08Filler(n int, h *vlib.Rng) []byte {
	var b bytes.Buffer
	for k := 0; b.Len() < n; k++ {
		fmt.Fprintf(&b, "<interface><name>eth%d</name><mtu>%d</mtu><description>%s</description></interface>\n", k, 1000+h.Intn(9000), h.Bytes(h.Range(10, 60), []byte("abcdefghijklmnopqrstuvwxyz ")))
	}
	return b.Bytes()
}

// c08AddRouting decorates a plan with the dimensions the routing of a complete message must not
// depend on (own random stream): where in the reply the message-id attribute stands, how large the
// reply is, and the driver options PromptSearchDepth / ReadDelay / TransportReadSize / ReturnChar.
func c08AddRouting(p *c08plan, h *vlib.Rng, thorough bool) {
	for k := range p.calls {
		c := &p.calls[k]
		kind := 0
		switch g := h.Intn(40); {
		case g < 4:
			kind = 1
		case g < 10:
			kind = 2
		case g < 14:
			kind = 3
		case g == 14:
			kind = 4
		case g < 20:
			kind = 5
		}
		if kind != 0 && c.subID == 0 && bytes.Contains(c.payload, []byte(c08StdOpen)) {
			c.payload = c08MoveID(c.payload, kind, h)
			if p.v11 && len(c.chunks) > 0 {
				c.chunks = c08KeepIDWhole(c.payload, c.chunks)
			}
		}
	}
	switch h.Intn(6) {
	case 0:
		p.searchDepth = h.Range(16, 80)
	case 1:
		p.searchDepth = 1 << 20
	}
	switch h.Intn(8) {
	case 0:
		p.readSize = 64
	case 1:
		p.readSize = 1024
	case 2:
		p.readSize = 65535
	}
	switch h.Intn(10) {
	case 0:
		p.readDelayUs = 10
	case 1:
		p.readDelayUs = 500
	case 2:
		p.readDelayUs = 2000
	}
	if !p.v11 && p.echo == sim.C08EchoOff && p.faultAt == 0 && h.Chance(1, 3) {
		p.returnChar = h.Pick([]string{"\n\n", "\r\n"})
	}
	bigOdds := 30
	if thorough {
		bigOdds = 12
	}
	if h.Chance(1, bigOdds) && p.readSize != 64 {
		// one reply of 100..300 KB
		var cand []int
		for k, c := range p.calls {
			if c.mode == 0 && c.subID == 0 && !c.writeFail && !c.writeFailFinal && bytes.HasSuffix(c.payload, []byte("</rpc-reply>")) {
				cand = append(cand, k)
			}
		}
		if len(cand) > 0 {
			c := &p.calls[cand[h.Intn(len(cand))]]
			j := len(c.payload) - len("</rpc-reply>")
			c.payload = append(append(append([]byte{}, c.payload[:j]...), c08Filler(h.Range(100, 300)*1024, h)...), "</rpc-reply>"...)
			c.chunks = nil
			if p.v11 && h.Bool() {
				c.chunks = []int{h.Range(1000, 70000), h.Range(1000, 70000)}
				c.chunks = c08KeepIDWhole(c.payload, c.chunks)
			}
			c.timeoutMs, c.useDefault = 4000, false
			p.seg = []int{1 << 20}
			if p.readDelayUs > 500 {
				p.readDelayUs = 500
			}
		}
	}
	if p.readDelayUs >= 500 {
		// slow polling: few reads per message and timeouts that leave room for them
		p.seg = []int{1 << 20}
		for k := range p.calls {
			if p.calls[k].timeoutMs < 250 {
				p.calls[k].timeoutMs = 250
			}
		}
		if p.opsMs > 0 && p.opsMs < 250 {
			p.opsMs = 250
		}
	}
}

// c08InsertMarker puts the OTHER version's end-of-message marker into a reply payload as data:
// `]]>]]>` into a 1.1 payload (comment, attribute-like text, CDATA, processing instruction),
// a line that is exactly `##` into a 1.0 payload. pos: 0 right after the opening tag, 1 right
// before the closing tag, 2 after the root element. Returns the payload and the offset of the
// marker (-1: payload shape not recognised).
func c08InsertMarker(payload []byte, v11 bool, pos, form int) ([]byte, int) {
	i := bytes.Index(payload, []byte(`message-id="`+c08IDToken+`"`))
	if i < 0 {
		return payload, -1
	}
	gt := bytes.IndexByte(payload[i:], '>')
	cl := bytes.LastIndex(payload, []byte("</"))
	if gt < 0 || cl < i+gt {
		return payload, -1
	}
	marker := "]]>]]>"
	if !v11 {
		marker = "\n##\n"
	}
	var ins string
	switch form % 4 {
	case 0:
		ins = "<!-- " + marker + " -->"
	case 1:
		ins = "<note>end of data " + marker + "</note>"
	case 2:
		ins = "<![CDATA[x" + marker + "y]]>"
	default:
		ins = "<?marker " + marker + "?>"
	}
	at := i + gt + 1
	switch pos % 3 {
	case 1:
		at = cl
	case 2:
		at = len(payload)
		if form%4 == 1 || form%4 == 2 {
			ins = "<?marker " + marker + "?>" // only comments and PIs may follow the root element
		}
	}
	out := append(append(append([]byte{}, payload[:at]...), ins...), payload[at:]...)
	return out, at + strings.Index(ins, marker)
}

// c08AddMarkers: own random stream. About one call in eight carries the other version's marker
// as data; in 1.1 sometimes with a chunk boundary inside the marker.
func c08AddMarkers(p *c08plan, h *vlib.Rng) {
	for k := range p.calls {
		c := &p.calls[k]
		if !h.Chance(1, 8) || c.subID != 0 || len(c.payload) > 50000 {
			continue
		}
		out, at := c08InsertMarker(c.payload, p.v11, h.Intn(3), h.Intn(4))
		if at < 0 {
			continue
		}
		c.payload = out
		c.marker = true
		if p.v11 {
			switch h.Intn(3) {
			case 0:
				c.chunks = c08KeepIDWhole(c.payload, []int{at - 3 + h.Range(1, 5), 1 << 30}) // the token is 3 bytes longer than the id
			case 1:
				if len(c.chunks) > 0 {
					c.chunks = c08KeepIDWhole(c.payload, c.chunks)
				}
			}
		}
	}
}

func c08HistoryPlan(name string, v11 bool, echo int, spec []int) c08plan {
	// spec: per call 4 numbers: mode, timeoutMs (0 = driver TimeoutOps), idleFactor
	p := c08plan{name: name, v11: v11, echo: echo, seg: []int{1 << 20}, opsMs: 150}
	for i := 0; i+2 < len(spec); i += 3 {
		c := c08call{mode: spec[i], timeoutMs: spec[i+1], idleFactor: spec[i+2], filter: "<a/>",
			payload: []byte(`<rpc-reply message-id="` + c08IDToken + `"><ok/></rpc-reply>`)}
		if c.timeoutMs == 0 {
			c.useDefault = true
			c.timeoutMs = 150
		}
		p.calls = append(p.calls, c)
	}
	return p
}

// directed plans keep the two known findings (and their healthy neighbours) in every run
func c08Directed(name string) (c08plan, bool) {
	pl := func(id string, extra string) []byte {
		return []byte(`<rpc-reply message-id="` + id + `">` + extra + `</rpc-reply>`)
	}
	two := func(p c08plan, payload []byte, chunks []int) c08plan {
		for i := 0; i < 3; i++ {
			p.calls = append(p.calls, c08call{mode: 0, payload: payload, chunks: chunks, timeoutMs: 60, filter: "<a/>"})
		}
		return p
	}
	three := func(p c08plan) c08plan {
		p.seg = append(p.seg, 1<<20)
		for i := 0; i < 3; i++ {
			p.calls = append(p.calls, c08call{mode: 0, timeoutMs: 60, filter: "<a/>",
				payload: []byte(`<rpc-reply message-id="` + c08IDToken + `"><ok/></rpc-reply>`)})
		}
		return p
	}
	okPayload := []byte(`<rpc-reply message-id="` + c08IDToken + `"><ok/></rpc-reply>`)
	mkCalls := func(p c08plan, modes ...int) c08plan {
		if len(p.seg) == 0 {
			p.seg = []int{1 << 20}
		}
		for _, m := range modes {
			p.calls = append(p.calls, c08call{mode: m, timeoutMs: 60, filter: "<a/>", payload: okPayload})
		}
		return p
	}
	stdPayload := func(extra string) []byte { return []byte(c08StdOpen + "<ok/>" + extra + "</rpc-reply>") }
	switch name {
	case "v11-payload-contains-v10-delimiter", "v10-payload-contains-hash-hash-line":
		v11 := name == "v11-payload-contains-v10-delimiter"
		p := mkCalls(c08plan{name: name, v11: v11, echo: sim.C08EchoSep}, 0, 0, 0, 0, 1, 0)
		for k := range p.calls {
			out, at := c08InsertMarker(stdPayload(""), v11, k, k+1)
			p.calls[k].payload, p.calls[k].marker = out, true
			if v11 && k == 3 {
				p.calls[k].chunks = []int{at, 1 << 30} // a chunk boundary inside the marker (the token is 3 bytes longer than the id)
			}
		}
		p.calls[5].before = []int{4}
		return p, true
	case "id-after-1000-bytes-of-xmlns-10", "id-after-1000-bytes-of-xmlns-11", "id-after-5000-bytes-of-xmlns-11", "id-on-nc-prefixed-reply", "id-after-40-attributes":
		p := mkCalls(c08plan{name: name, v11: !strings.HasSuffix(name, "-10")}, 0, 1, 0)
		kind := map[string]int{"id-after-1000-bytes-of-xmlns-10": 3, "id-after-1000-bytes-of-xmlns-11": 3, "id-after-5000-bytes-of-xmlns-11": 4, "id-on-nc-prefixed-reply": 5, "id-after-40-attributes": 2}[name]
		h := vlib.NewRng(uint64(kind))
		for k := range p.calls {
			p.calls[k].payload = c08MoveID(stdPayload(""), kind, h)
		}
		p.calls[2].before = []int{1}
		return p, true
	case "search-depth-tiny-10", "search-depth-tiny-11", "search-depth-huge":
		p := mkCalls(c08plan{name: name, v11: name != "search-depth-tiny-10", searchDepth: 40, echo: sim.C08EchoSep}, 0, 0, 1, 0)
		if name == "search-depth-huge" {
			p.searchDepth = 1 << 20
		}
		for k := range p.calls {
			p.calls[k].payload = stdPayload("")
		}
		p.calls[3].before = []int{2}
		return p, true
	case "read-size-64-read-delay-10us":
		p := mkCalls(c08plan{name: name, v11: true, readSize: 64, readDelayUs: 10}, 0, 0, 0)
		for k := range p.calls {
			p.calls[k].payload = stdPayload("<data>x</data>")
		}
		return p, true
	case "return-char-crlf-10":
		p := mkCalls(c08plan{name: name, v11: false, returnChar: "\r\n"}, 0, 1, 0)
		p.calls[1].release = []int{1}
		return p, true
	case "reply-of-300-kilobytes-10", "reply-of-300-kilobytes-11":
		p := mkCalls(c08plan{name: name, v11: strings.HasSuffix(name, "-11")}, 0, 0, 0)
		h := vlib.NewRng(7)
		p.calls[1].payload = stdPayload(string(c08Filler(300*1024, h)))
		p.calls[1].timeoutMs = 4000
		if p.v11 {
			p.calls[1].chunks = []int{65000, 65000, 65000}
		}
		return p, true
	case "notif-interleaved-10", "notif-interleaved-11":
		p := mkCalls(c08plan{name: name, v11: name == "notif-interleaved-11", echo: sim.C08EchoSep, subIDs: []int{7, 4242}, seg: []int{37, 1 << 20}}, 0, 1, 0, 2, 0)
		n := func(sub, seq, msgid int) c08notif {
			return c08notif{sub: sub, msgid: msgid, payload: c08NotifPayload(sub, seq, msgid, seq%3 == 0)}
		}
		p.calls[0].notifBefore = []c08notif{n(7, 1, 0), n(4242, 2, 0)}
		p.calls[0].notifAfter = []c08notif{n(7, 3, 0)}
		p.calls[1].notifBetween = []c08notif{n(0, 4, 0), n(7, 5, 0), n(4242, 6, 0)}
		p.calls[1].release = []int{1}
		p.calls[1].getSubs = []int{7}
		p.calls[2].subID = 4242
		p.calls[2].payload = []byte(`<rpc-reply message-id="` + c08IDToken + `"><subscription-id>4242</subscription-id></rpc-reply>`)
		p.calls[2].notifBefore = []c08notif{n(7, 7, 0)}
		p.calls[3].notifBefore = []c08notif{n(4242, 8, 0)}
		p.calls[4].notifAfter = []c08notif{n(7, 9, 0), n(7, 10, 0)}
		p.calls[4].getSubs = []int{4242}
		return p, true
	case "notif-with-old-message-id-text":
		// harmless: the text names a request nobody waits for any more
		p := mkCalls(c08plan{name: name, v11: false, subIDs: []int{7}}, 0, 0, 0)
		p.calls[2].notifBefore = []c08notif{{sub: 7, msgid: 101, payload: c08NotifPayload(7, 1, 101, false)}}
		return p, true
	case "notif-with-live-message-id-text":
		// a notification whose payload carries the text message-id="102" arrives while nobody waits
		// for 102 yet; request 102 is made next
		p := mkCalls(c08plan{name: name, v11: true, subIDs: []int{7}}, 0, 0, 0)
		p.calls[0].notifBetween = []c08notif{{sub: 7, msgid: 102, payload: c08NotifPayload(7, 1, 102, false)}}
		return p, true
	case "id-single-quotes":
		return mkCalls(c08plan{name: name, v11: false, quotes: 1}, 0, 0), true
	case "id-spaces-around-equals":
		return mkCalls(c08plan{name: name, v11: true, quotes: 2}, 0, 0), true
	case "ids-beyond-1000":
		p := c08plan{name: name, v11: true}
		modes := make([]int, 1100)
		p = mkCalls(p, modes...)
		p.calls[1050].mode = 1
		p.calls[1051].before = []int{1050}
		return p, true
	case "write-failure-consumes-id":
		p := mkCalls(c08plan{name: name, v11: false, echo: sim.C08EchoSep}, 0, 2, 0, 2, 2, 0)
		p.calls[1].writeFail = true
		p.calls[3].writeFail = true
		p.calls[4].writeFail = true
		return p, true
	case "final-return-write-fails-11":
		// the reply to the failed call still arrives (the server had the whole request): it is
		// filed under its id and must not reach anybody else
		p := mkCalls(c08plan{name: name, v11: true, echo: sim.C08EchoSep}, 0, 1, 0)
		p.calls[2].writeFailFinal = true
		p.calls[2].before = []int{1}
		return p, true
	case "read-fault-midsession":
		p := mkCalls(c08plan{name: name, v11: true, faultAt: 2}, 0, 1, 0, 0)
		return p, true
	case "late-replies-out-of-order":
		// four calls time out; their replies come back later in the order 3,1,4,2 next to the reply of a fifth
		p := mkCalls(c08plan{name: name, v11: true, echo: sim.C08EchoSep}, 1, 1, 1, 1, 0, 0)
		p.calls[4].before = []int{2, 0}
		p.calls[4].after = []int{3, 1}
		return p, true
	case "force-self-closing-tags":
		return mkCalls(c08plan{name: name, v11: true, selfClose: true, echo: sim.C08EchoCoalesced}, 0, 0, 1, 0), true
	case "matrix-both-preferred-10":
		return three(c08plan{name: name, v11: false, matrix: true, caps10: true, caps11: true, preferred: "1.0"}), true
	case "matrix-both-preferred-11":
		return three(c08plan{name: name, v11: true, matrix: true, caps10: true, caps11: true, preferred: "1.1", echo: sim.C08EchoSep}), true
	case "matrix-both-unset":
		return three(c08plan{name: name, v11: true, matrix: true, caps10: true, caps11: true}), true
	case "matrix-11-only":
		return three(c08plan{name: name, v11: true, matrix: true, caps11: true}), true
	case "matrix-10-only-preferred-10":
		return three(c08plan{name: name, v11: false, matrix: true, caps10: true, preferred: "1.0"}), true
	case "echo-coalesced-10":
		return three(c08plan{name: name, v11: false, echo: sim.C08EchoCoalesced}), true
	case "echo-coalesced-11":
		return three(c08plan{name: name, v11: true, echo: sim.C08EchoCoalesced}), true
	case "echo-coalesced-part-of-reply":
		// 1.1: the first read ends inside the reply, the rest follows, then silence
		return three(c08plan{name: name, v11: true, echo: sim.C08EchoCoalesced, seg: []int{150}}), true
	case "echo-coalesced-split-echo":
		return three(c08plan{name: name, v11: false, echo: sim.C08EchoCoalesced, seg: []int{40, 90}}), true
	case "hist-idle-after-success-10":
		return c08HistoryPlan(name, false, 0, []int{0, 100, 0, 0, 100, 1, 0, 100, 2, 0, 100, 0}), true
	case "hist-idle-after-success-11":
		return c08HistoryPlan(name, true, 0, []int{0, 100, 0, 0, 100, 2, 0, 100, 1, 0, 100, 0}), true
	case "hist-idle-default-timeout":
		return c08HistoryPlan(name, true, sim.C08EchoSep, []int{0, 0, 0, 0, 0, 1, 0, 0, 2, 2, 0, 0, 0, 0, 1}), true
	case "hist-idle-after-timeout":
		return c08HistoryPlan(name, false, 0, []int{2, 60, 0, 0, 60, 1, 2, 60, 0, 0, 60, 2, 1, 60, 0, 0, 60, 1}), true
	case "hist-short-then-long":
		return c08HistoryPlan(name, true, 0, []int{0, 50, 0, 0, 150, 1, 0, 50, 0, 0, 150, 2, 2, 50, 0, 0, 150, 1}), true
	case "hist-long-then-short":
		return c08HistoryPlan(name, false, sim.C08EchoMerged, []int{0, 150, 0, 0, 50, 0, 0, 150, 0, 0, 50, 1, 2, 150, 0, 0, 50, 0, 0, 50, 2}), true
	case "hist-many-in-a-row":
		var spec []int
		for i := 0; i < 25; i++ {
			spec = append(spec, 0, 60+10*(i%4), 0)
		}
		spec[3*12+2] = 1
		return c08HistoryPlan(name, true, 0, spec), true
	case "f13-split-id":
		return two(c08plan{name: name, v11: true, seg: []int{1 << 20}}, pl(c08IDToken, "<ok/>"), []int{5, 7, 9}), true
	case "f13-split-id-echo":
		return two(c08plan{name: name, v11: true, echo: sim.C08EchoSep, seg: []int{1 << 20}}, pl(c08IDToken, "<ok/>"), []int{20, 3}), true
	case "chunked-id-intact":
		return two(c08plan{name: name, v11: true, seg: []int{7}}, pl(c08IDToken, "<ok/>"), []int{11, 18, 4}), true
	case "f2-hashhash-cut":
		// "\n#61\n" + 32 bytes up to and including "line1\n##": the read ends right after the "##" line
		return two(c08plan{name: name, v11: true, seg: []int{5 + 39, 1 << 20, 1 << 20}}, pl(c08IDToken, "<a>line1\n##\nline3</a>"), nil), true
	case "f2-hashhash-whole":
		return two(c08plan{name: name, v11: true, seg: []int{1 << 20}}, pl(c08IDToken, "<a>line1\n##\nline3</a>"), nil), true
	case "f2-hashhash-prefix-cut":
		return two(c08plan{name: name, v11: true, seg: []int{5 + 39, 1 << 20, 1 << 20}}, pl(c08IDToken, "<a>line1\n##tail\nline3</a>"), nil), true
	}
	return c08plan{}, false
}

var c08DirectedNames = []string{"v11-payload-contains-v10-delimiter", "v10-payload-contains-hash-hash-line", "id-after-1000-bytes-of-xmlns-10", "id-after-1000-bytes-of-xmlns-11", "id-after-5000-bytes-of-xmlns-11", "id-on-nc-prefixed-reply",
	"id-after-40-attributes", "search-depth-tiny-10", "search-depth-tiny-11", "search-depth-huge", "read-size-64-read-delay-10us", "return-char-crlf-10",
	"reply-of-300-kilobytes-10", "reply-of-300-kilobytes-11", "notif-interleaved-10", "notif-interleaved-11", "notif-with-old-message-id-text", "notif-with-live-message-id-text", "id-single-quotes",
	"id-spaces-around-equals", "ids-beyond-1000", "write-failure-consumes-id", "final-return-write-fails-11", "read-fault-midsession", "late-replies-out-of-order",
	"force-self-closing-tags", "matrix-both-preferred-10", "matrix-both-preferred-11", "matrix-both-unset", "matrix-11-only",
	"matrix-10-only-preferred-10", "echo-coalesced-10", "echo-coalesced-11", "echo-coalesced-part-of-reply", "echo-coalesced-split-echo",
	"hist-idle-after-success-10", "hist-idle-after-success-11", "hist-idle-default-timeout",
	"hist-idle-after-timeout", "hist-short-then-long", "hist-long-then-short", "hist-many-in-a-row", "f13-split-id", "f13-split-id-echo", "chunked-id-intact", "f2-hashhash-cut", "f2-hashhash-whole", "f2-hashhash-prefix-cut"}

// ---------------------------------------------------------------------------------------------
// execution against the real driver

type c08outcome struct {
	class   string // nil | timeout | connection | netconf | operation | other | panic
	elapsed time.Duration
	limit   time.Duration // the timeout in force for the call
	raw     []byte
	res     string
}

type c08unit struct {
	kind         string // E R ER N X (N = notification / unsolicited well-formed message, X = unsolicited bytes outside every hypothesis)
	sub          int    // the subscription id the message declares (0: none)
	nmsgid       int    // N: message-id text the notification carries (0: none)
	ebody, etail []byte
	to           int // message-id the server saw in the request this reply answers
	toIdx        int
	body, tail   []byte
	start, end   int
	chunks       [][]byte
	phase        int // 2*k = during call k, 2*k+1 = after call k returned
}

type c08run struct {
	plan       c08plan
	openErr    error
	version    string
	srvVersion string
	outcomes   []c08outcome
	reqIDs     []int // per CALL: the message-id the server saw in its request (-1: the request never arrived)
	reqOK      []bool
	subGot     map[int][][]byte // per subscription id: everything GetSubscriptionMessages returned, in call order
	units      []c08unit
	aligned    bool
	nreads     int
	note       string
}

func c08ErrClass(err error) string {
	switch {
	case err == nil:
		return "nil"
	case errors.Is(err, util.ErrTimeoutError):
		return "timeout"
	case errors.Is(err, util.ErrConnectionError):
		return "connection"
	case errors.Is(err, util.ErrNetconfError):
		return "netconf"
	case errors.Is(err, util.ErrOperationError):
		return "operation"
	}
	return "other"
}

func c08AllLF(b []byte) bool {
	for _, c := range b {
		if c != '\n' {
			return false
		}
	}
	return true
}

func c08Execute(p c08plan, tscale int) (run c08run) {
	run.plan = p
	caps10, caps11 := true, p.v11
	if p.matrix {
		caps10, caps11 = p.caps10, p.caps11
	}
	srv := sim.NewC08ServerCaps(caps10, caps11)
	srv.TrailingLF = p.trailingLF
	var notifs []c08notif // tag -> notification
	tagOf := func(ns []c08notif) []sim.C08Notif {
		var out []sim.C08Notif
		for _, n := range ns {
			notifs = append(notifs, n)
			out = append(out, sim.C08Notif{Payload: n.payload, Chunks: n.chunks, Tag: len(notifs) - 1})
		}
		return out
	}
	for _, c := range p.calls {
		pay := c.payload
		switch p.quotes {
		case 1:
			pay = bytes.Replace(pay, []byte(`message-id="`+c08IDToken+`"`), []byte(`message-id='`+c08IDToken+`'`), 1)
		case 2:
			pay = bytes.Replace(pay, []byte(`message-id="`+c08IDToken+`"`), []byte(`message-id = "`+c08IDToken+`"`), 1)
		}
		srv.Plans = append(srv.Plans, sim.C08Plan{Mode: c.mode, Payload: pay, Chunks: c.chunks, Before: c.before, After: c.after,
			NotifBefore: tagOf(c.notifBefore), NotifAfter: tagOf(c.notifAfter)})
	}
	for k, c := range p.calls {
		if !c.writeFail {
			srv.PlanOrder = append(srv.PlanOrder, k)
		}
		if c.writeFailFinal {
			if srv.FailFinalWrite == nil {
				srv.FailFinalWrite = map[int]bool{}
			}
			srv.FailFinalWrite[k] = true
		}
	}
	srv.Rogue = map[int][]byte{}
	for i, c := range p.calls {
		if c.rogue != nil {
			srv.Rogue[i] = c.rogue
		}
	}
	srv.IDToken = []byte(c08IDToken)
	srv.Start()
	rd := 50
	if p.readDelayUs > 0 {
		rd = p.readDelayUs
	}
	dopts := []util.Option{options.WithCustomTransport(srv), options.WithAuthBypass(),
		options.WithTimeoutOps(2 * time.Second), options.WithReadDelay(time.Duration(rd) * time.Microsecond)}
	if p.searchDepth > 0 {
		dopts = append(dopts, options.WithPromptSearchDepth(p.searchDepth))
	}
	if p.readSize > 0 {
		dopts = append(dopts, options.WithTransportReadSize(p.readSize))
	}
	if p.returnChar != "" {
		dopts = append(dopts, options.WithReturnChar(p.returnChar))
	}
	if p.matrix && p.preferred != "" {
		dopts = append(dopts, options.WithNetconfPreferredVersion(p.preferred))
	}
	if p.selfClose {
		dopts = append(dopts, options.WithNetconfForceSelfClosingTags())
	}
	d, err := netconf.NewDriver("h", dopts...)

	if err != nil {
		run.openErr = err
		return run
	}
	if err = d.Open(); err != nil {
		run.openErr = err
		return run
	}
	run.version = d.SelectedVersion
	srv.Snapshot(func() { run.srvVersion = srv.Version })
	// let the hello exchange drain, then switch on echo / segmentation / logging
	for i := 0; i < 2000 && !srv.Quiet(); i++ {
		time.Sleep(100 * time.Microsecond)
	}
	seg := p.seg
	si := 0
	srv.Snapshot(func() {
		srv.Seg = func(int) int {
			v := seg[si%len(seg)]
			si++
			return v
		}
	})
	srv.EchoMode = p.echo
	srv.StartLog()
	phaseEnd := []int{} // number of segments logged at the end of each phase
	snap := func() {
		srv.Snapshot(func() { phaseEnd = append(phaseEnd, len(srv.Segs)) })
	}
	waitQuiet := func() {
		for i := 0; i < 20000 && !srv.Quiet(); i++ {
			time.Sleep(100 * time.Microsecond)
		}
		time.Sleep(time.Millisecond)
	}
	if p.opsMs > 0 {
		d.Channel.TimeoutOps = time.Duration(p.opsMs*tscale) * time.Millisecond
	}
	run.subGot = map[int][][]byte{}
	for k, c := range p.calls {
		if p.faultAt > 0 && k == p.faultAt {
			// the transport dies: every read fails from here on, the server says nothing any more
			srv.Snapshot(func() {
				srv.Mute = true
				srv.ErrAt = srv.Delivered
				srv.Wake()
			})
		}
		if c.writeFail {
			srv.Snapshot(func() { srv.WriteErrAfter = srv.Written })
		}
		if k > 0 && c.idleFactor > 0 {
			// the session idles: nothing is sent, nothing arrives
			time.Sleep(time.Duration(c.idleFactor*p.timeoutOf(k-1)*tscale+15) * time.Millisecond)
		}
		var o c08outcome
		o.limit = time.Duration(p.timeoutOf(k)*tscale) * time.Millisecond
		func() {
			defer func() {
				if r := recover(); r != nil {
					o.class = "panic"
					o.res = fmt.Sprint(r)
				}
			}()
			opts := []util.Option{opoptions.WithFilter(c.filter)}
			if !c.useDefault {
				opts = append(opts, opoptions.WithTimeoutOps(time.Duration(c.timeoutMs*tscale)*time.Millisecond))
			}
			t0 := time.Now()
			rr, err := d.RPC(opts...)
			o.elapsed = time.Since(t0)
			o.class = c08ErrClass(err)
			if err == nil && rr != nil {
				o.raw = append([]byte{}, rr.RawResult...)
				o.res = rr.Result
			} else if err != nil {
				o.res = err.Error()
			}
		}()
		run.outcomes = append(run.outcomes, o)
		if c.writeFail || c.writeFailFinal {
			srv.Snapshot(func() { srv.WriteErrAfter = -1 })
		}
		waitQuiet()
		snap()
		for _, j := range c.release {
			srv.ReleaseLate(j)
		}
		for _, n := range tagOf(c.notifBetween) {
			srv.EmitNotification(n)
		}
		waitQuiet()
		snap()
		for _, id := range c.getSubs {
			time.Sleep(time.Duration(tscale) * time.Millisecond)
			run.subGot[id] = append(run.subGot[id], d.GetSubscriptionMessages(id)...)
		}
	}
	time.Sleep(2 * time.Millisecond)
	// collect what is left in the subscription store; the read loop may still be working through
	// its queue, so ask until the expected number of messages has come out (bounded)
	for _, id := range p.subIDs {
		want := 0
		for _, n := range notifs {
			if n.sub == id {
				want++
			}
		}
		for k, c := range p.calls {
			if c.subID == id && c.mode == 0 && !c.writeFail && !(p.faultAt > 0 && k >= p.faultAt) {
				want++
			}
		}
		for i := 0; i < 150*tscale; i++ {
			run.subGot[id] = append(run.subGot[id], d.GetSubscriptionMessages(id)...)
			if len(run.subGot[id]) >= want || p.faultAt > 0 {
				break
			}
			time.Sleep(2 * time.Millisecond)
		}
	}
	closed := make(chan error, 1)
	go func() { closed <- d.Close() }()
	select {
	case <-closed:
	case <-time.After(3 * time.Second):
		run.note = "close-hung"
	}
	segs, reads, total := srv.Stream()
	for k := range p.calls {
		id, ok := srv.RequestIDOf(k)
		run.reqIDs = append(run.reqIDs, id)
		run.reqOK = append(run.reqOK, ok)
	}
	run.nreads = len(reads)
	// group the emitted segments into units
	phaseOf := func(segIdx int) int {
		for ph, e := range phaseEnd {
			if segIdx < e {
				return ph
			}
		}
		return len(phaseEnd)
	}
	var stream []byte
	for i, s := range segs {
		start := len(stream)
		stream = append(stream, s.Body...)
		stream = append(stream, s.Tail...)
		last := len(run.units) - 1
		switch {
		case s.Kind == "echo" && c08AllLF(s.Body) && last >= 0:
			u := &run.units[last]
			switch u.kind {
			case "E":
				u.etail = append(u.etail, s.Body...)
			case "X":
				u.body = append(u.body, s.Body...)
			default:
				u.tail = append(u.tail, s.Body...)
			}
			u.end = len(stream)
		case s.Kind == "echo":
			run.units = append(run.units, c08unit{kind: "E", ebody: s.Body, start: start, end: len(stream), phase: phaseOf(i)})
		case s.Kind == "msg":
			n := notifs[s.To]
			run.units = append(run.units, c08unit{kind: "N", sub: n.sub, nmsgid: n.msgid, toIdx: -1, body: s.Body, tail: append([]byte{}, s.Tail...), start: start, end: len(stream), phase: phaseOf(i)})
		case s.Kind == "rogue":
			run.units = append(run.units, c08unit{kind: "X", body: append(append([]byte{}, s.Body...), s.Tail...), start: start, end: len(stream), phase: phaseOf(i)})
		default:
			to := 0
			if s.To < len(run.reqIDs) && run.reqIDs[s.To] > 0 {
				to = run.reqIDs[s.To]
			}
			sub := 0
			if s.To < len(p.calls) {
				sub = p.calls[s.To].subID
			}
			if s.Merged && last >= 0 && run.units[last].kind == "E" {
				u := &run.units[last]
				u.kind, u.to, u.toIdx, u.body, u.tail, u.end, u.sub = "ER", to, s.To, s.Body, append([]byte{}, s.Tail...), len(stream), sub
			} else {
				run.units = append(run.units, c08unit{kind: "R", sub: sub, to: to, toIdx: s.To, body: s.Body, tail: append([]byte{}, s.Tail...), start: start, end: len(stream), phase: phaseOf(i)})
			}
		}
	}
	// cut the stream into the reads that delivered it and hand each unit its chunks
	run.aligned = len(stream) == total
	pos, ui := 0, 0
	for _, n := range reads {
		for ui < len(run.units) && pos >= run.units[ui].end {
			ui++
		}
		if ui >= len(run.units) || pos+n > run.units[ui].end || pos+n > len(stream) {
			run.aligned = false
			break
		}
		run.units[ui].chunks = append(run.units[ui].chunks, stream[pos:pos+n])
		pos += n
	}
	if pos != len(stream) {
		run.aligned = false
	}
	return run
}

// ---------------------------------------------------------------------------------------------
// script for the model

// c08Script renders the session for the model. resetAfter (counterfactual only) marks units
// after whose delivery the model's read-loop buffer is emptied.
// idleEvery: an idle read-loop iteration (empty read) after every read instead of only between
// bursts. Whether the loop idles between two reads is scheduling; it cannot matter inside the
// theorems' hypotheses, but it can move the cut point of a known-finding (F2) truncation.
func c08Script(run c08run, resetAfter map[int]bool, idleEvery bool) string {
	var items []string
	ui := 0
	emitPhase := func(ph int, poll bool) {
		for ui < len(run.units) && run.units[ui].phase <= ph {
			u := run.units[ui]
			var cs [][]byte
			for _, ch := range u.chunks {
				cs = append(cs, ch)
				if idleEvery {
					cs = append(cs, []byte{})
				}
			}
			cs = append(cs, []byte{}) // the read loop idles between bursts
			switch u.kind {
			case "E":
				items = append(items, fmt.Sprintf("D|E:%s:%s|%s", vlib.Hex(u.ebody), vlib.Hex(u.etail), vlib.HexList(cs)))
			case "R":
				if u.sub != 0 {
					items = append(items, fmt.Sprintf("D|M:%d:%d:%s:%s|%s", u.to, u.sub, vlib.Hex(u.body), vlib.Hex(u.tail), vlib.HexList(cs)))
				} else {
					items = append(items, fmt.Sprintf("D|R:%d:%s:%s|%s", u.to, vlib.Hex(u.body), vlib.Hex(u.tail), vlib.HexList(cs)))
				}
			case "N":
				items = append(items, fmt.Sprintf("D|M:0:%d:%s:%s|%s", u.sub, vlib.Hex(u.body), vlib.Hex(u.tail), vlib.HexList(cs)))
			case "ER":
				if u.sub != 0 {
					items = append(items, fmt.Sprintf("D|EM:%s:%s:%d:%d:%s:%s|%s", vlib.Hex(u.ebody), vlib.Hex(u.etail), u.to, u.sub, vlib.Hex(u.body), vlib.Hex(u.tail), vlib.HexList(cs)))
				} else {
					items = append(items, fmt.Sprintf("D|ER:%s:%s:%d:%s:%s|%s", vlib.Hex(u.ebody), vlib.Hex(u.etail), u.to, vlib.Hex(u.body), vlib.Hex(u.tail), vlib.HexList(cs)))
				}
			default:
				for _, c := range cs {
					items = append(items, "R"+vlib.Hex(c))
				}
			}
			if resetAfter[ui] {
				items = append(items, "Z")
			}
			if poll {
				items = append(items, "P") // the caller polls all the time
			}
			ui++
		}
	}
	for k, cl := range run.plan.calls {
		tmo := run.plan.timeoutOf(k)
		if k > 0 && cl.idleFactor > 0 {
			items = append(items, fmt.Sprintf("T%d", cl.idleFactor*run.plan.timeoutOf(k-1)+15)) // idle gap
		}
		if cl.writeFail || cl.writeFailFinal {
			// the id is consumed, then the call fails at once (write error)
			items = append(items, fmt.Sprintf("C%d", tmo), "X")
			emitPhase(2*k, true)
			emitPhase(2*k+1, false)
		} else if run.plan.faultAt > 0 && k >= run.plan.faultAt {
			// the request is written, the caller starts polling and the transport error reaches it:
			// it gets the error, or a message that was filed under its id before the transport died
			items = append(items, fmt.Sprintf("C%d", tmo), "P", "X")
			emitPhase(2*k, true)
			emitPhase(2*k+1, false)
		} else {
			// the call arms its own timer; everything the server sends at once arrives "now"; then
			// the rest of the timeout passes
			items = append(items, fmt.Sprintf("C%d", tmo), "P")
			emitPhase(2*k, true)
			items = append(items, fmt.Sprintf("T%d", tmo))
			emitPhase(2*k+1, false)
		}
		for _, id := range cl.getSubs {
			items = append(items, fmt.Sprintf("G%d", id))
		}
	}
	emitPhase(1<<30, false)
	for _, id := range run.plan.subIDs {
		items = append(items, fmt.Sprintf("G%d", id))
	}
	return strings.Join(items, ";")
}

// ---------------------------------------------------------------------------------------------
// scanner vs Go regexp

var (
	c08ReDelim10 = regexp.MustCompile(`]]>]]>`)
	c08ReDelim11 = regexp.MustCompile(`(?m)^##$`)
	// the oracle's reading of "the first message-id attribute" of a returned message: any legal
	// XML spelling of the attribute (either quote character, white space around `=`)
	c08ReMsgID = regexp.MustCompile(`(?i)(?:message-id\s*=\s*["'](\d+)["'])`)
	c08ReSubID = regexp.MustCompile(`(?i)<subscription-id.*>(\d+)</subscription-id>`)
)

var (
	c08SrcMsgIDOnce sync.Once
	c08SrcMsgIDRe   *regexp.Regexp
)

// c08SrcMsgID is the library's messageIDPattern as it stands in the source under test (the scanner
// `firstId` is diffed against Go's regexp running that pattern); falls back to the oracle's pattern
// when the constant cannot be found.
func c08SrcMsgID() *regexp.Regexp {
	c08SrcMsgIDOnce.Do(func() {
		c08SrcMsgIDRe = c08ReMsgID
		facts.Repo = repoDir()
		for _, fp := range facts.FindPatterns("driver/netconf") {
			if fp.Name == "messageID" {
				if re, err := regexp.Compile(fp.Src); err == nil {
					c08SrcMsgIDRe = re
				}
			}
		}
	})
	return c08SrcMsgIDRe
}

func c08GoScan(b []byte) string {
	after := func(re *regexp.Regexp) string {
		if !re.Match(b) {
			return "N"
		}
		ss := re.Split(string(b), 2)
		return vlib.Hex([]byte(ss[1]))
	}
	id := "N"
	if m := c08SrcMsgID().FindSubmatch(b); len(m) == 2 {
		n, _ := strconv.Atoi(string(m[1]))
		id = strconv.Itoa(n)
	}
	b2 := func(x bool) string {
		if x {
			return "1"
		}
		return "0"
	}
	sub := "N"
	if m := c08ReSubID.FindSubmatch(b); len(m) == 2 {
		n, _ := strconv.Atoi(string(m[1]))
		sub = strconv.Itoa(n)
	}
	return fmt.Sprintf("%s %s %s %s %s %s %s %s", b2(c08ReDelim10.Match(b)), b2(c08ReDelim11.Match(b)), after(c08ReDelim10), after(c08ReDelim11), b2(bytes.Contains(b, []byte("</rpc>"))), id,
		b2(bytes.Contains(b, []byte("</subscription-id>"))), sub)
}

func c08ScanStrings(r *vlib.Rng, n int) [][]byte {
	frags := []string{"]]>]]>", "]]>]]", "]]>", "]", ">", "##", "#", "\n", "\n##\n", "\n##", "##\n", "\n#12\n", "</rpc>", "</rpc", "</rpc-reply>",
		`message-id="`, `MESSAGE-ID="`, `Message-Id="`, `message-id=`, `essage-id="`, `message_id="`, `"`, "1", "0", "101", "000", "9223372036854775807", "9223372036854775808", "18446744073709551616",
		"a", " ", "<", "é", "\r", "x\n", "##x", "x##",
		`message-id='`, `'`, `message-id = "`, `message-id="-`, `message-id="+`, `message-id="a`,
		`message-id`, `MESSAGE-ID`, `=`, ` =`, "=\t", "\f", `='`, `="`, `7'`, `7"`, "message-id\n=\n'", `message-id ' `, `message-id=='`,
		"<subscription-id>", "</subscription-id>", "<SUBSCRIPTION-ID>", "</Subscription-Id>", "<subscription-id xmlns=\"u\">", "<subscription-id", ">", "7", "42</subscription-id>", "<subscription-id>7</subscription-id>", "</subscription-id", "<sub"}
	out := [][]byte{{}, []byte("##"), []byte("\n##"), []byte("##\n"), []byte("a##"), []byte("##a"), []byte(`message-id="7"`), []byte(`message-id=""`), []byte(`message-id="7`), []byte(`message-id="0"`), []byte(`message-id="00012"`),
		[]byte(`message-id='7'`), []byte(`message-id = "7"`), []byte("message-id\t=\n'7\""), []byte(`message-id="7'`), []byte(`message-id ="7" message-id="8"`), []byte(`message-id= ''`), []byte("message-id\v=\"7\"")}
	for i := 0; i < n; i++ {
		var b []byte
		k := r.Range(1, 9)
		for j := 0; j < k; j++ {
			if r.Chance(1, 5) {
				b = append(b, r.Bytes(r.Range(1, 4), []byte("]>#\nm\"0129 a"))...)
			} else {
				b = append(b, r.Pick(frags)...)
			}
		}
		out = append(out, b)
	}
	return out
}

// ---------------------------------------------------------------------------------------------

type c08lean struct {
	dom     bool
	reasons []string
	model   []string // per completed call: hex or "T"
	modelID []int
	spec    []string
	specID  []int
	pending string
}

func c08ParseResults(s string) (ids []int, vals []string) {
	if s == "." {
		return nil, nil
	}
	for _, p := range strings.Split(s, ",") {
		kv := strings.SplitN(p, ":", 2)
		id, _ := strconv.Atoi(kv[0])
		ids = append(ids, id)
		vals = append(vals, kv[1])
	}
	return
}

func c08TrimLF(b []byte) []byte { return bytes.Trim(b, "\n") }

func runC08(c *ctx) {
	res := c.res
	res.Rule = "sessions: real netconf.Driver RPC sequences (1..25 calls) against the NETCONF server simulator; per call reply now / late (released between calls or emitted next to a later reply) / never; echo off / echo with read boundaries / echo sharing reads with the reply; 1.0 / 1.1 with random RFC 6242 chunkings; random read segmentations (sizes 1..400); per-call timeouts 40-80 ms; malformed stream = unsolicited, duplicate, future-id, id-0 and overflowing-id messages. non-trivial = session with >= 2 calls and at least one late or never reply or an echoing transport; distinct by plan seed; one evaluation = one session (about 8 calls on average). scanners: the model's delimiter / message-id scanners vs Go regexp on generated strings"

	// A panic in a library goroutine kills the process: the full run happens in a child process
	// (same binary, replay "c08 all"); if it dies the parent bisects for the session that kills it.
	full := c.replay == "" || c.replay == "c08 all" || strings.HasPrefix(c.replay, "c08 range ")
	rangeLo, rangeHi := 0, 1<<30
	if strings.HasPrefix(c.replay, "c08 range ") {
		f := strings.Fields(c.replay)
		rangeLo, _ = strconv.Atoi(f[2])
		rangeHi, _ = strconv.Atoi(f[3])
	}
	scanRng := c.rng.Fork()

	// 1. scanner = regexp (trusted, tested assumption)
	if c.replay == "c08 all" || strings.HasPrefix(c.replay, "c08 scan") {
		strs := c08ScanStrings(scanRng, c.n(4000, 60000))
		if strings.HasPrefix(c.replay, "c08 scan") {
			b, _ := vlib.UnHex(strings.Fields(c.replay)[2])
			strs = [][]byte{b}
		}
		lines := make([]string, len(strs))
		for i, s := range strs {
			lines[i] = "c08 scan " + vlib.Hex(s)
		}
		ans := c.ask(lines)
		for i, s := range strs {
			res.Count("scan")
			// Go's (?i) also folds U+017F and U+212A onto s and k; the scanner folds ASCII only
			if bytes.Contains(s, []byte("\xc5\xbf")) || bytes.Contains(s, []byte("\xe2\x84\xaa")) {
				continue
			}
			if g := c08GoScan(s); g != ans[i] {
				res.Fail("correspondence", lines[i], fmt.Sprintf("scanner differs from Go regexp on %q: go=%s lean=%s", s, g, ans[i]), "scanner-vs-regexp")
			}
		}
	}
	if strings.HasPrefix(c.replay, "c08 scan") {
		return
	}

	// 2. sessions
	type job struct {
		line string
		plan c08plan
	}
	var jobs []job
	if !full {
		f := strings.Fields(c.replay)
		if len(f) >= 3 && f[1] == "directed" {
			if p, ok := c08Directed(f[2]); ok {
				jobs = append(jobs, job{c.replay, p})
			}
		} else if len(f) >= 4 && f[1] == "plan" {
			seed, _ := strconv.ParseUint(f[2], 10, 64)
			mc, _ := strconv.Atoi(f[3])
			pp := c08GenPlan(vlib.NewRng(seed), mc)
			c08AddHistory(&pp, vlib.NewRng(seed^0x5bd1e9955bd1e995))
			c08AddMatrix(&pp, vlib.NewRng(seed^0x27d4eb2f165667c5))
			c08AddCoverage(&pp, vlib.NewRng(seed^0x94d049bb133111eb))
			c08AddRouting(&pp, vlib.NewRng(seed^0xd6e8feb86659fd93), c.thorough())
			c08AddMarkers(&pp, vlib.NewRng(seed^0xa0761d6478bd642f))
			pp.name = fmt.Sprintf("seed-%d", seed)
			jobs = append(jobs, job{c.replay, pp})
		}
	} else {
		for _, n := range c08DirectedNames {
			p, _ := c08Directed(n)
			jobs = append(jobs, job{"c08 directed " + n, p})
		}
		nsess := c.n(320, 5000)
		for i := 0; i < nsess; i++ {
			seed := c.rng.U64() >> 1
			mc := 25
			if i%3 == 0 {
				mc = 8
			}
			p := c08GenPlan(vlib.NewRng(seed), mc)
			c08AddHistory(&p, vlib.NewRng(seed^0x5bd1e9955bd1e995))
			c08AddMatrix(&p, vlib.NewRng(seed^0x27d4eb2f165667c5))
			c08AddCoverage(&p, vlib.NewRng(seed^0x94d049bb133111eb))
			c08AddRouting(&p, vlib.NewRng(seed^0xd6e8feb86659fd93), c.thorough())
			c08AddMarkers(&p, vlib.NewRng(seed^0xa0761d6478bd642f))
			p.name = fmt.Sprintf("seed-%d", seed)
			jobs = append(jobs, job{fmt.Sprintf("c08 plan %d %d", seed, mc), p})
		}
	}
	if c.replay == "" {
		lines := make([]string, len(jobs))
		for i, j := range jobs {
			lines[i] = j.line
		}
		c08Supervise(c, lines)
		return
	}
	if full {
		if rangeHi > len(jobs) {
			rangeHi = len(jobs)
		}
		jobs = jobs[rangeLo:rangeHi]
	}
	runs := make([]c08run, len(jobs))
	workers := vlib.Conc(12)
	var wg sync.WaitGroup
	ch := make(chan int)
	for w := 0; w < workers; w++ {
		wg.Add(1)
		go func() {
			defer wg.Done()
			for i := range ch {
				runs[i] = c08Execute(jobs[i].plan, 1)
			}
		}()
	}
	for i := range jobs {
		ch <- i
	}
	close(ch)
	wg.Wait()

	// the model's answers for the first pass are fetched in parallel (one driver process each)
	askCache := map[string]string{}
	{
		var amu sync.Mutex
		var awg sync.WaitGroup
		asem := make(chan struct{}, vlib.Conc(12))
		for i := range jobs {
			r := runs[i]
			if r.openErr != nil || !r.aligned {
				continue
			}
			ver := "1.0"
			if r.plan.v11 {
				ver = "1.1"
			}
			line := "c08 sess " + ver + " " + c08Script(r, nil, false)
			awg.Add(1)
			go func() {
				defer awg.Done()
				asem <- struct{}{}
				a := c.ask([]string{line})[0]
				<-asem
				amu.Lock()
				askCache[line] = a
				amu.Unlock()
			}()
		}
		awg.Wait()
	}
	evaluate := func(i int, run c08run, final bool) (retry bool) {
		jb := jobs[i]
		p := run.plan
		if run.openErr != nil {
			res.Fail("oracle", jb.line, "session did not open: "+run.openErr.Error(), "open-failed")
			return false
		}
		wantVer := "1.0"
		if run.plan.v11 {
			wantVer = "1.1"
		}
		if run.version != wantVer || run.srvVersion != wantVer {
			res.Fail("oracle", jb.line, fmt.Sprintf("%s: the session must run %s (highest common version, or the client's preference), client selected %q, server speaks %q", run.plan.cell(), wantVer, run.version, run.srvVersion), "version-selection")
			return false
		}
		if !run.aligned {
			res.Fail("machinery", jb.line, "could not attribute the delivered reads to the emitted messages", "harness-alignment")
			return false
		}
		script := c08Script(run, nil, false)
		ver := "1.0"
		if p.v11 {
			ver = "1.1"
		}
		ans, cached := askCache["c08 sess "+ver+" "+script]
		if !cached {
			ans = c.ask([]string{"c08 sess " + ver + " " + script})[0]
		}
		f := strings.Fields(ans)
		if len(f) != 6 {
			res.Fail("machinery", jb.line, "driver answered "+ans, "driver")
			return false
		}
		var L c08lean
		L.dom = f[0] == "1"
		L.reasons = strings.Split(f[1], ",")
		L.modelID, L.model = c08ParseResults(f[2])
		L.pending = f[3]
		L.specID, L.spec = c08ParseResults(f[4])
		if len(L.model) != len(p.calls) || len(L.spec) != len(p.calls) {
			res.Fail("machinery", jb.line, fmt.Sprintf("model completed %d calls, spec %d, plan has %d: %s", len(L.model), len(L.spec), len(p.calls), ans), "driver-shape")
			return false
		}
		// which hypotheses of the theorems fail for the delivery of the reply to request k, and
		// for the delivery a returned message came from
		reasonOf := map[int]string{}
		unitReason := make([]string, len(run.units))
		di := 0
		for ui, u := range run.units {
			if u.kind == "X" {
				unitReason[ui] = "unsolicited"
				continue
			}
			if di < len(L.reasons) {
				if p.quotes != 0 {
					// the id attribute is there, but not in the one spelling the pattern accepts
					parts := strings.Split(L.reasons[di], "+")
					for i := range parts {
						if parts[i] == "id" {
							parts[i] = "idsyntax"
						}
					}
					L.reasons[di] = strings.Join(parts, "+")
				}
				unitReason[ui] = L.reasons[di]
				if u.kind == "R" || u.kind == "ER" {
					reasonOf[u.toIdx] = L.reasons[di]
				}
			}
			di++
		}
		blame := func(raw []byte) string {
			t := c08TrimLF(raw)
			for ui, u := range run.units {
				all := append(append(append(append([]byte{}, u.ebody...), u.etail...), u.body...), u.tail...)
				if len(t) > 0 && bytes.Contains(all, t) {
					return unitReason[ui]
				}
			}
			return "unattributed"
		}
		// Known findings leave the read loop in a state the hypotheses do not describe (the cut-off
		// remainder of an F2 message stays in the buffer). Counterfactual: the same session with the
		// buffer emptied right after every delivery that violates `early`/`id`. A later anomaly that
		// the model reproduces as is and that disappears in the counterfactual is a knock-on effect.
		faulty := map[int]bool{}
		faultyEarly := map[int]bool{}
		for ui := range run.units {
			for _, r := range strings.Split(unitReason[ui], "+") {
				if r == "early" || r == "id" {
					faulty[ui] = true
				}
				if r == "early" {
					faultyEarly[ui] = true
				}
			}
		}
		var cfModel []string
		if len(faulty) > 0 {
			cf := strings.Fields(c.ask([]string{"c08 sess " + ver + " " + c08Script(run, faulty, false)})[0])
			if len(cf) == 6 {
				_, cfModel = c08ParseResults(cf[2])
			}
		}
		// knockOn: which known finding (if any) explains an anomaly of call k
		knockOn := func(k int, implRaw []byte, implT bool) string {
			if len(cfModel) != len(p.calls) {
				return ""
			}
			ok := false
			if L.spec[k] == "T" {
				ok = cfModel[k] == "T"
			} else if cfModel[k] != "T" {
				sb, _ := vlib.UnHex(L.spec[k])
				mb, _ := vlib.UnHex(cfModel[k])
				ok = bytes.Equal(c08TrimLF(mb), c08TrimLF(sb))
			}
			if !ok {
				return ""
			}
			// the event must precede: a faulty delivery before this call's own reply (or, when the
			// call has none in its window, before the end of its window)
			limit := -1
			for ui, u := range run.units {
				if u.phase <= 2*k {
					limit = ui + 1
				}
				if (u.kind == "R" || u.kind == "ER") && u.toIdx == k && u.phase == 2*k {
					limit = ui
					break
				}
			}
			kind := ""
			for ui := 0; ui < limit; ui++ {
				if faultyEarly[ui] {
					kind = "hash-hash-line"
				} else if faulty[ui] && kind == "" {
					kind = "msgid-split"
				}
			}
			return kind
		}
		inProp := true // inside the property's own quantifier (no "</rpc>" text in replies, well-behaved server)
		for _, cl := range p.calls {
			if bytes.Contains(cl.payload, []byte("</rpc>")) || cl.rogue != nil {
				inProp = false
			}
		}
		if p.malformed {
			inProp = false
		}
		type fail struct{ kind, detail, sig string }
		var fails []fail
		lostTiming := false
		knockCount := 0
		idleCount := 0
		var idleModel []string
		// ids
		// calls whose request cannot reach the server (failed write) or cannot be answered (dead
		// transport): they must return an error, and they still consume an id
		expectErr := make([]bool, len(p.calls))
		noRequest := make([]bool, len(p.calls))
		for k, cl := range p.calls {
			if cl.writeFail {
				expectErr[k], noRequest[k] = true, true
			}
			if cl.writeFailFinal {
				expectErr[k] = true
			}
			if p.faultAt > 0 && k >= p.faultAt {
				expectErr[k], noRequest[k] = true, true
			}
		}
		idBase := 0
		for k := range p.calls {
			if !noRequest[k] && k < len(run.reqIDs) {
				idBase = run.reqIDs[k] - k
				break
			}
		}
		for k := range p.calls {
			want := idBase + k
			if noRequest[k] {
				if k < len(run.reqIDs) && run.reqIDs[k] >= 0 {
					fails = append(fails, fail{"machinery", fmt.Sprintf("request %d reached the server although its write was made to fail; session %s", k, p.name), "harness-write-fail"})
				}
				continue
			}
			if k >= len(run.reqIDs) || !run.reqOK[k] || run.reqIDs[k] != want || want == 0 {
				got := -1
				if k < len(run.reqIDs) {
					got = run.reqIDs[k]
				}
				fails = append(fails, fail{"oracle", fmt.Sprintf("request %d carries message-id %d, expected %d (ids must be non-zero, unique and increase by one from the first request); session %s", k, got, want, p.name), "ids-not-increasing"})
				break
			}
			if L.modelID[k] != want {
				fails = append(fails, fail{"correspondence", fmt.Sprintf("request %d carries message-id %d, the model (initialMessageID from the source) says %d; session %s", k, run.reqIDs[k], L.modelID[k], p.name), "impl-vs-model-ids"})
				break
			}
		}
		for k, cl := range p.calls {
			o := run.outcomes[k]
			impl := "T"
			if o.class == "nil" {
				impl = vlib.Hex(o.raw)
			}
			desc := fmt.Sprintf("call %d (id %d, v%s, echo=%d, mode=%d)", k, idBase+k, ver, p.echo, cl.mode)
			if expectErr[k] {
				what := "its write failed"
				if !cl.writeFail && !cl.writeFailFinal {
					what = "the transport fails every read"
				}
				stored := false // a message was filed under this id before the transport died
				if o.class == "nil" && !cl.writeFail && !cl.writeFailFinal && L.model[k] != "T" {
					mb, _ := vlib.UnHex(L.model[k])
					stored = bytes.Equal(c08TrimLF(mb), c08TrimLF(o.raw))
				}
				if o.class == "nil" && !stored {
					fails = append(fails, fail{"oracle", desc + fmt.Sprintf(": returned %q although %s (a call returns the reply to its own request or an error); session %s", o.raw, what, p.name), "reply-from-nowhere"})
				}
				if ((cl.writeFail || cl.writeFailFinal) && L.model[k] != "T") || L.spec[k] != "T" {
					fails = append(fails, fail{"machinery", desc + ": model/spec do not fail a call that cannot be answered: " + ans, "model-failed-call"})
				}
				continue
			}
			sess := fmt.Sprintf("; session %s [%s] timeout=%dms idle-before=%dx chunks=%v seg=%v payload=%q", p.name, p.cell(), p.timeoutOf(k), cl.idleFactor, cl.chunks, p.seg, cl.payload)
			// unconditional: whatever comes back carries the caller's id first
			if o.class == "nil" {
				m := c08ReMsgID.FindSubmatch(o.raw)
				if len(m) != 2 || string(m[1]) == "" {
					fails = append(fails, fail{"oracle", desc + fmt.Sprintf(": returned a message without message-id: %q", o.raw) + sess, "misdelivered:no-id"})
					continue
				}
				n, _ := strconv.Atoi(string(m[1]))
				if k < len(run.reqIDs) && n != run.reqIDs[k] {
					fails = append(fails, fail{"oracle", desc + fmt.Sprintf(": returned the reply to another request (first message-id %d): %q", n, o.raw) + sess, "misdelivered:other-id"})
					continue
				}
			} else if o.class != "timeout" {
				fails = append(fails, fail{"oracle", desc + ": call failed with error class " + o.class + ": " + o.res + sess, "wrong-error:" + o.class})
				continue
			}
			// a timeout verdict long before the timeout in force has elapsed cannot be blamed on a
			// loaded host (load only makes a call slower): the timer did not belong to this call
			premature := o.class == "timeout" && o.limit > 0 && o.elapsed < o.limit/2
			if premature {
				fails = append(fails, fail{"oracle", desc + fmt.Sprintf(": returned a timeout error after %v although the timeout in force was %v (a timer must be armed per call and judged only by what happens after the call started)", o.elapsed.Round(10*time.Microsecond), o.limit) + sess, "premature-timeout"})
			}
			// correspondence: the model predicts the exact raw message or the timeout
			specOK := false
			if L.spec[k] == "T" {
				specOK = impl == "T"
			} else {
				sb, _ := vlib.UnHex(L.spec[k])
				specOK = impl != "T" && bytes.Equal(c08TrimLF(o.raw), c08TrimLF(sb))
			}
			sameAs := func(m string) bool {
				if impl == m {
					return true
				}
				if impl == "T" || m == "T" {
					return false
				}
				// line feeds around a message are not observable through Result: compare modulo them
				mb, _ := vlib.UnHex(m)
				return bytes.Equal(c08TrimLF(o.raw), c08TrimLF(mb))
			}
			modelSame := sameAs(L.model[k])
			if !modelSame && !L.dom {
				// outside the hypotheses the outcome may depend on whether the loop idled between
				// two reads: accept the model's answer under the other schedule as well
				if idleModel == nil {
					ia := strings.Fields(c.ask([]string{"c08 sess " + ver + " " + c08Script(run, nil, true)})[0])
					idleModel = []string{}
					if len(ia) == 6 {
						_, idleModel = c08ParseResults(ia[2])
					}
				}
				if len(idleModel) == len(p.calls) && sameAs(idleModel[k]) {
					modelSame = true
					idleCount++
				}
			}
			if !modelSame && !specOK {
				if impl == "T" && L.model[k] != "T" && !premature {
					lostTiming = true // may be scheduling: decided after the slow re-run
				}
				fails = append(fails, fail{"correspondence", desc + fmt.Sprintf(": impl %s, model %s", c08short(impl), c08short(L.model[k])) + sess, "impl-vs-model"})
			}
			if L.dom && inProp {
				mOK := false
				if L.spec[k] == "T" {
					mOK = L.model[k] == "T"
				} else if L.model[k] != "T" {
					sb, _ := vlib.UnHex(L.spec[k])
					mb, _ := vlib.UnHex(L.model[k])
					mOK = bytes.Equal(c08TrimLF(mb), c08TrimLF(sb))
				}
				if !mOK {
					fails = append(fails, fail{"machinery", desc + fmt.Sprintf(": in-domain but model %s differs from spec %s", c08short(L.model[k]), c08short(L.spec[k])) + sess, "model-vs-spec"})
				}
			}
			// oracle against the server's side of the story
			if inProp && !specOK {
				why := reasonOf[k]
				if L.dom || why == "" {
					why = "ok"
				}
				var sig string
				switch {
				case impl == "T" && L.spec[k] != "T":
					sig = "lost-reply:" + c08cause(why)
				case impl != "T" && L.spec[k] == "T":
					sig = "misfiled-reply:" + c08cause(blame(o.raw))
				default:
					sb, _ := vlib.UnHex(L.spec[k])
					if bytes.HasPrefix(c08TrimLF(sb), c08TrimLF(o.raw)) {
						sig = "truncated:" + c08cause(why)
					} else {
						sig = "misfiled-reply:" + c08cause(blame(o.raw))
					}
				}
				if modelSame && (strings.HasSuffix(sig, ":in-domain") || strings.HasSuffix(sig, ":unattributed")) {
					if kind := knockOn(k, o.raw, impl == "T"); kind != "" {
						effect := sig[:strings.Index(sig, ":")]
						if impl != "T" && L.spec[k] != "T" {
							sb, _ := vlib.UnHex(L.spec[k])
							if bytes.HasSuffix(c08TrimLF(o.raw), c08TrimLF(sb)) {
								effect = "glued-reply"
							}
						}
						sig = effect + ":knock-on-after-" + kind
						knockCount++
					}
				}
				// A known finding explains an anomaly only if the as-is model of the read loop, fed exactly
				// the observed reads, predicts exactly the observed outcome. An input that merely looks
				// like a known-finding input (a `##` line, a split id, ...) but on which the code does
				// something else than the recorded defect is a different violation.
				explained := ""
				if !modelSame && !strings.HasSuffix(sig, ":in-domain") && !strings.HasSuffix(sig, ":unattributed") {
					sig += ":not-explained-by-the-as-is-model"
					explained = fmt.Sprintf(" [the as-is model of the recorded defect predicts %s for these reads]", c08short(L.model[k]))
				}
				got := "returned " + c08short(impl)
				if impl == "T" {
					got = "timed out"
				}
				exp := "the server sent in full " + c08short(L.spec[k]) + explained
				if L.spec[k] == "T" {
					exp = "the server had sent no reply to it" + explained
				}
				fails = append(fails, fail{"oracle", desc + ": " + got + ", " + exp + sess, sig})
			}
		}
		// the subscription store: per subscription id, everything GetSubscriptionMessages handed out
		// over the session, concatenated, must be exactly the messages the server sent for that
		// subscription, in order, once (the individual calls only partition that sequence)
		if len(p.subIDs) > 0 {
			modelSubs := map[int][][]byte{}
			if f[5] != "." {
				for _, ent := range strings.Split(f[5], ";") {
					kv := strings.SplitN(ent, "=", 2)
					id, _ := strconv.Atoi(kv[0])
					if len(kv) == 2 && kv[1] != "." {
						for _, h := range strings.Split(kv[1], ",") {
							b, _ := vlib.UnHex(h)
							modelSubs[id] = append(modelSubs[id], c08TrimLF(b))
						}
					}
				}
			}
			same := func(a, b [][]byte) bool {
				if len(a) != len(b) {
					return false
				}
				for i := range a {
					if !bytes.Equal(c08TrimLF(a[i]), c08TrimLF(b[i])) {
						return false
					}
				}
				return true
			}
			show := func(a [][]byte) string {
				var q []string
				for _, m := range a {
					t := string(c08TrimLF(m))
					if i := strings.Index(t, "<seq>"); i >= 0 {
						t = "notification" + t[i:strings.Index(t, "</seq>")+6]
					} else if len(t) > 60 {
						t = t[:60] + "…"
					}
					q = append(q, strconv.Quote(t))
				}
				return "[" + strings.Join(q, ", ") + "]"
			}
			for _, id := range p.subIDs {
				var spec [][]byte
				cause := "in-domain"
				for ui, u := range run.units {
					if (u.kind == "N" || u.kind == "R" || u.kind == "ER") && u.sub == id {
						spec = append(spec, c08TrimLF(u.body))
						if r := unitReason[ui]; r != "ok" && r != "" && cause == "in-domain" {
							cause = c08cause(r)
						}
					}
				}
				if !L.dom && cause == "in-domain" {
					cause = "session-outside-hypotheses"
				}
				impl := run.subGot[id]
				res.Distribution["subscription-messages-expected"] += len(spec)
				if !same(impl, modelSubs[id]) && !same(impl, spec) {
					if len(impl) < len(modelSubs[id]) {
						lostTiming = true
					}
					fails = append(fails, fail{"correspondence", fmt.Sprintf("GetSubscriptionMessages(%d) over the session: impl %s, model %s; session %s", id, show(impl), show(modelSubs[id]), p.name), "impl-vs-model-subscriptions"})
				}
				if inProp && !same(impl, spec) {
					notExplained := ""
					if cause != "in-domain" && !same(impl, modelSubs[id]) {
						notExplained = ":not-explained-by-the-as-is-model"
					}
					effect := "wrong"
					if len(impl) < len(spec) {
						effect = "lost"
						if cause == "in-domain" {
							lostTiming = true
						}
					} else if len(impl) > len(spec) {
						effect = "extra"
					}
					fails = append(fails, fail{"oracle", fmt.Sprintf("GetSubscriptionMessages(%d) over the session returned %s, the server sent for that subscription %s (in order, each exactly once); session %s", id, show(impl), show(spec), p.name), "notifications-" + effect + ":" + cause + notExplained})
				}
				if L.dom && inProp && !same(modelSubs[id], spec) {
					fails = append(fails, fail{"machinery", fmt.Sprintf("in-domain but the model's subscription messages %s differ from the server's %s; session %s", show(modelSubs[id]), show(spec), p.name), "model-vs-spec-subscriptions"})
				}
			}
		}
		if lostTiming && !final {
			return true
		}
		res.Distribution["knock-on-after-known-finding"] += knockCount
		res.Distribution["matched-model-under-idle-read-schedule(outside hypotheses)"] += idleCount
		nontrivial := false
		for _, cl := range p.calls {
			if len(p.calls) >= 2 && (cl.mode != 0 || p.echo != 0) {
				nontrivial = true
			}
		}
		res.Case(p.name, nontrivial)
		if L.dom && inProp {
			res.InDomain++
		}
		res.Count(fmt.Sprintf("version:%s", ver))
		res.Count(fmt.Sprintf("echo:%d", p.echo))
		res.Count("matrix:" + p.cell())
		if p.selfClose {
			res.Count("option:ForceSelfClosingTags")
		}
		switch {
		case p.searchDepth == 0:
			res.Count("option:PromptSearchDepth:default")
		case p.searchDepth <= 80:
			res.Count("option:PromptSearchDepth:16..80")
		default:
			res.Count("option:PromptSearchDepth:huge")
		}
		res.Count(fmt.Sprintf("option:ReadDelay:%dus", p.readDelayUs))
		res.Count(fmt.Sprintf("option:TransportReadSize:%d", p.readSize))
		res.Count(fmt.Sprintf("option:ReturnChar:%q", p.returnChar))
		for _, cl := range p.calls {
			pay := bytes.Replace(cl.payload, []byte(c08IDToken), []byte("101"), 1)
			off := bytes.Index(pay, []byte(`message-id="101"`))
			switch {
			case off < 0:
			case off < 30:
				res.Count("message-id-offset:<30")
			case off < 200:
				res.Count("message-id-offset:30..199")
			case off < 1000:
				res.Count("message-id-offset:200..999")
			case off < 5000:
				res.Count("message-id-offset:1000..4999")
			default:
				res.Count("message-id-offset:>=5000")
			}
			switch {
			case len(pay) >= 100*1024:
				res.Count("reply-size:>=100KB")
			case len(pay) >= 4096:
				res.Count("reply-size:4KB..100KB")
			}
			if bytes.Contains(pay, []byte("<nc:rpc-reply")) {
				res.Count("reply-with-nc-prefix")
			}
		}
		if p.faultAt > 0 {
			res.Count("history:transport-read-fault-midsession")
		}
		if len(p.subIDs) > 0 {
			res.Count("sessions-with-subscriptions")
		}
		outstanding, maxOut := 0, 0
		for _, cl := range p.calls {
			if cl.mode == 1 {
				outstanding++
			}
			outstanding -= len(cl.before) + len(cl.after)
			if outstanding > maxOut {
				maxOut = outstanding
			}
			for _, j := range cl.release {
				_ = j
				outstanding--
			}
		}
		res.Count(fmt.Sprintf("max-outstanding-late-replies:%d", maxOut))
		res.Count(fmt.Sprintf("calls:%02d-%02d", len(p.calls)/5*5, len(p.calls)/5*5+4))
		if L.dom {
			res.Count("theorem-hypotheses:hold")
		} else {
			res.Count("theorem-hypotheses:fail")
		}
		if !inProp {
			res.Count("outside-property-quantifier(malformed or </rpc> in reply)")
		}
		for k, cl := range p.calls {
			res.Count(fmt.Sprintf("behaviour:%d", cl.mode))
			if cl.idleFactor > 0 && k > 0 {
				res.Count(fmt.Sprintf("history:idle-%dx-timeout-after-%s", cl.idleFactor, run.outcomes[k-1].class))
			}
			if k > 0 && p.timeoutOf(k) >= 2*p.timeoutOf(k-1) {
				res.Count("history:short-then-long-timeout")
			}
			if k > 0 && 2*p.timeoutOf(k) <= p.timeoutOf(k-1) {
				res.Count("history:long-then-short-timeout")
			}
			if cl.useDefault {
				res.Count("history:driver-TimeoutOps-in-force")
			}
			if n := len(cl.notifBefore) + len(cl.notifAfter) + len(cl.notifBetween); n > 0 {
				res.Distribution["notifications"] += n
			}
			if cl.subID != 0 {
				res.Count("reply-carrying-subscription-id")
			}
			if cl.marker {
				res.Count("reply-with-the-other-version's-marker-as-data:v" + ver)
			}
			if cl.writeFail {
				res.Count("history:client-write-fails")
			}
			if cl.writeFailFinal {
				res.Count("history:client-final-return-write-fails")
			}
			res.Distribution["GetSubscriptionMessages-calls"] += len(cl.getSubs)
			res.Count("outcome:" + run.outcomes[k].class)
			if len(cl.before)+len(cl.after) > 0 {
				res.Count("late-reply-next-to-a-reply")
			}
			if len(cl.release) > 0 {
				res.Count("late-reply-between-calls")
			}
		}
		for _, r := range L.reasons {
			if r != "" && r != "ok" && r != "." {
				res.Count("hypothesis-failed:" + r)
			}
		}
		res.Distribution["reads"] += run.nreads
		if i%61 == 0 {
			res.Sample(map[string]any{"case": jb.line, "version": ver, "echo": p.echo, "calls": len(p.calls), "reads": run.nreads, "model": c08short(f[2])})
		}
		for _, fl := range fails {
			res.Fail(fl.kind, jb.line, fl.detail, fl.sig)
		}
		return false
	}
	// A reply the model says must come back did not: rule out scheduling noise by running the same
	// session again with every timeout multiplied by 6 (bounded: a systematic loss is not noise).
	var retry []int
	for i := range jobs {
		if evaluate(i, runs[i], false) {
			retry = append(retry, i)
		}
	}
	rerun := func(idx []int, scale, max int) map[int]c08run {
		out := map[int]c08run{}
		var mu sync.Mutex
		var wg2 sync.WaitGroup
		sem := make(chan struct{}, workers)
		for n, i := range idx {
			if n >= max {
				break
			}
			wg2.Add(1)
			go func(i int) {
				defer wg2.Done()
				sem <- struct{}{}
				r := c08Execute(jobs[i].plan, scale)
				<-sem
				mu.Lock()
				out[i] = r
				mu.Unlock()
			}(i)
		}
		wg2.Wait()
		return out
	}
	slow := rerun(retry, 6, 40)
	var retry2 []int
	for _, i := range retry {
		if r, ok := slow[i]; ok {
			res.Count("re-run-with-long-timeouts")
			if evaluate(i, r, false) {
				retry2 = append(retry2, i)
			}
		} else {
			evaluate(i, runs[i], true)
		}
	}
	slower := rerun(retry2, 25, 6)
	for _, i := range retry2 {
		if r, ok := slower[i]; ok {
			res.Count("re-run-with-very-long-timeouts")
			evaluate(i, r, true)
		} else {
			evaluate(i, slow[i], true)
		}
	}
	res.TracesVsImpl = len(jobs)
}

// c08Child runs this binary again on the given replay selector and returns its Result.
func c08Child(c *ctx, selector string, godebug ...string) (*vlib.Result, string) {
	tmp, err := os.CreateTemp("", "verif-c08-*.json")
	if err != nil {
		return nil, err.Error()
	}
	tmp.Close()
	defer os.Remove(tmp.Name())
	cmd := exec.Command(os.Args[0], "C08", "-tier", c.tier, "-seed", strconv.FormatUint(c.seed, 10), "-driver", c.driver,
		"-scale", strconv.Itoa(c.scale), "-out", tmp.Name(), "-replay", selector)
	// The stale-timer class of defects only shows under the pre-Go-1.23 timer-channel semantics
	// (asynctimerchan=1), which is what the library's own go.mod (go 1.20) selects for its users'
	// builds when their main module says the same; pin it instead of inheriting it from go/go.mod.
	gd := "asynctimerchan=1"
	if len(godebug) > 0 {
		gd = godebug[0]
	}
	cmd.Env = append(os.Environ(), "GODEBUG="+gd)
	out, err := cmd.CombinedOutput()
	tail := string(out)
	if len(tail) > 1500 {
		tail = tail[len(tail)-1500:]
	}
	if err != nil {
		return nil, tail
	}
	b, err := os.ReadFile(tmp.Name())
	if err != nil {
		return nil, tail
	}
	var r vlib.Result
	if json.Unmarshal(b, &r) != nil {
		return nil, tail
	}
	return &r, tail
}

func c08Supervise(c *ctx, lines []string) {
	r, tail := c08Child(c, "c08 all")
	if r != nil {
		rule := c.res.Rule
		*c.res = *r
		c.res.Rule = rule
		c.res.Note("sessions ran under GODEBUG=asynctimerchan=1 (pre-Go-1.23 timer channels, what a go 1.20 main module gets); the directed history/known-finding sessions ran again under asynctimerchan=0")
		// the directed sessions once more under the Go >= 1.23 timer semantics
		if r2, _ := c08Child(c, fmt.Sprintf("c08 range 0 %d", len(c08DirectedNames)), "asynctimerchan=0"); r2 != nil {
			c.res.Evaluations += r2.Evaluations
			c.res.InDomain += r2.InDomain
			c.res.TracesVsImpl += r2.TracesVsImpl
			for k, v := range r2.Distribution {
				c.res.Distribution["asynctimerchan=0/"+k] += v
			}
			for _, f := range r2.Findings {
				f.Detail = "[asynctimerchan=0] " + f.Detail
				c.res.Findings = append(c.res.Findings, f)
			}
		} else {
			c.res.Fail("machinery", "c08 range", "the asynctimerchan=0 child did not complete", "child-crash")
		}
		return
	}
	// the child died: find the first session that kills it
	lo, hi := 0, len(lines)
	for hi-lo > 1 {
		mid := (lo + hi) / 2
		if rr, _ := c08Child(c, fmt.Sprintf("c08 range %d %d", lo, mid)); rr == nil {
			hi = mid
		} else {
			lo = mid
		}
	}
	if lo < len(lines) {
		if rr, t := c08Child(c, fmt.Sprintf("c08 range %d %d", lo, lo+1)); rr == nil {
			c.res.Case(lines[lo], true)
			c.res.Fail("oracle", lines[lo], "the process died while the driver ran this session (panic in a library goroutine?): "+c08panicLine(t), "panic")
			return
		}
	}
	c.res.Fail("machinery", "c08 all", "the harness child process died and no single session reproduces it: "+tail, "child-crash")
}

func c08panicLine(out string) string {
	for _, l := range strings.Split(out, "\n") {
		if strings.HasPrefix(l, "panic:") || strings.HasPrefix(l, "fatal error:") {
			return l
		}
	}
	if len(out) > 300 {
		out = out[len(out)-300:]
	}
	return out
}

func c08cause(reason string) string {
	var out []string
	parts := strings.Split(reason, "+")
	for _, r := range parts {
		if r == "big" && len(parts) > 1 {
			continue // too large for the model driver to evaluate every hypothesis; the others say why
		}
		switch r {
		case "id":
			out = append(out, "msgid-split-across-chunks")
		case "early":
			out = append(out, "hash-hash-line-at-read-boundary")
		case "ok":
			out = append(out, "in-domain")
		case "idsyntax":
			out = append(out, "msgid-attribute-spelling")
		case "nid":
			out = append(out, "notification-carries-message-id-text")
		case "unattributed", "unsolicited":
			out = append(out, r)
		default:
			out = append(out, "hypothesis-"+r)
		}
	}
	return strings.Join(out, "+")
}

func c08short(s string) string {
	if s == "T" || s == "." {
		return s
	}
	parts := strings.Split(s, ",")
	for i, p := range parts {
		id := ""
		if j := strings.Index(p, ":"); j >= 0 && j < 8 {
			id, p = p[:j+1], p[j+1:]
		}
		if b, err := vlib.UnHex(p); err == nil {
			q := strconv.Quote(string(b))
			if len(q) > 90 {
				q = q[:60] + "…" + q[len(q)-25:]
			}
			parts[i] = id + q
		}
	}
	return strings.Join(parts, ",")
}
