//go:build !internaltie

package main

func c14Internal(c *ctx, e *c14env, seeds []uint64) {}
