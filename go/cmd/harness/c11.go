package main

import (
	"bytes"
	"errors"
	"fmt"
	"os"
	"strconv"
	"strings"
	"sync"
	"time"

	"github.com/scrapli/scrapligo/channel"
	"github.com/scrapli/scrapligo/driver/generic"
	"github.com/scrapli/scrapligo/driver/network"
	"github.com/scrapli/scrapligo/driver/opoptions"
	"github.com/scrapli/scrapligo/driver/options"
	"github.com/scrapli/scrapligo/platform"
	"github.com/scrapli/scrapligo/transport"
	"github.com/scrapli/scrapligo/util"

	"verifgo/sim"
	"verifgo/vlib"
)

func init() { props["C11"] = runC11 }

type capture struct {
	mu   sync.Mutex
	msgs []string
	chl  bytes.Buffer
}

func (c *capture) log(a ...interface{}) {
	c.mu.Lock()
	c.msgs = append(c.msgs, fmt.Sprint(a...))
	c.mu.Unlock()
}
func (c *capture) Write(b []byte) (int, error) {
	c.mu.Lock()
	c.chl.Write(b)
	c.mu.Unlock()
	return len(b), nil
}

// secret builds a credential around a unique alphanumeric core; the rest is hostile to format
// strings, quoting and regular expressions.
func c11secret(r *vlib.Rng, tag string) (secret, core string) {
	core = tag + "Zq" + strconv.Itoa(100000+r.Intn(899999))
	deco := []string{"%s", "%v", "%!", "%d", ".*", "+?", "(", ")[", "]{", "}|", "^$", "\\", "\"", "'", "%#v", " ", "é"}
	secret = r.Pick(deco) + core + r.Pick(deco)
	if r.Bool() {
		secret = core[:4] + r.Pick(deco) + core[4:] + r.Pick(deco)
		core = core[4:]
	}
	return c11dress(r, strings.TrimSpace(secret)+"x"), core
}

type c11case struct {
	fault   string // "", "wfail-secret", "eof-secret", "wfail-return" (fault injected at the write that carries a secret / at the next write)
	seed    uint64
	kind    string // escalate-ask, escalate-noask, escalate-reject, telnet, ssh, ssh-passphrase, platform-redacted, interactive-hidden-*, onx-generic, onx-network, hidden-onopen (c11_onx.go)
	level   string
	rejects int
}

type c11out struct {
	leaks          []string
	info           string
	nmsgs          int
	redactedWrites int
	errLogged      int
	retCarries     bool
	logMode        string
	unexpected     int // logger messages although the level is unknown / there is no logger
	judgedLines    int // logger lines the oracle looked at (incl. the standard logger's)
	argvLogged     bool
}

func runC11case(cs c11case) (o c11out) {
	var leaks []string
	var info string
	var nmsgs, redactedWrites, errLogged int
	var retCarries bool
	defer func() {
		o.leaks, o.info, o.nmsgs, o.redactedWrites, o.errLogged, o.retCarries = leaks, info, nmsgs, redactedWrites, errLogged, retCarries
	}()
	r := vlib.NewRng(cs.seed)
	cap := &capture{}
	r2 := vlib.NewRng(cs.seed ^ 0x9e3779b97f4a7c15)
	logOpts, logMode, logSilent, logStd := c11logging(r2, cs.level, cap)
	common := append(logOpts, options.WithTimeoutOps(400*time.Millisecond), options.WithReadDelay(40*time.Microsecond))
	var cores []string
	var secrets []string
	note := func(s, c string) { secrets = append(secrets, s); cores = append(cores, c) }
	segs := []func(int) int{nil, sim.SegFixed(1), sim.SegFixed(5)}
	seg := segs[r.Intn(len(segs))]
	var extra []c11needles // secrets that are not strings (their renderings), see c11_onx.go
	var retErr []string    // texts of errors returned to the caller
	info2 := ""
	// fault injection keyed on the secret's core: the write that carries a secret fails, or the
	// device drops the session right after receiving it, or the write after it (the return) fails
	sawSecret := false
	var stallDev func() // set by the scenario: called with the device's lock held
	nthKind, nthK := c11nthFault(cs.fault)
	nWrites := 0
	fault := func(b []byte) (bool, bool) {
		nWrites++
		if nthKind != "" {
			if nWrites == nthK {
				return nthKind == "wfail", nthKind == "eof"
			}
			return false, false
		}
		hit := false
		for _, c := range cores {
			if bytes.Contains(b, []byte(c)) {
				hit = true
			}
		}
		switch cs.fault {
		case "silent-secret": // the device receives the secret and says nothing any more (time-out)
			if hit && stallDev != nil {
				stallDev()
			}
		case "wfail-secret":
			return hit, false
		case "eof-secret":
			return false, hit
		case "wfail-return":
			if sawSecret {
				sawSecret = false
				return true, false
			}
			sawSecret = hit
		}
		return false, false
	}
	env := &c11env{r: r, common: common, seg: seg, fault: fault, note: note, extra: &extra, retErr: &retErr, stall: &stallDev}
	switch cs.kind {
	case "onx-generic":
		info = runC11onx(env, false)
	case "onx-network":
		info = runC11onx(env, true)
	case "hidden-onopen":
		info = runC11hiddenOnOpen(env)
	case "escalate-matrix":
		info = runC11escalateMatrix(env)
	case "system-ssh":
		info = runC11system(env, false)
	case "system-netconf":
		info = runC11system(env, true)
	case "netconf-inchannel":
		info = runC11netconfInChannel(env)
	case "standard-ssh":
		info = runC11standard(env)
	case "escalate-ask", "escalate-noask", "escalate-reject":
		sec, core := c11secret(r, "EN")
		note(sec, core)
		devSecret := sec
		if cs.kind == "escalate-reject" {
			devSecret = "another-" + sec
		}
		dev := sim.NewIOS("router", devSecret, cs.kind != "escalate-noask")
		dev.Seg = seg
		dev.WriteFault = fault
		stallDev = func() { dev.Pipe.StallAt = dev.Pipe.Emitted }
		dev.Start()
		p, err := platform.NewPlatform("cisco_iosxe", "h", append(common, options.WithCustomTransport(dev), options.WithAuthBypass(), options.WithAuthSecondary(sec))...)
		if err != nil {
			info = "platform: " + err.Error()
			return
		}
		d, err := p.GetNetworkDriver()
		if err != nil {
			info = "driver: " + err.Error()
			return
		}
		err = d.Open()
		info = "open:" + errClass(err)
		if err == nil {
			_, e1 := d.SendCommand("show version")
			_, e2 := d.SendConfig("interface lo0\ndescription x")
			e3 := d.AcquirePriv("exec")
			e4 := d.AcquirePriv("configuration")
			info += fmt.Sprintf(" cmd:%s cfg:%s acq:%s acq:%s", errClass(e1), errClass(e2), errClass(e3), errClass(e4))
			if r2.Chance(1, 3) { // a level whose prompt other levels exclude by `not-contains`, then down and up again
				e5 := d.AcquirePriv("tclsh")
				e6 := d.AcquirePriv("exec")
				e7 := d.AcquirePriv("privilege-exec")
				info += fmt.Sprintf(" tcl:%s acq:%s acq:%s", errClass(e5), errClass(e6), errClass(e7))
			}
		}
		closeQuietly(func() error { return d.Close() })
	case "telnet", "ssh", "ssh-passphrase":
		pass, core := c11secret(r, "PW")
		note(pass, core)
		pp := ""
		if cs.kind == "ssh-passphrase" {
			var c2 string
			pp, c2 = c11secret(r, "PP")
			note(pp, c2)
		}
		fl := "telnet"
		if cs.kind != "telnet" {
			fl = "ssh"
		}
		typed := pass
		if cs.rejects == 9 { // wrong password configured on the client: every attempt fails
			typed = "wrong-" + pass
		}
		dev := sim.NewMiniLogin(fl, "admin", pass, pp, cs.rejects%9)
		dev.Banner = "\nUser Access Verification\n\n"
		style := r2.Pick([]string{"", "", "", "", "", "reprompt", "silent", "errline"})
		switch style {
		case "reprompt":
			dev.Rejects = 3
			sim.C11LoginStyle(dev, style, "", false)
		case "silent":
			sim.C11LoginStyle(dev, style, "", true)
		case "errline":
			if fl == "ssh" {
				sim.C11LoginStyle(dev, style, r2.Pick(sim.C11SSHErrLines), true)
			} else {
				style = ""
			}
		}
		wrongPP := pp != "" && r2.Chance(1, 4) // the client is configured with a wrong key passphrase
		if wrongPP {
			dev.Passphrase = "right-" + pp // what the client types (pp, through GetSSHArgs) is refused
		}
		dev.Seg = seg
		dev.WriteFault = fault
		stallDev = func() { dev.Pipe.StallAt = dev.Pipe.Emitted }
		dev.Start()
		var tr transport.Implementation = dev
		if wrongPP {
			tr = c11wrongPP{dev, pp}
		}
		d, err := generic.NewDriver("h", append(common, options.WithCustomTransport(tr), options.WithAuthUsername("admin"), options.WithAuthPassword(typed))...)
		if err != nil {
			info = "driver: " + err.Error()
			return
		}
		if typed != pass {
			note(typed, core)
		}
		err = d.Open()
		info = "open:" + errClass(err)
		if style != "" {
			info += " style=" + style
		}
		if wrongPP {
			info += " wrong-passphrase"
		}
		if err == nil {
			_, e1 := d.SendCommand("show version")
			info += " cmd:" + errClass(e1)
			closeQuietly(func() error { return d.Close() })
		}
	case "interactive-hidden-failed", "interactive-hidden-ok":
		// driver-level SendInteractive with a hidden event; the device rejects the secret with a
		// text that is one of the driver's failure strings (the response is marked failed)
		sec, core := c11secret(r, "IH")
		note(sec, core)
		devSecret := sec
		if cs.kind == "interactive-hidden-failed" {
			devSecret = "another-" + sec
		}
		dev := sim.NewIOS("router", devSecret, true)
		dev.Seg = seg
		dev.WriteFault = fault
		stallDev = func() { dev.Pipe.StallAt = dev.Pipe.Emitted }
		dev.Start()
		events := []*channel.SendInteractiveEvent{
			{ChannelInput: "enable", ChannelResponse: "(?im)^password:\\s?$", HideInput: false},
			{ChannelInput: sec, ChannelResponse: "(?im)^router[>#]$", HideInput: true},
		}
		if r.Bool() {
			// hidden event that just waits for the normal channel prompt (no explicit response)
			events[1].ChannelResponse = ""
		}
		var iopts []util.Option
		if r2.Chance(1, 4) {
			iopts = append(iopts, opoptions.WithExactMatchInput())
			info2 = " exact"
		}
		if r2.Chance(1, 8) { // an operation option that refuses: SendInteractive fails before it writes anything
			if r2.Bool() {
				iopts = append(iopts, func(o interface{}) error { return errors.New("c11: option refused") })
			} else { // refused by the channel's operation only (the driver's own operation ignores it)
				iopts = append(iopts, func(o interface{}) error {
					if _, ok := o.(*channel.OperationOptions); ok {
						return errors.New("c11: channel option refused")
					}
					return util.ErrIgnoredOption
				})
			}
			info2 += " bad-option"
		}
		if r.Bool() {
			d, err := generic.NewDriver("h", append(common, options.WithCustomTransport(dev), options.WithAuthBypass(),
				options.WithFailedWhenContains([]string{"% Access denied", "% Invalid input"}))...)
			if err != nil {
				info = "driver: " + err.Error()
				return
			}
			err = d.Open()
			info = "generic open:" + errClass(err)
			if err == nil {
				rr, e1 := d.SendInteractive(events, iopts...)
				info += " inter:" + errClass(e1) + info2
				if rr != nil && rr.Failed != nil {
					info += " failed"
				}
			}
			closeQuietly(func() error { return d.Close() })
		} else {
			p, err := platform.NewPlatform("cisco_iosxe", "h", append(common, options.WithCustomTransport(dev), options.WithAuthBypass(),
				options.WithDefaultDesiredPriv("exec"), options.WithFailedWhenContains([]string{"% Access denied", "% Invalid input"}))...)
			if err != nil {
				info = "platform: " + err.Error()
				return
			}
			d, err := p.GetNetworkDriver()
			if err != nil {
				info = "driver: " + err.Error()
				return
			}
			err = d.Open()
			info = "network open:" + errClass(err)
			if err == nil {
				rr, e1 := d.SendInteractive(events, append(iopts, opoptions.WithPrivilegeLevel("exec"))...)
				info += " inter:" + errClass(e1) + info2
				if rr != nil && rr.Failed != nil {
					info += " failed"
				}
			}
			closeQuietly(func() error { return d.Close() })
		}
	case "platform-redacted":
		sec, core := c11secret(r, "OX")
		note(sec, core)
		yaml := "platform-type: 'x'\ndefault:\n  driver-type: 'generic'\n  failed-when-contains: []\n  on-open:\n    - operation: 'channel.write'\n      input: " + strconv.Quote(sec) + "\n      redacted: true\n    - operation: 'channel.return'\n"
		dev := sim.NewIOS("router", "", false)
		dev.Mode = "privilege-exec"
		hidden := true
		orig := dev.Handle
		dev.Handle = func(c *sim.CLI, line string) string {
			if hidden { // the device reads the secret without echo, like a password field
				hidden = false
				c.Hidden = false
				return ""
			}
			return orig(c, line)
		}
		dev.Hidden = true
		dev.Seg = seg
		dev.WriteFault = fault
		stallDev = func() { dev.Pipe.StallAt = dev.Pipe.Emitted }
		dev.Mu.Lock()
		dev.EmitRich("Key: ")
		dev.Mu.Unlock()
		p, err := platform.NewPlatform([]byte(yaml), "h", append(common, options.WithCustomTransport(dev), options.WithAuthBypass())...)
		if err != nil {
			info = "platform: " + err.Error()
			return
		}
		d, err := p.GetGenericDriver()
		if err != nil {
			info = "driver: " + err.Error()
			return
		}
		err = d.Open()
		info = "open:" + errClass(err)
		if err == nil {
			_, e1 := d.SendCommand("show version")
			info += " cmd:" + errClass(e1)
		}
		closeQuietly(func() error { return d.Close() })
	}
	time.Sleep(2 * time.Millisecond)
	cap.mu.Lock()
	defer cap.mu.Unlock()
	nmsgs = len(cap.msgs)
	for _, m := range cap.msgs {
		if strings.Contains(m, "channel write \"redacted\"") {
			redactedWrites++
		}
		if strings.Contains(m, "error executing") || strings.Contains(m, "error running network on close") {
			errLogged++
		}
		if strings.Contains(m, "opening system transport with bin") {
			o.argvLogged = true
		}
		for i, core := range cores {
			if strings.Contains(m, core) || strings.Contains(m, secrets[i]) {
				leaks = append(leaks, "logger: "+m)
			}
		}
		for i := range extra {
			if extra[i].hit(m) {
				leaks = append(leaks, "logger: "+m)
			}
		}
	}
	for i := range extra {
		if extra[i].hit(cap.chl.String()) {
			leaks = append(leaks, "channel log contains the secret")
		}
	}
	for _, t := range retErr {
		for i, core := range cores {
			if strings.Contains(t, core) || strings.Contains(t, secrets[i]) {
				retCarries = true
			}
		}
		for i := range extra {
			if extra[i].hit(t) {
				retCarries = true
			}
		}
	}
	for i, core := range cores {
		if bytes.Contains(cap.chl.Bytes(), []byte(core)) || bytes.Contains(cap.chl.Bytes(), []byte(secrets[i])) {
			leaks = append(leaks, "channel log contains the secret")
		}
	}
	o.logMode = logMode
	o.judgedLines = nmsgs
	if logSilent {
		o.unexpected = nmsgs
	}
	if logStd {
		// what the default logger printed (process wide): this session's secrets must not be there
		c11stdlog.mu.Lock()
		std := c11stdlog.buf.String()
		c11stdlog.mu.Unlock()
		o.judgedLines += strings.Count(std, "\n")
		for i, core := range cores {
			if strings.Contains(std, core) || strings.Contains(std, secrets[i]) {
				leaks = append(leaks, "standard logger (log.Print): secret "+strconv.Quote(core)+" printed")
			}
		}
		for i := range extra {
			if extra[i].hit(std) {
				leaks = append(leaks, "standard logger (log.Print): secret printed")
			}
		}
	}
	return
}

func closeQuietly(f func() error) {
	done := make(chan struct{})
	go func() {
		defer func() { recover() }()
		_ = f()
		close(done)
	}()
	select {
	case <-done:
	case <-time.After(2 * time.Second):
	}
}

func runC11(c *ctx) {
	res := c.res
	res.Rule = "sessions judged on every logger message (debug/info/critical) and the channel log. Kinds: platform cisco_iosxe on-open + escalation (device asks / does not ask / rejects; down to exec, up to configuration, tclsh and back); escalation over level definitions with every combination of escalate-auth x escalate-prompt empty/set (synthetic IOS-like and sudo-like, embedded cumulus_linux and its root_login variant) x secondary secret configured or not x device asks / does not ask / refuses; in-channel telnet and ssh logins over simulators (0-3 rejections, wrong password, key passphrase right/wrong; refusal styles: message, silent re-prompt, silence, 13 ssh error lines); NETCONF with in-channel password/passphrase; the REAL system transport (exec+pty) with this binary as stand-in ssh (password prompt without echo, refusals, key file ok/unusable/missing/with passphrase, known-hosts/config/strict options, extra args and argv override, missing binary; CLI and NETCONF) whose logged argv line is judged; the REAL standard transport (crypto/ssh) against an in-process SSH server (password / keyboard-interactive accepted, refused, unusable or passphrase-protected key); platform on-open redacted write; platform on-open / on-close sequences (generic and network layer, block and flow spelling) whose redacted input is not a YAML string or whose operation is malformed; on-open / on-close functions that return the error of a hidden SendInteractive dialogue; hidden interactive events (fuzzy / exact input matching, refusing operation options). Faults: write failure / session drop / silence at the secret, failure of the write after it, failure or drop at the k-th write. Logging: default, custom and quoting formatter, two loggers, upper-case level, unknown level word, no logger, options.WithDefaultLogger (log.Print captured process wide), with and without channel log. Secrets: unique core + format verbs, quotes, regex metacharacters, braces, tabs, words the device prints, up to ~3.7 kB. Plus: logging.Instance level filter and WithLevel vs the Lean model (exhaustive over level words x 0-3 loggers x six methods). non-trivial = a secret was transmitted redacted, or the driver logged an error value, or the system transport's argv line was judged, or the level is not debug; distinct by seed"
	kinds := []string{"escalate-ask", "escalate-ask", "escalate-noask", "escalate-reject", "telnet", "telnet", "ssh", "ssh", "ssh-passphrase", "ssh-passphrase", "platform-redacted", "interactive-hidden-failed", "interactive-hidden-ok",
		"onx-generic", "onx-generic", "onx-network", "onx-network", "hidden-onopen",
		"system-ssh", "system-netconf", "netconf-inchannel", "netconf-inchannel", "standard-ssh", "escalate-matrix", "escalate-matrix", "escalate-matrix", "escalate-matrix"}
	var cases []c11case
	if c.replay == "" || strings.HasPrefix(c.replay, "c11log") {
		c11logLevels(c)
	}
	if strings.HasPrefix(c.replay, "c11log") {
		return
	}
	if strings.HasPrefix(c.replay, "c11case") {
		f := strings.Fields(c.replay)
		seed, _ := strconv.ParseUint(f[1], 10, 64)
		rej, _ := strconv.Atoi(f[4])
		cs := c11case{seed: seed, kind: f[2], level: f[3], rejects: rej}
		if len(f) > 5 && f[5] != "-" {
			cs.fault = f[5]
		}
		cases = []c11case{cs}
	} else {
		for i := 0; i < c.n(980, 17000); i++ {
			cs := c11case{seed: c.rng.U64(), kind: kinds[c.rng.Intn(len(kinds))], level: []string{"debug", "debug", "info", "critical"}[c.rng.Intn(4)]}
			cs.rejects = []int{0, 0, 1, 2, 3, 9}[c.rng.Intn(6)]
			cs.fault = []string{"", "", "", "", "wfail-secret", "eof-secret", "wfail-return", "wfail-n", "eof-n", "silent-secret"}[c.rng.Intn(10)]
			if strings.HasSuffix(cs.fault, "-n") { // the k-th write of the session, whatever it carries
				cs.fault += strconv.Itoa(1 + c.rng.Intn(1+c.rng.Intn(14)))
			}
			cases = append(cases, cs)
		}
	}
	outs := make([]c11out, len(cases))
	os.Setenv("VERIF_C11_STANDIN", "1") // children spawned as the ssh stand-in (c11_sys.go) recognise themselves by it
	defer os.Unsetenv("VERIF_C11_STANDIN")
	var wg sync.WaitGroup
	sem := make(chan struct{}, vlib.Conc(16))
	for i := range cases {
		wg.Add(1)
		sem <- struct{}{}
		go func(i int) {
			defer wg.Done()
			defer func() { <-sem }()
			outs[i] = runC11case(cases[i])
		}(i)
	}
	wg.Wait()
	if c11tmpDir != "" {
		os.RemoveAll(c11tmpDir)
	}
	for i, cs := range cases {
		o := outs[i]
		fl := cs.fault
		if fl == "" {
			fl = "-"
		}
		flClass := strings.TrimRight(fl, "0123456789")
		line := fmt.Sprintf("c11case %d %s %s %d %s", cs.seed, cs.kind, cs.level, cs.rejects, fl)
		res.Count("fault:" + flClass)
		res.Count("kind:" + cs.kind)
		res.Count("level:" + cs.level)
		res.Count("logging:" + o.logMode)
		res.Count("outcome:" + cs.kind + ":" + flClass + ":" + o.info)
		if o.errLogged > 0 {
			res.Count("driver-logged-an-error:" + cs.kind)
		}
		if o.argvLogged {
			res.Count("system-transport-argv-line-judged:" + cs.kind)
		}
		if o.unexpected > 0 {
			// the level filter itself is tied to the model in c11logLevels; here it is only counted
			res.Count("messages-despite-unknown-level-or-no-logger")
		}
		if o.retCarries {
			// not a log: the property speaks about the loggers and the channel log only
			res.Count("returned-error-carries-secret:" + cs.kind)
		}
		res.Case(line, o.redactedWrites > 0 || o.errLogged > 0 || o.argvLogged || cs.level != "debug")
		res.InDomain++
		if i%37 == 0 {
			res.Sample(map[string]any{"case": line, "outcome": o.info, "logging": o.logMode, "log_messages": o.nmsgs, "redacted_writes_logged": o.redactedWrites})
		}
		if len(o.leaks) > 0 {
			res.Fail("oracle", line, fmt.Sprintf("secret visible in %d place(s), first: %s", len(o.leaks), o.leaks[0]), "secret-in-log:"+cs.kind+":"+flClass)
		}
	}
	res.TracesVsImpl = len(cases)
}

var _ = network.NewDriver
