package main

import (
	"bytes"
	"fmt"
	"strconv"
	"strings"
	"sync"
	"time"

	"github.com/scrapli/scrapligo/channel"
	"github.com/scrapli/scrapligo/driver/generic"
	"github.com/scrapli/scrapligo/driver/network"
	"github.com/scrapli/scrapligo/driver/opoptions"
	"github.com/scrapli/scrapligo/driver/options"
	"github.com/scrapli/scrapligo/logging"
	"github.com/scrapli/scrapligo/platform"
	"github.com/scrapli/scrapligo/util"

	"verifgo/sim"
	"verifgo/vlib"
)

func init() { props["C11"] = runC11 }

type capture struct {
	mu   sync.Mutex
	msgs []string
	chl  bytes.Buffer
}

func (c *capture) log(a ...interface{}) {
	c.mu.Lock()
	c.msgs = append(c.msgs, fmt.Sprint(a...))
	c.mu.Unlock()
}
func (c *capture) Write(b []byte) (int, error) {
	c.mu.Lock()
	c.chl.Write(b)
	c.mu.Unlock()
	return len(b), nil
}

// secret builds a credential around a unique alphanumeric core; the rest is hostile to format
// strings, quoting and regular expressions.
func c11secret(r *vlib.Rng, tag string) (secret, core string) {
	core = tag + "Zq" + strconv.Itoa(100000+r.Intn(899999))
	deco := []string{"%s", "%v", "%!", "%d", ".*", "+?", "(", ")[", "]{", "}|", "^$", "\\", "\"", "'", "%#v", " ", "é"}
	secret = r.Pick(deco) + core + r.Pick(deco)
	if r.Bool() {
		secret = core[:4] + r.Pick(deco) + core[4:] + r.Pick(deco)
		core = core[4:]
	}
	return strings.TrimSpace(secret) + "x", core
}

type c11case struct {
	fault   string // "", "wfail-secret", "eof-secret", "wfail-return" (fault injected at the write that carries a secret / at the next write)
	seed    uint64
	kind    string // escalate-ask, escalate-noask, escalate-reject, telnet, ssh, ssh-passphrase, platform-redacted, interactive-hidden-*, onx-generic, onx-network, hidden-onopen (c11_onx.go)
	level   string
	rejects int
}

func runC11case(cs c11case) (leaks []string, info string, nmsgs int, redactedWrites int, errLogged int, retCarries bool) {
	r := vlib.NewRng(cs.seed)
	cap := &capture{}
	li, _ := logging.NewInstance(logging.WithLevel(cs.level), logging.WithLogger(cap.log))
	common := []util.Option{options.WithLogger(li), options.WithChannelLog(cap),
		options.WithTimeoutOps(400 * time.Millisecond), options.WithReadDelay(40 * time.Microsecond)}
	var cores []string
	var secrets []string
	note := func(s, c string) { secrets = append(secrets, s); cores = append(cores, c) }
	segs := []func(int) int{nil, sim.SegFixed(1), sim.SegFixed(5)}
	seg := segs[r.Intn(len(segs))]
	var extra []c11needles // secrets that are not strings (their renderings), see c11_onx.go
	var retErr []string    // texts of errors returned to the caller
	// fault injection keyed on the secret's core: the write that carries a secret fails, or the
	// device drops the session right after receiving it, or the write after it (the return) fails
	sawSecret := false
	fault := func(b []byte) (bool, bool) {
		hit := false
		for _, c := range cores {
			if bytes.Contains(b, []byte(c)) {
				hit = true
			}
		}
		switch cs.fault {
		case "wfail-secret":
			return hit, false
		case "eof-secret":
			return false, hit
		case "wfail-return":
			if sawSecret {
				sawSecret = false
				return true, false
			}
			sawSecret = hit
		}
		return false, false
	}
	env := &c11env{r: r, common: common, seg: seg, fault: fault, note: note, extra: &extra, retErr: &retErr}
	switch cs.kind {
	case "onx-generic":
		info = runC11onx(env, false)
	case "onx-network":
		info = runC11onx(env, true)
	case "hidden-onopen":
		info = runC11hiddenOnOpen(env)
	case "escalate-ask", "escalate-noask", "escalate-reject":
		sec, core := c11secret(r, "EN")
		note(sec, core)
		devSecret := sec
		if cs.kind == "escalate-reject" {
			devSecret = "another-" + sec
		}
		dev := sim.NewIOS("router", devSecret, cs.kind != "escalate-noask")
		dev.Seg = seg
		dev.WriteFault = fault
		dev.Start()
		p, err := platform.NewPlatform("cisco_iosxe", "h", append(common, options.WithCustomTransport(dev), options.WithAuthBypass(), options.WithAuthSecondary(sec))...)
		if err != nil {
			return nil, "platform: " + err.Error(), 0, 0, 0, false
		}
		d, err := p.GetNetworkDriver()
		if err != nil {
			return nil, "driver: " + err.Error(), 0, 0, 0, false
		}
		err = d.Open()
		info = "open:" + errClass(err)
		if err == nil {
			_, e1 := d.SendCommand("show version")
			_, e2 := d.SendConfig("interface lo0\ndescription x")
			e3 := d.AcquirePriv("exec")
			e4 := d.AcquirePriv("configuration")
			info += fmt.Sprintf(" cmd:%s cfg:%s acq:%s acq:%s", errClass(e1), errClass(e2), errClass(e3), errClass(e4))
		}
		closeQuietly(func() error { return d.Close() })
	case "telnet", "ssh", "ssh-passphrase":
		pass, core := c11secret(r, "PW")
		note(pass, core)
		pp := ""
		if cs.kind == "ssh-passphrase" {
			var c2 string
			pp, c2 = c11secret(r, "PP")
			note(pp, c2)
		}
		fl := "telnet"
		if cs.kind != "telnet" {
			fl = "ssh"
		}
		typed := pass
		if cs.rejects == 9 { // wrong password configured on the client: every attempt fails
			typed = "wrong-" + pass
		}
		dev := sim.NewMiniLogin(fl, "admin", pass, pp, cs.rejects%9)
		dev.Banner = "\nUser Access Verification\n\n"
		dev.Seg = seg
		dev.WriteFault = fault
		dev.Start()
		d, err := generic.NewDriver("h", append(common, options.WithCustomTransport(dev), options.WithAuthUsername("admin"), options.WithAuthPassword(typed))...)
		if err != nil {
			return nil, "driver: " + err.Error(), 0, 0, 0, false
		}
		if typed != pass {
			note(typed, core)
		}
		err = d.Open()
		info = "open:" + errClass(err)
		if err == nil {
			_, e1 := d.SendCommand("show version")
			info += " cmd:" + errClass(e1)
			closeQuietly(func() error { return d.Close() })
		}
	case "interactive-hidden-failed", "interactive-hidden-ok":
		// driver-level SendInteractive with a hidden event; the device rejects the secret with a
		// text that is one of the driver's failure strings (the response is marked failed)
		sec, core := c11secret(r, "IH")
		note(sec, core)
		devSecret := sec
		if cs.kind == "interactive-hidden-failed" {
			devSecret = "another-" + sec
		}
		dev := sim.NewIOS("router", devSecret, true)
		dev.Seg = seg
		dev.WriteFault = fault
		dev.Start()
		events := []*channel.SendInteractiveEvent{
			{ChannelInput: "enable", ChannelResponse: "(?im)^password:\\s?$", HideInput: false},
			{ChannelInput: sec, ChannelResponse: "(?im)^router[>#]$", HideInput: true},
		}
		if r.Bool() {
			// hidden event that just waits for the normal channel prompt (no explicit response)
			events[1].ChannelResponse = ""
		}
		if r.Bool() {
			d, err := generic.NewDriver("h", append(common, options.WithCustomTransport(dev), options.WithAuthBypass(),
				options.WithFailedWhenContains([]string{"% Access denied", "% Invalid input"}))...)
			if err != nil {
				return nil, "driver: " + err.Error(), 0, 0, 0, false
			}
			err = d.Open()
			info = "generic open:" + errClass(err)
			if err == nil {
				rr, e1 := d.SendInteractive(events)
				info += " inter:" + errClass(e1)
				if rr != nil && rr.Failed != nil {
					info += " failed"
				}
			}
			closeQuietly(func() error { return d.Close() })
		} else {
			p, err := platform.NewPlatform("cisco_iosxe", "h", append(common, options.WithCustomTransport(dev), options.WithAuthBypass(),
				options.WithDefaultDesiredPriv("exec"), options.WithFailedWhenContains([]string{"% Access denied", "% Invalid input"}))...)
			if err != nil {
				return nil, "platform: " + err.Error(), 0, 0, 0, false
			}
			d, err := p.GetNetworkDriver()
			if err != nil {
				return nil, "driver: " + err.Error(), 0, 0, 0, false
			}
			err = d.Open()
			info = "network open:" + errClass(err)
			if err == nil {
				rr, e1 := d.SendInteractive(events, opoptions.WithPrivilegeLevel("exec"))
				info += " inter:" + errClass(e1)
				if rr != nil && rr.Failed != nil {
					info += " failed"
				}
			}
			closeQuietly(func() error { return d.Close() })
		}
	case "platform-redacted":
		sec, core := c11secret(r, "OX")
		note(sec, core)
		yaml := "platform-type: 'x'\ndefault:\n  driver-type: 'generic'\n  failed-when-contains: []\n  on-open:\n    - operation: 'channel.write'\n      input: " + strconv.Quote(sec) + "\n      redacted: true\n    - operation: 'channel.return'\n"
		dev := sim.NewIOS("router", "", false)
		dev.Mode = "privilege-exec"
		hidden := true
		orig := dev.Handle
		dev.Handle = func(c *sim.CLI, line string) string {
			if hidden { // the device reads the secret without echo, like a password field
				hidden = false
				c.Hidden = false
				return ""
			}
			return orig(c, line)
		}
		dev.Hidden = true
		dev.Seg = seg
		dev.WriteFault = fault
		dev.Mu.Lock()
		dev.EmitRich("Key: ")
		dev.Mu.Unlock()
		p, err := platform.NewPlatform([]byte(yaml), "h", append(common, options.WithCustomTransport(dev), options.WithAuthBypass())...)
		if err != nil {
			return nil, "platform: " + err.Error(), 0, 0, 0, false
		}
		d, err := p.GetGenericDriver()
		if err != nil {
			return nil, "driver: " + err.Error(), 0, 0, 0, false
		}
		err = d.Open()
		info = "open:" + errClass(err)
		if err == nil {
			_, e1 := d.SendCommand("show version")
			info += " cmd:" + errClass(e1)
		}
		closeQuietly(func() error { return d.Close() })
	}
	time.Sleep(2 * time.Millisecond)
	cap.mu.Lock()
	defer cap.mu.Unlock()
	nmsgs = len(cap.msgs)
	for _, m := range cap.msgs {
		if strings.Contains(m, "channel write \"redacted\"") {
			redactedWrites++
		}
		if strings.Contains(m, "error executing") || strings.Contains(m, "error running network on close") {
			errLogged++
		}
		for i, core := range cores {
			if strings.Contains(m, core) || strings.Contains(m, secrets[i]) {
				leaks = append(leaks, "logger: "+m)
			}
		}
		for i := range extra {
			if extra[i].hit(m) {
				leaks = append(leaks, "logger: "+m)
			}
		}
	}
	for i := range extra {
		if extra[i].hit(cap.chl.String()) {
			leaks = append(leaks, "channel log contains the secret")
		}
	}
	for _, t := range retErr {
		for i, core := range cores {
			if strings.Contains(t, core) || strings.Contains(t, secrets[i]) {
				retCarries = true
			}
		}
		for i := range extra {
			if extra[i].hit(t) {
				retCarries = true
			}
		}
	}
	for i, core := range cores {
		if bytes.Contains(cap.chl.Bytes(), []byte(core)) || bytes.Contains(cap.chl.Bytes(), []byte(secrets[i])) {
			leaks = append(leaks, "channel log contains the secret")
		}
	}
	return leaks, info, nmsgs, redactedWrites, errLogged, retCarries
}

func closeQuietly(f func() error) {
	done := make(chan struct{})
	go func() {
		defer func() { recover() }()
		_ = f()
		close(done)
	}()
	select {
	case <-done:
	case <-time.After(2 * time.Second):
	}
}

func runC11(c *ctx) {
	res := c.res
	res.Rule = "sessions with a capturing logger (debug/info/critical) and a channel-log writer: platform cisco_iosxe on-open + escalation (device asks / does not ask / rejects), in-channel telnet and ssh logins (0-3 rejections, wrong password, key passphrase), platform on-open redacted write; platform on-open / on-close sequences (generic and network layer, block and flow spelling) whose redacted input is not a YAML string (int, hex, float, bool, null, list, map, timestamp, missing) or whose operation is malformed, so that the driver logs the returned error; on-open / on-close functions that run a hidden SendInteractive dialogue and return its error; write faults, session drops and timeouts at the secret; secrets random around a unique core, decorated with format verbs, quotes and regex metacharacters. non-trivial = session in which at least one secret was actually transmitted redacted or the driver logged an error value; distinct by seed"
	kinds := []string{"escalate-ask", "escalate-ask", "escalate-noask", "escalate-reject", "telnet", "telnet", "ssh", "ssh-passphrase", "platform-redacted", "interactive-hidden-failed", "interactive-hidden-ok",
		"onx-generic", "onx-generic", "onx-network", "onx-network", "hidden-onopen"}
	var cases []c11case
	if strings.HasPrefix(c.replay, "c11case") {
		f := strings.Fields(c.replay)
		seed, _ := strconv.ParseUint(f[1], 10, 64)
		rej, _ := strconv.Atoi(f[4])
		cs := c11case{seed: seed, kind: f[2], level: f[3], rejects: rej}
		if len(f) > 5 && f[5] != "-" {
			cs.fault = f[5]
		}
		cases = []c11case{cs}
	} else {
		for i := 0; i < c.n(680, 14000); i++ {
			cs := c11case{seed: c.rng.U64(), kind: kinds[c.rng.Intn(len(kinds))], level: []string{"debug", "debug", "info", "critical"}[c.rng.Intn(4)]}
			cs.rejects = []int{0, 0, 1, 2, 3, 9}[c.rng.Intn(6)]
			cs.fault = []string{"", "", "", "wfail-secret", "eof-secret", "wfail-return"}[c.rng.Intn(6)]
			cases = append(cases, cs)
		}
	}
	type out struct {
		leaks  []string
		info   string
		n, rw  int
		errLog int
		retSec bool
	}
	outs := make([]out, len(cases))
	var wg sync.WaitGroup
	sem := make(chan struct{}, vlib.Conc(16))
	for i := range cases {
		wg.Add(1)
		sem <- struct{}{}
		go func(i int) {
			defer wg.Done()
			defer func() { <-sem }()
			l, info, n, rw, el, rs := runC11case(cases[i])
			outs[i] = out{l, info, n, rw, el, rs}
		}(i)
	}
	wg.Wait()
	for i, cs := range cases {
		o := outs[i]
		fl := cs.fault
		if fl == "" {
			fl = "-"
		}
		line := fmt.Sprintf("c11case %d %s %s %d %s", cs.seed, cs.kind, cs.level, cs.rejects, fl)
		res.Count("fault:" + fl)
		res.Count("kind:" + cs.kind)
		res.Count("level:" + cs.level)
		res.Count("outcome:" + cs.kind + ":" + fl + ":" + o.info)
		if o.errLog > 0 {
			res.Count("driver-logged-an-error:" + cs.kind)
		}
		if o.retSec {
			// not a log: the property speaks about the loggers and the channel log only
			res.Count("returned-error-carries-secret:" + cs.kind)
		}
		res.Case(line, o.rw > 0 || o.errLog > 0 || cs.level != "debug")
		res.InDomain++
		if i%37 == 0 {
			res.Sample(map[string]any{"case": line, "outcome": o.info, "log_messages": o.n, "redacted_writes_logged": o.rw})
		}
		if len(o.leaks) > 0 {
			res.Fail("oracle", line, fmt.Sprintf("secret visible in %d place(s), first: %s", len(o.leaks), o.leaks[0]), "secret-in-log:"+cs.kind+":"+fl)
		}
	}
	res.TracesVsImpl = len(cases)
}

var _ = network.NewDriver
