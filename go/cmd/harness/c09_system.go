package main

import (
	"bytes"
	"fmt"
	"os"
	"path/filepath"
	"strconv"
	"strings"
	"time"

	"github.com/scrapli/scrapligo/driver/netconf"
	"github.com/scrapli/scrapligo/driver/options"
	"github.com/scrapli/scrapligo/util"

	"verifgo/vlib"
)

// The SYSTEM transport on a real pty: netconf.NewDriver with the default transport and a stand-in
// `ssh` (a shell script set through WithSystemTransportOpenBin) that records its arguments, puts
// its tty into raw mode, optionally asks for a password, prints an MOTD and the server hello, and
// stores whatever the client writes. This is the path real users take: withNetconfConnection marks
// the ssh arguments, System.Open goes through openNetconf (`-s netconf`), Channel.Open runs the
// in-channel ssh login loop, which hands the hello over as one re-queued chunk.
// Judged: the ssh arguments request the netconf subsystem for the host; the negotiation outcome,
// capabilities and session-id are the hello's (spec from the Lean side for the same layout); the
// client hello that reached the stand-in is the one for the selected version.

const c09fakeSSH = `#!/bin/sh
d=$(dirname "$0")
for a in "$@"; do printf '%s\n' "$a"; done > "$d/argv"
stty raw -echo 2>/dev/null
if [ -f "$d/prompt" ]; then
  cat "$d/prompt"
  IFS= read -r pw
  printf '%s' "$pw" > "$d/password"
fi
cat "$d/hello"
exec cat > "$d/received"
`

func c09system(c *ctx) {
	res := c.res
	n := c.n(6, 36)
	type sc struct {
		cs     c09case
		prompt bool
		dir    string
	}
	var lines []string
	var runs []sc
	var obs []c09obs
	var argvs [][]string
	var received [][]byte
	var pws []string
	for i := 0; i < n; i++ {
		cell := i % 12
		if i >= 12 {
			cell = int(c.rng.U64() % 12)
		}
		cs := genC09(c.rng.U64(), cell, false)
		// a small, LF-structured hello so that the pty's read sizes cannot matter (stream < search depth)
		if len(cs.uris) > 6 {
			var u, w []string
			for k, x := range cs.uris {
				if x == c09base10 || x == c09base11 || len(u) < 4 {
					u = append(u, x)
					w = append(w, cs.wsAfter[k])
				}
			}
			cs.uris, cs.wsAfter = u, w
		}
		for k, u := range cs.uris {
			cs.uris[k] = strings.ReplaceAll(u, "]", ")")
		}
		cs.depth, cs.auth, cs.writeFail, cs.echo, cs.prefDirect = 4000, 2, false, false, false
		if cs.pref != "" && cs.pref != "1.0" && cs.pref != "1.1" {
			cs.pref = ""
		}
		if cs.pre == "" {
			cs.pre = "Welcome to the ACME NETCONF agent\n"
		}
		cs.timeout = 3 * time.Second
		r := sc{cs: cs, prompt: i%2 == 1}
		dir, err := os.MkdirTemp("", "c09ssh")
		if err != nil {
			res.Note("system transport scenario skipped: %v", err)
			return
		}
		r.dir = dir
		hello := append(append(cs.render(), []byte(c09delim)...), []byte(cs.suffix)...)
		_ = os.WriteFile(filepath.Join(dir, "hello"), hello, 0o644)
		if r.prompt {
			_ = os.WriteFile(filepath.Join(dir, "prompt"), []byte("Ubuntu banner\nuser@h's password: "), 0o644)
		}
		bin := filepath.Join(dir, "ssh")
		_ = os.WriteFile(bin, []byte(c09fakeSSH), 0o755)
		opts := []util.Option{options.WithSystemTransportOpenBin(bin), options.WithAuthUsername("user"), options.WithAuthPassword(c09password),
			options.WithPort(8830), options.WithTimeoutOps(cs.timeout), options.WithReadDelay(100 * time.Microsecond), options.WithPromptSearchDepth(cs.depth)}
		if cs.pref != "" {
			opts = append(opts, options.WithNetconfPreferredVersion(cs.pref))
		}
		var o c09obs
		d, err := netconf.NewDriver("device-c09", opts...)
		if err != nil {
			o.newErr = errClass(err)
		} else {
			o.newErr = "nil"
			oerr := d.Open()
			o.openClass = errClass(oerr)
			if oerr != nil {
				o.openErr = oerr.Error()
			}
			o.ver, o.caps, o.sid = d.SelectedVersion, d.ServerCapabilities(), d.SessionID()
			if oerr == nil {
				time.Sleep(30 * time.Millisecond) // let the stand-in drain the client hello
				done := make(chan struct{})
				go func() { _ = d.Close(); close(done) }()
				select {
				case <-done:
				case <-time.After(3 * time.Second):
					o.closeHung = true
				}
			}
		}
		av, _ := os.ReadFile(filepath.Join(dir, "argv"))
		rc, _ := os.ReadFile(filepath.Join(dir, "received"))
		pw, _ := os.ReadFile(filepath.Join(dir, "password"))
		o.sentOpen = rc
		o.chunks = [][]byte{hello}
		argvs = append(argvs, strings.Split(strings.TrimRight(string(av), "\n"), "\n"))
		received = append(received, rc)
		pws = append(pws, string(pw))
		_ = os.RemoveAll(dir)
		runs = append(runs, r)
		obs = append(obs, o)
		lines = append(lines, cs.request(o))
	}
	ans := c.ask(lines)
	for i, r := range runs {
		cs, o := r.cs, obs[i]
		caseLine := fmt.Sprintf("c09system %d prompt=%v cell=%d", i, r.prompt, cs.cell)
		res.Case("system:"+strconv.Itoa(i)+":"+strconv.FormatUint(cs.seed, 10), true)
		res.Count("kind:system-transport-pty")
		if o.newErr != "nil" {
			res.Fail("oracle", caseLine, "NewDriver failed with "+o.newErr, "newdriver:"+o.newErr)
			continue
		}
		parts := strings.Split(ans[i], " | ")
		if len(parts) != 4 {
			res.Fail("machinery", caseLine, "driver answered "+c09trunc(ans[i]), "driver")
			continue
		}
		h := strings.Fields(parts[0])
		spec, ok := c09parseTuple(strings.Fields(parts[1]))
		if len(h) != 2 || !ok || h[0] != "1" {
			res.Fail("machinery", caseLine, "system-transport case is not in the theorem's domain: "+c09trunc(ans[i]), "system:not-in-domain")
			continue
		}
		res.InDomain++
		impl := o.tuple()
		// the ssh arguments: host first, the netconf subsystem requested
		av := argvs[i]
		sub := false
		for k := 0; k+1 < len(av); k++ {
			sub = sub || (av[k] == "-s" && av[k+1] == "netconf")
		}
		if len(av) == 0 || av[0] != "device-c09" || !sub {
			res.Fail("oracle", caseLine, fmt.Sprintf("ssh was started with %q: expected the host first and `-s netconf`", av), "system:argv")
			continue
		}
		if r.prompt && pws[i] != c09password {
			res.Fail("oracle", caseLine, fmt.Sprintf("the stand-in ssh received password %q", pws[i]), "system:password")
			continue
		}
		if impl.class != spec.class || impl.ver != spec.ver || impl.caps != spec.caps || impl.sid != spec.sid {
			res.Fail("oracle", caseLine, fmt.Sprintf("system transport over a pty: Open gave %v (%s), the hello demands %v", impl, o.openErr, spec), "system:wrong-outcome")
			continue
		}
		if impl.class == "ok" {
			want, _ := vlib.UnHex(spec.sent)
			if !bytes.Equal(received[i], want) {
				res.Fail("oracle", caseLine, fmt.Sprintf("the stand-in ssh received %q from the client, expected %q", received[i], want), "system:client-hello")
				continue
			}
			if msg := c09clientHelloOracle(received[i], impl.ver); msg != "" {
				res.Fail("oracle", caseLine, msg, "system:client-hello")
			}
		}
	}
	res.TracesVsImpl += len(runs)
}
