//go:build !internaltie

package main

func c10Internal(c *ctx) { c.res.Note("C10 internal tie unavailable (built without overlay exports)") }
