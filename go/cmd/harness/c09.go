package main

import (
	"bytes"
	"encoding/xml"
	"fmt"
	"os"
	"strconv"
	"strings"
	"sync"
	"time"

	"github.com/scrapli/scrapligo/driver/netconf"
	"github.com/scrapli/scrapligo/driver/options"
	"github.com/scrapli/scrapligo/transport"
	"github.com/scrapli/scrapligo/util"

	"verifgo/sim"
	"verifgo/vlib"
)

func init() { props["C09"] = runC09 }

const (
	c09base10 = "urn:ietf:params:netconf:base:1.0"
	c09base11 = "urn:ietf:params:netconf:base:1.1"
	c09delim  = "]]>]]>"
)

// c09case is one session establishment: a negotiation cell, a server hello layout, a transport
// behaviour. kind: "grammar" (hello of the property's grammar), "nohello" (a well-framed message
// that is no hello), "raw" (malformed / adversarial first message; model-of-the-code only),
// "badpref" (invalid preferred-version string).
type c09case struct {
	seed   uint64
	cell   int // 0..11: (caps10,caps11) = cell%4 bits, pref = cell/4
	kind   string
	caps10 bool
	caps11 bool
	pref   string
	depth  int
	// layout
	hasDecl bool
	decl    string
	pfx     string
	attrs   string
	ws      [5]string
	uris    []string
	wsAfter []string
	hasSid  bool
	sid     string
	suffix  string
	raw     []byte // kind raw / nohello: the message before the delimiter
	// transport
	segClass int
	segK     int
	readSize int
	echo     bool
	timeout  time.Duration
	longline bool
	// further ways into / around Open
	pre         string // banner / MOTD text on the channel before the hello (part of the grammar: no '<')
	auth        int    // 0 none; 1 in-channel ssh login with a password prompt; 2 in-channel login, no prompt (key auth)
	loginBanner string // auth 1: text before the password prompt (discarded by the login loop)
	writeFail   bool   // the transport fails the write of the client hello
	forceSelf   bool   // WithNetconfForceSelfClosingTags
	exclHdr     bool   // WithNetconfExcludeHeader
	prefDirect  bool   // PreferredVersion assigned to the public field instead of through the option
	secondRPC   bool
	late        bool // the server sends its hello only after it has received the client's
	cutAt       int  // >0: exactly two reads, cut after this many bytes
	delayUs     int  // channel read delay
	pauseUs     int  // transport: pause before every read returns (slow link)
	rpcEcho     int  // echo of the post-Open requests: sim.C08EchoOff / Sep / Merged / Coalesced
	echoCorpus  bool // corpus case: plain hello, whole reads, echoing transport in the given mode
}

const c09password = "s3cret"

var c09banners = []string{
	"Welcome to ACME router\nLast login: Thu Oct  1 10:11:12 2026 from 10.0.0.1\n",
	"*** authorised use only ***\r\n\r\n",
	"##\n#12\n",
	"motd: hello capability session-id 42 ]] > \n\n",
	"\n",
	"Warning: Permanently added '10.0.0.1' (ED25519) to the list of known hosts.\r\n",
}

var c09extras = []string{
	"urn:ietf:params:netconf:capability:candidate:1.0",
	"urn:ietf:params:netconf:capability:writable-running:1.0",
	"urn:ietf:params:netconf:capability:with-defaults:1.0?basic-mode=explicit&amp;also-supported=report-all-tagged",
	"http://example.com/yang/acme?module=acme-system&amp;revision=2020-01-01&amp;features=a,b",
	"urn:ietf:params:xml:ns:yang:ietf-interfaces?module=ietf-interfaces&amp;revision=2018-02-20",
	"http://cisco.com/ns/yang/Cisco-IOS-XE-native?module=Cisco-IOS-XE-native&amp;revision=2019-11-01",
	// near misses of the base URIs: none of them advertises a base version
	"urn:ietf:params:netconf:base:1.10", "urn:ietf:params:netconf:base:1.1?x=1", " urn:ietf:params:netconf:base:1.1",
	"urn:ietf:params:netconf:base:1.0 ", "URN:IETF:PARAMS:NETCONF:BASE:1.1", "urn:ietf:params:netconf:base:1", "urn:ietf:params:netconf:base:2.0",
	"urn:ietf:params:xml:ns:netconf:base:1.0", "", "x", "ürn:ünicode:cäp", "a>b", "]]>", "q]]>]]", "capability>", "/capability",
	"session-id>5", "hello",
}

var c09ws = []string{"", "", "\n", "\n", " ", "\n  ", "\r\n", "\t", "\n\n    ", "\r\n\t", "  \n"}

func c09pickWS(r *vlib.Rng) string { return r.Pick(c09ws) }

func genC09(seed uint64, cell int, thorough bool) c09case {
	r := vlib.NewRng(seed)
	cs := c09case{seed: seed, cell: cell, kind: "grammar"}
	cs.caps10 = cell&1 != 0
	cs.caps11 = cell&2 != 0
	cs.pref = []string{"", "1.0", "1.1"}[(cell/4)%3]
	cs.depth = 1000
	switch r.Intn(8) {
	case 0:
		cs.depth = r.Range(8, 120)
	case 1:
		cs.depth = r.Range(200, 5000)
	}
	cs.timeout = 1500 * time.Millisecond
	// --- layout
	switch r.Intn(5) {
	case 0, 1:
		cs.hasDecl, cs.decl = true, `xml version="1.0" encoding="UTF-8"?>`
	case 2:
		cs.hasDecl, cs.decl = true, r.Pick([]string{`xml version="1.0"?>`, `xml version='1.0' encoding='utf-8' ?>`, "xml\nversion=\"1.0\"?>", `pi hello?>`})
	}
	if r.Chance(1, 2) {
		cs.pfx = r.Pick([]string{"nc", "nc", "n0", "netconf_base", "X", "a1_b", "ns1", "capability", "hello", "h"})
	}
	ns := `urn:ietf:params:xml:ns:netconf:base:1.0`
	if cs.pfx == "" {
		cs.attrs = r.Pick([]string{` xmlns="` + ns + `"`, ` xmlns="` + ns + `"`, "", "\n  xmlns=\"" + ns + "\"", "\txmlns='" + ns + "'  ", ` xmlns="` + ns + `" xmlns:x="urn:x>y"`})
	} else {
		cs.attrs = r.Pick([]string{` xmlns:` + cs.pfx + `="` + ns + `"`, "\n xmlns:" + cs.pfx + "=\"" + ns + "\"\n", ` xmlns:` + cs.pfx + `='` + ns + `' a="b"`, ""})
	}
	for i := range cs.ws {
		cs.ws[i] = c09pickWS(r)
	}
	nExtra := r.Intn(6)
	if r.Chance(1, 6) {
		nExtra = r.Range(6, 40)
		if thorough && r.Chance(1, 4) {
			nExtra = r.Range(40, 300)
		}
	}
	var uris []string
	for i := 0; i < nExtra; i++ {
		switch r.Intn(6) {
		case 0:
			uris = append(uris, string(r.Bytes(r.Range(0, 40), []byte("abcdefghijklmnopqrstuvwxyzABCXYZ0123456789:/?&;=-_.,>] \t"))))
		default:
			uris = append(uris, r.Pick(c09extras))
		}
	}
	ins := func(u string) {
		k := r.Intn(len(uris) + 1)
		uris = append(uris[:k], append([]string{u}, uris[k:]...)...)
	}
	if cs.caps10 {
		ins(c09base10)
		if r.Chance(1, 10) {
			ins(c09base10)
		}
	}
	if cs.caps11 {
		ins(c09base11)
		if r.Chance(1, 10) {
			ins(c09base11)
		}
	}
	cs.uris = uris
	for range uris {
		cs.wsAfter = append(cs.wsAfter, c09pickWS(r))
	}
	if r.Chance(6, 7) {
		cs.hasSid = true
		switch r.Intn(9) {
		case 0:
			cs.sid = "0"
		case 1:
			cs.sid = "4294967295"
		case 2:
			cs.sid = "9223372036854775807"
		case 3:
			cs.sid = r.Pick([]string{"9223372036854775808", "18446744073709551615", "99999999999999999999999"})
		case 4:
			cs.sid = r.Pick([]string{"007", "0000", "00012345"})
		case 5:
			cs.sid = strconv.FormatUint(r.U64()>>1, 10)
		default:
			cs.sid = strconv.Itoa(r.Intn(100000))
		}
	}
	cs.suffix = r.Pick([]string{"", "\n", "\n", "\r\n", "\n\n", " \n", "\n "})
	// --- transport
	cs.segClass = r.Intn(6)
	cs.segK = r.Range(2, 64)
	cs.readSize = []int{8192, 8192, 65535, 64, 7, 1}[r.Intn(6)]
	cs.echo = r.Bool()
	// further dimensions (drawn from a forked stream so that earlier dimensions keep their distribution)
	x := vlib.NewRng(seed ^ 0xc09c09)
	if x.Chance(1, 3) {
		cs.pre = x.Pick(c09banners)
	}
	if x.Chance(1, 5) {
		cs.auth = 1 + x.Intn(2)
		cs.echo = false
		if cs.auth == 1 && x.Chance(1, 2) {
			cs.loginBanner = x.Pick([]string{"Ubuntu 22.04 LTS\n", "\nACME SSH gateway\nuser@10.0.0.1's ", ""})
		}
	}
	// a transport echoes or it does not: the hello is echoed iff the requests are (a quarter of the
	// echoing cases start echoing only after Open, e.g. a tty whose mode was changed late)
	er := vlib.NewRng(seed ^ 0xec40)
	cs.rpcEcho = er.Intn(4)
	cs.echo = cs.rpcEcho != sim.C08EchoOff && !er.Chance(1, 4)
	cs.delayUs = []int{20, 40, 40, 250}[x.Intn(4)]
	if x.Chance(1, 6) {
		cs.pauseUs = x.Range(30, 300)
	}
	cs.forceSelf = x.Chance(1, 4)
	cs.exclHdr = x.Chance(1, 4)
	cs.secondRPC = x.Chance(1, 2)
	cs.writeFail = x.Chance(1, 25)
	if x.Chance(1, 8) {
		cs.prefDirect = true
		if cs.pref == "" && x.Chance(1, 2) {
			cs.pref = x.Pick([]string{"2.0", "1.0 ", "x", "1", "1.10"})
		}
	}
	// keep a session below ~300 transport reads: byte-by-byte delivery only for short hellos
	if minChunk := len(cs.render())/300 + 1; minChunk > 1 {
		if cs.segClass == 1 {
			cs.segClass, cs.segK = 2, minChunk+r.Intn(3)
		}
		if cs.segClass == 2 && cs.segK < minChunk {
			cs.segK = minChunk
		}
		if cs.readSize < minChunk {
			cs.readSize = minChunk + r.Intn(5)
		}
	}
	return cs
}

// genC09witness is the corpus case for finding F7: a plain hello whose elements carry the prefix
// `nc:` (as e.g. ConfD / Netopeer send it), session-id 42, delivered in one read.
func genC09witness(cell int) c09case {
	cs := c09case{seed: 0, cell: cell, kind: "grammar", depth: 1000, timeout: 2500 * time.Millisecond, readSize: 8192}
	cs.caps10 = cell&1 != 0
	cs.caps11 = cell&2 != 0
	cs.pref = []string{"", "1.0", "1.1"}[(cell/4)%3]
	cs.hasDecl, cs.decl = true, `xml version="1.0" encoding="UTF-8"?>`
	cs.pfx, cs.attrs = "nc", ` xmlns:nc="urn:ietf:params:xml:ns:netconf:base:1.0"`
	cs.ws = [5]string{"\n", "\n", "\n", "\n", "\n"}
	if cs.caps10 {
		cs.uris = append(cs.uris, c09base10)
	}
	if cs.caps11 {
		cs.uris = append(cs.uris, c09base11)
	}
	cs.uris = append(cs.uris, "urn:ietf:params:netconf:capability:candidate:1.0")
	for range cs.uris {
		cs.wsAfter = append(cs.wsAfter, "\n")
	}
	cs.hasSid, cs.sid = true, "42"
	cs.suffix = "\n"
	return cs
}

// c09raw builds the adversarial stream: first messages outside the grammar (model of the code only).
func genC09raw(seed uint64, cell int) c09case {
	r := vlib.NewRng(seed)
	cs := genC09(seed, cell, false)
	cs.kind = "raw"
	cs.writeFail, cs.auth, cs.pre = false, 0, ""
	base := ""
	if cs.caps10 {
		base += "<capability>" + c09base10 + "</capability>"
	}
	if cs.caps11 {
		base += "<capability>" + c09base11 + "</capability>"
	}
	variants := []string{
		"<HELLO><CAPABILITIES>" + strings.ToUpper(base) + "</CAPABILITIES></HELLO>",
		"<Hello><Capabilities><Capability>" + c09base11 + "</Capability></Capabilities><Session-Id>12</Session-Id></Hello>",
		"<hello><capabilities>" + base + "</capabilities><session-id>12</session-id>",
		"<hello><capabilities>" + base + "</capabilities><session-id>12</session-id></hello ></hello>",
		"<hello><capabilities><capability>\n" + c09base11 + "\n</capability>" + base + "</capabilities></hello>",
		"<hello><capabilities><capability><capability>x</capability>" + base + "</capabilities><session-id>abc</session-id></hello>",
		"<hello><capabilities>" + base + "</capabilities><session-id>1</session-id><session-id>2</session-id></hello>",
		"<hello><capabilities>" + base + "</capabilities><session-id> 7 </session-id></hello>",
		"<hello><capabilities>" + base + "</capabilities><session-id></session-id></hello>",
		"junk before <a:hello xmlns:a='x'><b:capabilities><c:capability>" + c09base10 + "</d:capability></b:capabilities><a:session-id>5</b:session-id></z:hello> junk after",
		"<hellohello><capability>" + c09base10 + "</capability></hello>",
		"<hello:hello><capability:capability>" + c09base11 + "</capability></hello:hello>",
		"<hello><capabilities><capability>" + c09base11 + "</capability ></capabilities></hello>",
		"<hello><capabilities><capability >" + c09base11 + "</capability></capabilities></hello>",
		"<hello><!-- <capability>" + c09base11 + "</capability> --><capabilities>" + base + "</capabilities></hello>",
		"<hello>\x1b[0m<capabilities>" + base + "</capabilities><session-id>3</session-id></hello>",
		"<hello><capabilities>" + base + "</capabilities><:session-id>3</:session-id></hello>",
		"<hello><capabilities>" + base + "</capabilities><nc:session-id>3</session-id></hello>",
		"<hello><capabilities>" + base + "</capabilities><session-id>3</nc:session-id></hello>",
		"<hello/>",
		"",
	}
	if r.Chance(2, 3) {
		cs.raw = []byte(r.Pick(variants))
	} else {
		// token soup
		toks := []string{"<", ">", "/", "hello", "capability", "capabilities", "session-id", "nc:", ":", "\n", " ", c09base10, c09base11, "12", "</", "<hello>", "</hello>", "<capability>", "</capability>", "<session-id>", "</session-id>", "x", "é", "]]>"}
		var b bytes.Buffer
		for k := r.Range(1, 40); k > 0; k-- {
			b.WriteString(r.Pick(toks))
		}
		cs.raw = b.Bytes()
		if bytes.Contains(cs.raw, []byte(c09delim)) {
			cs.raw = bytes.ReplaceAll(cs.raw, []byte(c09delim), []byte("]]>"))
		}
	}
	if bytes.Contains(cs.raw, []byte(c09delim)) {
		cs.raw = bytes.ReplaceAll(cs.raw, []byte(c09delim), []byte("]]"))
	}
	cs.timeout = 2500 * time.Millisecond
	return cs
}

// genC09longline: a hello of the grammar written on ONE line longer than the default search depth,
// followed by the delimiter and a line feed, everything delivered in one read. Probe for the
// search-window side condition of open_negotiates (candidate finding C09-W1).
func genC09longline(seed uint64, cell int) c09case {
	r := vlib.NewRng(seed)
	cs := genC09(seed, cell, false)
	cs.longline = true
	cs.writeFail, cs.auth, cs.pre, cs.prefDirect = false, 0, "", false
	if cs.pref != "" && cs.pref != "1.0" && cs.pref != "1.1" {
		cs.pref = ""
	}
	cs.depth = 1000
	if cs.hasDecl {
		cs.decl = `xml version="1.0" encoding="UTF-8"?>`
	}
	cs.attrs = ` xmlns="urn:ietf:params:xml:ns:netconf:base:1.0"`
	if cs.pfx != "" {
		cs.attrs = ` xmlns:` + cs.pfx + `="urn:ietf:params:xml:ns:netconf:base:1.0"`
	}
	cs.ws = [5]string{}
	for len(cs.uris) < 24 {
		cs.uris = append(cs.uris, c09extras[r.Intn(6)])
	}
	cs.wsAfter = make([]string, len(cs.uris))
	if cs.hasSid {
		cs.sid = "77"
	}
	cs.suffix = "\n"
	cs.segClass = 0
	cs.readSize = 65535
	cs.timeout = 400 * time.Millisecond
	return cs
}

// genC09late: the server keeps its hello back until it has seen the client's (RFC 6241 has both peers
// send at once; scrapligo reads first, so such a server can only end in a clean timeout).
func genC09late(seed uint64, cell int) c09case {
	cs := genC09(seed, cell, false)
	cs.late, cs.auth, cs.writeFail, cs.echo, cs.depth = true, 0, false, false, 1000
	cs.timeout = 300 * time.Millisecond
	return cs
}

// genC09echo: corpus for the echo dimension of the post-Open requests: a plain hello delivered whole, an
// echoing transport (client hello echoed too) in the given mode, two requests.
func genC09echo(mode, cell int) c09case {
	cs := genC09witness(cell)
	cs.echoCorpus = true
	cs.rpcEcho = mode
	cs.echo = true
	cs.secondRPC = true
	cs.readSize = 65535
	return cs
}

// genC09cut: one fixed prefixed hello (banner, declaration, three capabilities, session-id) delivered
// in exactly two reads, cut after k bytes: enumerated over EVERY k.
func genC09cut(k, cell int) c09case {
	cs := genC09witness(cell)
	cs.pre = "Last login: Thu Oct  1 10:11:12 2026\n"
	cs.cutAt = k
	cs.rpcEcho = k % 4
	cs.echo = cs.rpcEcho != 0 && k%8 >= 4
	cs.secondRPC = k%3 == 0
	return cs
}

// genC09huge: a capability list of 600-1500 entries (one per yang module, as large routers send).
func genC09huge(seed uint64, cell int) c09case {
	r := vlib.NewRng(seed)
	cs := genC09(seed, cell, false)
	cs.auth, cs.writeFail, cs.depth, cs.pre = 0, false, 1000, ""
	n := r.Range(600, 1500)
	var uris []string
	for i := 0; i < n; i++ {
		uris = append(uris, fmt.Sprintf("http://example.com/yang/mod-%d?module=mod-%d&amp;revision=2024-0%d-1%d", i, i, 1+i%9, i%10))
	}
	ins := func(u string) {
		k := r.Intn(len(uris) + 1)
		uris = append(uris[:k], append([]string{u}, uris[k:]...)...)
	}
	if cs.caps10 {
		ins(c09base10)
	}
	if cs.caps11 {
		ins(c09base11)
	}
	cs.uris = uris
	cs.wsAfter = make([]string, len(uris))
	for i := range cs.wsAfter {
		cs.wsAfter[i] = "\n"
	}
	cs.segClass, cs.segK = []int{0, 2}[r.Intn(2)], 4000+r.Intn(3000)
	cs.readSize = []int{8192, 65535}[r.Intn(2)]
	cs.timeout = 4 * time.Second
	return cs
}

// genC09nohello: a well-framed first message that holds no hello element at all.
func genC09nohello(seed uint64, cell int) c09case {
	r := vlib.NewRng(seed)
	cs := genC09(seed, cell, false)
	cs.kind = "nohello"
	cs.writeFail, cs.auth, cs.pre = false, 0, ""
	cs.raw = []byte(r.Pick([]string{
		`<rpc-reply xmlns="urn:ietf:params:xml:ns:netconf:base:1.0" message-id="101"><ok/></rpc-reply>`,
		`<?xml version="1.0"?>` + "\n<notification><eventTime>2020</eventTime></notification>",
		"<capabilities><capability>" + c09base10 + "</capability><capability>" + c09base11 + "</capability></capabilities><session-id>4</session-id>",
		"Welcome to the device\nUnauthorized access prohibited\n",
		"<helo><capabilities><capability>" + c09base11 + "</capability></capabilities></helo>",
		"",
		"\n",
	}))
	return cs
}

func (cs c09case) pfxB() string {
	if cs.pfx == "" {
		return ""
	}
	return cs.pfx + ":"
}

// render mirrors the Lean `render` (the Lean side returns its own rendering; they must agree).
func (cs c09case) render() []byte {
	if cs.kind != "grammar" {
		return cs.raw
	}
	var b bytes.Buffer
	p := cs.pfxB()
	b.WriteString(cs.pre)
	if cs.hasDecl {
		b.WriteString("<?" + cs.decl)
	}
	b.WriteString(cs.ws[0])
	b.WriteString("<" + p + "hello" + cs.attrs + ">")
	b.WriteString(cs.ws[1])
	b.WriteString("<" + p + "capabilities>")
	b.WriteString(cs.ws[2])
	for i, u := range cs.uris {
		b.WriteString("<" + p + "capability>" + u + "</" + p + "capability>" + cs.wsAfter[i])
	}
	b.WriteString("</" + p + "capabilities>")
	b.WriteString(cs.ws[3])
	if cs.hasSid {
		b.WriteString("<" + p + "session-id>" + cs.sid + "</" + p + "session-id>" + cs.ws[4])
	}
	b.WriteString("</" + p + "hello>")
	return b.Bytes()
}

type c09obs struct {
	newErr     string
	openClass  string
	openErr    string
	ver        string
	caps       []string
	sid        uint64
	sentOpen   []byte // everything written until Open returned
	sentAll    []byte // ... until the first RPC returned
	clientHello []byte
	srvVersion string
	nreq       int
	frameOK    bool
	reqRaw     []byte
	reqID      int
	badBytes   []byte
	rpcClass   string
	rpcFailed  bool
	rpcResult  string
	closeHung  bool
	closeCalls int
	openCalls  int
	passTyped  []string
	rpc2Class  string
	rpc2OK     bool
	req2OK     bool
	req2ID     int
	optForce   bool
	optExcl    bool
	chunks     [][]byte
	stream     []byte // hello ++ delimiter ++ suffix as emitted
}

func runC09case(cs c09case) c09obs {
	var o c09obs
	// the server: hello / negotiation by NCServer, the post-Open requests by C08Server (per-request
	// reply plan and the four echo modes, incl. the pty style "echo + whole reply in one piece")
	x := sim.NewC08ServerCaps(cs.caps10, cs.caps11)
	srv := x.NCServer
	x.IDToken = []byte("@ID@")
	reply := []byte(`<rpc-reply xmlns="urn:ietf:params:xml:ns:netconf:base:1.0" message-id="@ID@"><data><x>c09</x></data></rpc-reply>`)
	x.Plans = []sim.C08Plan{{Payload: reply}, {Payload: reply}}
	if cs.echo {
		// the transport echoes from the start: the client hello comes back too (in reads of its own,
		// after the server's hello -- the causal order on a pty whose peer has already spoken)
		x.EchoMode = sim.C08EchoSep
		x.StartLog()
	}
	hello := cs.render()
	if hello == nil {
		hello = []byte{}
	}
	srv.Hello = hello
	srv.HelloSuffix = []byte(cs.suffix)
	n := len(hello) + len(c09delim) + len(cs.suffix)
	sr := vlib.NewRng(cs.seed ^ 0x5eed09)
	switch cs.segClass {
	case 1:
		srv.Seg = sim.SegFixed(1)
	case 2:
		srv.Seg = sim.SegFixed(cs.segK)
	case 3:
		srv.Seg = func(avail int) int { return 1 + sr.Intn(avail+cs.segK)%(cs.segK*3) }
	case 4: // one cut inside or right after the delimiter, the rest whole
		srv.Seg = sim.SegList([]int{len(hello) + 1 + sr.Intn(len(c09delim)+len(cs.suffix))})
	case 5: // hello whole, then the delimiter byte by byte
		sizes := []int{len(hello) + 1}
		for i := 0; i < len(c09delim)+len(cs.suffix); i++ {
			sizes = append(sizes, 1)
		}
		srv.Seg = sim.SegList(sizes)
	}
	if cs.cutAt > 0 {
		srv.Seg = sim.SegList([]int{cs.cutAt})
	}
	var impl transport.Implementation = srv
	var authSrv *sim.NCAuth
	skipWritten := 0
	switch {
	case cs.auth > 0:
		authSrv = sim.NewNCAuthOver(x)
		authSrv.Prompt = cs.auth == 1
		authSrv.LoginBanner = []byte(cs.loginBanner)
		impl = authSrv
		authSrv.Start()
		if cs.auth == 1 {
			skipWritten = len(c09password) + 1
		}
	case cs.late:
		sim.NewNCLate(srv)
		srv.Start()
	default:
		srv.Start()
	}
	if cs.writeFail {
		srv.WriteErrAfter = skipWritten
	}
	opts := []util.Option{options.WithCustomTransport(impl),
		options.WithTimeoutOps(cs.timeout), options.WithReadDelay(time.Duration(c09or(cs.delayUs, 40)) * time.Microsecond),
		options.WithPromptSearchDepth(cs.depth), options.WithTransportReadSize(cs.readSize)}
	srv.ReadPause = time.Duration(cs.pauseUs) * time.Microsecond
	if cs.auth > 0 {
		opts = append(opts, options.WithAuthUsername("u"), options.WithAuthPassword(c09password))
	} else {
		opts = append(opts, options.WithAuthBypass())
	}
	if cs.pref != "" && !cs.prefDirect {
		opts = append(opts, options.WithNetconfPreferredVersion(cs.pref))
	}
	if cs.forceSelf {
		opts = append(opts, options.WithNetconfForceSelfClosingTags())
	}
	if cs.exclHdr {
		opts = append(opts, options.WithNetconfExcludeHeader())
	}
	d, err := netconf.NewDriver("h", opts...)
	if err != nil {
		o.newErr = errClass(err)
		return o
	}
	o.newErr = "nil"
	if cs.prefDirect {
		d.PreferredVersion = cs.pref
	}
	o.optForce, o.optExcl = d.ForceSelfClosingTags, d.ExcludeHeader
	err = d.Open()
	o.openClass = errClass(err)
	if err != nil {
		o.openErr = err.Error()
	}
	o.ver = d.SelectedVersion
	o.caps = d.ServerCapabilities()
	o.sid = d.SessionID()
	written := func() []byte {
		w := srv.AllWritten()
		if len(w) >= skipWritten {
			return w[skipWritten:]
		}
		return nil
	}
	o.sentOpen = written()
	if err == nil {
		// the adversarial stream's hello text need not match what the simulator speaks: no RPC there
		if cs.kind == "grammar" {
			x.Mu.Lock()
			x.EchoMode = cs.rpcEcho
			x.Mu.Unlock()
			if !cs.echo {
				x.StartLog()
			}
			r, rerr := d.GetConfig("running")
			o.rpcClass = errClass(rerr)
			if rerr == nil {
				o.rpcFailed = r.Failed != nil
				o.rpcResult = r.Result
			}
			o.sentAll = written()
			if cs.secondRPC && rerr == nil {
				r2, rerr2 := d.Get("")
				o.rpc2Class = errClass(rerr2)
				if rerr2 == nil {
					o.rpc2OK = r2.Failed == nil && strings.Contains(r2.Result, "<x>c09</x>")
				}
			}
		}
		done := make(chan struct{})
		go func() { _ = d.Close(); close(done) }()
		select {
		case <-done:
		case <-time.After(2 * time.Second):
			o.closeHung = true
		}
	}
	if o.sentAll == nil {
		o.sentAll = written()
	}
	srv.Snapshot(func() {
		o.clientHello = append([]byte{}, srv.ClientHello...)
		o.srvVersion = srv.Version
		o.nreq = len(srv.Requests)
		o.closeCalls = srv.CloseCalls
		o.openCalls = srv.OpenCalls
		if authSrv != nil {
			for _, p := range authSrv.PassTyped {
				o.passTyped = append(o.passTyped, string(p))
			}
		}
		if o.nreq > 0 {
			o.frameOK = srv.Requests[0].FrameOK
			o.reqRaw = srv.Requests[0].Raw
			o.reqID = srv.Requests[0].MessageID
		}
		if o.nreq > 1 {
			o.req2OK = srv.Requests[1].FrameOK
			o.req2ID = srv.Requests[1].MessageID
		}
		o.badBytes = append([]byte{}, srv.BadBytes...)
		base := 0
		if authSrv != nil {
			base = authSrv.HelloAt
		}
		all := srv.EmittedBytes()
		if base < 0 || base > len(all) {
			return
		}
		if cs.late && len(all) == 0 {
			return
		}
		stream := all[base:]
		if len(stream) > n {
			stream = stream[:n]
		}
		o.stream = append([]byte{}, stream...)
		abs, pos := 0, 0
		for _, sz := range srv.ReadLog {
			if abs < base {
				abs += sz
				continue
			}
			if pos >= len(stream) {
				break
			}
			end := pos + sz
			if end > len(stream) {
				end = len(stream)
			}
			o.chunks = append(o.chunks, stream[pos:end])
			pos = end
		}
		if pos < len(stream) {
			o.chunks = append(o.chunks, stream[pos:]) // never read before the channel closed
		}
	})
	return o
}

func c09hex(s string) string { return vlib.Hex([]byte(s)) }

func c09optHex(has bool, s string) string {
	if !has {
		return "~"
	}
	return vlib.Hex([]byte(s))
}

func c09strList(xs []string) string {
	bs := make([][]byte, len(xs))
	for i, x := range xs {
		bs[i] = []byte(x)
	}
	return vlib.HexList(bs)
}

func (cs c09case) request(o c09obs) string {
	if cs.kind == "grammar" {
		flags := "-"
		if cs.auth > 0 {
			flags += "a"
		}
		if cs.writeFail {
			flags += "w"
		}
		return strings.Join([]string{"c09", "open", c09hex(cs.pref), strconv.Itoa(cs.depth), flags, c09hex(cs.pre), c09optHex(cs.hasDecl, cs.decl),
			c09hex(cs.pfx), c09hex(cs.attrs), c09hex(cs.ws[0]), c09hex(cs.ws[1]), c09hex(cs.ws[2]), c09hex(cs.ws[3]), c09hex(cs.ws[4]),
			c09strList(cs.uris), c09strList(cs.wsAfter), c09optHex(cs.hasSid, cs.sid), c09hex(cs.suffix), vlib.HexList(o.chunks)}, " ")
	}
	return strings.Join([]string{"c09", "raw", c09hex(cs.pref), strconv.Itoa(cs.depth), vlib.HexList(o.chunks)}, " ")
}

type c09tuple struct {
	class string
	ver   string
	caps  string // hex list
	sid   string
	sent  string
}

func c09parseTuple(f []string) (c09tuple, bool) {
	if len(f) != 5 {
		return c09tuple{}, false
	}
	v := f[1]
	if v == "-" {
		v = ""
	}
	return c09tuple{f[0], v, f[2], f[3], f[4]}, true
}

func (t c09tuple) String() string {
	return fmt.Sprintf("{%s ver=%q caps=%s sid=%s}", t.class, t.ver, c09capsText(t.caps), t.sid)
}

func c09capsText(h string) string {
	if h == "." {
		return "[]"
	}
	var out []string
	for _, x := range strings.Split(h, ",") {
		b, _ := vlib.UnHex(x)
		out = append(out, string(b))
	}
	s := fmt.Sprintf("%q", out)
	if len(s) > 300 {
		s = s[:300] + "…"
	}
	return s
}

func (o c09obs) tuple() c09tuple {
	t := c09tuple{class: o.openClass, sent: "-"}
	if t.class == "nil" {
		t.class = "ok"
		t.ver = o.ver
		t.caps = c09strList(o.caps)
		t.sid = strconv.FormatUint(o.sid, 10)
		t.sent = vlib.Hex(o.sentOpen)
	} else {
		t.caps, t.sid = ".", "0"
	}
	return t
}

// c09table is the property's decision table, restated independently in Go.
func c09table(caps10, caps11 bool, pref string) string {
	switch pref {
	case "1.0":
		if caps10 {
			return "1.0"
		}
		return ""
	case "1.1":
		if caps11 {
			return "1.1"
		}
		return ""
	}
	if caps11 {
		return "1.1"
	}
	if caps10 {
		return "1.0"
	}
	return ""
}

type c09xmlHello struct {
	XMLName      xml.Name `xml:"hello"`
	Capabilities []string `xml:"capabilities>capability"`
	SessionID    *string  `xml:"session-id"`
}

// c09clientHelloOracle checks the client's hello with encoding/xml, independent of model and code.
func c09clientHelloOracle(sent []byte, ver string) string {
	if bytes.Count(sent, []byte(c09delim)) != 1 {
		return fmt.Sprintf("client wrote %d end-of-message markers during Open", bytes.Count(sent, []byte(c09delim)))
	}
	i := bytes.Index(sent, []byte(c09delim))
	if strings.TrimLeft(string(sent[i+len(c09delim):]), "\n") != "" {
		return fmt.Sprintf("bytes after the client hello's marker: %q", sent[i+len(c09delim):])
	}
	var h c09xmlHello
	if err := xml.Unmarshal(sent[:i], &h); err != nil {
		return "client hello is not well-formed XML: " + err.Error()
	}
	if h.XMLName.Space != "urn:ietf:params:xml:ns:netconf:base:1.0" {
		return "client hello namespace " + h.XMLName.Space
	}
	want := "urn:ietf:params:netconf:base:" + ver
	if len(h.Capabilities) != 1 || strings.TrimSpace(h.Capabilities[0]) != want {
		return fmt.Sprintf("client hello advertises %q, selected version is %s", h.Capabilities, ver)
	}
	if h.SessionID != nil {
		return "client hello carries a session-id"
	}
	return ""
}

func runC09(c *ctx) {
	res := c.res
	res.Rule = "real netconf.NewDriver(...).Open() + first GetConfig over sim.NCServer: the 12 cells {advertised subset of base:1.0/1.1} x {preferred none/1.0/1.1} enumerated round-robin x hello layouts of the grammar (declaration, namespace prefix, attribute text, inter-element white space incl. CR, 0-300 extra capability URIs incl. query strings / near-miss base URIs / duplicates / empty, session-id absent / 0 / 2^32-1 / 2^63-1 / beyond / leading zeros) x trailing bytes x read segmentations (whole, 1-byte, fixed, random, cut inside the delimiter) x transport read sizes 1..65535 x search depths 8..5000 x echo on/off; plus well-framed non-hello messages, an adversarial stream of malformed hellos (model of the code only) and invalid preferred-version strings; plus HISTORIES on one driver object (8 templates: getters before the first Open, between sessions and after Close; Open/Close/Open against servers advertising different capability sets, versions and session-ids; a failing Open followed by further Opens), each run twice (with and without the getter calls). non-trivial = in-domain grammar case (theorem hypotheses hold on the observed chunks) whose hello has a prefix, an extra capability, a session-id or more than one read; distinct by case seed"
	if c.replay != "" {
		f := strings.Fields(c.replay)
		if len(f) >= 1 && f[0] == "c09ctor" {
			c09constructor(c)
			return
		}
		if len(f) >= 1 && f[0] == "c09system" {
			c09system(c)
			return
		}
		if len(f) >= 1 && f[0] == "c09pref" {
			c09options(c)
			return
		}
		if len(f) >= 2 && f[0] == "c09multi" {
			seed, _ := strconv.ParseUint(f[1], 10, 64)
			c09multis(c, []c09multi{genC09multi(seed)})
			return
		}
		if len(f) >= 2 && f[0] == "c09hist" {
			seed, _ := strconv.ParseUint(f[1], 10, 64)
			c09histories(c, []c09hist{genC09hist(seed)})
			return
		}
		if len(f) >= 4 && f[0] == "c09case" {
			seed, _ := strconv.ParseUint(f[2], 10, 64)
			cell, _ := strconv.Atoi(f[3])
			var cs c09case
			switch f[1] {
			case "witness":
				cs = genC09witness(cell)
			case "longline":
				cs = genC09longline(seed, cell)
			case "late":
				cs = genC09late(seed, cell)
			case "huge":
				cs = genC09huge(seed, cell)
			case "cut":
				cs = genC09cut(int(seed), cell)
			case "echo":
				cs = genC09echo(int(seed), cell)
			case "raw":
				cs = genC09raw(seed, cell)
			case "nohello":
				cs = genC09nohello(seed, cell)
			default:
				cs = genC09(seed, cell, len(f) > 4 && f[4] == "thorough")
			}
			c09check(c, []c09case{cs})
			return
		}
		res.Note("unrecognised replay line: %s", c.replay)
		return
	}
	c09Internal(c)
	c09options(c)
	c09constructor(c)
	c09system(c)
	rxDiff(c, []string{"Netconf.hello", "Netconf.capability", "Netconf.sessionID", "Netconf.v1Dot0Delim"}, c.n(250, 3000))
	var cases []c09case
	// corpus: the F7 witness first (prefixed session-id), in every successful cell
	for cell := 0; cell < 12; cell++ {
		cases = append(cases, genC09witness(cell))
	}
	for mode := 1; mode <= 3; mode++ {
		for cell := 0; cell < 12; cell++ {
			cases = append(cases, genC09echo(mode, cell))
		}
	}
	n := c.n(60, 2000)
	for i := 0; i < n; i++ {
		for cell := 0; cell < 12; cell++ {
			cases = append(cases, genC09(c.rng.U64(), cell, c.thorough()))
		}
	}
	for i := 0; i < c.n(2, 40); i++ {
		for cell := 0; cell < 12; cell++ {
			cases = append(cases, genC09nohello(c.rng.U64(), cell))
		}
	}
	for i := 0; i < c.n(8, 200); i++ {
		for cell := 0; cell < 12; cell++ {
			cases = append(cases, genC09raw(c.rng.U64(), cell))
		}
	}
	for cell := 0; cell < 12; cell++ {
		cases = append(cases, genC09longline(c.rng.U64(), cell))
		cases = append(cases, genC09late(c.rng.U64(), cell))
	}
	for i := 0; i < c.n(2, 24); i++ {
		cases = append(cases, genC09huge(c.rng.U64(), int(c.rng.U64()%12)))
	}
	{ // a hello split at every byte (two reads), cells round-robin
		probe := genC09cut(1, 3)
		total := len(probe.render()) + len(c09delim) + len(probe.suffix)
		for k := 1; k < total; k++ {
			cases = append(cases, genC09cut(k, k%12))
		}
	}
	c09check(c, cases)
	hs := []c09hist{genC09histWitness()}
	for i := 0; i < c.n(160, 4000); i++ {
		hs = append(hs, genC09hist(c.rng.U64()))
	}
	c09histories(c, hs)
	var ms []c09multi
	for v := 0; v < 6; v++ {
		ms = append(ms, genC09multiWitness(v))
	}
	for i := 0; i < c.n(90, 2500); i++ {
		ms = append(ms, genC09multi(c.rng.U64()|8))
	}
	c09multis(c, ms)
	if w := res.Distribution["window-probe:total"]; w > 0 {
		res.Note("search-window probe (candidate finding C09-W1): one-line hello longer than the search depth + delimiter + LF in ONE read: Open timed out in %d of %d probes (the property's table expected %d successes / %d NETCONF errors); the model of the code predicts the timeout in %d",
			res.Distribution["window-probe:impl-timeout"], w, res.Distribution["window-probe:want-ok"], res.Distribution["window-probe:want-netconf"], res.Distribution["window-probe:model-timeout"])
	}
	res.Exhaustive = true
	res.ExhaustiveOf = "the 12 negotiation cells (each with every generated layout class); the 4x3 decision table of determineVersion incl. invalid preference strings (internal tie) when available"
}

// c09options: WithNetconfPreferredVersion validation vs the model's prefOptionOK.
func c09options(c *ctx) {
	res := c.res
	prefs := []string{"", "1.0", "1.1", "1", "1.2", "2.0", "1.0 ", " 1.1", "v1.1", "1.10", "11", "1,1"}
	var lines []string
	for _, p := range prefs {
		lines = append(lines, "c09 ver . "+c09hex(p))
	}
	ans := c.ask(lines)
	for i, p := range prefs {
		srv := sim.NewNCServer(true, true)
		_, err := netconf.NewDriver("h", options.WithCustomTransport(srv), options.WithAuthBypass(), options.WithNetconfPreferredVersion(p))
		impl := errClass(err)
		f := strings.Fields(ans[i])
		caseLine := fmt.Sprintf("c09pref %q", p)
		res.Case("pref:"+p, true)
		res.Count("option:" + impl)
		if len(f) != 2 {
			res.Fail("machinery", caseLine, "driver answered "+ans[i], "driver")
			continue
		}
		want := "badoption"
		if p == "1.0" || p == "1.1" {
			want = "nil"
		}
		model := "badoption"
		if f[0] == "1" {
			model = "nil"
		}
		res.InDomain++
		if impl != want {
			res.Fail("oracle", caseLine, fmt.Sprintf("WithNetconfPreferredVersion(%q): error class %s, expected %s", p, impl, want), "option-validation")
		}
		if impl != model {
			res.Fail("correspondence", caseLine, fmt.Sprintf("WithNetconfPreferredVersion(%q): impl %s, model %s", p, impl, model), "impl-vs-model:option")
		}
	}
}

// c09runAll runs the listed cases (indices into cases) against the real driver, par at a time.
func c09runAll(cases []c09case, obs []c09obs, idx []int, par int) {
	var wg sync.WaitGroup
	sem := make(chan struct{}, par)
	for _, i := range idx {
		wg.Add(1)
		sem <- struct{}{}
		go func(i int) {
			defer wg.Done()
			obs[i] = runC09case(cases[i])
			<-sem
		}(i)
	}
	wg.Wait()
}

func c09wireLine(o c09obs) string {
	v := o.ver
	if v != "1.0" && v != "1.1" {
		v = "1.0"
	}
	return "c09 wire " + v + " " + vlib.Hex(o.reqRaw)
}

// c09modelClass extracts the class the model of the code predicts from a driver answer.
func c09modelClass(ans string) string {
	parts := strings.Split(ans, " | ")
	f := strings.Fields(parts[len(parts)-1])
	if len(f) == 0 {
		return ""
	}
	return f[0]
}

// c09constructor: NewDriver paths that no built-in option reaches.
func c09constructor(c *ctx) {
	res := c.res
	// (1) a user-defined option that fails only on the netconf driver: NewDriver must hand the error back
	bad := func(o interface{}) error {
		if _, ok := o.(*netconf.Driver); ok {
			return fmt.Errorf("%w: c09 user option", util.ErrBadOption)
		}
		return util.ErrIgnoredOption
	}
	srv := sim.NewNCServer(true, true)
	d, err := netconf.NewDriver("h", options.WithCustomTransport(srv), options.WithAuthBypass(), bad)
	res.Case("constructor:user-option-error", true)
	res.InDomain++
	if errClass(err) != "badoption" || d != nil {
		res.Fail("oracle", "c09ctor user-option", fmt.Sprintf("NewDriver with an option failing on *netconf.Driver returned (%v, %s)", d != nil, errClass(err)), "constructor:user-option-error")
	}
	// (2) the transport cannot be opened: Open hands the error back, nothing is negotiated, getters stay zero
	m := &sim.NCMulti{}
	d, err = netconf.NewDriver("h", options.WithCustomTransport(m), options.WithAuthBypass(), options.WithTimeoutOps(300*time.Millisecond))
	res.Case("constructor:transport-open-fails", true)
	res.InDomain++
	if err != nil {
		res.Fail("oracle", "c09ctor open-fails", "NewDriver failed: "+err.Error(), "constructor:newdriver")
		return
	}
	oerr := d.Open()
	if oerr == nil || d.SelectedVersion != "" || len(d.ServerCapabilities()) != 0 || d.SessionID() != 0 || d.ServerHasCapability(c09base10) {
		res.Fail("oracle", "c09ctor open-fails", fmt.Sprintf("transport Open fails: netconf Open returned %v, selected %q caps %d sid %d", oerr, d.SelectedVersion, len(d.ServerCapabilities()), d.SessionID()), "constructor:transport-open-fails")
	}
	// (3) default construction (system transport, not opened): the ssh arguments are marked as a NETCONF connection
	d, err = netconf.NewDriver("h")
	res.Case("constructor:default-system-transport", true)
	res.InDomain++
	if err != nil {
		res.Fail("oracle", "c09ctor default", "NewDriver(host) failed: "+err.Error(), "constructor:newdriver")
		return
	}
	sys, ok := d.Transport.Impl.(*transport.System)
	if !ok || sys.SSHArgs == nil || !sys.SSHArgs.NetconfConnection {
		res.Fail("oracle", "c09ctor default", "NewDriver(host): the system transport's SSHArgs.NetconfConnection is not set (ssh would not request the netconf subsystem)", "constructor:netconf-connection-flag")
	}
}

func c09check(c *ctx, cases []c09case) {
	res := c.res
	obs := make([]c09obs, len(cases))
	all := make([]int, len(cases))
	for i := range all {
		all[i] = i
	}
	t0 := time.Now()
	c09runAll(cases, obs, all, vlib.Conc(16))
	tSess := time.Since(t0)
	lines := make([]string, len(cases))
	wire := make([]string, len(cases))
	for i, cs := range cases {
		lines[i] = cs.request(obs[i])
		wire[i] = c09wireLine(obs[i])
	}
	t1 := time.Now()
	if f := os.Getenv("C09_DUMP"); f != "" {
		_ = os.WriteFile(f, []byte(strings.Join(append(append([]string{}, lines...), wire...), "\n")+"\n"), 0o644)
	}
	ans := c.ask(append(lines, wire...))
	wans := ans[len(cases):]
	if len(cases) > 50 {
		res.Note("timing: %d sessions against the real driver %.1fs, model answers %.1fs", len(cases), tSess.Seconds(), time.Since(t1).Seconds())
	}
	// A timeout is the only wall-clock dependent observable. Where the implementation timed out but
	// the model (which knows exactly which reads arrived) says the read completes, or the first RPC
	// timed out, the machine may simply have been slow: run those cases again, alone and with a
	// very generous deadline, before judging them.
	var again []int
	for i := range cases {
		o := obs[i]
		if o.newErr != "nil" {
			continue
		}
		if (o.openClass == "timeout" && c09modelClass(ans[i]) != "timeout") || (o.openClass == "nil" && o.rpcClass == "timeout") {
			again = append(again, i)
		}
	}
	if len(again) > 12 {
		// many at once is a pattern, not a slow machine: confirm a dozen, bin/check re-runs the rest alone
		again = again[:12]
	}
	if len(again) > 0 {
		for _, i := range again {
			cases[i].timeout = 10 * time.Second
			res.Count(fmt.Sprintf("rerun: kind=%s open=%s rpc=%s", cases[i].kind, obs[i].openClass, obs[i].rpcClass))
		}
		c09runAll(cases, obs, again, 2)
		var l2 []string
		for _, i := range again {
			lines[i] = cases[i].request(obs[i])
			wire[i] = c09wireLine(obs[i])
			l2 = append(l2, lines[i], wire[i])
		}
		a2 := c.ask(l2)
		for k, i := range again {
			ans[i], wans[i] = a2[2*k], a2[2*k+1]
		}
		res.Distribution["rerun-alone-with-10s-deadline-after-timeout"] += len(again)
	}
	for i, cs := range cases {
		o := obs[i]
		tier := ""
		if c.thorough() {
			tier = " thorough"
		}
		caseLine := fmt.Sprintf("c09case %s %d %d%s", cs.kind, cs.seed, cs.cell, tier)
		if cs.longline {
			caseLine = fmt.Sprintf("c09case longline %d %d", cs.seed, cs.cell)
		}
		if cs.late {
			caseLine = fmt.Sprintf("c09case late %d %d", cs.seed, cs.cell)
		}
		if len(cs.uris) >= 600 {
			caseLine = fmt.Sprintf("c09case huge %d %d", cs.seed, cs.cell)
		}
		if cs.seed == 0 {
			caseLine = fmt.Sprintf("c09case witness 0 %d", cs.cell)
		}
		if cs.cutAt > 0 {
			caseLine = fmt.Sprintf("c09case cut %d %d", cs.cutAt, cs.cell)
		}
		if cs.echoCorpus {
			caseLine = fmt.Sprintf("c09case echo %d %d", cs.rpcEcho, cs.cell)
		}
		res.Count("kind:" + cs.kind)
		res.Count(fmt.Sprintf("cell:%d%d/%q", c09b(cs.caps10), c09b(cs.caps11), cs.pref))
		res.Count(fmt.Sprintf("seg:%d", cs.segClass))
		res.Count(fmt.Sprintf("echo:%v", cs.echo))
		if o.newErr != "nil" {
			res.Case(caseLine, false)
			res.Fail("oracle", caseLine, "NewDriver failed with "+o.newErr+" for a valid configuration", "newdriver:"+o.newErr)
			continue
		}
		impl := o.tuple()
		if cs.writeFail && impl.class != "ok" && impl.class != "netconf" && impl.class != "timeout" {
			impl.class = "transport" // sim.ErrWrite is not one of the library's error classes
		}
		// every failing Open must have torn the transport down again (driver.go: Open closes the channel on any failure)
		if o.openClass != "nil" && o.openCalls > 0 && o.closeCalls == 0 {
			res.Fail("oracle", caseLine, fmt.Sprintf("Open failed with %s (%s) but the transport was left open (Open calls %d, Close calls %d)", o.openClass, o.openErr, o.openCalls, o.closeCalls), "failed-open-leaves-transport-open")
		}
		res.Count(fmt.Sprintf("auth:%d", cs.auth))
		res.Count(fmt.Sprintf("read-delay-us:%d slow-link:%v", c09or(cs.delayUs, 40), cs.pauseUs > 0))
		if cs.pre != "" {
			res.Count("banner-before-hello")
		}
		if cs.prefDirect {
			res.Count("pref-assigned-to-field")
		}
		if cs.writeFail {
			res.Count("write-failure-at-client-hello")
		}
		if cs.cutAt > 0 {
			res.Count("two-reads-cut-at-every-byte")
		}
		if cs.auth == 1 && (len(o.passTyped) != 1 || o.passTyped[0] != c09password) {
			res.Fail("oracle", caseLine, fmt.Sprintf("in-channel login: server received password lines %q", o.passTyped), "login-password")
		}
		parts := strings.Split(ans[i], " | ")
		var dom bool
		var spec, scan, rx c09tuple
		ok := false
		if cs.kind == "grammar" && len(parts) == 4 {
			h := strings.Fields(parts[0])
			var ok1, ok2, ok3 bool
			spec, ok1 = c09parseTuple(strings.Fields(parts[1]))
			scan, ok2 = c09parseTuple(strings.Fields(parts[2]))
			rx, ok3 = c09parseTuple(strings.Fields(parts[3]))
			if len(h) == 2 && ok1 && ok2 && ok3 {
				ok = true
				dom = h[0] == "1"
				if h[1] != vlib.Hex(cs.render()) {
					res.Fail("machinery", caseLine, "Lean render and Go render differ", "render")
					continue
				}
			}
		} else if cs.kind != "grammar" && len(parts) == 2 {
			var ok2, ok3 bool
			scan, ok2 = c09parseTuple(strings.Fields(parts[0]))
			rx, ok3 = c09parseTuple(strings.Fields(parts[1]))
			ok = ok2 && ok3
		}
		if !ok {
			res.Case(caseLine, false)
			res.Fail("machinery", caseLine, "driver answered "+ans[i], "driver")
			continue
		}
		prefixed := cs.pfx != ""
		multi := len(o.chunks) > 1
		nontriv := dom && (prefixed || len(cs.uris) > 2 || cs.hasSid || multi)
		res.Case(strconv.FormatUint(cs.seed, 10)+":"+strconv.Itoa(cs.cell)+":"+cs.kind, nontriv)
		res.Count(fmt.Sprintf("dom:%v", dom))
		res.Count("impl:" + impl.class)
		if impl.class == "timeout" {
			res.Count(fmt.Sprintf("timeout: kind=%s depth=%d suffix=%q seg=%d dom=%v model=%s", cs.kind, cs.depth, cs.suffix, cs.segClass, dom, rx.class))
		}
		if i%97 == 0 {
			res.Sample(map[string]any{"case": caseLine, "cell": fmt.Sprintf("caps10=%v caps11=%v pref=%q", cs.caps10, cs.caps11, cs.pref),
				"hello": string(cs.render()), "suffix": cs.suffix, "reads": len(o.chunks), "echo": cs.echo, "depth": cs.depth,
				"open": impl.class, "selected": o.ver, "session_id": o.sid, "ncaps": len(o.caps), "dom": dom})
		}
		// ---- correspondence: the model of the code (regex engine on the extracted patterns) vs the code
		// (a disagreement does not end the case: the property oracle below still runs on it, so that a
		// broken correspondence comes with a concrete failing input whenever there is one)
		if impl.class != rx.class || impl.ver != rx.ver || impl.caps != rx.caps || impl.sid != rx.sid {
			res.Fail("correspondence", caseLine, fmt.Sprintf("impl %v (%s) ; model %v ; request %s", impl, o.openErr, rx, c09trunc(lines[i])), "impl-vs-model:"+cs.kind)
		} else if impl.class == "ok" && impl.sent != rx.sent {
			res.Fail("correspondence", caseLine, fmt.Sprintf("bytes written during Open %q ; model %s", o.sentOpen, rx.sent), "impl-vs-model:sent")
		}
		if scan != rx {
			res.Count("scanner-differs-from-engine:" + cs.kind)
		}
		// ---- oracle on the non-hello cell: a framed message without any hello must fail with a NETCONF error
		if cs.kind == "nohello" {
			if rx.class == "timeout" && scan.class == "timeout" {
				res.Count("nohello: delimiter not visible in the search window (outside the domain)")
				continue
			}
			res.InDomain++
			if impl.class != "netconf" {
				res.Fail("oracle", caseLine, fmt.Sprintf("server sent %q (no hello): Open returned %s, expected a NETCONF error", cs.raw, impl.class), "nohello:"+impl.class)
			}
			if scan.class != "netconf" {
				res.Fail("machinery", caseLine, "scanner model does not fail on a message without hello", "model-vs-spec")
			}
			continue
		}
		if cs.late {
			// the server waits for the client's hello, the client for the server's: the only clean outcome is a timeout
			res.Count("late-hello:" + impl.class)
			res.InDomain++
			if impl.class != "timeout" || o.closeCalls == 0 {
				res.Fail("oracle", caseLine, fmt.Sprintf("server sends its hello only after the client's: Open returned %s (%s), transport Close calls %d; expected a timeout error and a closed transport", impl.class, o.openErr, o.closeCalls), "late-hello:"+impl.class)
			}
			continue
		}
		if cs.longline {
			// outside the theorem's window hypothesis by construction; the property itself has no such caveat
			res.Count("window-probe:total")
			res.Count("window-probe:impl-" + impl.class)
			res.Count("window-probe:model-" + rx.class)
			if spec.class == "ok" {
				res.Count("window-probe:want-ok")
			} else {
				res.Count("window-probe:want-netconf")
			}
			if impl.class != spec.class && c09knownRecorded("C09-W1") {
				res.Fail("oracle", caseLine, fmt.Sprintf("one-line hello of %d bytes + delimiter + LF in one read, search depth %d: Open returned %s (%s), the property demands %s", len(cs.render()), cs.depth, impl.class, o.openErr, spec.class), "search-window:"+impl.class+"-for-"+spec.class)
			}
			continue
		}
		if cs.kind != "grammar" || !dom {
			continue
		}
		res.InDomain++
		// ---- machinery: the theorem's subject (scanner model) vs the specification
		if scan != spec {
			res.Fail("machinery", caseLine, fmt.Sprintf("scanner model %v ; spec %v", scan, spec), "model-vs-spec")
			continue
		}
		// ---- oracle: the property on the implementation
		tag := fmt.Sprintf(" prefixed=%v", prefixed)
		wantVer := c09table(cs.caps10, cs.caps11, cs.pref)
		if !cs.writeFail && (spec.class == "ok") != (wantVer != "") && !(cs.hasSid && spec.class == "netconf" && wantVer != "") {
			res.Fail("machinery", caseLine, fmt.Sprintf("Lean spec %v disagrees with the Go table %q", spec, wantVer), "spec-vs-table")
			continue
		}
		if impl.class != spec.class {
			res.Fail("oracle", caseLine, fmt.Sprintf("Open returned %s (%s), the property demands %s; cell caps10=%v caps11=%v pref=%q", impl.class, o.openErr, spec.class, cs.caps10, cs.caps11, cs.pref), "wrong-error-class:"+impl.class+"-for-"+spec.class+tag)
			continue
		}
		if impl.class != "ok" {
			continue
		}
		if impl.ver != spec.ver || impl.ver != wantVer {
			res.Fail("oracle", caseLine, fmt.Sprintf("selected version %q, the table says %q; cell caps10=%v caps11=%v pref=%q", impl.ver, wantVer, cs.caps10, cs.caps11, cs.pref), "wrong-version")
			continue
		}
		if impl.caps != spec.caps {
			res.Fail("oracle", caseLine, fmt.Sprintf("ServerCapabilities() = %s, server sent %s", c09capsText(impl.caps), c09capsText(spec.caps)), "wrong-capabilities"+tag)
			continue
		}
		if impl.sid != spec.sid {
			res.Fail("oracle", caseLine, fmt.Sprintf("SessionID() = %s, server sent session-id %q (hello %q)", impl.sid, cs.sid, c09trunc(string(cs.render()))), "wrong-session-id"+tag)
			continue
		}
		if msg := c09clientHelloOracle(o.sentOpen, impl.ver); msg != "" {
			res.Fail("oracle", caseLine, msg, "client-hello")
			continue
		}
		if impl.sent != spec.sent {
			res.Fail("oracle", caseLine, fmt.Sprintf("bytes written during Open %q, expected %s", o.sentOpen, spec.sent), "client-hello-bytes")
			continue
		}
		// ---- later traffic uses the selected framing
		if o.srvVersion != impl.ver {
			res.Fail("oracle", caseLine, fmt.Sprintf("server derived version %s from the hellos, client selected %s", o.srvVersion, impl.ver), "peers-disagree")
			continue
		}
		if (o.nreq != 1 && !(cs.secondRPC && o.nreq == 2)) || !o.frameOK || len(o.badBytes) > 0 || o.reqID == 0 || !bytes.Contains(o.reqRaw, []byte("<get-config>")) {
			res.Fail("oracle", caseLine, fmt.Sprintf("first RPC after Open: server (speaking %s) decoded %d request(s) frameOK=%v bad=%q raw=%q", o.srvVersion, o.nreq, o.frameOK, o.badBytes, o.reqRaw), "framing:"+impl.ver)
			continue
		}
		if o.rpcClass != "nil" || o.rpcFailed || !strings.Contains(o.rpcResult, "<x>c09</x>") {
			res.Fail("oracle", caseLine, fmt.Sprintf("first RPC after Open (version %s, hello echoed %v, request echo mode %d [0 off,1 separate reads,2 sharing a read with the reply,3 echo+whole reply in one piece], segmentation class %d, read size %d): error class %s failed=%v result %q", impl.ver, cs.echo, cs.rpcEcho, cs.segClass, cs.readSize, o.rpcClass, o.rpcFailed, o.rpcResult), "first-rpc:"+impl.ver)
			continue
		}
		res.Count(fmt.Sprintf("rpc-echo:%s hello-echoed:%v seg:%d", []string{"off", "separate-reads", "sharing-a-read-with-the-reply", "coalesced-with-the-whole-reply"}[cs.rpcEcho&3], cs.echo, cs.segClass))
		res.Count(fmt.Sprintf("rpc-options: force-self-closing=%v exclude-header=%v", cs.forceSelf, cs.exclHdr))
		if o.optForce != cs.forceSelf || o.optExcl != cs.exclHdr {
			res.Fail("oracle", caseLine, fmt.Sprintf("options did not land: ForceSelfClosingTags=%v (asked %v) ExcludeHeader=%v (asked %v)", o.optForce, cs.forceSelf, o.optExcl, cs.exclHdr), "netconf-option-not-applied")
			continue
		}
		if bytes.HasPrefix(o.reqRaw, []byte("<?xml")) == cs.exclHdr || bytes.Contains(o.reqRaw, []byte("<running/>")) != cs.forceSelf {
			res.Fail("oracle", caseLine, fmt.Sprintf("first RPC with force-self-closing=%v exclude-header=%v was sent as %q", cs.forceSelf, cs.exclHdr, o.reqRaw), "rpc-option-effect")
			continue
		}
		if cs.secondRPC {
			res.Count("second-rpc")
			if o.rpc2Class != "nil" || !o.rpc2OK || !o.req2OK || o.req2ID != o.reqID+1 {
				res.Fail("oracle", caseLine, fmt.Sprintf("second RPC after Open (version %s): error class %s ok=%v; server decoded frameOK=%v message-id %d after %d", impl.ver, o.rpc2Class, o.rpc2OK, o.req2OK, o.req2ID, o.reqID), "second-rpc:"+impl.ver)
				continue
			}
		}
		wf := strings.Fields(wans[i])
		if len(wf) != 3 {
			res.Fail("machinery", caseLine, "driver answered "+wans[i], "driver")
			continue
		}
		if wf[0] != vlib.Hex(o.sentAll) {
			res.Fail("correspondence", caseLine, fmt.Sprintf("bytes written up to the first request %q ; model %s", o.sentAll, wf[0]), "impl-vs-model:wire")
			continue
		}
		if wf[1] == "none" {
			res.Fail("machinery", caseLine, "model's strict decoder rejects the model's own framing", "model-vs-spec:wire")
		}
		if o.closeHung {
			res.Count("close-hung-after-success (C07's business)")
		}
	}
	res.TracesVsImpl += len(cases)
}

// c09knownRecorded: the search-window probe only gates (as a KNOWN-FINDING) once the finding has
// been recorded in known_findings.json; until then it is reported in the evidence notes.
func c09knownRecorded(id string) bool {
	for _, p := range []string{"../known_findings.json", "known_findings.json"} {
		if b, err := os.ReadFile(p); err == nil {
			return bytes.Contains(b, []byte(`"`+id+`"`))
		}
	}
	return false
}

func c09or(v, d int) int {
	if v == 0 {
		return d
	}
	return v
}

func c09b(b bool) int {
	if b {
		return 1
	}
	return 0
}

func c09trunc(s string) string {
	if len(s) > 700 {
		return s[:700] + "…"
	}
	return s
}
