package main

// Property C17: every advertised platform definition loads and drives a matching device.
//
//   load     every advertised name through the real platform.NewPlatform; the model (generated
//            table) says whether `<name>.yaml` is embedded. A name that does not load is the
//            oracle failure `c17load <name>`.
//   fields   every embedded definition and variant: the real *Platform / network.Driver fields
//            against the generated definition (canonical text from the Lean driver), the joined
//            prompt pattern against every canonical prompt for several map orders, user options
//            layered on top win.
//   regex    the Lean engine running the generated level patterns / joined pattern against Go's
//            regexp compiled from the patterns the real driver holds.
//   session  for every (current, target) level pair: a privilege device built from the generated
//            definition (modes = levels, prompts = witness prompts, transitions = the escalate /
//            deescalate commands, secret asked on authenticated edges) is driven by the real
//            driver: Open (on-open steps observed in the device log), AcquirePriv(target), Close
//            (on-close steps observed).
//   merge    random YAML definitions with random section subsets through the real
//            NewPlatform / NewPlatformVariant against the Lean mergeVariant + setDriver.

import (
	"errors"
	"fmt"
	"regexp"
	"regexp/syntax"
	"sort"
	"strconv"
	"strings"
	"sync"
	"time"

	"github.com/scrapli/scrapligo/driver/network"
	"github.com/scrapli/scrapligo/driver/options"
	"github.com/scrapli/scrapligo/platform"
	"github.com/scrapli/scrapligo/util"

	"verifgo/facts"
	"verifgo/sim"
	"verifgo/vlib"
)

func init() { props["C17"] = runC17 }

func c17min(a, b int) int {
	if a < b {
		return a
	}
	return b
}

func c17hex(s string) string { return vlib.Hex([]byte(s)) }

func c17unhex(s string) string {
	b, err := vlib.UnHex(s)
	if err != nil {
		return "?" + s
	}
	return string(b)
}

// ---- the generated definition as the Lean driver reports it ------------------------------------

type c17level struct {
	key, name, pattern   string
	notContains          []string
	previous, deesc, esc string
	auth                 bool
	escPrompt            string
	witness, authWitness string
	targetable           bool
	unamb                bool // no other level accepts this level\'s canonical prompt
}

// c17act is one action of the model's network on-X interpreter: a(cquire) level, c(ommand),
// w(rite) input, r(eturn), e(rror: bad value), s(kip), p(anic).
type c17act struct {
	kind byte
	arg  string
}

func c17parseActs(s string) []c17act {
	if s == "." || s == "" {
		return nil
	}
	var out []c17act
	for _, a := range strings.Split(s, ",") {
		act := c17act{kind: a[0]}
		if len(a) > 1 {
			act.arg = c17unhex(a[1:])
		}
		out = append(out, act)
	}
	return out
}

type c17step map[string]string // key -> canonical value (s<hex>, b0, …)

type c17def struct {
	file, variant string
	kind, err     string
	loads         bool
	canon         string // the canonical text after kind/err
	dt, dd        string
	fw            []string
	levels        []*c17level
	byKey         map[string]*c17level
	noo, noc      []c17step
	oo, oc        []c17step
	class         map[string]int // level key -> prompt class index
	classes       [][]string
	checks        string
	onx           map[string][2][]c17act // user default ("" = none) -> model actions of on-open / on-close
	c04           string                 // "ok": platform_acquire_reaches_target covers the definition; "exempt:<tag>"
	ambiguous     bool                   // some class has more than one level
}

func c17parseSteps(s string) []c17step {
	if s == "nil" || s == "[]" {
		return nil
	}
	var out []c17step
	for _, st := range strings.Split(s, ";") {
		m := c17step{}
		if st != "{}" {
			for _, kv := range strings.Split(st, "&") {
				i := strings.Index(kv, "=")
				if i < 0 {
					continue
				}
				m[c17unhex(kv[:i])] = kv[i+1:]
			}
		}
		out = append(out, m)
	}
	return out
}

// strVal decodes a canonical string value ("s<hex>"); ok=false for any other type.
func (s c17step) strVal(k string) (string, bool) {
	v, ok := s[k]
	if !ok || !strings.HasPrefix(v, "s") {
		return "", false
	}
	return c17unhex(v[1:]), true
}

func c17parseDef(file, variant, defLine, witLine string) (*c17def, error) {
	d := &c17def{file: file, variant: variant, byKey: map[string]*c17level{}, class: map[string]int{}}
	if defLine == "none" || witLine == "none" {
		return nil, fmt.Errorf("model does not know %s/%s", file, variant)
	}
	fs := strings.Split(defLine, " ")
	kv := map[string]string{}
	for _, f := range fs {
		if i := strings.Index(f, "="); i > 0 {
			kv[f[:i]] = f[i+1:]
		}
	}
	d.kind, d.err, d.loads = kv["kind"], kv["err"], kv["loads"] == "1"
	if i := strings.Index(defLine, " dt="); i >= 0 {
		d.canon = defLine[i+1:]
	}
	d.dt, d.dd = c17unhex(kv["dt"]), c17unhex(kv["dd"])
	if kv["fw"] != "." {
		for _, h := range strings.Split(kv["fw"], ",") {
			d.fw = append(d.fw, c17unhex(h))
		}
	}
	if kv["pl"] != "." {
		for _, e := range strings.Split(kv["pl"], ",") {
			p := strings.Split(e, "/")
			if len(p) != 9 {
				return nil, fmt.Errorf("bad level entry %q", e)
			}
			l := &c17level{key: c17unhex(p[0]), name: c17unhex(p[1]), pattern: c17unhex(p[2]), previous: c17unhex(p[4]),
				deesc: c17unhex(p[5]), esc: c17unhex(p[6]), auth: p[7] == "1", escPrompt: c17unhex(p[8])}
			if p[3] != "." {
				for _, h := range strings.Split(p[3], "+") {
					l.notContains = append(l.notContains, c17unhex(h))
				}
			}
			d.levels = append(d.levels, l)
			d.byKey[l.key] = l
		}
	}
	d.oo, d.oc = c17parseSteps(kv["oo"]), c17parseSteps(kv["oc"])
	d.noo, d.noc = c17parseSteps(kv["noo"]), c17parseSteps(kv["noc"])
	wkv := map[string]string{}
	for _, f := range strings.Split(witLine, " ") {
		if i := strings.Index(f, "="); i > 0 {
			wkv[f[:i]] = f[i+1:]
		}
	}
	d.checks, d.c04 = wkv["checks"], wkv["c04"]
	if wkv["lv"] != "." && wkv["lv"] != "" {
		for _, e := range strings.Split(wkv["lv"], ",") {
			p := strings.Split(e, ":")
			if len(p) != 5 {
				return nil, fmt.Errorf("bad witness entry %q", e)
			}
			l := d.byKey[c17unhex(p[0])]
			if l == nil {
				return nil, fmt.Errorf("witness for unknown level %q", c17unhex(p[0]))
			}
			l.witness, l.authWitness, l.targetable, l.unamb = c17unhex(p[1]), c17unhex(p[2]), p[3] == "1", p[4] == "1"
		}
	}
	if wkv["cls"] != "" {
		for i, c := range strings.Split(wkv["cls"], "|") {
			var ks []string
			for _, h := range strings.Split(c, "+") {
				k := c17unhex(h)
				ks = append(ks, k)
				d.class[k] = i
			}
			if len(ks) > 1 {
				d.ambiguous = true
			}
			d.classes = append(d.classes, ks)
		}
	}
	return d, nil
}

// depth of a level in the tree (root = 0).
func (d *c17def) depth(k string) int {
	n := 0
	for l := d.byKey[k]; l != nil && l.previous != "" && n <= len(d.levels); l = d.byKey[l.previous] {
		n++
	}
	return n
}

// representative of a level's prompt class: the member closest to the root, then key order. The
// property counts indistinguishable levels as one; a device starts in the representative.
func (d *c17def) rep(k string) string {
	best := k
	for _, m := range d.classes[d.class[k]] {
		if d.depth(m) < d.depth(best) || (d.depth(m) == d.depth(best) && m < best) {
			best = m
		}
	}
	return best
}

func (d *c17def) deviceBuildable() bool {
	for _, l := range d.levels {
		if l.witness == "" {
			return false
		}
	}
	return len(d.levels) > 0
}

func (d *c17def) allChecks() bool { return d.checks != "" && !strings.Contains(d.checks, "0") }

func (d *c17def) label() string {
	if d.variant == "" {
		return d.file
	}
	return d.file + "#" + d.variant
}

// ---- canonical text of what the real code loaded -----------------------------------------------

func c17stepsCanon(steps []map[string]interface{}) string {
	if steps == nil {
		return "nil"
	}
	if len(steps) == 0 {
		return "[]"
	}
	var out []string
	for _, m := range steps {
		if len(m) == 0 {
			out = append(out, "{}")
			continue
		}
		var ks []string
		for k := range m {
			ks = append(ks, k)
		}
		sort.Strings(ks)
		var fs []string
		for _, k := range ks {
			fs = append(fs, c17hex(k)+"="+facts.PlatValCanon(m[k]))
		}
		out = append(out, strings.Join(fs, "&"))
	}
	return strings.Join(out, ";")
}

func c17levelCanon(key string, l *network.PrivilegeLevel) string {
	nc := "."
	if len(l.NotContains) > 0 {
		var hs []string
		for _, s := range l.NotContains {
			hs = append(hs, c17hex(s))
		}
		nc = strings.Join(hs, "+")
	}
	auth := "0"
	if l.EscalateAuth {
		auth = "1"
	}
	return strings.Join([]string{c17hex(key), c17hex(l.Name), c17hex(l.Pattern), nc, c17hex(l.PreviousPriv),
		c17hex(l.Deescalate), c17hex(l.Escalate), auth, c17hex(l.EscalatePrompt)}, "/")
}

func c17levelsCanon(m map[string]*network.PrivilegeLevel) string {
	if len(m) == 0 {
		return "."
	}
	var ks []string
	for k := range m {
		ks = append(ks, k)
	}
	sort.Strings(ks)
	var out []string
	for _, k := range ks {
		if m[k] == nil {
			out = append(out, c17hex(k)+"/nil")
			continue
		}
		out = append(out, c17levelCanon(k, m[k]))
	}
	return strings.Join(out, ",")
}

func c17listCanon(l []string) string {
	if len(l) == 0 {
		return "."
	}
	var hs []string
	for _, s := range l {
		hs = append(hs, c17hex(s))
	}
	return strings.Join(hs, ",")
}

func c17platformCanon(p *platform.Platform) string {
	var opts []string
	for _, o := range p.Options {
		if o == nil {
			opts = append(opts, "-=n")
			continue
		}
		opts = append(opts, c17hex(o.Option)+"="+facts.PlatValCanon(o.Value))
	}
	oc := "."
	if len(opts) > 0 {
		oc = strings.Join(opts, ",")
	}
	return strings.Join([]string{
		"dt=" + c17hex(p.DriverType),
		"fw=" + c17listCanon(p.FailedWhenContains),
		"oo=" + c17stepsCanon([]map[string]interface{}(p.OnOpen)), "oc=" + c17stepsCanon([]map[string]interface{}(p.OnClose)),
		"pl=" + c17levelsCanon(p.PrivilegeLevels),
		"dd=" + c17hex(p.DefaultDesiredPrivilegeLevel),
		"noo=" + c17stepsCanon([]map[string]interface{}(p.NetworkOnOpen)), "noc=" + c17stepsCanon([]map[string]interface{}(p.NetworkOnClose)),
		"opt=" + oc}, " ")
}

func c17errClass(err error) string {
	if err != nil && errors.Is(err, util.ErrPlatformError) {
		return "platform"
	}
	return errClass(err)
}

// c17new calls the real constructor for a definition known by name (embedded) or given as bytes.
func c17new(src interface{}, variant string, opts ...util.Option) (p *platform.Platform, err error, pmsg string) {
	defer func() {
		if r := recover(); r != nil {
			pmsg = fmt.Sprint(r)
			p = nil
		}
	}()
	if variant == "" {
		p, err = platform.NewPlatform(src, "host", opts...)
	} else {
		p, err = platform.NewPlatformVariant(src, variant, "host", opts...)
	}
	return p, err, ""
}

func c17baseOpts(tr *sim.Pipe) []util.Option {
	return []util.Option{options.WithCustomTransport(tr), options.WithAuthBypass(),
		options.WithTimeoutOps(3 * time.Second), options.WithReadDelay(50 * time.Microsecond)}
}

// c17kind reports which driver the platform holds.
func c17kind(p *platform.Platform) string {
	if p == nil {
		return "nil"
	}
	_, nerr := p.GetNetworkDriver()
	_, gerr := p.GetGenericDriver()
	switch {
	case nerr == nil && gerr != nil:
		return "network"
	case gerr == nil && nerr != nil:
		return "generic"
	case nerr != nil && gerr != nil:
		return "none"
	}
	return "both"
}

// ---- load: advertised names --------------------------------------------------------------------

func c17load(c *ctx, name string, verbose bool) {
	ans := c.ask([]string{"c17 adv " + c17hex(name)})[0]
	dom := strings.Contains(ans, "dom=1")
	spec := strings.Contains(ans, "spec=1")
	p, err, pmsg := c17new(name, "", c17baseOpts(sim.NewPipe())...)
	ok := err == nil && pmsg == "" && p != nil && c17kind(p) != "none" && c17kind(p) != "nil"
	caseLine := "c17load " + name
	c.res.Case(caseLine, true)
	c.res.Count("load:" + map[bool]string{true: "ok", false: "fail"}[ok])
	if dom {
		c.res.InDomain++
	}
	if verbose {
		fmt.Printf("%s: model spec=%v, implementation loads=%v err=%v panic=%q kind=%s\n", caseLine, spec, ok, err, pmsg, c17kind(p))
	}
	detail := fmt.Sprintf("platform.NewPlatform(%q, …): err=%v panic=%q driver=%s; model: advertised=%v, %s.yaml embedded and loadable=%v",
		name, err, pmsg, c17kind(p), dom, name, spec)
	switch {
	case !ok && dom:
		// the property's statement fails on the implementation: an advertised name does not load
		c.res.Fail("oracle", caseLine, detail, "advertised-name-does-not-load:"+name+":"+c17errClass(err))
		if spec {
			c.res.Fail("correspondence", caseLine, detail, "load-disagrees:"+name)
		}
	case ok != spec:
		c.res.Fail("correspondence", caseLine, detail, "load-disagrees:"+name)
	}
}

// ---- fields ------------------------------------------------------------------------------------

func c17stem(file string) string { return strings.TrimSuffix(file, ".yaml") }

// joinedOrder recovers the order in which the real driver joined the level patterns.
func c17joinedOrder(joined string, levels map[string]*network.PrivilegeLevel) []string {
	var keys []string
	for k := range levels {
		keys = append(keys, k)
	}
	sort.Strings(keys)
	var rec func(rest string, used map[string]bool, acc []string) []string
	rec = func(rest string, used map[string]bool, acc []string) []string {
		if len(acc) == len(keys) {
			if rest == "" {
				return acc
			}
			return nil
		}
		for _, k := range keys {
			if used[k] {
				continue
			}
			p := levels[k].Pattern
			if !strings.HasPrefix(rest, p) {
				continue
			}
			nr := rest[len(p):]
			if len(acc)+1 < len(keys) {
				if !strings.HasPrefix(nr, "|") {
					continue
				}
				nr = nr[1:]
			}
			used[k] = true
			if out := rec(nr, used, append(acc, k)); out != nil {
				return out
			}
			used[k] = false
		}
		return nil
	}
	return rec(joined, map[string]bool{}, nil)
}

func c17fields(c *ctx, d *c17def, verbose bool) {
	caseLine := fmt.Sprintf("c17fields %s %s", d.file, map[bool]string{true: "-", false: d.variant}[d.variant == ""])
	c.res.Case(caseLine, true)
	if d.allChecks() {
		c.res.InDomain++
	}
	p, err, pmsg := c17new(c17stem(d.file), d.variant, c17baseOpts(sim.NewPipe())...)
	if err != nil || pmsg != "" || p == nil {
		detail := fmt.Sprintf("%s: embedded definition does not load: err=%v panic=%q (model: kind=%s err=%s constructs=%v)",
			d.label(), err, pmsg, d.kind, d.err, d.loads)
		c.res.Fail("oracle", caseLine, detail, "embedded-definition-does-not-load:"+d.label())
		if d.loads {
			c.res.Fail("correspondence", caseLine, detail, "embedded-load-fail:"+d.label())
		}
		return
	}
	if !d.loads {
		c.res.Fail("correspondence", caseLine, d.label()+": loads, but the model says the constructor cannot build it", "embedded-load-unexpected:"+d.label())
	}
	got := c17platformCanon(p)
	if verbose {
		fmt.Println("impl :", got)
		fmt.Println("model:", d.canon)
	}
	if got != d.canon {
		c.res.Fail("correspondence", caseLine, fmt.Sprintf("%s: sections loaded by the real code differ from the generated definition\n impl : %s\n model: %s",
			d.label(), got, d.canon), "fields-differ:"+d.label())
	}
	if k := c17kind(p); k != d.kind {
		c.res.Fail("correspondence", caseLine, fmt.Sprintf("%s: driver built = %s, model setDriver = %s", d.label(), k, d.kind), "kind-differs:"+d.label())
	}
	if d.variant == "" && p.GetPlatformType() != c17stem(d.file) && d.allChecks() {
		c.res.Fail("oracle", caseLine, fmt.Sprintf("%s: GetPlatformType() = %q, loaded as %q", d.label(), p.GetPlatformType(), c17stem(d.file)),
			"platform-type-differs:"+d.label())
	}
	// the getter of the other driver type reports a platform error
	if d.kind == "network" || d.kind == "generic" {
		var werr error
		if d.kind == "network" {
			_, werr = p.GetGenericDriver()
		} else {
			_, werr = p.GetNetworkDriver()
		}
		c.res.Count("wrong-getter")
		if werr == nil || !errors.Is(werr, util.ErrPlatformError) {
			c.res.Fail("oracle", caseLine, fmt.Sprintf("%s declares a %s driver; the getter of the other type returned err=%v, expected ErrPlatformError", d.label(), d.kind, werr),
				"wrong-driver-getter:"+d.label())
		}
	}
	// the asset is also found under its file name
	if pf, err, pmsg := c17new(d.file, d.variant, c17baseOpts(sim.NewPipe())...); err != nil || pmsg != "" || c17platformCanon(pf) != d.canon {
		c.res.Fail("oracle", caseLine, fmt.Sprintf("%s: loading by file name %q: err=%v panic=%q or sections differ", d.label(), d.file, err, pmsg), "load-by-file-name:"+d.label())
	}
	if d.kind != "network" {
		return
	}
	nd, err := p.GetNetworkDriver()
	if err != nil {
		return
	}
	// what the driver will really use
	drv := "pl=" + c17levelsCanon(nd.PrivilegeLevels) + " dd=" + c17hex(nd.DefaultDesiredPriv) + " fw=" + c17listCanon(nd.FailedWhenContains)
	mfw := c17listCanon(d.fw)
	var mlv []string
	for _, f := range strings.Split(d.canon, " ") {
		if strings.HasPrefix(f, "pl=") {
			mlv = append(mlv, f)
		}
	}
	want := strings.Join(mlv, "") + " dd=" + c17hex(d.dd) + " fw=" + mfw
	if drv != want {
		c.res.Fail("correspondence", caseLine, fmt.Sprintf("%s: network.Driver fields differ from the generated definition\n impl : %s\n model: %s",
			d.label(), drv, want), "driver-fields-differ:"+d.label())
	}
	// oracle: the driver reflects the definition file, re-parsed here independently of the model
	// (levels, default level, failure strings; a variant's sections where it defines them)
	facts.Repo = repoDir()
	if pd, err := facts.LoadPlatformFile(d.file); err == nil && pd.Default != nil {
		eff := *pd.Default
		if v := pd.Variants[d.variant]; d.variant != "" && v != nil {
			if len(v.PrivilegeLevels) > 0 {
				eff.PrivilegeLevels = v.PrivilegeLevels
			}
			if v.DefaultDesired != "" {
				eff.DefaultDesired = v.DefaultDesired
			}
			if len(v.FailedWhenContains) > 0 {
				eff.FailedWhenContains = v.FailedWhenContains
			}
		}
		lv := map[string]*network.PrivilegeLevel{}
		for k, l := range eff.PrivilegeLevels {
			lv[k] = &network.PrivilegeLevel{Name: l.Name, Pattern: l.Pattern, NotContains: l.NotContains, PreviousPriv: l.PreviousPriv,
				Deescalate: l.Deescalate, Escalate: l.Escalate, EscalateAuth: l.EscalateAuth, EscalatePrompt: l.EscalatePrompt}
		}
		file := "pl=" + c17levelsCanon(lv) + " dd=" + c17hex(eff.DefaultDesired) + " fw=" + c17listCanon(eff.FailedWhenContains)
		if drv != file {
			c.res.Fail("oracle", caseLine, fmt.Sprintf("%s: the driver built by the platform does not carry the definition's levels / default level / failure strings\n driver: %s\n file  : %s",
				d.label(), drv, file), "driver-does-not-reflect-definition:"+d.label())
		}
	}
	if nd.OnOpen == nil && len(d.noo) > 0 || nd.OnClose == nil && len(d.noc) > 0 {
		c.res.Fail("correspondence", caseLine, d.label()+": network on-open/on-close steps defined but the driver has no OnOpen/OnClose", "onx-missing:"+d.label())
	}
	// joined prompt pattern finds every canonical prompt as a whole, for several map orders
	for round := 0; round < 6; round++ {
		p2, err, pmsg := c17new(c17stem(d.file), d.variant, c17baseOpts(sim.NewPipe())...)
		if err != nil || pmsg != "" {
			break
		}
		nd2, err := p2.GetNetworkDriver()
		if err != nil {
			break
		}
		for _, l := range d.levels {
			f := nd2.Channel.PromptPattern.Find([]byte("\n" + l.witness))
			c.res.Count("joined-find")
			if string(f) != l.witness && d.allChecks() {
				c.res.Fail("oracle", caseLine, fmt.Sprintf("%s: joined prompt pattern %q finds %q in the canonical prompt %q of level %s",
					d.label(), nd2.Channel.PromptPattern.String(), f, l.witness, l.key), "joined-misses-witness:"+d.label()+":"+l.key)
			}
		}
	}
	// user options layered on top of the definition win
	other := d.dd
	for _, l := range d.levels {
		if l.key != d.dd {
			other = l.key
		}
	}
	uo := append(c17baseOpts(sim.NewPipe()), options.WithDefaultDesiredPriv(other), options.WithFailedWhenContains([]string{"c17-user"}))
	p3, err, pmsg := c17new(c17stem(d.file), d.variant, uo...)
	if err == nil && pmsg == "" {
		if nd3, err := p3.GetNetworkDriver(); err == nil {
			c.res.Count("user-options-layered")
			if nd3.DefaultDesiredPriv != other || len(nd3.FailedWhenContains) != 1 || nd3.FailedWhenContains[0] != "c17-user" {
				c.res.Fail("oracle", caseLine, fmt.Sprintf("%s: user options WithDefaultDesiredPriv(%q), WithFailedWhenContains([c17-user]) did not win: driver has %q %q",
					d.label(), other, nd3.DefaultDesiredPriv, nd3.FailedWhenContains), "user-option-lost:"+d.label())
			}
		}
	}
}

// ---- regex tie for the platform patterns -------------------------------------------------------

func c17regex(c *ctx, defs []*c17def, perLevel int) {
	r := c.rng.Fork()
	var lines []string
	type q struct {
		d    *c17def
		kind string
		key  string
		subj []byte
		want string
	}
	var qs []q
	span := func(idx []int) string {
		if idx == nil {
			return "-"
		}
		return fmt.Sprintf("%d:%d", idx[0], idx[1])
	}
	for _, d := range defs {
		if d.kind != "network" {
			continue
		}
		p, err, pmsg := c17new(c17stem(d.file), d.variant, c17baseOpts(sim.NewPipe())...)
		if err != nil || pmsg != "" {
			continue
		}
		nd, err := p.GetNetworkDriver()
		if err != nil {
			continue
		}
		order := c17joinedOrder(nd.Channel.PromptPattern.String(), nd.PrivilegeLevels)
		var subjects [][]byte
		for _, l := range d.levels {
			w := l.witness
			subjects = append(subjects, []byte(w), []byte("\n"+w), []byte(w+" "), []byte(strings.ToUpper(w)), []byte("x\n"+w+"\nshow"), []byte(w+w))
			if syn, err := syntax.Parse(l.pattern, syntax.Perl); err == nil {
				for i := 0; i < perLevel; i++ {
					s := sampleRe(r, syn, 0)
					if r.Chance(1, 4) && len(s) > 0 {
						s[r.Intn(len(s))] = r.Bytes(1, []byte("aZ0 #>\n:/<()$%@"))[0]
					}
					if r.Chance(1, 4) {
						s = append([]byte(r.Pick([]string{"\n", "x\n", "root", " "})), s...)
					}
					if len(s) > 60 {
						s = s[:60]
					}
					subjects = append(subjects, s)
				}
			}
		}
		for _, nc := range []string{"tcl)", "root", "config-tcl"} {
			subjects = append(subjects, []byte("a("+nc+"#"), []byte(nc+"@a%"))
		}
		for _, l := range d.levels {
			rl := nd.PrivilegeLevels[l.key]
			if rl == nil {
				continue
			}
			re, err := regexp.Compile(rl.Pattern)
			if err != nil {
				continue
			}
			for _, s := range subjects {
				m := "0"
				if !util.StringContainsAny(string(s), rl.NotContains) && re.Match(s) {
					m = "1"
				}
				want := m + " " + span(re.FindIndex(s))
				qs = append(qs, q{d, "match", l.key, s, want})
				lines = append(lines, fmt.Sprintf("c17 match %s %s %s %s", c17hex(d.file), c17hex(d.variant), c17hex(l.key), vlib.Hex(s)))
			}
		}
		if order != nil {
			var hs []string
			for _, k := range order {
				hs = append(hs, c17hex(k))
			}
			for _, s := range subjects {
				qs = append(qs, q{d, "jfind", strings.Join(order, ","), s, span(nd.Channel.PromptPattern.FindIndex(s))})
				lines = append(lines, fmt.Sprintf("c17 jfind %s %s %s %s", c17hex(d.file), c17hex(d.variant), strings.Join(hs, ","), vlib.Hex(s)))
			}
		} else {
			c.res.Note("%s: could not recover the join order of %q", d.label(), nd.Channel.PromptPattern.String())
		}
	}
	ans := c.ask(lines)
	for i, x := range qs {
		c.res.Count("regex:" + x.kind)
		if ans[i] != x.want {
			c.res.Fail("correspondence", lines[i], fmt.Sprintf("regex engine on platform pattern: %s %s level(s) %s subject %q: Go %s, Lean %s",
				x.d.label(), x.kind, x.key, x.subj, x.want, ans[i]), "rx-platform:"+x.d.label()+":"+x.kind)
		}
	}
	c.res.Note("platform patterns: Lean engine vs Go regexp on %d (level, subject) pairs", len(qs))
}

// ---- sessions ----------------------------------------------------------------------------------

const c17secret = "c17-s3cret"

type c17dev struct {
	cli     *sim.CLI
	d       *c17def
	secret  string // "" = the device never asks
	pending string
}

func c17newDev(d *c17def, start, secret string, seg int) *c17dev {
	dev := &c17dev{cli: sim.NewCLI(), d: d, secret: secret}
	if seg > 0 {
		dev.cli.Seg = sim.SegFixed(seg)
	}
	dev.cli.Mode = start
	dev.cli.Prompt = func(cl *sim.CLI) string {
		if l := d.byKey[cl.Mode]; l != nil {
			return l.witness
		}
		return "?"
	}
	dev.cli.Handle = func(cl *sim.CLI, line string) string {
		if cl.Hidden {
			cl.Hidden = false
			if line == dev.secret {
				cl.Mode = dev.pending
				return ""
			}
			return "% Access denied\n"
		}
		cur := d.byKey[cl.Mode]
		if cur == nil || line == "" {
			return ""
		}
		for _, ch := range d.levels { // key order; sibling escalate commands are pairwise different
			if ch.previous == cur.key && ch.esc != "" && ch.esc == line {
				if ch.auth && dev.secret != "" {
					dev.pending = ch.key
					cl.Hidden = true
					return ch.authWitness
				}
				cl.Mode = ch.key
				return ""
			}
		}
		if cur.previous != "" && cur.deesc != "" && line == cur.deesc {
			cl.Mode = cur.previous
			return ""
		}
		return ""
	}
	return dev
}

// treePath is the oracle's path: up from a to the common ancestor, then down to b.
func (d *c17def) treePath(a, b string) []string {
	anc := func(k string) []string {
		var out []string
		for i := 0; i <= len(d.levels) && k != ""; i++ {
			out = append(out, k)
			l := d.byKey[k]
			if l == nil {
				break
			}
			k = l.previous
		}
		return out
	}
	ua, ub := anc(a), anc(b)
	pos := map[string]int{}
	for i, k := range ub {
		pos[k] = i
	}
	for i, k := range ua {
		if j, ok := pos[k]; ok {
			path := append([]string{}, ua[:i+1]...)
			for x := j - 1; x >= 0; x-- {
				path = append(path, ub[x])
			}
			return path
		}
	}
	return nil
}

// pathLines are the non-empty lines the device must receive along the tree path.
func (d *c17def) pathLines(a, b, secret string) []string {
	p := d.treePath(a, b)
	var out []string
	for i := 0; i+1 < len(p); i++ {
		x, y := d.byKey[p[i]], d.byKey[p[i+1]]
		if x.previous == y.key {
			out = append(out, x.deesc)
		} else {
			out = append(out, y.esc)
			if y.auth && secret != "" {
				out = append(out, secret)
			}
		}
	}
	return out
}

type c17sessOut struct {
	stage                        string // how far it got
	openErr, acqErr, closeErr    error
	panicMsg                     string
	hang                         bool
	modeOpen, modeAcq, modeClose string
	lines                        []sim.LineEvent
	nOpen, nAcq                  int // len(lines) after open / after acquire
	closeCalls                   int
	didAcquire                   bool
}

// auth: 0 = no secondary secret, the device never asks; 1 = secret configured, the device asks on
// authenticated edges; 2 = secret configured, the device lets the client in WITHOUT asking (no
// enable secret set on the device).
func c17runSession(d *c17def, cur, tgt string, auth int, seg int, user string, pre ...func()) *c17sessOut {
	out := &c17sessOut{}
	secret, devSecret := "", ""
	if auth > 0 {
		secret = c17secret
	}
	if auth == 1 {
		devSecret = c17secret
	}
	dev := c17newDev(d, cur, devSecret, seg)
	done := make(chan struct{})
	var mu sync.Mutex
	snap := func() (string, int) {
		var m string
		var n int
		dev.cli.Snapshot(func() { m = dev.cli.Mode; n = len(dev.cli.Lines) })
		return m, n
	}
	go func() {
		defer close(done)
		defer func() {
			if r := recover(); r != nil {
				mu.Lock()
				out.panicMsg = fmt.Sprint(r)
				mu.Unlock()
			}
		}()
		opts := append(c17baseOpts(dev.cli.Pipe), options.WithTimeoutOps(2*time.Second))
		if auth > 0 {
			opts = append(opts, options.WithAuthSecondary(secret))
		}
		if user != "" {
			// a user option layered on top of the definition's own options
			opts = append(opts, options.WithDefaultDesiredPriv(user))
		}
		for _, f := range pre { // history: earlier loads of the same name, mutated in place
			f()
		}
		var p *platform.Platform
		var err error
		if d.variant == "" {
			p, err = platform.NewPlatform(c17stem(d.file), "host", opts...)
		} else {
			p, err = platform.NewPlatformVariant(c17stem(d.file), d.variant, "host", opts...)
		}
		mu.Lock()
		out.stage = "new"
		mu.Unlock()
		if err != nil {
			mu.Lock()
			out.openErr = err
			mu.Unlock()
			return
		}
		nd, err := p.GetNetworkDriver()
		if err != nil {
			mu.Lock()
			out.openErr = err
			mu.Unlock()
			return
		}
		dev.cli.Start()
		err = nd.Open()
		m, n := snap()
		mu.Lock()
		out.stage, out.openErr, out.modeOpen, out.nOpen = "open", err, m, n
		mu.Unlock()
		if err != nil {
			return
		}
		if tl := d.byKey[tgt]; tl != nil && tl.targetable {
			err = nd.AcquirePriv(tgt)
			m, n = snap()
			mu.Lock()
			out.stage, out.acqErr, out.modeAcq, out.nAcq, out.didAcquire = "acquire", err, m, n, true
			mu.Unlock()
		} else {
			mu.Lock()
			out.nAcq, out.modeAcq = n, m
			mu.Unlock()
		}
		err = nd.Close()
		m, _ = snap()
		mu.Lock()
		out.stage, out.closeErr, out.modeClose = "close", err, m
		mu.Unlock()
	}()
	select {
	case <-done:
	case <-time.After(20 * time.Second):
		mu.Lock()
		out.hang = true
		mu.Unlock()
	}
	mu.Lock()
	defer mu.Unlock()
	res := *out
	dev.cli.Snapshot(func() {
		res.lines = append([]sim.LineEvent{}, dev.cli.Lines...)
		res.closeCalls = dev.cli.CloseCalls
	})
	return &res
}

func c17fmtLines(ls []sim.LineEvent) string {
	var s []string
	for _, l := range ls {
		s = append(s, l.Mode+"|"+l.Line)
	}
	return strings.Join(s, " ; ")
}

func nonEmptyLines(ls []sim.LineEvent) []string {
	var out []string
	for _, l := range ls {
		if l.Line != "" {
			out = append(out, l.Line)
		}
	}
	return out
}

// expectedStepLines: the device-visible lines of an on-X list after its acquire-priv steps, as
// (line, class of the level it must arrive in; -1 = anywhere).
type c17expLine struct {
	line  string
	class int
}

func (d *c17def) stepLines(acts []c17act) []c17expLine {
	cls := -1
	var out []c17expLine
	var pendingWrite string
	for _, a := range acts {
		switch a.kind {
		case 'a':
			if c, ok := d.class[a.arg]; ok {
				cls = c
			}
		case 'c':
			out = append(out, c17expLine{pendingWrite + a.arg, cls})
			pendingWrite = ""
		case 'w':
			pendingWrite += a.arg
		case 'r':
			out = append(out, c17expLine{pendingWrite, cls})
			pendingWrite = ""
		}
	}
	return out
}

// lastAcquire is the level the last acquire action of a list navigates to ("" = none).
func lastAcquire(acts []c17act) string {
	t := ""
	for _, a := range acts {
		if a.kind == 'a' {
			t = a.arg
		}
	}
	return t
}

func acquireCount(acts []c17act) []int {
	var out []int
	for i, a := range acts {
		if a.kind == 'a' {
			out = append(out, i)
		}
	}
	return out
}

// payload is the non-empty lines of the non-acquire actions, in order.
func payload(acts []c17act) []string {
	var out []string
	w := ""
	for _, a := range acts {
		switch a.kind {
		case 'c':
			out = append(out, w+a.arg)
			w = ""
		case 'w':
			w += a.arg
		case 'r':
			if w != "" {
				out = append(out, w)
			}
			w = ""
		}
	}
	return out
}

// c17observe checks that the expected lines arrive in order within ls, each in a mode of the
// expected class. Returns "" or the first miss.
func (d *c17def) observe(ls []sim.LineEvent, exp []c17expLine) string {
	i := 0
	for _, e := range exp {
		found := false
		for ; i < len(ls); i++ {
			if ls[i].Line == e.line && e.line != "" || e.line == "" && ls[i].Line == "" {
				if e.class >= 0 && d.class[ls[i].Mode] != e.class {
					continue
				}
				found = true
				i++
				break
			}
		}
		if !found {
			return fmt.Sprintf("step line %q (in a level of class %d) not observed", e.line, e.class)
		}
	}
	return ""
}

func c17sessLine(d *c17def, cur, tgt string, auth int, seg int, user string) string {
	u := user
	if u == "" {
		u = "~"
	}
	return fmt.Sprintf("c17sess %s %s %s %s %d %d %s", d.file, map[bool]string{true: "-", false: d.variant}[d.variant == ""], cur, tgt,
		auth, seg, u)
}

func c17session(c *ctx, d *c17def, cur, tgt string, auth int, seg int, user string, verbose bool) {
	caseLine := c17sessLine(d, cur, tgt, auth, seg, user)
	o := c17runSession(d, cur, tgt, auth, seg, user)
	c17judge(c, d, cur, tgt, auth, user, o, caseLine, verbose)
}

func c17judge(c *ctx, d *c17def, cur, tgt string, auth int, user string, o *c17sessOut, caseLine string, verbose bool) {
	acts, okActs := d.onx[user]
	if !okActs {
		c.res.Fail("machinery", caseLine, "no model on-X actions for user default "+user, "driver-protocol")
		return
	}
	openActs, closeActs := acts[0], acts[1]
	// in the property's quantifier: a device can be built from the definition (every level has a
	// canonical prompt), and it starts in the representative of a prompt class (indistinguishable
	// levels count as one). A definition that fails one of the proved checks is still driven: the
	// session then shows the failing input behind the broken obligation.
	isRep := d.rep(cur) == cur
	dom := d.deviceBuildable() && isRep
	c.res.Case(caseLine, cur != tgt)
	if dom {
		c.res.InDomain++
	}
	if !isRep {
		c.res.Count("session:start-in-non-representative-of-a-prompt-class")
		if o.panicMsg != "" || o.hang || o.openErr != nil || o.acqErr != nil || d.class[o.modeAcq] != d.class[tgt] {
			c.res.Count("session:non-representative-start-misnavigated(informational)")
		}
	}
	c.res.TracesVsImpl++
	secret := "" // what the DEVICE asks for: only then does the secret travel
	if auth == 1 {
		secret = c17secret
	}
	hops := len(d.treePath(cur, tgt)) - 1
	c.res.Count(fmt.Sprintf("session:hops=%d", hops))
	c.res.Count("session:c04-link=" + d.c04)
	if user != "" {
		c.res.Count("session:user-default-layered")
	}
	if f := strings.Fields(caseLine); len(f) >= 7 {
		c.res.Count("session:" + f[6] + "-byte-reads(0=whole)")
	}
	if auth == 1 {
		c.res.Count("session:secret")
	}
	if auth == 2 {
		c.res.Count("session:secret-configured-device-does-not-ask")
	}
	if verbose {
		fmt.Printf("%s: stage=%s openErr=%v acqErr=%v closeErr=%v panic=%q hang=%v modes open=%s acquire=%s close=%s closeCalls=%d\n  lines: %s\n",
			caseLine, o.stage, o.openErr, o.acqErr, o.closeErr, o.panicMsg, o.hang, o.modeOpen, o.modeAcq, o.modeClose, o.closeCalls, c17fmtLines(o.lines))
	}
	kind := "oracle"
	if !dom {
		return
	}
	fail := func(sig, f string, a ...any) {
		c.res.Fail(kind, caseLine, fmt.Sprintf("%s start=%s target=%s secret=%v user WithDefaultDesiredPriv=%q: ", d.label(), cur, tgt, auth, user)+fmt.Sprintf(f, a...)+
			"\n device log: "+c17fmtLines(o.lines), sig+":"+d.label())
	}
	if o.panicMsg != "" {
		fail("session-panic", "panic %s", o.panicMsg)
		return
	}
	if o.hang {
		fail("session-hang", "no return within 20 s (stage %s)", o.stage)
		return
	}
	if o.openErr != nil {
		fail("open-error", "Open failed: %v", o.openErr)
		return
	}
	opened := o.lines[:c17min(o.nOpen, len(o.lines))]
	// on-open steps observed, in order, in the class their acquire-priv step names
	if miss := d.observe(opened, d.stepLines(openActs)); miss != "" {
		fail("on-open-not-observed", "on-open: %s", miss)
	}
	// the level the on-open list acquires: the step's target, else the driver's run-time default
	// (the user's WithDefaultDesiredPriv when given) — model: onx_acquire_uses_runtime_default
	want := lastAcquire(openActs)
	hasAcq := want != ""
	if hasAcq {
		if d.class[o.modeOpen] != d.class[want] {
			fail("open-wrong-level", "after Open the device is in %s, on-open acquires %s", o.modeOpen, want)
		} else if !d.ambiguous || (d.c04 == "ok" && d.byKey[cur].unamb) {
			// platform_acquire_reaches_target (unambiguous start, any cache): the device log of Open
			// is exactly the tree path to that level followed by the payload of the other steps
			exp := d.pathLines(cur, want, secret)
			if len(openActs) > 0 && openActs[0].kind == 'a' && len(acquireCount(openActs)) == 1 {
				exp = append(exp, payload(openActs)...)
				if got := nonEmptyLines(opened); strings.Join(got, "\x00") != strings.Join(exp, "\x00") {
					fail("open-wrong-log", "Open sent %q, expected the tree path and the on-open commands %q", got, exp)
				}
			} else if got := nonEmptyLines(opened); len(got) < len(exp) || strings.Join(got[:len(exp)], "\x00") != strings.Join(exp, "\x00") {
				fail("open-wrong-path", "on-open acquire sent %q, tree path is %q", got, exp)
			}
		}
	}
	if o.didAcquire {
		acq := o.lines[c17min(o.nOpen, len(o.lines)):c17min(o.nAcq, len(o.lines))]
		if o.acqErr != nil {
			fail("acquire-error", "AcquirePriv(%s) from %s failed: %v", tgt, o.modeOpen, o.acqErr)
		} else if d.class[o.modeAcq] != d.class[tgt] {
			fail("acquire-wrong-level", "AcquirePriv(%s) returned nil with the device in %s", tgt, o.modeAcq)
		} else if !d.ambiguous || (d.c04 == "ok" && (hasAcq || d.byKey[cur].unamb)) {
			// platform_acquire_reaches_target: the cache is accurate after the on-open acquisition
			// (or the start prompt is unambiguous): exactly the tree path
			exp := d.pathLines(o.modeOpen, tgt, secret)
			got := nonEmptyLines(acq)
			if strings.Join(got, "\x00") != strings.Join(exp, "\x00") {
				fail("acquire-wrong-path", "AcquirePriv(%s) from %s sent %q, tree path is %q", tgt, o.modeOpen, got, exp)
			}
		}
		if len(acq) > 4*len(d.levels)+4 {
			fail("acquire-too-many-lines", "AcquirePriv(%s) sent %d lines", tgt, len(acq))
		}
	}
	if o.closeErr != nil {
		fail("close-error", "Close failed: %v", o.closeErr)
	}
	closed := o.lines[c17min(o.nAcq, len(o.lines)):]
	if miss := d.observe(closed, d.stepLines(closeActs)); miss != "" {
		fail("on-close-not-observed", "on-close: %s", miss)
	}
	if cw := lastAcquire(closeActs); cw != "" && o.closeErr == nil {
		// (the level at the end of Close is judged where the on-close lines arrive — observe() above —
		// because the written line itself, e.g. `exit`, may be a transition command of the device)
		if (o.didAcquire && o.acqErr == nil || hasAcq) && (!d.ambiguous || d.c04 == "ok") &&
			len(closeActs) > 0 && closeActs[0].kind == 'a' && len(acquireCount(closeActs)) == 1 {
			// the cache is accurate: exactly the tree path from where the session stands, then the payload
			exp := append(d.pathLines(o.modeAcq, cw, secret), payload(closeActs)...)
			if got := nonEmptyLines(closed); strings.Join(got, "\x00") != strings.Join(exp, "\x00") {
				fail("close-wrong-log", "Close sent %q, expected the tree path and the on-close lines %q", got, exp)
			}
		}
	}
	if o.closeCalls < 1 {
		fail("transport-not-closed", "Close returned without closing the transport")
	}
}

// ---- merge: random definitions -----------------------------------------------------------------

type c17sec struct {
	// presence: 0 absent, 1 null, 2 empty ([] / '' / {}), 3 value
	dtP, fwP, ooP, ocP, plP, ddP, nooP, nocP, optP int
	dt, dd                                         string
	fw                                             []string
	oo, oc, noo, noc                               []map[string]interface{}
	levels                                         []*network.PrivilegeLevel
	opts                                           [][2]string // name, yaml value text
}

func c17genSteps(r *vlib.Rng) []map[string]interface{} {
	var out []map[string]interface{}
	for n := r.Range(1, 3); n > 0; n-- {
		switch r.Intn(4) {
		case 0:
			out = append(out, map[string]interface{}{"operation": "channel.return"})
		case 1:
			out = append(out, map[string]interface{}{"operation": "channel.write", "input": r.Pick([]string{"exit", "quit", "logout"})})
		case 2:
			out = append(out, map[string]interface{}{"operation": "acquire-priv"})
		default:
			out = append(out, map[string]interface{}{"operation": "driver.send-command", "command": r.Pick([]string{"terminal length 0", "set cli off"})})
		}
	}
	return out
}

func c17genSec(r *vlib.Rng, variant bool) *c17sec {
	s := &c17sec{}
	pres := func() int {
		// variants leave sections out more often
		if variant && r.Chance(1, 2) {
			return r.Intn(2) * r.Intn(2) // mostly absent, sometimes null
		}
		return []int{0, 1, 2, 3, 3, 3, 3}[r.Intn(7)]
	}
	s.dtP = pres()
	if s.dtP == 3 {
		s.dt = []string{"network", "network", "network", "generic", "generic", "bogus"}[r.Intn(6)]
	}
	s.fwP = pres()
	if s.fwP == 3 {
		for n := r.Range(1, 3); n > 0; n-- {
			s.fw = append(s.fw, r.Pick([]string{"% Invalid", "ERROR:", "denied", "unknown command"}))
		}
	}
	s.ooP, s.ocP, s.nooP, s.nocP = pres(), pres(), pres(), pres()
	if s.ooP == 3 {
		s.oo = c17genSteps(r)
	}
	if s.ocP == 3 {
		s.oc = c17genSteps(r)
	}
	if s.nooP == 3 {
		s.noo = c17genSteps(r)
	}
	if s.nocP == 3 {
		s.noc = c17genSteps(r)
	}
	s.plP = pres()
	if s.plP == 3 {
		names := []string{"exec", "privilege-exec", "configuration", "shell"}
		n := r.Range(1, 4)
		for i := 0; i < n; i++ {
			l := &network.PrivilegeLevel{Name: names[i], Pattern: `(?im)^r` + strconv.Itoa(r.Intn(3)) + []string{">", "#", `\(c\)#`, `\$`}[i] + `$`}
			if i > 0 {
				l.PreviousPriv = names[r.Intn(i)]
				l.Escalate = "enter " + names[i]
				l.Deescalate = "leave " + names[i]
				l.EscalateAuth = r.Chance(1, 4)
				if l.EscalateAuth {
					l.EscalatePrompt = `(?im)^password:\s?$`
				}
			}
			if r.Chance(1, 5) {
				l.NotContains = []string{"tcl)"}
			}
			s.levels = append(s.levels, l)
		}
	}
	s.ddP = pres()
	if s.ddP == 3 {
		s.dd = r.Pick([]string{"exec", "privilege-exec", "configuration"})
	}
	if !variant || r.Chance(1, 3) {
		s.optP = []int{0, 0, 1, 2, 3, 3}[r.Intn(6)]
		if s.optP == 3 {
			for n := r.Range(1, 2); n > 0; n-- {
				s.opts = append(s.opts, [][2]string{{"port", "2022"}, {"auth-bypass", "true"}, {"timeout-ops", "1.5"}, {"return-char", `"\n"`}}[r.Intn(4)])
			}
		}
	}
	return s
}

func yq(s string) string { return "'" + strings.ReplaceAll(s, "'", "''") + "'" }

func c17yamlSteps(b *strings.Builder, ind, key string, p int, steps []map[string]interface{}) {
	switch p {
	case 0:
	case 1:
		fmt.Fprintf(b, "%s%s:\n", ind, key)
	case 2:
		fmt.Fprintf(b, "%s%s: []\n", ind, key)
	default:
		fmt.Fprintf(b, "%s%s:\n", ind, key)
		for _, m := range steps {
			fmt.Fprintf(b, "%s  - operation: %s\n", ind, yq(m["operation"].(string)))
			for _, k := range []string{"input", "command"} {
				if v, ok := m[k]; ok {
					fmt.Fprintf(b, "%s    %s: %s\n", ind, k, yq(v.(string)))
				}
			}
		}
	}
}

func (s *c17sec) yaml(b *strings.Builder, ind string) {
	switch s.dtP {
	case 1:
		fmt.Fprintf(b, "%sdriver-type:\n", ind)
	case 2:
		fmt.Fprintf(b, "%sdriver-type: ''\n", ind)
	case 3:
		fmt.Fprintf(b, "%sdriver-type: %s\n", ind, yq(s.dt))
	}
	switch s.plP {
	case 1:
		fmt.Fprintf(b, "%sprivilege-levels:\n", ind)
	case 2:
		fmt.Fprintf(b, "%sprivilege-levels: {}\n", ind)
	case 3:
		fmt.Fprintf(b, "%sprivilege-levels:\n", ind)
		for _, l := range s.levels {
			fmt.Fprintf(b, "%s  %s:\n%s    name: %s\n%s    pattern: %s\n", ind, l.Name, ind, yq(l.Name), ind, yq(l.Pattern))
			if len(l.NotContains) > 0 {
				fmt.Fprintf(b, "%s    not-contains:\n", ind)
				for _, nc := range l.NotContains {
					fmt.Fprintf(b, "%s      - %s\n", ind, yq(nc))
				}
			}
			fmt.Fprintf(b, "%s    previous-priv: %s\n%s    deescalate: %s\n%s    escalate: %s\n%s    escalate-auth: %v\n%s    escalate-prompt: %s\n",
				ind, yq(l.PreviousPriv), ind, yq(l.Deescalate), ind, yq(l.Escalate), ind, l.EscalateAuth, ind, yq(l.EscalatePrompt))
		}
	}
	switch s.ddP {
	case 1:
		fmt.Fprintf(b, "%sdefault-desired-privilege-level:\n", ind)
	case 2:
		fmt.Fprintf(b, "%sdefault-desired-privilege-level: ''\n", ind)
	case 3:
		fmt.Fprintf(b, "%sdefault-desired-privilege-level: %s\n", ind, yq(s.dd))
	}
	switch s.fwP {
	case 1:
		fmt.Fprintf(b, "%sfailed-when-contains:\n", ind)
	case 2:
		fmt.Fprintf(b, "%sfailed-when-contains: []\n", ind)
	case 3:
		fmt.Fprintf(b, "%sfailed-when-contains:\n", ind)
		for _, f := range s.fw {
			fmt.Fprintf(b, "%s  - %s\n", ind, yq(f))
		}
	}
	c17yamlSteps(b, ind, "on-open", s.ooP, s.oo)
	c17yamlSteps(b, ind, "on-close", s.ocP, s.oc)
	c17yamlSteps(b, ind, "network-on-open", s.nooP, s.noo)
	c17yamlSteps(b, ind, "network-on-close", s.nocP, s.noc)
	switch s.optP {
	case 1:
		fmt.Fprintf(b, "%soptions:\n", ind)
	case 2:
		fmt.Fprintf(b, "%soptions: []\n", ind)
	case 3:
		fmt.Fprintf(b, "%soptions:\n", ind)
		for _, o := range s.opts {
			fmt.Fprintf(b, "%s  - option: %s\n%s    value: %s\n", ind, o[0], ind, o[1])
		}
	}
}

// tokens is the model's view of a section set: what yaml.v3 leaves in the Go struct.
func (s *c17sec) tokens() []string {
	steps := func(p int, st []map[string]interface{}) string {
		switch p {
		case 0, 1:
			return "nil"
		case 2:
			return "[]"
		}
		return c17stepsCanon(st)
	}
	lv := "."
	if s.plP == 3 {
		m := map[string]*network.PrivilegeLevel{}
		for _, l := range s.levels {
			m[l.Name] = l
		}
		lv = c17levelsCanon(m)
	}
	opt := "."
	if s.optP == 3 {
		var os []string
		for _, o := range s.opts {
			var v interface{}
			switch o[0] {
			case "port":
				v = 2022
			case "auth-bypass":
				v = true
			case "timeout-ops":
				v = 1.5
			default:
				v = "\n"
			}
			os = append(os, c17hex(o[0])+"="+facts.PlatValCanon(v))
		}
		opt = strings.Join(os, ",")
	}
	return []string{c17hex(s.dt), c17listCanon(s.fw), steps(s.ooP, s.oo), steps(s.ocP, s.oc), lv, c17hex(s.dd),
		steps(s.nooP, s.noo), steps(s.nocP, s.noc), opt}
}

// specMerge is the property's own statement, computed without the model: a section of the result
// is the variant's when the variant defines it (non-empty string, non-empty failure list or level
// map, step list present even if empty), otherwise the base's; options stay the base's.
func c17specMerge(base, v []string) []string {
	out := append([]string{}, base...)
	for i := 0; i < 8; i++ { // the eight sections; index 8 = options
		defined := false
		switch i {
		case 0, 5:
			defined = v[i] != "-"
		case 1, 4:
			defined = v[i] != "."
		default:
			defined = v[i] != "nil"
		}
		if defined {
			out[i] = v[i]
		}
	}
	return out
}

func c17platformTokens(p *platform.Platform) string {
	c := c17platformCanon(p)
	var out []string
	for _, f := range strings.Split(c, " ") {
		out = append(out, f[strings.Index(f, "=")+1:])
	}
	return strings.Join(out, " ")
}

type c17mergeCase struct {
	seed     uint64
	yaml     string
	base     *c17sec
	variants map[string]*c17sec
	use      string // "" = NewPlatform, else variant name (may be missing)
	line     string
	spec     string
}

func c17genMerge(seed uint64) *c17mergeCase {
	r := vlib.NewRng(seed)
	mc := &c17mergeCase{seed: seed, variants: map[string]*c17sec{}}
	mc.base = c17genSec(r, false)
	if r.Chance(4, 5) { // mostly a loadable base
		if mc.base.dtP != 3 || mc.base.dt == "bogus" {
			mc.base.dtP, mc.base.dt = 3, "network"
		}
	}
	var b strings.Builder
	b.WriteString("---\nplatform-type: 'c17_random'\ndefault:\n")
	mc.base.yaml(&b, "  ")
	if b.Len() == len("---\nplatform-type: 'c17_random'\ndefault:\n") {
		b.WriteString("  textfsm-platform: ''\n")
	}
	nv := r.Range(0, 2)
	names := []string{"v1", "v2"}
	if nv > 0 {
		b.WriteString("variants:\n")
		for i := 0; i < nv; i++ {
			v := c17genSec(r, true)
			mc.variants[names[i]] = v
			fmt.Fprintf(&b, "  %s:\n", names[i])
			n0 := b.Len()
			v.yaml(&b, "    ")
			if b.Len() == n0 {
				b.WriteString("    textfsm-platform: ''\n")
			}
		}
	}
	mc.yaml = b.String()
	switch {
	case nv == 0 || r.Chance(1, 5):
		mc.use = ""
	default:
		mc.use = names[r.Intn(nv)]
	}
	if r.Chance(1, 12) {
		mc.use = "missing"
	}
	return mc
}

func c17merge(c *ctx, seeds []uint64, verbose bool) {
	var lines []string
	var cases []*c17mergeCase
	empty := (&c17sec{}).tokens()
	for _, sd := range seeds {
		mc := c17genMerge(sd)
		v := empty
		if mc.use != "" {
			if vs, ok := mc.variants[mc.use]; ok {
				v = vs.tokens()
			}
		}
		mc.line = "c17 merge " + strings.Join(mc.base.tokens(), " ") + " " + strings.Join(v, " ")
		mc.spec = strings.Join(c17specMerge(mc.base.tokens(), v), " ")
		lines = append(lines, mc.line)
		cases = append(cases, mc)
	}
	ans := c.ask(lines)
	for i, mc := range cases {
		caseLine := fmt.Sprintf("c17merge %d", mc.seed)
		_, has := mc.variants[mc.use]
		c.res.Case(caseLine, mc.use != "" && has)
		c.res.InDomain++
		p, err, pmsg := c17new([]byte(mc.yaml), mc.use, c17baseOpts(sim.NewPipe())...)
		var impl string
		switch {
		case pmsg != "":
			impl = "panic " + pmsg
		case err != nil:
			impl = "err=" + c17errClass(err)
		default:
			impl = c17platformTokens(p) + " kind=" + c17kind(p) + " err=ok"
		}
		model := ans[i]
		if mc.use != "" && !has {
			model = "err=platform" // NewPlatformVariant: no such variant
		} else if strings.HasSuffix(model, "err=badoption") {
			model = "err=badoption"
		}
		if mc.use == "" {
			c.res.Count("merge:no-variant")
		} else if !has {
			c.res.Count("merge:missing-variant")
		} else {
			vs := mc.variants[mc.use]
			n := 0
			for _, p := range []int{vs.dtP, vs.fwP, vs.ooP, vs.ocP, vs.plP, vs.ddP, vs.nooP, vs.nocP} {
				if p >= 2 {
					n++
				}
			}
			c.res.Count(fmt.Sprintf("merge:variant-sections=%d", n))
		}
		if verbose {
			fmt.Printf("%s use=%q\n%s\n impl : %s\n model: %s\n", caseLine, mc.use, mc.yaml, impl, model)
		}
		// oracle: the sections of the returned platform against the property's statement
		if err == nil && pmsg == "" && (mc.use == "" || has) {
			if got := c17platformTokens(p); got != mc.spec {
				c.res.Fail("oracle", caseLine, fmt.Sprintf("variant %q does not replace exactly the sections it defines\n result: %s\n spec  : %s\n yaml:\n%s",
					mc.use, got, mc.spec, mc.yaml), "variant-merge-wrong-sections")
			}
			if !strings.HasPrefix(ans[i], mc.spec+" ") && !strings.HasSuffix(ans[i], "err=badoption") {
				c.res.Fail("machinery", caseLine, "model mergeVariant differs from the section-wise statement: "+ans[i]+" vs "+mc.spec, "merge-model-vs-spec")
			}
		}
		if impl != model {
			// a level map whose links are broken makes network.NewDriver panic; the generator
			// only builds valid trees, so any panic here is a finding
			c.res.Fail("correspondence", caseLine, fmt.Sprintf("NewPlatform/NewPlatformVariant(variant %q) on a random definition differs from mergeVariant+setDriver\n impl : %s\n model: %s\n yaml:\n%s",
				mc.use, impl, model, mc.yaml), "merge-differs")
		}
	}
}

// ---- malformed stream: broken level maps --------------------------------------------------------

// c17graph feeds definitions whose level maps are mostly NOT trees (unknown parent, key != name,
// two roots, cycles) to the real NewPlatform and compares "network.NewDriver panics in
// buildPrivGraph" with the model's graphBuildable; theorem tree_definitions_build_graph says which
// definitions are safe. Outside the property's quantifier (no embedded definition is like this).
func c17graph(c *ctx, seeds []uint64, verbose bool) {
	type gcase struct {
		seed uint64
		yaml string
	}
	var lines []string
	var cases []gcase
	for _, sd := range seeds {
		r := vlib.NewRng(sd)
		pool := []string{"exec", "privilege-exec", "configuration", "shell"}
		n := r.Range(1, 4)
		var b strings.Builder
		b.WriteString("---\nplatform-type: 'c17_graph'\ndefault:\n  driver-type: 'network'\n  privilege-levels:\n")
		var toks []string
		for i := 0; i < n; i++ {
			key, name := pool[i], pool[i]
			if r.Chance(1, 6) {
				name = pool[i] + "-x"
			}
			prev := ""
			switch r.Intn(6) {
			case 0:
				prev = "ghost"
			case 1:
				prev = ""
			case 2:
				prev = pool[r.Intn(n)] // may be itself or a later level: cycles
			default:
				if i > 0 {
					prev = pool[r.Intn(i)]
				}
			}
			fmt.Fprintf(&b, "    %s:\n      name: %s\n      pattern: %s\n      previous-priv: %s\n      escalate: %s\n      deescalate: 'exit'\n",
				key, yq(name), yq(`(?im)^h`+strconv.Itoa(i)+`#$`), yq(prev), yq("go "+key))
			toks = append(toks, c17hex(key)+"/"+c17hex(name)+"/"+c17hex(prev))
		}
		fmt.Fprintf(&b, "  default-desired-privilege-level: %s\n", yq(pool[0]))
		lines = append(lines, "c17 graph "+strings.Join(toks, ","))
		cases = append(cases, gcase{sd, b.String()})
	}
	ans := c.ask(lines)
	for i, g := range cases {
		caseLine := fmt.Sprintf("c17graph %d", g.seed)
		c.res.Case(caseLine, false)
		_, err, pmsg := c17new([]byte(g.yaml), "", c17baseOpts(sim.NewPipe())...)
		buildable := strings.Contains(ans[i], "graph=1")
		c.res.Count("malformed-levels:" + map[bool]string{true: "builds", false: "panics"}[pmsg == ""] + " " + ans[i][strings.Index(ans[i], "tree="):])
		if verbose {
			fmt.Printf("%s\n%s impl: err=%v panic=%q\n model: %s\n", caseLine, g.yaml, err, pmsg, ans[i])
		}
		if (pmsg == "") != buildable || (pmsg == "" && err != nil) {
			c.res.Fail("correspondence", caseLine, fmt.Sprintf("NewPlatform on a definition with a broken level map: err=%v panic=%q, model %s\n%s", err, pmsg, ans[i], g.yaml),
				"graph-build-differs")
		}
	}
}

// ---- run ---------------------------------------------------------------------------------------

func c17loadDefs(c *ctx) (adv []string, defs []*c17def) {
	names := c.ask([]string{"c17 names"})[0]
	kv := map[string]string{}
	for _, f := range strings.Split(names, " ") {
		if i := strings.Index(f, "="); i > 0 {
			kv[f[:i]] = f[i+1:]
		}
	}
	if kv["adv"] != "." {
		for _, h := range strings.Split(kv["adv"], ",") {
			adv = append(adv, c17unhex(h))
		}
	}
	var lines []string
	var fv [][2]string
	if kv["loaded"] != "." && kv["loaded"] != "" {
		for _, e := range strings.Split(kv["loaded"], ",") {
			p := strings.Split(e, ":")
			fv = append(fv, [2]string{c17unhex(p[0]), c17unhex(p[1])})
			lines = append(lines, "c17 def "+p[0]+" "+p[1], "c17 wit "+p[0]+" "+p[1])
		}
	}
	ans := c.ask(lines)
	for i, x := range fv {
		d, err := c17parseDef(x[0], x[1], ans[2*i], ans[2*i+1])
		if err != nil {
			c.res.Fail("machinery", "c17 def "+x[0], err.Error(), "driver-protocol")
			continue
		}
		defs = append(defs, d)
	}
	// the model's on-X actions per definition and user default
	var olines []string
	type oq struct {
		d    *c17def
		user string
	}
	var oqs []oq
	for _, d := range defs {
		d.onx = map[string][2][]c17act{}
		users := []string{""}
		for _, l := range d.levels {
			users = append(users, l.key)
		}
		for _, u := range users {
			h := "~"
			if u != "" {
				h = c17hex(u)
			}
			olines = append(olines, fmt.Sprintf("c17 onx %s %s %s", c17hex(d.file), c17hex(d.variant), h))
			oqs = append(oqs, oq{d, u})
		}
	}
	for i, a := range c.ask(olines) {
		kv := map[string]string{}
		for _, f := range strings.Split(a, " ") {
			if j := strings.Index(f, "="); j > 0 {
				kv[f[:j]] = f[j+1:]
			}
		}
		oqs[i].d.onx[oqs[i].user] = [2][]c17act{c17parseActs(kv["open"]), c17parseActs(kv["close"])}
	}
	return adv, defs
}

func c17find(defs []*c17def, file, variant string) *c17def {
	if variant == "-" {
		variant = ""
	}
	for _, d := range defs {
		if d.file == file && d.variant == variant {
			return d
		}
	}
	return nil
}

func runC17(c *ctx) {
	c.res.Rule = "a case is non-trivial when it loads a definition by name, compares a whole definition, drives a session with current != target, or merges a variant that exists"
	adv, defs := c17loadDefs(c)
	if c.replay != "" {
		f := strings.Fields(c.replay)
		switch {
		case len(f) == 2 && f[0] == "c17load":
			c17load(c, f[1], true)
		case len(f) == 3 && f[0] == "c17fields":
			if d := c17find(defs, f[1], f[2]); d != nil {
				c17fields(c, d, true)
			}
		case (len(f) == 7 || len(f) == 8) && f[0] == "c17sess":
			if d := c17find(defs, f[1], f[2]); d != nil {
				seg, _ := strconv.Atoi(f[6])
				user := ""
				if len(f) == 8 && f[7] != "~" {
					user = f[7]
				}
				av, _ := strconv.Atoi(f[5])
				c17session(c, d, f[3], f[4], av, seg, user, true)
			}
		case len(f) == 4 && f[0] == "c17hist":
			if d := c17find(defs, f[1], f[2]); d != nil {
				mode, _ := strconv.Atoi(f[3])
				c17history(c, defs, d, mode, true, true)
			}
		case len(f) == 9 && f[0] == "c17stale":
			if d := c17find(defs, f[1], f[2]); d != nil {
				seg, _ := strconv.Atoi(f[4])
				t := f[8]
				if t == "-" {
					t = ""
				}
				st := c17stale{kind: f[5], arg: c17unhex(f[6]), follow: f[7], t: t}
				c17judgeStale(c, d, f[3], st, c17runStale(d, f[3], st, seg), c.replay, true)
			}
		case len(f) == 5 && f[0] == "c17layer":
			if d := c17find(defs, f[1], f[2]); d != nil {
				c17layer(c, d, f[3], f[4], true)
			}
		case len(f) == 4 && f[0] == "c17decoy":
			c17decoy(c, adv, defs, true)
		case len(f) == 2 && f[0] == "c17user":
			sd, _ := strconv.ParseUint(f[1], 10, 64)
			c17user(c, []uint64{sd}, true)
		case len(f) == 2 && f[0] == "c17graph":
			sd, _ := strconv.ParseUint(f[1], 10, 64)
			c17graph(c, []uint64{sd}, true)
		case len(f) == 2 && f[0] == "c17merge":
			sd, _ := strconv.ParseUint(f[1], 10, 64)
			c17merge(c, []uint64{sd}, true)
		default:
			fmt.Println("c17: cannot replay", c.replay)
		}
		return
	}
	// 1. advertised names load; the list the library returns is the list the translator extracted
	if got := platform.GetPlatformNames(); strings.Join(got, ",") != strings.Join(adv, ",") {
		c.res.Fail("correspondence", "c17names", fmt.Sprintf("platform.GetPlatformNames() = %q, generated `advertised` = %q", got, adv), "advertised-names-differ")
	}
	c.res.Case("c17names", true)
	for _, n := range adv {
		c17load(c, n, false)
	}
	// 1b. the same by-name loads from a working directory full of decoy files
	c17decoy(c, adv, defs, false)
	// 2. fields of every embedded definition and variant
	for _, d := range defs {
		c17fields(c, d, false)
	}
	// 3. regex tie on the platform patterns
	c17regex(c, defs, c.n(6, 40))
	// 4. sessions: every (current, target) pair, with and without a secret
	type job struct {
		d        *c17def
		cur, tgt string
		auth     int
		user     string // user WithDefaultDesiredPriv layered on top ("" = none)
		out      *c17sessOut
	}
	var jobs []*job
	for _, d := range defs {
		if d.kind != "network" {
			continue
		}
		// secret configured + device asks, no secret, and — for definitions with an authenticated
		// edge — secret configured but the device lets the client in without asking
		auths := []int{1, 0}
		for _, l := range d.levels {
			if l.auth {
				auths = []int{1, 0, 2}
			}
		}
		for _, a := range d.levels {
			for _, b := range d.levels {
				for _, auth := range auths {
					jobs = append(jobs, &job{d: d, cur: a.key, tgt: b.key, auth: auth})
				}
			}
		}
		// user option layered on top: WithDefaultDesiredPriv(x) for every usable level x other than
		// the definition's default; from every start level; the middle AcquirePriv goes to the
		// definition's default, so that Close has to navigate back to x
		for _, x := range d.levels {
			if x.key == d.dd || !x.targetable {
				continue
			}
			for _, a := range d.levels {
				for _, auth := range []int{1, 0} {
					jobs = append(jobs, &job{d: d, cur: a.key, tgt: d.dd, auth: auth, user: x.key})
				}
			}
		}
	}
	// read segmentation of the device output: whole, 1 byte per read; thorough adds 3 and 7 (and
	// every repetition meets another Go map order in the real driver)
	segs := []int{0, 1}
	if c.thorough() {
		segs = []int{0, 1, 3, 7}
	}
	for rep := 0; rep < len(segs)*c.scale; rep++ {
		seg := segs[rep%len(segs)]
		sem := make(chan struct{}, vlib.Conc(16))
		var wg sync.WaitGroup
		for _, j := range jobs {
			wg.Add(1)
			sem <- struct{}{}
			go func(j *job) {
				defer wg.Done()
				j.out = c17runSession(j.d, j.cur, j.tgt, j.auth, seg, j.user)
				<-sem
			}(j)
		}
		wg.Wait()
		for _, j := range jobs {
			c17judge(c, j.d, j.cur, j.tgt, j.auth, j.user, j.out, c17sessLine(j.d, j.cur, j.tgt, j.auth, seg, j.user), false)
		}
	}
	c.res.Exhaustive = true
	c.res.ExhaustiveOf = fmt.Sprintf("%d advertised names, %d embedded definitions and variants, all %d (current, target, secret) sessions", len(adv), len(defs), len(jobs))
	// 4a. stale cache: the device changes level behind the driver, then AcquirePriv / SendConfigs / Close
	{
		type sjob struct {
			d   *c17def
			cur string
			st  c17stale
			seg int
			out *c17staleOut
		}
		var sjobs []*sjob
		for i, d := range defs {
			if d.kind != "network" || !d.deviceBuildable() {
				continue
			}
			cases := c17staleCases(d)
			for k, st := range cases {
				// start levels: the default's representative always; every other level in thorough
				for li, l := range d.levels {
					if d.rep(l.key) != l.key {
						continue
					}
					if !c.thorough() && l.key != d.rep(d.dd) && (uint64(i+k+li)+c.seed)%4 != 0 {
						continue
					}
					sjobs = append(sjobs, &sjob{d: d, cur: l.key, st: st, seg: (i + k) % 2})
				}
			}
		}
		sem := make(chan struct{}, vlib.Conc(16))
		var wg sync.WaitGroup
		for _, j := range sjobs {
			wg.Add(1)
			sem <- struct{}{}
			go func(j *sjob) {
				defer wg.Done()
				j.out = c17runStale(j.d, j.cur, j.st, j.seg)
				<-sem
			}(j)
		}
		wg.Wait()
		for _, j := range sjobs {
			c17judgeStale(c, j.d, j.cur, j.st, j.out, c17staleLine(j.d, j.cur, j.st, j.seg), false)
		}
	}
	// 4a'. user options layered on every embedded definition: replaced level tree + default in both
	// orders (quick: the two critical orders for every definition, shape rotating; thorough: all)
	for i, d := range defs {
		if d.kind != "network" {
			continue
		}
		for si, shape := range c17layerShapes {
			if !c.thorough() && (uint64(i+si)+c.seed)%3 != 0 {
				continue
			}
			orders := []string{"levels-first", "default-first"}
			if c.thorough() || (uint64(i)+c.seed)%2 == 0 {
				orders = append(orders, "levels-then-default", "default-then-levels")
			}
			for _, order := range orders {
				c17layer(c, d, shape, order, false)
			}
		}
	}
	// 4b. histories: load, mutate the instance through every handle, load the same name again
	for i, d := range defs {
		for _, mode := range []int{1, 0, 2} { // aliasing of two fresh instances first
			// the device session after the history: a rotating third of the definitions (all in thorough)
			withSession := c.thorough() || (uint64(i)+c.seed+uint64(mode))%3 == 0
			c17history(c, defs, d, mode, withSession, false)
		}
	}
	// 4c. user-supplied definitions (bytes / file / URL, both driver types, every option kind, all
	// on-X operation kinds), driven against their own device
	ru := c.rng.Fork()
	var useeds []uint64
	for sd := uint64(0); sd < 48; sd++ { // the enumerated malformed cases
		useeds = append(useeds, sd)
	}
	for i := 0; i < c.n(160, 1500); i++ {
		useeds = append(useeds, ru.U64()>>1)
	}
	c17user(c, useeds, false)
	// 5. random definitions / variants
	r := c.rng.Fork()
	var seeds []uint64
	for i := 0; i < c.n(400, 6000); i++ {
		seeds = append(seeds, r.U64()>>1)
	}
	c17merge(c, seeds, false)
	// 6. malformed stream: level maps that are not trees
	var gseeds []uint64
	for i := 0; i < c.n(200, 3000); i++ {
		gseeds = append(gseeds, r.U64()>>1)
	}
	c17graph(c, gseeds, false)
	for i, d := range defs {
		if i < 3 {
			c.res.Sample(map[string]any{"definition": d.label(), "levels": len(d.levels), "classes": d.classes, "checks": d.checks})
		}
	}
	c.res.Sample(map[string]any{"merge-case-yaml": c17genMerge(seeds[0]).yaml})
}
