package main

import (
	"bytes"
	"fmt"
	"strconv"
	"strings"

	"github.com/scrapli/scrapligo/response"

	"verifgo/vlib"
)

func init() { props["C02"] = runC02 }

type recOut struct {
	panicked bool
	pmsg     string
	failed   bool
	result   []byte
	errs     []string
	warns    []string
}

func implRecord(version string, raw []byte) (o recOut) {
	defer func() {
		if r := recover(); r != nil {
			o.panicked = true
			o.pmsg = fmt.Sprint(r)
		}
	}()
	r := response.NewNetconfResponse([]byte("in"), []byte("in"), "h", 830, version)
	r.Record(append([]byte{}, raw...)) // exact-capacity copy: over-reads cannot hide in spare capacity
	o.failed = r.Failed != nil
	o.result = []byte(r.Result)
	o.errs, o.warns = r.ErrorMessages, r.WarningErrorMessages
	return o
}

func isSubseq(small, big []byte) bool {
	i := 0
	for _, b := range big {
		if i < len(small) && small[i] == b {
			i++
		}
	}
	return i == len(small)
}

var c02Markers = []string{"<rpc-error>", "</rpc-error>", "<rpc-errors>", "</rpc-errors>", "<nc:rpc-error>", "</nc:rpc-error>"}

// c02ErrVariants: rpc-error spellings. "Carries an rpc-error" is, for the code and for the model,
// "contains one of the six FailedWhenContains markers" (regenerated constant): an opening tag with
// attributes is recognised by its closing tag only, a foreign prefix / upper case / a self-closing
// tag / an escaped tag is not an rpc-error, and marker text inside a comment or CDATA section is.
var c02ErrVariants = []string{
	`<rpc-error xmlns="urn:ietf:params:xml:ns:netconf:base:1.0"><error-type>rpc</error-type></rpc-error>`,
	`<rpc-error a="1">`, `<nc:rpc-error xmlns:nc="urn:x"><nc:error-tag>x</nc:error-tag></nc:rpc-error>`,
	`<x:rpc-error>y</x:rpc-error>`, `<!-- <rpc-error> -->`, `<![CDATA[</rpc-error>]]>`, `<rpc-error/>`,
	`<RPC-ERROR>`, `&lt;rpc-error&gt;`, `<rpc-error >`, `</rpc-error >`, `<rpc-errors>`, `</nc:rpc-error>`,
	`<rpc-error><error-severity>warning</error-severity><error-message>w</error-message></rpc-error>`,
	`<rpc-error><error-severity>error</error-severity></rpc-error><rpc-error><error-severity>warning</error-severity></rpc-error>`,
	`<rpc-errors><rpc-error><error-severity>warning</error-severity></rpc-error></rpc-errors>`,
	`<rpc-error><error-severity>info</error-severity></rpc-error>`,
	`<rpc-error><error-severity>warning</error-severity><error-severity>error</error-severity></rpc-error>`,
}

func genPayload(r *vlib.Rng) []byte {
	var b bytes.Buffer
	switch {
	case r.Chance(1, 5):
		b.WriteString(`<?xml version="1.0" encoding="UTF-8"?>`)
	case r.Chance(1, 16):
		// a declaration in another spelling is not "the" declaration the code knows: it stays
		b.WriteString(r.Pick([]string{`<?xml version="1.0" encoding="utf-8"?>`, `<?xml version="1.0"?>`, `<?xml version='1.0' encoding='UTF-8'?>`}))
	}
	if r.Chance(1, 4) {
		b.WriteString(r.Pick([]string{"\n", " ", "\n\n", "\t"}))
	}
	wrapped := !r.Chance(1, 12) // now and then no rpc-reply wrapper: a fragment at the very edge of the payload
	if wrapped {
		b.WriteString(`<rpc-reply message-id="` + strconv.Itoa(101+r.Intn(30)) + `">`)
	}
	n := r.Intn(8)
	if !wrapped {
		n = r.Range(1, 3)
	}
	for i := 0; i < n; i++ {
		switch r.Intn(14) {
		case 0:
			b.WriteString("<ok/>")
		case 1:
			b.WriteString("<data>\n#" + strconv.Itoa(r.Intn(200)) + "\n</data>")
		case 2:
			b.WriteString("<v>héllo ✓ 日本</v>")
		case 3:
			b.WriteString("\n##\n")
		case 4:
			b.WriteString(r.Pick(c02Markers))
		case 5:
			b.WriteString("\n#")
		case 6:
			b.WriteString(string(r.Bytes(r.Range(1, 40), []byte("abc#0123456789\n<>/ "))))
		case 7:
			b.WriteString("<rpc-error><error-severity>error</error-severity></rpc-error>")
		case 8:
			b.WriteString(r.Pick(c02ErrVariants))
		case 9:
			b.WriteString(r.Pick([]string{"]]>]]>", "a]]>]]>\n", "]]>]]", "\n]]>]]>"}))
		case 10:
			b.WriteString(r.Pick([]string{`<?xml version="1.0" encoding="UTF-8"?>`, "<subscription-id>7</subscription-id>", "</rpc>", "\n##", "##\n", "\n#1\n"}))
		default:
			b.WriteString("<x>" + strconv.Itoa(r.Intn(1000)) + "</x>")
		}
	}
	if wrapped {
		b.WriteString("</rpc-reply>")
	}
	if r.Chance(1, 4) {
		b.WriteString(r.Pick([]string{"\n", " ", "\n\n"}))
	}
	return b.Bytes()
}

// partitions enumerates all compositions of n (for n small) as cut lists.
func allCompositions(n int) [][]int {
	if n == 0 {
		return [][]int{{}}
	}
	var out [][]int
	for first := 1; first <= n; first++ {
		for _, rest := range allCompositions(n - first) {
			out = append(out, append([]int{first}, rest...))
		}
	}
	return out
}

func cutBytes(b []byte, cuts []int) [][]byte {
	var out [][]byte
	for _, c := range cuts {
		out = append(out, b[:c])
		b = b[c:]
	}
	return out
}

type c02case struct {
	line  string // replayable request
	class string
	must  bool // malformed class that must be failed
	raw   []byte
	ver   string
	frame bool
	lead  bool   // 1.0 frame with white space in front of a declaration (finding C02-F21's trigger)
	p10   []byte // 1.0 frame: the payload behind the declaration
}

func runC02(c *ctx) {
	res := c.res
	res.Rule = "frames: generated XML-ish payloads (markers and rpc-error spellings, '#', digits, LF at chunk edges, multi-byte, ']]>]]>', declarations) x random/exhaustive chunk partitions (header-length edges to 6, thorough 7, digits) x whitespace padding in front and behind, both versions; malformed: labelled mutations of legal frames (truncate at every byte, bad sizes, missing terminator) and random bytes; message lists of every raw that mentions rpc-error vs the model; driver sessions: RPC method x version x echo mode x segmentation x options x payload size x notifications x how the last reply ends. non-trivial = in-domain frame with >=2 chunks or leading white space, a malformed input, or a driver session; distinct by raw bytes / case seed"
	var cases []c02case
	addFrame11 := func(payload []byte, cuts []int, w1, w2 []byte, class string) {
		cs := cutBytes(payload, cuts)
		cases = append(cases, c02case{line: fmt.Sprintf("c02 frame 1.1 %s %s %s", vlib.Hex(w1), vlib.HexList(cs), vlib.Hex(w2)), class: class, frame: true, ver: "1.1"})
	}
	if strings.HasPrefix(c.replay, "c02dcase") {
		runC02driver(c)
		return
	}
	if c.replay != "" {
		f := strings.Fields(c.replay)
		if len(f) >= 3 && f[1] == "msgs" {
			raw, _ := vlib.UnHex(f[2])
			cases = append(cases, c02case{line: c.replay, class: "replay", raw: raw, ver: "1.1"})
		} else if len(f) >= 4 && f[1] == "raw" {
			raw, _ := vlib.UnHex(f[3])
			cases = append(cases, c02case{line: c.replay, class: "replay", raw: raw, ver: f[2]})
		} else {
			cs := c02case{line: c.replay, class: "replay", frame: true, ver: f[2]}
			if f[2] == "1.0" && len(f) == 7 {
				cs.p10, _ = vlib.UnHex(f[4])
				cs.lead = f[3] == "1" && f[6] != "-"
			}
			cases = append(cases, cs)
		}
	} else {
		r := c.rng
		ws := [][]byte{{}, {'\n'}, {' '}, {'\n', '\n'}, {'\r', '\n'}, {'\t', ' '}}
		// exhaustive partitions of short payloads
		shorts := [][]byte{[]byte("<a/>"), []byte("#1\n##"), []byte("a\n##\nb"), []byte("<rpc-error>"), []byte("é#9\n")}
		maxLen := 7
		if c.thorough() {
			maxLen = 12
		}
		for _, p := range shorts {
			if len(p) > maxLen {
				continue
			}
			for _, cuts := range allCompositions(len(p)) {
				addFrame11(p, cuts, nil, nil, "frame11-exhaustive")
			}
		}
		for i := 0; i < c.n(1500, 60000); i++ {
			p := genPayload(r)
			addFrame11(p, r.Cuts(len(p), r.Intn(4)), r.PickB(ws), r.PickB(ws), "frame11-random")
		}
		// big chunks: every size whose header is one digit longer than its predecessor's (9|10 …
		// 99999|100000; 999999|1000000 in the thorough tier), one chunk of that size plus a tail
		edges := []int{9, 10, 99, 100, 999, 1000, 9999, 10000, 99999, 100000, 250000}
		for i := 0; i < c.n(22, 120); i++ {
			n := edges[i%len(edges)]
			if c.thorough() && i%40 == 39 {
				n = []int{999999, 1000000}[r.Intn(2)]
			}
			p := append([]byte("<d>"), r.Bytes(n, []byte("ab#\n0"))...)
			p = append(p, []byte("</d>")...)
			cuts := []int{n, len(p) - n}
			if r.Bool() {
				cuts = []int{len(p) - n, n}
			}
			addFrame11(p, cuts, nil, nil, fmt.Sprintf("frame11-bigchunk:%d-digit-size", len(strconv.Itoa(n))))
		}
		// several chunks in one frame whose sizes sit on both sides of a header-length change
		for i := 0; i < c.n(40, 600); i++ {
			k := r.Range(2, 6)
			var cuts []int
			total := 0
			for j := 0; j < k; j++ {
				e := []int{1, 9, 10, 11, 99, 100, 101, 999, 1000, 1001, 9999, 10000}[r.Intn(12)]
				cuts = append(cuts, e)
				total += e
			}
			p := genPayload(r)
			for len(p) < total {
				p = append(p, r.Bytes(r.Range(1, 300), []byte("ab#\n0 <>/19"))...)
			}
			p = append(p[:total-1:total-1], '>')
			addFrame11(p, cuts, r.PickB(ws), r.PickB(ws), "frame11-digit-edges")
		}
		for i := 0; i < c.n(400, 20000); i++ {
			p := genPayload(r)
			p = bytes.ReplaceAll(p, []byte("]]>]]>"), []byte("]]>"))
			decl := "0"
			if bytes.HasPrefix(p, []byte("<?xml")) && bytes.HasPrefix(p, []byte(`<?xml version="1.0" encoding="UTF-8"?>`)) {
				p = bytes.TrimPrefix(p, []byte(`<?xml version="1.0" encoding="UTF-8"?>`))
				decl = "1"
			}
			// white space in front of the message: the LF a server sends behind the previous
			// message's delimiter, when it reaches the client in a later read than the delimiter
			w1 := []byte{}
			if r.Chance(2, 5) {
				w1 = r.PickB(ws[1:])
			}
			cl := "frame10"
			if len(w1) > 0 {
				cl = "frame10-leading-space"
			}
			cases = append(cases, c02case{line: fmt.Sprintf("c02 frame 1.0 %s %s %s %s", decl, vlib.Hex(p), vlib.Hex(r.PickB(ws)), vlib.Hex(w1)), class: cl, frame: true, ver: "1.0",
				lead: len(w1) > 0 && decl == "1", p10: p})
		}
	}
	// ask the model to build frames / give spec
	var lines []string
	for _, cs := range cases {
		if cs.frame {
			lines = append(lines, cs.line)
		}
	}
	ans := c.ask(lines)
	type spec struct {
		dom, failed, thm bool
		raw, result      []byte
	}
	specs := map[int]spec{}
	k := 0
	for i := range cases {
		if !cases[i].frame {
			continue
		}
		f := strings.Fields(ans[k])
		k++
		if len(f) != 4 && len(f) != 5 {
			res.Fail("machinery", cases[i].line, "driver answered "+ans[k-1], "driver")
			continue
		}
		raw, _ := vlib.UnHex(f[1])
		result, _ := vlib.UnHex(f[3])
		// thm: a proved theorem covers the case (always so for 1.1 frames in the domain; for 1.0 not
		// when white space precedes a declaration: no theorem can hold there, finding C02-F21)
		specs[i] = spec{dom: f[0] == "1", failed: f[2] == "1", raw: raw, result: result, thm: len(f) == 4 || f[4] == "1"}
		cases[i].raw = raw
	}
	// malformed stream, derived from legal 1.1 frames
	if c.replay == "" {
		r := c.rng
		var base [][]byte
		for i := range cases {
			if cases[i].frame && cases[i].ver == "1.1" && len(cases[i].raw) < 200 && len(base) < c.n(40, 400) && specs[i].dom {
				base = append(base, cases[i].raw)
			}
		}
		add := func(raw []byte, class string, must bool) {
			cases = append(cases, c02case{line: "c02 raw 1.1 " + vlib.Hex(raw), class: class, must: must, raw: raw, ver: "1.1"})
		}
		for _, fr := range base {
			t := bytes.TrimRight(fr, " \t\r\n")
			// every truncation strictly before the closing "##" completes
			for cut := 0; cut < len(t)-1; cut++ {
				add(fr[:cut], "truncate", true)
			}
			// size mutations on the first header
			if i := bytes.IndexByte(fr, '#'); i >= 0 {
				j := i + 1 + bytes.IndexByte(fr[i+1:], '\n')
				if j > i {
					hdr := string(fr[i+1 : j])
					rest := fr[j:]
					mk := func(h string) []byte { return append(append(append([]byte{}, fr[:i+1]...), h...), rest...) }
					add(mk("-"+hdr), "size-negative", true)
					add(mk("0"), "size-zero", true)
					add(mk("x"+hdr), "size-alpha", true)
					add(mk(hdr+"z"), "size-alpha", true)
					add(mk(""), "size-empty", true)
					add(mk("12345678901"), "size-11-digits", true)
					add(mk(strconv.Itoa(len(fr)+1+r.Intn(1000))), "size-oversize", true)
					add(mk("4294967295"), "size-oversize", true)
					add(mk("9999999999"), "size-oversize", true)
				}
			}
			// drop terminator
			if i := bytes.LastIndex(fr, []byte("\n##")); i > 0 {
				add(fr[:i], "no-terminator", true)
				add(append(append([]byte{}, fr[:i]...), '\n'), "no-terminator", true)
			}
		}
		// size tokens other integer parsers accept, each in front of the data length its mis-parse
		// implies; in search mode (an obligation no longer checks: -scale > 1) the search budget
		// goes here: many more data lengths
		ns := []int{1, 2, 5, 7, 8, 9, 10, 11, 15, 16, 17, 64, 93, 100, 255, 256, 1000}
		if c.thorough() || c.scale > 1 {
			for i := 0; i < 60*c.scale; i++ {
				ns = append(ns, r.Range(1, 5000))
			}
		}
		c02sizeStream(r, ns, add)
		tiny := []string{"", "#", "##", "#1", "#1\n", "#-1\nabc\n##", "#5\nab", "#3\nabc", "\n#", "#\n", "#+3\nabc\n##", "x", "#3\nabc\n#", "# 3\nabc\n##", "#3\nabc##", "#03\nabc\n##", "#3\nabc\n\n\n##", "#3\nabc\n##junk"}
		for _, s := range tiny {
			add([]byte(s), "tiny", false)
		}
		for i := 0; i < c.n(2000, 100000); i++ {
			add(r.Bytes(r.Intn(24), []byte("#\n0123456789ab-+ ")), "random-bytes", false)
		}
		for i := 0; i < c.n(200, 5000); i++ {
			add(r.Bytes(r.Intn(24), []byte("#\n]>ab ")), "random-bytes-10", false)
			cases[len(cases)-1].ver = "1.0"
			cases[len(cases)-1].line = "c02 raw 1.0 " + vlib.Hex(cases[len(cases)-1].raw)
		}
	}
	// model on every raw
	lines = lines[:0]
	for _, cs := range cases {
		lines = append(lines, "c02 raw "+cs.ver+" "+vlib.Hex(cs.raw))
	}
	mans := c.ask(lines)
	// rpc-error message lists: model (hand-written scan + the regex engine on the extracted
	// pattern) for every raw that mentions rpc-error and is short enough for the regex engine
	msgIdx := map[int]int{}
	lines = lines[:0]
	for i, cs := range cases {
		if bytes.Contains(cs.raw, []byte("rpc-error")) && len(cs.raw) <= 1500 {
			msgIdx[i] = len(lines)
			lines = append(lines, "c02 msgs "+vlib.Hex(cs.raw))
		}
	}
	msgAns := c.ask(lines)
	for i, cs := range cases {
		res.Count("class:" + cs.class)
		impl := implRecord(cs.ver, cs.raw)
		f := strings.Fields(mans[i])
		if len(f) != 3 {
			res.Fail("machinery", cs.line, "driver answered "+mans[i], "driver")
			continue
		}
		mFailed, mResult := f[0] == "1", f[2]
		sp, isFrame := specs[i]
		nontrivial := !isFrame || (sp.dom && strings.Count(cs.line, ",") >= 1) || cs.class == "frame10-leading-space"
		res.Case(string(cs.raw)+cs.ver, nontrivial)
		if i%997 == 0 {
			res.Sample(map[string]any{"class": cs.class, "version": cs.ver, "raw": string(cs.raw), "impl_failed": impl.failed, "impl_result": string(impl.result)})
		}
		rawLine := "c02 raw " + cs.ver + " " + vlib.Hex(cs.raw)
		// oracle on the implementation
		if impl.panicked {
			res.Fail("oracle", rawLine, fmt.Sprintf("Record panicked on %q: %s", cs.raw, impl.pmsg), "panic")
			continue
		}
		if !isSubseq(impl.result, cs.raw) {
			res.Fail("oracle", rawLine, fmt.Sprintf("Record(%q) returned bytes not in the input: %q", cs.raw, impl.result), "foreign-bytes")
			continue
		}
		for _, m := range append(append([]string{}, impl.errs...), impl.warns...) {
			if !bytes.Contains(cs.raw, []byte(m)) {
				res.Fail("oracle", rawLine, fmt.Sprintf("Record(%q) reports an rpc-error message that is not a piece of the input: %q", cs.raw, m), "foreign-bytes:messages")
			}
		}
		if cs.must && !impl.failed {
			res.Fail("oracle", rawLine, fmt.Sprintf("malformed frame (%s) not marked failed: %q -> %q", cs.class, cs.raw, impl.result), "malformed-accepted:"+cs.class)
			continue
		}
		if isFrame && sp.dom {
			res.InDomain++
			if cs.lead {
				res.Count("frame10:declaration-behind-leading-space")
			}
			if !bytes.Equal(impl.result, sp.result) || impl.failed != sp.failed {
				sig := "legal-frame-wrong-result"
				if bytes.Equal(impl.result, sp.result) {
					sig = "legal-frame-wrong-failed"
				}
				// finding C02-F21, and nothing else: white space in front of the declaration, and the
				// result is the payload with exactly the declaration left in front
				if cs.lead && impl.failed == sp.failed &&
					bytes.Equal(impl.result, bytes.TrimSpace(append([]byte(`<?xml version="1.0" encoding="UTF-8"?>`), cs.p10...))) {
					sig = "legal-frame10-leading-space-keeps-declaration"
				}
				res.Fail("oracle", cs.line, fmt.Sprintf("legal frame %q: result %q failed=%v, expected %q failed=%v", cs.raw, impl.result, impl.failed, sp.result, sp.failed), sig)
				continue
			}
			// theorem sanity: model must equal spec on in-domain frames a theorem covers
			if sp.thm && (mFailed != sp.failed || mResult != vlib.Hex(sp.result)) {
				res.Fail("machinery", cs.line, "model differs from spec on an in-domain frame: "+mans[i], "model-vs-spec")
			}
		}
		// correspondence impl vs model (ASCII-edge domain only; see Driver/C02.lean)
		edgeOK := len(impl.result) == 0 || (impl.result[0] < 128 && impl.result[len(impl.result)-1] < 128)
		if edgeOK && (impl.failed != mFailed || vlib.Hex(impl.result) != mResult) {
			res.Fail("correspondence", rawLine, fmt.Sprintf("impl failed=%v result=%q ; model %s", impl.failed, impl.result, mans[i]), "impl-vs-model")
		}
		// correspondence on the message lists (ErrorMessages / WarningErrorMessages)
		if k, ok := msgIdx[i]; ok {
			mf := strings.Fields(msgAns[k])
			if len(mf) != 3 {
				res.Fail("machinery", "c02 msgs "+vlib.Hex(cs.raw), "driver answered "+msgAns[k], "driver")
				continue
			}
			res.Count("messages:checked")
			if len(impl.errs) > 0 {
				res.Count("messages:with-error-severity")
			}
			if len(impl.warns) > 0 {
				res.Count("messages:with-warning-severity")
			}
			hx := func(xs []string) string {
				var bs [][]byte
				for _, x := range xs {
					bs = append(bs, []byte(x))
				}
				return vlib.HexList(bs)
			}
			if hx(impl.errs) != mf[0] || hx(impl.warns) != mf[1] {
				res.Fail("correspondence", "c02 msgs "+vlib.Hex(cs.raw), fmt.Sprintf("Record(%q): ErrorMessages %q WarningErrorMessages %q ; model %s", cs.raw, impl.errs, impl.warns, msgAns[k]), "impl-vs-model:messages")
			}
			if mf[2] != "1" {
				res.Fail("machinery", "c02 msgs "+vlib.Hex(cs.raw), "the hand-written block scan and the regex engine on rpcSingleErrors disagree: "+msgAns[k], "scan-vs-regex")
			}
		}
	}
	res.TracesVsImpl = len(cases)
	if c.replay == "" || strings.HasPrefix(c.replay, "c02dcase") {
		runC02driver(c)
	}
}
