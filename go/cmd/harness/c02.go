package main

import (
	"bytes"
	"fmt"
	"strconv"
	"strings"

	"github.com/scrapli/scrapligo/response"

	"verifgo/vlib"
)

func init() { props["C02"] = runC02 }

type recOut struct {
	panicked bool
	pmsg     string
	failed   bool
	result   []byte
}

func implRecord(version string, raw []byte) (o recOut) {
	defer func() {
		if r := recover(); r != nil {
			o.panicked = true
			o.pmsg = fmt.Sprint(r)
		}
	}()
	r := response.NewNetconfResponse([]byte("in"), []byte("in"), "h", 830, version)
	r.Record(append([]byte{}, raw...)) // exact-capacity copy: over-reads cannot hide in spare capacity
	o.failed = r.Failed != nil
	o.result = []byte(r.Result)
	return o
}

func isSubseq(small, big []byte) bool {
	i := 0
	for _, b := range big {
		if i < len(small) && small[i] == b {
			i++
		}
	}
	return i == len(small)
}

var c02Markers = []string{"<rpc-error>", "</rpc-error>", "<rpc-errors>", "</rpc-errors>", "<nc:rpc-error>", "</nc:rpc-error>"}

func genPayload(r *vlib.Rng) []byte {
	var b bytes.Buffer
	if r.Chance(1, 5) {
		b.WriteString(`<?xml version="1.0" encoding="UTF-8"?>`)
	}
	if r.Chance(1, 4) {
		b.WriteString(r.Pick([]string{"\n", " ", "\n\n", "\t"}))
	}
	b.WriteString(`<rpc-reply message-id="` + strconv.Itoa(101+r.Intn(30)) + `">`)
	n := r.Intn(8)
	for i := 0; i < n; i++ {
		switch r.Intn(9) {
		case 0:
			b.WriteString("<ok/>")
		case 1:
			b.WriteString("<data>\n#" + strconv.Itoa(r.Intn(200)) + "\n</data>")
		case 2:
			b.WriteString("<v>héllo ✓ 日本</v>")
		case 3:
			b.WriteString("\n##\n")
		case 4:
			b.WriteString(r.Pick(c02Markers))
		case 5:
			b.WriteString("\n#")
		case 6:
			b.WriteString(string(r.Bytes(r.Range(1, 40), []byte("abc#0123456789\n<>/ "))))
		case 7:
			b.WriteString("<rpc-error><error-severity>error</error-severity></rpc-error>")
		default:
			b.WriteString("<x>" + strconv.Itoa(r.Intn(1000)) + "</x>")
		}
	}
	b.WriteString("</rpc-reply>")
	if r.Chance(1, 4) {
		b.WriteString(r.Pick([]string{"\n", " ", "\n\n"}))
	}
	return b.Bytes()
}

// partitions enumerates all compositions of n (for n small) as cut lists.
func allCompositions(n int) [][]int {
	if n == 0 {
		return [][]int{{}}
	}
	var out [][]int
	for first := 1; first <= n; first++ {
		for _, rest := range allCompositions(n - first) {
			out = append(out, append([]int{first}, rest...))
		}
	}
	return out
}

func cutBytes(b []byte, cuts []int) [][]byte {
	var out [][]byte
	for _, c := range cuts {
		out = append(out, b[:c])
		b = b[c:]
	}
	return out
}

type c02case struct {
	line  string // replayable request
	class string
	must  bool // malformed class that must be failed
	raw   []byte
	ver   string
	frame bool
}

func runC02(c *ctx) {
	res := c.res
	res.Rule = "frames: generated XML-ish payloads (markers, '#', digits, LF at chunk edges, multi-byte) x random/exhaustive chunk partitions x whitespace padding, both versions; malformed: labelled mutations of legal frames (truncate at every byte, bad sizes, missing terminator) and random bytes. non-trivial = in-domain frame with >=2 chunks, or a malformed input; distinct by raw bytes"
	var cases []c02case
	addFrame11 := func(payload []byte, cuts []int, w1, w2 []byte, class string) {
		cs := cutBytes(payload, cuts)
		cases = append(cases, c02case{line: fmt.Sprintf("c02 frame 1.1 %s %s %s", vlib.Hex(w1), vlib.HexList(cs), vlib.Hex(w2)), class: class, frame: true, ver: "1.1"})
	}
	if strings.HasPrefix(c.replay, "c02dcase") {
		runC02driver(c)
		return
	}
	if c.replay != "" {
		f := strings.Fields(c.replay)
		if len(f) >= 4 && f[1] == "raw" {
			raw, _ := vlib.UnHex(f[3])
			cases = append(cases, c02case{line: c.replay, class: "replay", raw: raw, ver: f[2]})
		} else {
			cases = append(cases, c02case{line: c.replay, class: "replay", frame: true, ver: f[2]})
		}
	} else {
		r := c.rng
		ws := [][]byte{{}, {'\n'}, {' '}, {'\n', '\n'}, {'\r', '\n'}, {'\t', ' '}}
		// exhaustive partitions of short payloads
		shorts := [][]byte{[]byte("<a/>"), []byte("#1\n##"), []byte("a\n##\nb"), []byte("<rpc-error>"), []byte("é#9\n")}
		maxLen := 7
		if c.thorough() {
			maxLen = 12
		}
		for _, p := range shorts {
			if len(p) > maxLen {
				continue
			}
			for _, cuts := range allCompositions(len(p)) {
				addFrame11(p, cuts, nil, nil, "frame11-exhaustive")
			}
		}
		for i := 0; i < c.n(1500, 60000); i++ {
			p := genPayload(r)
			addFrame11(p, r.Cuts(len(p), r.Intn(4)), r.PickB(ws), r.PickB(ws), "frame11-random")
		}
		// big chunks: size digit lengths up to 6
		for i := 0; i < c.n(6, 60); i++ {
			n := []int{9, 10, 99, 100, 999, 1000, 9999, 10000, 99999, 100000, 250000}[r.Intn(11)]
			p := append([]byte("<d>"), r.Bytes(n, []byte("ab#\n0"))...)
			p = append(p, []byte("</d>")...)
			cuts := []int{n, len(p) - n}
			addFrame11(p, cuts, nil, nil, "frame11-bigchunk")
		}
		for i := 0; i < c.n(400, 20000); i++ {
			p := genPayload(r)
			p = bytes.ReplaceAll(p, []byte("]]>]]>"), []byte("]]>"))
			decl := "0"
			if bytes.HasPrefix(p, []byte("<?xml")) {
				p = bytes.TrimPrefix(p, []byte(`<?xml version="1.0" encoding="UTF-8"?>`))
				decl = "1"
			}
			cases = append(cases, c02case{line: fmt.Sprintf("c02 frame 1.0 %s %s %s", decl, vlib.Hex(p), vlib.Hex(r.PickB(ws))), class: "frame10", frame: true, ver: "1.0"})
		}
	}
	// ask the model to build frames / give spec
	var lines []string
	for _, cs := range cases {
		if cs.frame {
			lines = append(lines, cs.line)
		}
	}
	ans := c.ask(lines)
	type spec struct {
		dom, failed bool
		raw, result []byte
	}
	specs := map[int]spec{}
	k := 0
	for i := range cases {
		if !cases[i].frame {
			continue
		}
		f := strings.Fields(ans[k])
		k++
		if len(f) != 4 {
			res.Fail("machinery", cases[i].line, "driver answered "+ans[k-1], "driver")
			continue
		}
		raw, _ := vlib.UnHex(f[1])
		result, _ := vlib.UnHex(f[3])
		specs[i] = spec{dom: f[0] == "1", failed: f[2] == "1", raw: raw, result: result}
		cases[i].raw = raw
	}
	// malformed stream, derived from legal 1.1 frames
	if c.replay == "" {
		r := c.rng
		var base [][]byte
		for i := range cases {
			if cases[i].frame && cases[i].ver == "1.1" && len(cases[i].raw) < 200 && len(base) < c.n(40, 400) && specs[i].dom {
				base = append(base, cases[i].raw)
			}
		}
		add := func(raw []byte, class string, must bool) {
			cases = append(cases, c02case{line: "c02 raw 1.1 " + vlib.Hex(raw), class: class, must: must, raw: raw, ver: "1.1"})
		}
		for _, fr := range base {
			t := bytes.TrimRight(fr, " \t\r\n")
			// every truncation strictly before the closing "##" completes
			for cut := 0; cut < len(t)-1; cut++ {
				add(fr[:cut], "truncate", true)
			}
			// size mutations on the first header
			if i := bytes.IndexByte(fr, '#'); i >= 0 {
				j := i + 1 + bytes.IndexByte(fr[i+1:], '\n')
				if j > i {
					hdr := string(fr[i+1 : j])
					rest := fr[j:]
					mk := func(h string) []byte { return append(append(append([]byte{}, fr[:i+1]...), h...), rest...) }
					add(mk("-"+hdr), "size-negative", true)
					add(mk("0"), "size-zero", true)
					add(mk("x"+hdr), "size-alpha", true)
					add(mk(hdr+"z"), "size-alpha", true)
					add(mk(""), "size-empty", true)
					add(mk("12345678901"), "size-11-digits", true)
					add(mk(strconv.Itoa(len(fr)+1+r.Intn(1000))), "size-oversize", true)
					add(mk("4294967295"), "size-oversize", true)
					add(mk("9999999999"), "size-oversize", true)
				}
			}
			// drop terminator
			if i := bytes.LastIndex(fr, []byte("\n##")); i > 0 {
				add(fr[:i], "no-terminator", true)
				add(append(append([]byte{}, fr[:i]...), '\n'), "no-terminator", true)
			}
		}
		tiny := []string{"", "#", "##", "#1", "#1\n", "#-1\nabc\n##", "#5\nab", "#3\nabc", "\n#", "#\n", "#+3\nabc\n##", "x", "#3\nabc\n#", "# 3\nabc\n##", "#3\nabc##", "#03\nabc\n##", "#3\nabc\n\n\n##", "#3\nabc\n##junk"}
		for _, s := range tiny {
			add([]byte(s), "tiny", false)
		}
		for i := 0; i < c.n(2000, 100000); i++ {
			add(r.Bytes(r.Intn(24), []byte("#\n0123456789ab-+ ")), "random-bytes", false)
		}
		for i := 0; i < c.n(200, 5000); i++ {
			add(r.Bytes(r.Intn(24), []byte("#\n]>ab ")), "random-bytes-10", false)
			cases[len(cases)-1].ver = "1.0"
			cases[len(cases)-1].line = "c02 raw 1.0 " + vlib.Hex(cases[len(cases)-1].raw)
		}
	}
	// model on every raw
	lines = lines[:0]
	for _, cs := range cases {
		lines = append(lines, "c02 raw "+cs.ver+" "+vlib.Hex(cs.raw))
	}
	mans := c.ask(lines)
	for i, cs := range cases {
		res.Count("class:" + cs.class)
		impl := implRecord(cs.ver, cs.raw)
		f := strings.Fields(mans[i])
		if len(f) != 3 {
			res.Fail("machinery", cs.line, "driver answered "+mans[i], "driver")
			continue
		}
		mFailed, mResult := f[0] == "1", f[2]
		sp, isFrame := specs[i]
		nontrivial := !isFrame || (sp.dom && strings.Count(cs.line, ",") >= 1)
		res.Case(string(cs.raw)+cs.ver, nontrivial)
		if i%997 == 0 {
			res.Sample(map[string]any{"class": cs.class, "version": cs.ver, "raw": string(cs.raw), "impl_failed": impl.failed, "impl_result": string(impl.result)})
		}
		rawLine := "c02 raw " + cs.ver + " " + vlib.Hex(cs.raw)
		// oracle on the implementation
		if impl.panicked {
			res.Fail("oracle", rawLine, fmt.Sprintf("Record panicked on %q: %s", cs.raw, impl.pmsg), "panic")
			continue
		}
		if !isSubseq(impl.result, cs.raw) {
			res.Fail("oracle", rawLine, fmt.Sprintf("Record(%q) returned bytes not in the input: %q", cs.raw, impl.result), "foreign-bytes")
			continue
		}
		if cs.must && !impl.failed {
			res.Fail("oracle", rawLine, fmt.Sprintf("malformed frame (%s) not marked failed: %q -> %q", cs.class, cs.raw, impl.result), "malformed-accepted:"+cs.class)
			continue
		}
		if isFrame && sp.dom {
			res.InDomain++
			if !bytes.Equal(impl.result, sp.result) || impl.failed != sp.failed {
				sig := "legal-frame-wrong-result"
				if bytes.Equal(impl.result, sp.result) {
					sig = "legal-frame-wrong-failed"
				}
				res.Fail("oracle", cs.line, fmt.Sprintf("legal frame %q: result %q failed=%v, expected %q failed=%v", cs.raw, impl.result, impl.failed, sp.result, sp.failed), sig)
				continue
			}
			// theorem sanity: model must equal spec on in-domain frames
			if mFailed != sp.failed || mResult != vlib.Hex(sp.result) {
				res.Fail("machinery", cs.line, "model differs from spec on an in-domain frame: "+mans[i], "model-vs-spec")
			}
		}
		// correspondence impl vs model (ASCII-edge domain only; see Driver/C02.lean)
		edgeOK := len(impl.result) == 0 || (impl.result[0] < 128 && impl.result[len(impl.result)-1] < 128)
		if edgeOK && (impl.failed != mFailed || vlib.Hex(impl.result) != mResult) {
			res.Fail("correspondence", rawLine, fmt.Sprintf("impl failed=%v result=%q ; model %s", impl.failed, impl.result, mans[i]), "impl-vs-model")
		}
	}
	res.TracesVsImpl = len(cases)
	if c.replay == "" || strings.HasPrefix(c.replay, "c02dcase") {
		runC02driver(c)
	}
}
