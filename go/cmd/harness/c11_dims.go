package main

import (
	"bytes"
	"errors"
	"log"
	"strconv"
	"strings"
	"sync"

	"github.com/scrapli/scrapligo/driver/options"
	"github.com/scrapli/scrapligo/logging"
	"github.com/scrapli/scrapligo/transport"
	"github.com/scrapli/scrapligo/util"

	"verifgo/sim"
	"verifgo/vlib"
)

// Dimensions every C11 session draws from its seed (a second generator, so that the draws of the
// scenario itself stay what they were): how the user's logging is set up, and what else the
// secret looks like.

// c11stdlog receives what the library prints through the standard library's `log` package
// (options.WithDefaultLogger = log.Print at level info). It is process wide: a session that uses the
// default logger searches it for ITS OWN secrets (cores are unique per session).
var c11stdlog struct {
	once sync.Once
	mu   sync.Mutex
	buf  bytes.Buffer
}

type c11stdlogWriter struct{}

func (c11stdlogWriter) Write(b []byte) (int, error) {
	c11stdlog.mu.Lock()
	c11stdlog.buf.Write(b)
	c11stdlog.mu.Unlock()
	return len(b), nil
}

func c11captureStdlog() {
	c11stdlog.once.Do(func() {
		log.SetFlags(0)
		log.SetOutput(c11stdlogWriter{})
	})
}

var c11logModes = []string{"plain", "plain", "plain", "plain", "plain", "plain", "plain", "plain", "plain", "plain",
	"custom-formatter", "custom-formatter", "quoting-formatter", "two-loggers", "two-loggers", "upper-case-level",
	"unknown-level", "default-logger", "no-logger", "plain-no-channel-log"}

// c11logging builds the logger / channel-log options of a session.
// silent: no logger message may appear at all (unknown level / no logger); std: messages go to the
// process wide standard logger
func c11logging(r2 *vlib.Rng, level string, cap *capture) (opts []util.Option, mode string, silent, std bool) {
	mode = r2.Pick(c11logModes)
	withChl := true
	var li *logging.Instance
	switch mode {
	case "custom-formatter":
		li, _ = logging.NewInstance(logging.WithLevel(level), logging.WithLogger(cap.log),
			logging.WithFormatter(func(l, m string) string { return "<" + strings.ToUpper(l) + "> " + m + " </>" }))
	case "quoting-formatter": // a structured-logging style formatter
		li, _ = logging.NewInstance(logging.WithLevel(level), logging.WithLogger(cap.log),
			logging.WithFormatter(func(l, m string) string { return `{"level":` + strconv.Quote(l) + `,"msg":` + strconv.Quote(m) + `}` }))
	case "two-loggers":
		li, _ = logging.NewInstance(logging.WithLevel(level), logging.WithLogger(cap.log),
			logging.WithLogger(func(a ...interface{}) { cap.log(append([]interface{}{"second: "}, a...)...) }))
	case "upper-case-level":
		li, _ = logging.NewInstance(logging.WithLevel(strings.ToUpper(level)), logging.WithLogger(cap.log))
	case "unknown-level":
		// WithLevel refuses an unknown level (checked in c11logLevels); the exported field does not
		li, _ = logging.NewInstance(logging.WithLogger(cap.log))
		li.Level = r2.Pick([]string{"trace", "DEBUG", "warning", "", "debug "})
		silent = true
	case "default-logger":
		c11captureStdlog()
		std = true
		opts = append(opts, options.WithDefaultLogger())
	case "no-logger":
		silent = true
	case "plain-no-channel-log":
		withChl = false
		li, _ = logging.NewInstance(logging.WithLevel(level), logging.WithLogger(cap.log))
	default:
		li, _ = logging.NewInstance(logging.WithLevel(level), logging.WithLogger(cap.log))
	}
	if li != nil {
		opts = append(opts, options.WithLogger(li))
	}
	if withChl {
		opts = append(opts, options.WithChannelLog(cap))
	}
	return opts, mode, silent, std
}

// c11dress makes a secret longer or stranger without touching its core: very long ones, ones that
// contain words the device and the library print all the time, braces, tabs. (No line ends: what
// follows one would be a second line typed at the device's echoing shell prompt — the property
// assumes the device does not echo secrets.)
func c11dress(r2 *vlib.Rng, secret string) string {
	switch r2.Intn(16) {
	case 0:
		return secret + strings.Repeat("k", 200+r2.Intn(1200))
	case 1:
		return strings.Repeat("Ab9%", 60+r2.Intn(900)) + secret
	case 2:
		return r2.Pick([]string{"Password:", "router#", "enable", "redacted", "password", "show version", "error"}) + secret
	case 3:
		return secret + r2.Pick([]string{"{}", "{0}", "${HOME}", "%[1]s", "%%", "`id`", "\t", "<rpc>", "]]>]]>x", "&amp;"})
	}
	return secret
}

// nth-write faults: "wfail-n<k>" fails the k-th write of the session, "eof-n<k>" lets it through
// and then ends the stream (k counts from 1; the write may or may not carry a secret)
func c11nthFault(spec string) (kind string, k int) {
	for _, p := range []string{"wfail-n", "eof-n"} {
		if strings.HasPrefix(spec, p) {
			n, err := strconv.Atoi(spec[len(p):])
			if err == nil {
				return strings.TrimSuffix(p, "-n"), n
			}
		}
	}
	return "", 0
}

// c11wrongPP hands the client another key passphrase than the one the device wants
type c11wrongPP struct {
	*sim.MiniLogin
	pp string
}

func (w c11wrongPP) GetSSHArgs() *transport.SSHArgs {
	return &transport.SSHArgs{PrivateKeyPassPhrase: w.pp}
}

// c11logLevels ties logging.Instance's level filter and logging.WithLevel to the Lean model
// (Logs.shouldLog / Logs.withLevel): every Instance.Level word x 0-3 loggers x the six logging
// methods; WithLevel over fixed and random words.
func c11logLevels(c *ctx) {
	res := c.res
	hexOf := func(s string) string {
		if s == "" {
			return "-"
		}
		return vlib.Hex([]byte(s))
	}
	words := []string{"debug", "info", "critical", "trace", "", "DEBUG", "Info", "debug ", "warning", "critical\n", "d"}
	type probe struct {
		line string
		got  int
	}
	var probes []probe
	var asks []string
	for _, w := range words {
		for n := 0; n <= 3; n++ {
			for _, ml := range []string{"debug", "info", "critical"} {
				for _, f := range []bool{false, true} {
					var mu sync.Mutex
					got := 0
					li, _ := logging.NewInstance()
					for k := 0; k < n; k++ {
						_ = logging.WithLogger(func(a ...interface{}) { mu.Lock(); got++; mu.Unlock() })(li)
					}
					li.Level = w
					switch {
					case ml == "debug" && !f:
						li.Debug("m")
					case ml == "debug":
						li.Debugf("m %d", 1)
					case ml == "info" && !f:
						li.Info("m")
					case ml == "info":
						li.Infof("m %d", 1)
					case ml == "critical" && !f:
						li.Critical("m")
					default:
						li.Criticalf("m %d", 1)
					}
					line := "c11log shouldlog " + strconv.Itoa(n) + " " + hexOf(w) + " " + ml
					probes = append(probes, probe{line, got})
					asks = append(asks, "c11 shouldlog "+strconv.Itoa(n)+" "+hexOf(w)+" "+ml)
				}
			}
		}
	}
	ans := c.ask(asks)
	for i, p := range probes {
		res.Case(p.line+" "+strconv.Itoa(i%2), true)
		res.InDomain++
		res.Count("level-filter")
		if want := "emit=" + strconv.Itoa(p.got); ans[i] != want {
			res.Fail("correspondence", p.line, "logging.Instance emitted "+want+", model says "+ans[i], "level-filter")
		}
	}
	// WithLevel
	lw := []string{"debug", "info", "critical", "DEBUG", "Info", "CRITICAL", "trace", "", "warn", "debug ", " info", "critica", "criticall", "İNFO", "debuK"}
	for i := 0; i < 40; i++ {
		b := []byte(c.rng.Pick([]string{"debug", "info", "critical", "trace", "inf0"}))
		for j := range b {
			if c.rng.Bool() && b[j] >= 'a' && b[j] <= 'z' {
				b[j] -= 32
			}
		}
		lw = append(lw, string(b))
	}
	asks = asks[:0]
	var gots []string
	for _, w := range lw {
		li, _ := logging.NewInstance()
		li.Level = "unset"
		err := logging.WithLevel(w)(li)
		got := "error"
		if err == nil {
			got = li.Level
		} else if !errors.Is(err, util.ErrBadOption) || li.Level != "unset" {
			got = "error-other"
		}
		_, err2 := logging.NewInstance(logging.WithLevel(w))
		if (err == nil) != (err2 == nil) {
			got += " (NewInstance disagrees)"
		}
		gots = append(gots, got)
		asks = append(asks, "c11 withlevel "+hexOf(w))
	}
	ans = c.ask(asks)
	for i, w := range lw {
		line := "c11log withlevel " + hexOf(w)
		dom := strings.HasPrefix(ans[i], "dom=1")
		res.Case(line, dom)
		res.Count("with-level")
		if !dom {
			continue
		}
		res.InDomain++
		if want := "dom=1 level=" + gots[i]; ans[i] != want {
			res.Fail("correspondence", line, "logging.WithLevel("+strconv.Quote(w)+") gave "+gots[i]+", model says "+ans[i], "with-level")
		}
	}
}
