//go:build !internaltie

package main

import "net"

// stubs used when the overlay exports do not compile against the current tree
const c15InternalAvailable = false

func c15Step(conn net.Conn, ctrl, initial []byte, c byte) ([]byte, []byte, error) {
	return nil, nil, nil
}
