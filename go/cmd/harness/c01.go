package main

import (
	"bytes"
	"errors"
	"fmt"
	"strconv"
	"strings"
	"sync"
	"time"

	"github.com/scrapli/scrapligo/driver/generic"
	"github.com/scrapli/scrapligo/driver/opoptions"
	"github.com/scrapli/scrapligo/driver/options"
	"github.com/scrapli/scrapligo/util"

	"verifgo/sim"
	"verifgo/vlib"
)

func init() { props["C01"] = runC01 }

// errClass canonicalises errors for comparison.
func errClass(err error) string {
	switch {
	case err == nil:
		return "nil"
	case errors.Is(err, util.ErrTimeoutError):
		return "timeout"
	case errors.Is(err, util.ErrConnectionError):
		return "connection"
	case errors.Is(err, util.ErrAuthError):
		return "auth"
	case errors.Is(err, util.ErrPrivilegeError):
		return "privilege"
	case errors.Is(err, util.ErrNetconfError):
		return "netconf"
	case errors.Is(err, util.ErrOperationError):
		return "operation"
	case errors.Is(err, util.ErrBadOption):
		return "badoption"
	case errors.Is(err, util.ErrIgnoredOption):
		return "ignored"
	}
	return "other"
}

type c01cmd struct {
	cmd string
	out string // device output for this command (lines end in NL; may hold CR, ESC sequences)
}

type c01case struct {
	seed       uint64
	depth      int
	exact      bool
	shortDepth bool // depth bound ignores the echo line (property: > prompt + longest output line)
	strip      bool
	readSize   int
	segClass   int
	segK       int
	wrap       int
	nl         string
	delayUs    int
	pauseUs    int
	prompt     string
	cmds       []c01cmd
	longest    int
	ret        string
}

var c01esc = []string{"\x1b[0m", "\x1b[1;32m", "\x1b[K", "\x1b[2J", "\x1b[?25h", "\x1b]0;title\x07", "\x1b[38;5;12m", "\x1b[1A"}
var c01words = []string{"Interface", "up", "down", "GigabitEthernet0/1", "10.0.0.1", "is", "line", "protocol", "#", ">", "$", "a #b", "x > y", "100%", "—", "ü", "(config)", "--More--", "::", "cost=5"}

func genC01(seed uint64, thorough bool) c01case {
	r := vlib.NewRng(seed)
	cs := c01case{seed: seed}
	cs.prompt = r.Pick([]string{"router#", "r1>", "host-1.lab$", "sw(config)#", "a@b:/#", "router# "})
	cs.exact = r.Chance(1, 3)
	cs.shortDepth = r.Chance(1, 2)
	cs.strip = r.Chance(2, 3)
	cs.nl = r.Pick([]string{"\n", "\n", "\r\n"})
	cs.segClass = r.Intn(5)
	cs.segK = r.Range(2, 40)
	if r.Chance(1, 3) && !cs.exact {
		cs.wrap = r.Range(3, 20)
	}
	cs.readSize = []int{1, 2, 7, 64, 8192, 65536}[r.Intn(6)]
	if cs.segClass != 1 && r.Chance(1, 2) {
		cs.readSize = 8192
	}
	cs.delayUs = []int{20, 50, 250}[r.Intn(3)]
	cs.ret = "\n"
	if r.Chance(1, 5) {
		cs.ret = "\r\n"
	}
	if r.Chance(1, 6) {
		cs.pauseUs = r.Range(50, 400)
	}
	n := r.Range(1, 6)
	maxLines := 12
	if thorough {
		maxLines = 40
	}
	for i := 0; i < n; i++ {
		var c c01cmd
		c.cmd = r.Pick([]string{"show version", "show ip interface brief", "sh run | i hostname", "ping 10.0.0.1 repeat 2", "x", "show  spaced   cmd", "dir /all", "display current-configuration interface GigabitEthernet0/0/1 | include description"})
		if r.Chance(1, 3) {
			ml := 30
			if cs.shortDepth && r.Chance(1, 2) {
				ml = 140
			}
			c.cmd = string(r.Bytes(r.Range(1, ml), []byte("abcdefghij klmnop|/-.0123456789")))
			c.cmd = strings.TrimSpace(c.cmd)
			if c.cmd == "" {
				c.cmd = "q"
			}
		}
		var b bytes.Buffer
		for l := r.Intn(maxLines + 1); l > 0; l-- {
			switch r.Intn(12) {
			case 0: // blank line
			case 1:
				b.WriteString("   ")
			case 2: // occasionally a risky line that may look like a prompt (exercises dom=0)
				if r.Chance(1, 25) {
					b.WriteString(r.Pick([]string{"abc#", "r1>", "x$ "}))
				} else {
					b.WriteString("total " + strconv.Itoa(r.Intn(5000)))
				}
			default:
				if r.Chance(1, 5) { // indented line (leading blanks / a tab are part of the output)
					b.WriteString(r.Pick([]string{"  ", " ", "\t", "    "}))
				}
				for w := r.Range(1, 7); w > 0; w-- {
					if r.Chance(1, 8) {
						b.WriteString(r.Pick(c01esc))
					}
					b.WriteString(r.Pick(c01words))
					if w > 1 {
						b.WriteString(" ")
					}
				}
				if r.Chance(1, 4) {
					b.WriteString(strings.Repeat(" ", r.Range(1, 4)))
				} else if r.Chance(1, 12) {
					b.WriteString("\t") // a trailing tab is not a trailing space: it stays
				}
			}
			b.WriteString(cs.nl)
		}
		c.out = b.String()
		cs.cmds = append(cs.cmds, c)
	}
	// longest line of anything the device prints (after CR/ESC removal), incl. prompt + echo
	for _, c := range cs.cmds {
		for _, ln := range strings.Split(string(sim.StripEsc([]byte(strings.ReplaceAll(c.out, "\r", "")))), "\n") {
			if len(ln) > cs.longest {
				cs.longest = len(ln)
			}
		}
		// the property's bound is "> prompt + longest OUTPUT line": the echo line counts only in half
		// of the cases, so that commands longer than the search depth (where the input-length term
		// of the echo search depth decides) are exercised too
		if e := len(cs.prompt) + len(c.cmd) + len(c.cmd)/3 + 2; e > cs.longest && !cs.shortDepth {
			cs.longest = e
		}
	}
	hasEsc := false
	for _, c := range cs.cmds {
		if strings.Contains(c.out, "\x1b") {
			hasEsc = true
		}
	}
	if hasEsc && cs.readSize < 16 {
		cs.readSize = 16 // a smaller read size necessarily cuts escape sequences (outside the quantifier)
	}
	cs.depth = cs.longest + 2 + r.Intn(3)
	if r.Chance(1, 3) {
		cs.depth = 1000
	} else if r.Chance(1, 3) {
		cs.depth = cs.longest + 2 + r.Intn(200)
	}
	return cs
}

// c01expected is the property's specification of one result, computed independently of the code.
func c01expected(cs c01case, c c01cmd) string {
	text := "\n" + c.out
	if !cs.strip {
		text += cs.prompt
	}
	text = strings.ReplaceAll(text, "\r", "")
	text = string(sim.StripEsc([]byte(text)))
	lines := strings.Split(text, "\n")
	for i := range lines {
		lines[i] = strings.TrimRight(lines[i], " ")
	}
	return strings.Trim(strings.Join(lines, "\n"), "\n")
}

type c01obs struct {
	results  []string
	errs     []string
	lines    []string // device line log
	writes   [][]byte
	line     string // model request
	straddle bool
	closeErr string
}

func runC01case(cs c01case) c01obs {
	var o c01obs
	dev := sim.NewCLI()
	dev.Mode = "exec"
	dev.NL = cs.nl
	dev.EchoWrap = cs.wrap
	dev.IgnoreCR = cs.ret != "\n"
	dev.Prompt = func(*sim.CLI) string { return cs.prompt }
	k := 0
	dev.Handle = func(_ *sim.CLI, line string) string {
		if k < len(cs.cmds) {
			k++
			return cs.cmds[k-1].out
		}
		return ""
	}
	sr := vlib.NewRng(cs.seed ^ 0xabcdef)
	switch cs.segClass {
	case 1:
		dev.Seg = sim.SegFixed(1)
	case 2:
		dev.Seg = sim.SegFixed(cs.segK)
	case 3, 4:
		dev.Seg = func(avail int) int { return 1 + sr.Intn(avail+cs.segK)%(cs.segK*3) }
	}
	dev.ReadPause = time.Duration(cs.pauseUs) * time.Microsecond
	dev.Start()
	d, err := generic.NewDriver("h", options.WithCustomTransport(dev), options.WithAuthBypass(),
		options.WithTimeoutOps(3*time.Second), options.WithReadDelay(time.Duration(cs.delayUs)*time.Microsecond),
		options.WithPromptSearchDepth(cs.depth), options.WithTransportReadSize(cs.readSize), options.WithReturnChar(cs.ret))
	if err != nil {
		o.errs = append(o.errs, "new:"+err.Error())
		return o
	}
	if err := d.Open(); err != nil {
		o.errs = append(o.errs, "open:"+errClass(err))
		return o
	}
	var bopts []util.Option
	if !cs.strip {
		bopts = append(bopts, opoptions.WithNoStripPrompt())
	}
	if cs.exact {
		bopts = append(bopts, opoptions.WithExactMatchInput())
	}
	if cs.seed%3 == 1 {
		// the batch API: one SendCommands call for the whole sequence, same per-operation options
		var cmds []string
		for _, c := range cs.cmds {
			cmds = append(cmds, c.cmd)
		}
		mr, err := d.SendCommands(cmds, bopts...)
		if mr != nil {
			for _, r := range mr.Responses {
				o.errs = append(o.errs, "nil")
				o.results = append(o.results, r.Result)
			}
		}
		if err != nil {
			o.errs = append(o.errs, errClass(err))
			o.results = append(o.results, "")
		}
	}
	for _, c := range cs.cmds {
		if cs.seed%3 == 1 {
			break
		}
		opts := bopts
		r, err := d.SendCommand(c.cmd, opts...)
		o.errs = append(o.errs, errClass(err))
		if err != nil {
			o.results = append(o.results, "")
			break
		}
		o.results = append(o.results, r.Result)
	}
	o.closeErr = errClass(d.Close())
	// reconstruct the per-exchange read chunks from what the transport delivered
	dev.Snapshot(func() {
		for _, l := range dev.Lines {
			o.lines = append(o.lines, l.Line)
		}
		for _, w := range dev.Writes {
			o.writes = append(o.writes, w.Data)
		}
		// region boundaries in emitted-byte offsets
		var bounds []int // end offsets of: echo0, resp0, echo1, resp1, ...
		nw := len(dev.Writes)
		for i := 0; i+1 < nw; i += 2 {
			bounds = append(bounds, dev.Writes[i+1].EmittedBefore)
			if i+2 < nw {
				bounds = append(bounds, dev.Writes[i+2].EmittedBefore)
			} else {
				bounds = append(bounds, dev.Emitted)
			}
		}
		// chunks = the device's whole emission per region, cut where reads actually ended
		// (what was never read before Close is one more chunk: the theorem's hypotheses are
		// about the device's complete reaction, not only the part the client looked at)
		stream := dev.EmittedBytes()
		cuts := map[int]bool{}
		pos := 0
		for _, sz := range dev.ReadLog {
			pos += sz
			cuts[pos] = true
		}
		if dev.SplitAtoms > 0 {
			o.straddle = true // a read size smaller than an escape sequence cut it: outside the quantifier
		}
		regions := make([][][]byte, len(bounds))
		start := 0
		for ri, end := range bounds {
			if end > len(stream) {
				end = len(stream)
			}
			last := start
			for p := start + 1; p <= end; p++ {
				if cuts[p] || p == end {
					regions[ri] = append(regions[ri], stream[last:p])
					last = p
				}
			}
			if end < pos && !cuts[end] && end > start {
				o.straddle = true // one read carried bytes of two regions
			}
			start = end
		}
		var f []string
		f = append(f, "c01", "sess", strconv.Itoa(cs.depth), b2s(cs.exact), b2s(cs.strip), vlib.Hex([]byte(cs.ret)))
		for i := 0; i+1 < len(regions) && i/2 < len(cs.cmds); i += 2 {
			f = append(f, vlib.Hex([]byte(cs.cmds[i/2].cmd)), vlib.HexList(regions[i]), vlib.HexList(regions[i+1]))
		}
		o.line = strings.Join(f, " ")
	})
	return o
}

func b2s(b bool) string {
	if b {
		return "1"
	}
	return "0"
}

func runC01(c *ctx) {
	res := c.res
	res.Rule = "sessions: real generic.Driver.SendCommand x 1-6 commands over the causal CLI simulator; outputs of 0-40 lines built from words (incl. #>$ inside lines), CR, trailing spaces, blank lines, complete CSI/OSC sequences; echo verbatim or wrapped; segmentations whole/1-byte/fixed/random; read sizes 1..65536; depths from longest line+2 to 1000; strip on/off; exact/fuzzy; read delays. non-trivial = in-domain (theorem hypotheses hold on the observed chunks) session with >=2 commands or >=1 output line; distinct by case seed"
	if c.replay != "" {
		f := strings.Fields(c.replay)
		if len(f) >= 2 && f[0] == "c01case" {
			seed, _ := strconv.ParseUint(f[1], 10, 64)
			c01check(c, []c01case{genC01(seed, len(f) > 2 && f[2] == "thorough")})
			return
		}
		res.Note("replay of a raw model line is evaluated by the model only: %s", c.replay)
		return
	}
	c01Internal(c)
	rxDiff(c, []string{"Channel.promptPattern", "Util.ansiPattern"}, c.n(300, 3000))
	n := c.n(1200, 12000)
	cases := make([]c01case, n)
	for i := range cases {
		cases[i] = genC01(c.rng.U64(), c.thorough())
	}
	c01check(c, cases)
}

func c01check(c *ctx, cases []c01case) {
	res := c.res
	obs := make([]c01obs, len(cases))
	var wg sync.WaitGroup
	sem := make(chan struct{}, vlib.Conc(16))
	for i := range cases {
		wg.Add(1)
		sem <- struct{}{}
		go func(i int) {
			defer wg.Done()
			obs[i] = runC01case(cases[i])
			<-sem
		}(i)
	}
	wg.Wait()
	var lines []string
	for i := range obs {
		if obs[i].line == "" {
			obs[i].line = "c01 sess 10 0 0 0a"
		}
		lines = append(lines, obs[i].line)
	}
	ans := c.ask(lines)
	for i, cs := range cases {
		o := obs[i]
		tier := ""
		if c.thorough() {
			tier = " thorough"
		}
		caseLine := fmt.Sprintf("c01case %d%s", cs.seed, tier)
		f := strings.Fields(ans[i])
		if len(f) != 5 {
			res.Fail("machinery", caseLine, "driver answered "+ans[i]+" for "+o.line, "driver")
			continue
		}
		dom := f[0] == "1" && !o.straddle
		mok := f[1] == "1"
		var mres []string
		if f[2] != "." {
			for _, h := range strings.Split(f[2], ",") {
				b, _ := vlib.UnHex(h)
				mres = append(mres, string(b))
			}
		}
		res.Count(fmt.Sprintf("seg:%d", cs.segClass))
		res.Count(fmt.Sprintf("exact:%v strip:%v", cs.exact, cs.strip))
		res.Count(fmt.Sprintf("cmds:%d", len(cs.cmds)))
		res.Count(fmt.Sprintf("ret:%q", cs.ret))
		res.Count(fmt.Sprintf("dom:%v", dom))
		if o.straddle {
			res.Count("straddle")
		}
		nontriv := dom && (len(cs.cmds) >= 2 || strings.Count(cs.cmds[0].out, "\n") >= 1)
		res.Case(strconv.FormatUint(cs.seed, 10), nontriv)
		if i%211 == 0 {
			res.Sample(map[string]any{"case": caseLine, "prompt": cs.prompt, "depth": cs.depth, "exact": cs.exact, "strip": cs.strip, "seg": cs.segClass, "read_size": cs.readSize, "wrap": cs.wrap,
				"cmds": len(cs.cmds), "first_cmd": cs.cmds[0].cmd, "first_out": cs.cmds[0].out, "first_result": first(o.results), "dom": dom})
		}
		if !dom {
			res.Count(fmt.Sprintf("nodom: prompt=%q wrap=%v exact=%v straddle=%v", cs.prompt, cs.wrap > 0, cs.exact, o.straddle))
			// outside the property's quantifier (e.g. an output line that looks like a prompt):
			// compare implementation and model for information only when the model completed
			continue
		}
		res.InDomain++
		// oracle: the property on the implementation
		bad := false
		for k, cm := range cs.cmds {
			if k >= len(o.errs) {
				res.Fail("oracle", caseLine, fmt.Sprintf("command %d %q was never run (earlier error)", k, cm.cmd), "missing-result")
				bad = true
				break
			}
			if o.errs[k] != "nil" {
				res.Fail("oracle", caseLine, fmt.Sprintf("command %d %q returned error class %s on a well-formed exchange", k, cm.cmd, o.errs[k]), "error:"+o.errs[k])
				bad = true
				break
			}
			if want := c01expected(cs, cm); o.results[k] != want {
				res.Fail("oracle", caseLine, fmt.Sprintf("command %d %q: result %q, expected %q (depth %d seg %d exact %v strip %v)", k, cm.cmd, o.results[k], want, cs.depth, cs.segClass, cs.exact, cs.strip), "wrong-result")
				bad = true
				break
			}
		}
		if bad {
			continue
		}
		var wantLines []string
		var wantWrites [][]byte
		for _, cm := range cs.cmds {
			wantLines = append(wantLines, cm.cmd)
			wantWrites = append(wantWrites, []byte(cm.cmd), []byte(cs.ret))
		}
		if strings.Join(o.lines, "\x00") != strings.Join(wantLines, "\x00") {
			res.Fail("oracle", caseLine, fmt.Sprintf("device received lines %q, expected %q", o.lines, wantLines), "wrong-device-input")
			continue
		}
		if string(bytes.Join(o.writes, nil)) != string(bytes.Join(wantWrites, nil)) {
			res.Fail("oracle", caseLine, fmt.Sprintf("device received bytes %q", bytes.Join(o.writes, nil)), "wrong-device-bytes")
			continue
		}
		// correspondence: model results = implementation results; theorem sanity: queue empty
		if !mok || strings.Join(mres, "\x00") != strings.Join(o.results, "\x00") {
			res.Fail("correspondence", caseLine, fmt.Sprintf("model ok=%v results %q ; impl %q ; request %s", mok, mres, o.results, o.line), "impl-vs-model")
			continue
		}
		if f[3] != "1" {
			res.Fail("machinery", caseLine, "in-domain session but model queue not empty at the end", "model-vs-spec")
		}
	}
	res.TracesVsImpl += len(cases)
}

func first(xs []string) string {
	if len(xs) == 0 {
		return ""
	}
	return xs[0]
}
