package main

import (
	"bytes"
	"errors"
	"fmt"
	"os"
	"strconv"
	"strings"
	"sync"

	"github.com/scrapli/scrapligo/util"

	"verifgo/facts"
	"verifgo/sim"
	"verifgo/vlib"
)

func init() { props["C01"] = runC01 }

// errClass canonicalises errors for comparison.
func errClass(err error) string {
	switch {
	case err == nil:
		return "nil"
	case errors.Is(err, util.ErrTimeoutError):
		return "timeout"
	case errors.Is(err, util.ErrConnectionError):
		return "connection"
	case errors.Is(err, util.ErrAuthError):
		return "auth"
	case errors.Is(err, util.ErrPrivilegeError):
		return "privilege"
	case errors.Is(err, util.ErrNetconfError):
		return "netconf"
	case errors.Is(err, util.ErrOperationError):
		return "operation"
	case errors.Is(err, util.ErrBadOption):
		return "badoption"
	case errors.Is(err, util.ErrIgnoredOption):
		return "ignored"
	}
	return "other"
}

type c01cmd struct {
	cmd string
	out string // device output for this command (lines end in NL; may hold CR, ESC sequences)
	// cuts are offsets into out right behind a copy of the session's prompt text that stands inside
	// an output line (not at its start): the device ends a transport read exactly there.
	cuts []int
}

// c01op is one operation of a session, in the order the caller issues them.
//
//	'S' plain send; 'I' send with interim prompt patterns; 'E' eager send; 'P' GetPrompt;
//	'N' a call with an empty command sequence (nil / empty slice, empty file, missing file):
//	nothing may reach the device.
type c01op struct {
	kind     byte
	ci       int    // index into cs.cmds (sends)
	interim  []int  // indices into facts.C01Interim ('I', or a batch sent with interim patterns)
	stopAt   int    // the interim prompt the device stops at after this command's output; -1 = its prompt
	implicit bool   // 'P' issued inside the library (network driver's privilege check): result not observed
	nkind    int    // 'N': 0 nil slice, 1 empty slice, 2 empty file, 3 missing file
	batch    int    // sends with the same id >= 0 go out in one SendCommands(FromFile) call
	oseed    uint64 // draws the order of the call's option list and the foreign options in it
}

// API flavours of a session.
const (
	c01apiCommand     = iota // generic.Driver.SendCommand per command
	c01apiCommands           // generic.Driver.SendCommands
	c01apiChannel            // Channel.SendInput / Channel.GetPrompt directly
	c01apiNetCommand         // network.Driver.SendCommand per command
	c01apiNetCommands        // network.Driver.SendCommands
	c01apiFile               // generic.Driver.SendCommandsFromFile
	c01apiNetFile            // network.Driver.SendCommandsFromFile
)

var c01apiNames = []string{"generic.SendCommand", "generic.SendCommands", "Channel.SendInput", "network.SendCommand", "network.SendCommands", "generic.SendCommandsFromFile", "network.SendCommandsFromFile"}

func c01apiBatch(a int) bool {
	return a == c01apiCommands || a == c01apiNetCommands || a == c01apiFile || a == c01apiNetFile
}
func c01apiNet(a int) bool {
	return a == c01apiNetCommand || a == c01apiNetCommands || a == c01apiNetFile
}

type c01case struct {
	seed      uint64
	api       int
	privKnown bool // network flavours: CurrentPriv already is the desired level (no GetPrompt before the first send)
	chanLog   int  // 1: a channel log writer is set; 2: one whose every write fails
	sparse    int  // > 0: every sparse-th transport read returns no bytes
	sparseNil bool
	fileNoEOL bool // from-file flavours: the last line has no newline
	// output lines may contain the session's prompt text behind other text (end of line, middle of
	// line, followed by blanks): not a prompt, the pattern is anchored at the line start
	promptLines bool
	// a prompt that ends in a blank ("router# ") is delivered with a read boundary between its
	// terminator and the blank: every read that waits for it ends early, a step outside the quantifier
	// ("proper prefixes never look like a prompt") which the domain decision has to recognise whatever
	// operation meets it
	cutInPrompt bool
	ops         []c01op
	depth       int
	exact       bool
	shortDepth  bool // depth bound ignores the echo line (property: > prompt + longest output line)
	strip       bool
	readSize    int
	segClass    int
	segK        int
	wrap        int
	nl          string
	delayUs     int
	pauseUs     int
	prompt      string
	cmds        []c01cmd
	longest     int
	ret         string
}

var c01esc = []string{"\x1b[0m", "\x1b[1;32m", "\x1b[K", "\x1b[2J", "\x1b[?25h", "\x1b]0;title\x07", "\x1b[38;5;12m", "\x1b[1A"}
var c01words = []string{"Interface", "up", "down", "GigabitEthernet0/1", "10.0.0.1", "is", "line", "protocol", "#", ">", "$", "a #b", "x > y", "100%", "—", "ü", "(config)", "--More--", "::", "cost=5"}

func genC01(seed uint64, thorough bool) c01case {
	r := vlib.NewRng(seed)
	cs := c01case{seed: seed}
	cs.prompt = r.Pick([]string{"router#", "r1>", "host-1.lab$", "sw(config)#", "a@b:/#", "router# "})
	cs.exact = r.Chance(1, 3)
	cs.shortDepth = r.Chance(1, 2)
	cs.strip = r.Chance(2, 3)
	cs.nl = r.Pick([]string{"\n", "\n", "\r\n"})
	cs.segClass = r.Intn(5)
	cs.segK = r.Range(2, 40)
	if r.Chance(1, 3) && !cs.exact {
		cs.wrap = r.Range(3, 20)
	}
	cs.readSize = []int{1, 2, 7, 64, 8192, 65536}[r.Intn(6)]
	if cs.segClass != 1 && r.Chance(1, 2) {
		cs.readSize = 8192
	}
	// escape sequences force a read size of at least 16 (a smaller one necessarily cuts them): most
	// sessions drawn with a small read size therefore print none, so that sizes 1, 2 and 7 are used
	noEsc := cs.readSize < 16 && r.Chance(4, 5)
	cs.promptLines = r.Chance(2, 5)
	cs.cutInPrompt = strings.HasSuffix(cs.prompt, " ") && r.Chance(1, 2)
	cs.delayUs = []int{20, 50, 250}[r.Intn(3)]
	if cs.readSize < 16 && cs.delayUs == 250 {
		cs.delayUs = 50 // thousands of tiny reads, each followed by the read delay: keep the session short
	}
	cs.ret = "\n"
	if r.Chance(1, 5) {
		cs.ret = "\r\n"
	}
	if r.Chance(1, 6) {
		cs.pauseUs = r.Range(50, 400)
	}
	n := r.Range(1, 6)
	maxLines := 12
	if thorough {
		maxLines = 40
	}
	for i := 0; i < n; i++ {
		var c c01cmd
		c.cmd = r.Pick([]string{"show version", "show ip interface brief", "sh run | i hostname", "ping 10.0.0.1 repeat 2", "x", "show  spaced   cmd", "dir /all", "display current-configuration interface GigabitEthernet0/0/1 | include description"})
		if r.Chance(1, 3) {
			ml := 30
			if cs.shortDepth && r.Chance(1, 2) {
				ml = 140
			}
			c.cmd = string(r.Bytes(r.Range(1, ml), []byte("abcdefghij klmnop|/-.0123456789")))
			c.cmd = strings.TrimSpace(c.cmd)
			if c.cmd == "" {
				c.cmd = "q"
			}
		}
		if r.Chance(1, 14) {
			// the empty command: the device echoes nothing and answers the bare return
			c.cmd = ""
		}
		// white space is part of the command: the device must receive it byte for byte
		switch k := r.Intn(20); {
		case k < 2 && c.cmd != "":
			c.cmd += r.Pick([]string{" ", "  ", "\t", " \t", "   "})
		case k == 2 && c.cmd != "":
			c.cmd = r.Pick([]string{" ", "\t", "  "}) + c.cmd
		case k == 3 && c.cmd != "":
			c.cmd = r.Pick([]string{" ", "\t"}) + c.cmd + r.Pick([]string{" ", "\t", "  "})
		case k == 4:
			c.cmd = r.Pick([]string{" ", "\t", "   ", " \t "})
		}
		var b bytes.Buffer
		for l := r.Intn(maxLines + 1); l > 0; l-- {
			if cs.promptLines && r.Chance(1, 4) {
				// "sw2  Gi0/1  to r1#": the prompt text inside a line, with a read boundary behind it
				for w := r.Range(1, 3); w > 0; w-- {
					b.WriteString(r.Pick(c01words) + r.Pick([]string{" ", "  ", "\t "}))
				}
				b.WriteString(strings.TrimRight(cs.prompt, " "))
				cut := b.Len()
				switch r.Intn(4) {
				case 0: // followed by blanks; the read may end among them
					k := r.Range(1, 3)
					b.WriteString(strings.Repeat(" ", k))
					cut += r.Intn(k + 1)
				case 1: // in the middle of the line
					b.WriteString(" " + r.Pick(c01words))
				}
				c.cuts = append(c.cuts, cut)
				b.WriteString(cs.nl)
				continue
			}
			switch r.Intn(12) {
			case 0: // blank line
			case 1:
				b.WriteString("   ")
			case 2: // occasionally a risky line that may look like a prompt (exercises dom=0)
				if r.Chance(1, 25) {
					b.WriteString(r.Pick([]string{"abc#", "r1>", "x$ "}))
				} else {
					b.WriteString("total " + strconv.Itoa(r.Intn(5000)))
				}
			default:
				if r.Chance(1, 5) { // indented line (leading blanks / a tab are part of the output)
					b.WriteString(r.Pick([]string{"  ", " ", "\t", "    "}))
				}
				for w := r.Range(1, 7); w > 0; w-- {
					if r.Chance(1, 8) && !noEsc {
						b.WriteString(r.Pick(c01esc))
					}
					b.WriteString(r.Pick(c01words))
					if w > 1 {
						b.WriteString(" ")
					}
				}
				if r.Chance(1, 4) {
					b.WriteString(strings.Repeat(" ", r.Range(1, 4)))
				} else if r.Chance(1, 12) {
					b.WriteString("\t") // a trailing tab is not a trailing space: it stays
				}
			}
			b.WriteString(cs.nl)
		}
		c.out = b.String()
		cs.cmds = append(cs.cmds, c)
	}
	c01genOps(r, &cs)
	// longest line of anything the device prints (after CR/ESC removal), incl. prompt + echo
	for _, p := range facts.C01Interim {
		if len(p.Text) > cs.longest {
			cs.longest = len(p.Text)
		}
	}
	for _, c := range cs.cmds {
		for _, ln := range strings.Split(string(sim.StripEsc([]byte(strings.ReplaceAll(c.out, "\r", "")))), "\n") {
			if len(ln) > cs.longest {
				cs.longest = len(ln)
			}
		}
		// the property's bound is "> prompt + longest OUTPUT line": the echo line counts only in half
		// of the cases, so that commands longer than the search depth (where the input-length term
		// of the echo search depth decides) are exercised too
		if e := len(cs.prompt) + len(c.cmd) + len(c.cmd)/3 + 2; e > cs.longest && !cs.shortDepth {
			cs.longest = e
		}
	}
	hasEsc := false
	for _, c := range cs.cmds {
		if strings.Contains(c.out, "\x1b") {
			hasEsc = true
		}
	}
	if hasEsc && cs.readSize < 16 {
		cs.readSize = 16 // a smaller read size necessarily cuts escape sequences (outside the quantifier)
	}
	cs.depth = cs.longest + 2 + r.Intn(3)
	if r.Chance(1, 3) {
		cs.depth = 1000
	} else if r.Chance(1, 3) {
		cs.depth = cs.longest + 2 + r.Intn(200)
	}
	return cs
}

// c01expected is the property's specification of one result, computed independently of the code.
func c01expected(cs c01case, c c01cmd) string {
	text := "\n" + c.out
	if !cs.strip {
		text += cs.prompt
	}
	text = strings.ReplaceAll(text, "\r", "")
	text = string(sim.StripEsc([]byte(text)))
	lines := strings.Split(text, "\n")
	for i := range lines {
		lines[i] = strings.TrimRight(lines[i], " ")
	}
	return strings.Trim(strings.Join(lines, "\n"), "\n")
}

func b2s(b bool) string {
	if b {
		return "1"
	}
	return "0"
}

func runC01(c *ctx) {
	res := c.res
	res.Rule = "sessions of 1-6 commands over the causal CLI simulator through one of seven API flavours (generic.Driver SendCommand / SendCommands / SendCommandsFromFile, the same three on a network.Driver whose privilege level is already right or is found right by its own GetPrompt, Channel.SendInput directly), interleaved with GetPrompt calls, sends with interim prompt patterns (device stops at its prompt or at an interim prompt), eager sends, and calls with an empty command sequence; optional channel log writer and transport reads that return no bytes; outputs of 0-40 lines built from words (incl. #>$ inside lines), CR, trailing spaces, blank lines, complete CSI/OSC sequences; echo verbatim or wrapped; segmentations whole/1-byte/fixed/random; read sizes 1..65536; depths from longest line+2 to 1000; strip on/off; exact/fuzzy; read delays. non-trivial = in-domain (theorem hypotheses hold on the observed chunks) session with >=2 commands or >=1 output line; distinct by case seed"
	if c.replay != "" {
		f := strings.Fields(c.replay)
		if len(f) >= 2 && f[0] == "c01case" {
			seed, _ := strconv.ParseUint(f[1], 10, 64)
			c01check(c, []c01case{genC01(seed, len(f) > 2 && f[2] == "thorough")})
			return
		}
		res.Note("replay of a raw model line is evaluated by the model only: %s", c.replay)
		return
	}
	c01Internal(c)
	rxDiff(c, []string{"Channel.promptPattern", "Util.ansiPattern"}, c.n(300, 3000))
	c01InterimDiff(c)
	n := c.n(1200, 12000)
	cases := make([]c01case, n)
	for i := range cases {
		cases[i] = genC01(c.rng.U64(), c.thorough())
	}
	c01check(c, cases)
}

func c01check(c *ctx, cases []c01case) {
	res := c.res
	obs := make([]c01obs, len(cases))
	var wg sync.WaitGroup
	sem := make(chan struct{}, vlib.Conc(16))
	for i := range cases {
		wg.Add(1)
		sem <- struct{}{}
		go func(i int) {
			defer wg.Done()
			obs[i] = runC01case(cases[i])
			<-sem
		}(i)
	}
	wg.Wait()
	var lines []string
	logAt := map[int]int{}
	for i := range obs {
		// the theorem's hypotheses do not depend on the segmentation: when the device did not receive
		// the writes the operations call for (so the observed reads belong to another dialogue), the
		// domain is judged on the case alone
		l := obs[i].line
		if !obs[i].aligned || l == "" {
			l = obs[i].intended
		}
		lines = append(lines, l)
	}
	for i := range obs {
		if cases[i].chanLog == 1 && obs[i].logLine != "" {
			logAt[i] = len(lines)
			lines = append(lines, obs[i].logLine)
		}
	}
	ans := c.ask(lines)
	for i, cs := range cases {
		o := obs[i]
		all := c01allOps(cs)
		tier := ""
		if c.thorough() {
			tier = " thorough"
		}
		caseLine := fmt.Sprintf("c01case %d%s", cs.seed, tier)
		f := strings.Fields(ans[i])
		if len(f) != 7 {
			res.Fail("machinery", caseLine, "driver answered "+ans[i]+" for "+lines[i], "driver")
			continue
		}
		dom := f[0] == "1" && !o.straddle
		if os.Getenv("C01DEBUG") == "2" {
			var kinds []byte
			for _, op := range all {
				kinds = append(kinds, op.kind)
			}
			fmt.Fprintf(os.Stderr, "CASE %s ops=%s prompt=%q aligned=%v straddle=%v results=%q errs=%q\n  %s\n  -> %s\n", caseLine, kinds, cs.prompt, o.aligned, o.straddle, o.results, o.errs, lines[i], ans[i])
		}
		mok := f[1] == "1"
		unhexList := func(s string) []string {
			var out []string
			if s != "." {
				for _, h := range strings.Split(s, ",") {
					b, _ := vlib.UnHex(h)
					out = append(out, string(b))
				}
			}
			return out
		}
		mres, spec := unhexList(f[2]), unhexList(f[5])
		res.Count(fmt.Sprintf("seg:%d", cs.segClass))
		res.Count(fmt.Sprintf("exact:%v strip:%v", cs.exact, cs.strip))
		res.Count(fmt.Sprintf("cmds:%d", len(cs.cmds)))
		res.Count(fmt.Sprintf("ret:%q", cs.ret))
		res.Count(fmt.Sprintf("dom:%v", dom))
		res.Count(fmt.Sprintf("read size:%d", cs.readSize))
		res.Count(fmt.Sprintf("read delay us:%d pause:%v", cs.delayUs, cs.pauseUs > 0))
		res.Count(fmt.Sprintf("echo wrapped:%v", cs.wrap > 0))
		res.Count(fmt.Sprintf("device newline:%q", cs.nl))
		switch {
		case cs.depth == 1000:
			res.Count("depth:default 1000")
		case cs.depth <= cs.longest+4:
			res.Count(fmt.Sprintf("depth:tight (longest line+2..4; echo line counted:%v)", !cs.shortDepth))
		default:
			res.Count("depth:longest line+2..201")
		}
		if cs.promptLines {
			nl, hist := 0, false
			seenP := false
			for _, op := range all {
				if op.kind == 'P' {
					seenP = true
				}
				if c01isSend(op.kind) && op.kind != 'E' && len(cs.cmds[op.ci].cuts) > 0 {
					nl += len(cs.cmds[op.ci].cuts)
					hist = hist || seenP
				}
			}
			if nl > 0 {
				res.Count(fmt.Sprintf("prompt text inside an output line, read ends behind it (after a GetPrompt:%v, in domain:%v)", hist, dom))
			}
		}
		if dom {
			// history: which kind of operation came (anywhere) before which
			seen := map[string]bool{}
			for _, op := range all {
				k := c01histKind(cs, op)
				for e := range seen {
					res.Count("history " + e + " before " + k)
				}
				seen[k] = true
			}
		}
		for _, op := range all {
			if !c01isSend(op.kind) {
				continue
			}
			l := c01optLayout(cs, op)
			nf, chanAfterForeign, seenF := 0, false, false
			for _, n := range l {
				if c01optForeign(n) {
					nf++
					seenF = true
				} else if seenF {
					chanAfterForeign = true
				}
			}
			res.Count(fmt.Sprintf("send option list: %d foreign, a channel option behind a foreign one:%v", nf, chanAfterForeign))
		}
		res.Count("api:" + c01apiNames[cs.api])
		if c01apiNet(cs.api) {
			res.Count(fmt.Sprintf("network priv known:%v", cs.privKnown))
		}
		if cs.chanLog > 0 {
			res.Count(fmt.Sprintf("channel log set (failing writer:%v)", cs.chanLog == 2))
		}
		if cs.sparse > 0 {
			res.Count(fmt.Sprintf("empty transport reads (nil:%v)", cs.sparseNil))
			if o.empties > 0 {
				res.Count("empty transport reads happened")
			}
		}
		for _, op := range all {
			kind := string(op.kind)
			switch {
			case op.implicit:
				kind = "P implicit (network privilege check)"
			case op.kind == 'N':
				kind = fmt.Sprintf("N empty sequence kind %d", op.nkind)
			case op.stopAt >= 0:
				kind += " stopped by interim prompt " + facts.C01Interim[op.stopAt].Name
			case c01isSend(op.kind) && cs.cmds[op.ci].cmd == "":
				kind += fmt.Sprintf(" empty command (exact:%v)", cs.exact)
			case c01isSend(op.kind) && strings.TrimSpace(cs.cmds[op.ci].cmd) == "":
				kind += " command of white space only"
			case c01isSend(op.kind) && strings.TrimRight(cs.cmds[op.ci].cmd, " \t") != cs.cmds[op.ci].cmd:
				kind += " command with trailing white space"
			case c01isSend(op.kind) && strings.TrimLeft(cs.cmds[op.ci].cmd, " \t") != cs.cmds[op.ci].cmd:
				kind += " command with leading white space"
			}
			res.Count("op:" + kind)
			if dom {
				res.Count("in-domain op:" + kind)
			}
		}
		if o.straddle {
			res.Count("straddle")
		}
		if !o.aligned {
			res.Count("writes not as the operations call for (domain judged on the case alone)")
		}
		nontriv := dom && (len(cs.cmds) >= 2 || strings.Count(cs.cmds[0].out, "\n") >= 1)
		res.Case(strconv.FormatUint(cs.seed, 10), nontriv)
		if i%211 == 0 {
			var kinds []byte
			for _, op := range all {
				kinds = append(kinds, op.kind)
			}
			res.Sample(map[string]any{"case": caseLine, "prompt": cs.prompt, "depth": cs.depth, "exact": cs.exact, "strip": cs.strip, "seg": cs.segClass, "read_size": cs.readSize, "wrap": cs.wrap,
				"api": c01apiNames[cs.api], "ops": string(kinds), "cmds": len(cs.cmds), "first_cmd": cs.cmds[0].cmd, "first_out": cs.cmds[0].out, "first_result": first(o.results), "dom": dom})
		}
		if !dom {
			if fb, _ := strconv.Atoi(f[6]); f[0] != "1" {
				var dev []c01op
				for _, op := range all {
					if op.kind != 'N' {
						dev = append(dev, op)
					}
				}
				why := "?"
				if fb < len(dev) {
					why = string(dev[fb].kind)
					if fb > 0 && dev[fb-1].kind == 'E' {
						why += " after E"
					}
					if dev[fb].stopAt >= 0 {
						why += " stopped by interim"
					}
				}
				res.Count("nodom at op:" + why)
				if os.Getenv("C01DEBUG") != "" {
					fmt.Fprintf(os.Stderr, "NODOM %s at %d %s api=%s prompt=%q\n  %s\n  -> %s\n", caseLine, fb, why, c01apiNames[cs.api], cs.prompt, lines[i], ans[i])
				}
			}
			res.Count(fmt.Sprintf("nodom: prompt=%q wrap=%v exact=%v straddle=%v", cs.prompt, cs.wrap > 0, cs.exact, o.straddle))
			// outside the property's quantifier (e.g. an output line that looks like a prompt)
			continue
		}
		res.InDomain++
		// machinery: on an in-domain case the model must do what the theorem says
		if !mok || strings.Join(mres, "\x00") != strings.Join(spec, "\x00") || f[3] != "1" {
			res.Fail("machinery", caseLine, fmt.Sprintf("in-domain session but model ok=%v results %q, theorem %q, queue as specified=%s ; request %s", mok, mres, spec, f[3], lines[i]), "model-vs-spec")
			continue
		}
		// oracle: the property on the implementation
		if o.panicked != "" {
			res.Fail("oracle", caseLine, fmt.Sprintf("panic in a driver call on a well-formed session (api %s): %s", c01apiNames[cs.api], o.panicked), "panic")
			continue
		}
		bad := false
		mi := 0 // index into the model's result list (operations that reach the device)
		for k, op := range all {
			var desc string
			switch {
			case op.kind == 'P':
				desc = fmt.Sprintf("operation %d GetPrompt", k)
			case op.kind == 'N':
				desc = fmt.Sprintf("operation %d (empty command sequence, kind %d)", k, op.nkind)
			default:
				desc = fmt.Sprintf("operation %d %c %q", k, op.kind, cs.cmds[op.ci].cmd)
			}
			if op.kind != 'N' {
				mi++
			}
			if op.implicit {
				continue
			}
			if o.errs[k] == "" {
				res.Fail("oracle", caseLine, desc+" was never run (earlier error)", "missing-result")
				bad = true
				break
			}
			if op.kind == 'N' {
				if !o.noResp[k] {
					res.Fail("oracle", caseLine, desc+" returned responses for commands nobody asked for", "fabricated-result")
					bad = true
					break
				}
				continue
			}
			if o.errs[k] != "nil" {
				res.Fail("oracle", caseLine, fmt.Sprintf("%s returned error class %s on a well-formed exchange (api %s)", desc, o.errs[k], c01apiNames[cs.api]), "error:"+o.errs[k])
				bad = true
				break
			}
			if want := c01expectedOp(cs, op); o.results[k] != want {
				sig := "wrong-result"
				if op.kind == 'P' {
					sig = "wrong-prompt"
				}
				res.Fail("oracle", caseLine, fmt.Sprintf("%s: result %q, expected %q (api %s depth %d seg %d exact %v strip %v interim %v stop %d)", desc, o.results[k], want, c01apiNames[cs.api], cs.depth, cs.segClass, cs.exact, cs.strip, op.interim, op.stopAt), sig)
				bad = true
				break
			}
			// the theorem's result for this operation is the property's
			if mi-1 < len(spec) && spec[mi-1] != o.results[k] {
				res.Fail("machinery", caseLine, fmt.Sprintf("%s: theorem says %q, property and implementation say %q", desc, spec[mi-1], o.results[k]), "spec-vs-property")
				bad = true
				break
			}
		}
		if bad {
			continue
		}
		var wantLines []string
		var wantWrites [][]byte
		for _, op := range all {
			switch {
			case op.kind == 'P':
				wantLines = append(wantLines, "")
				wantWrites = append(wantWrites, []byte(cs.ret))
			case c01isSend(op.kind):
				wantLines = append(wantLines, cs.cmds[op.ci].cmd)
				wantWrites = append(wantWrites, []byte(cs.cmds[op.ci].cmd), []byte(cs.ret))
			}
		}
		if strings.Join(o.lines, "\x00") != strings.Join(wantLines, "\x00") {
			res.Fail("oracle", caseLine, fmt.Sprintf("device received lines %q, expected %q (api %s)", o.lines, wantLines, c01apiNames[cs.api]), "wrong-device-input")
			continue
		}
		if string(bytes.Join(o.writes, nil)) != string(bytes.Join(wantWrites, nil)) {
			res.Fail("oracle", caseLine, fmt.Sprintf("device received bytes %q", bytes.Join(o.writes, nil)), "wrong-device-bytes")
			continue
		}
		// correspondence: model results (replay of the observed reads) = implementation results
		if o.aligned {
			var impl []string
			for k, op := range all {
				if op.kind == 'N' {
					continue
				}
				if op.implicit {
					impl = append(impl, mres[len(impl)]) // not observable
					continue
				}
				impl = append(impl, o.results[k])
			}
			if strings.Join(mres, "\x00") != strings.Join(impl, "\x00") {
				res.Fail("correspondence", caseLine, fmt.Sprintf("model results %q ; impl %q ; request %s", mres, impl, o.line), "impl-vs-model")
				continue
			}
		}
		// the channel log receives exactly the bytes the read loop enqueued (not part of the property:
		// compared with the model's normalisation of the observed reads)
		if li, ok := logAt[i]; ok {
			if want, _ := vlib.UnHex(ans[li]); !bytes.Equal(want, o.logged) {
				res.Fail("correspondence", caseLine, fmt.Sprintf("channel log holds %q ; the reads, normalised by the model, are %q", o.logged, want), "channel-log")
			}
		}
	}
	res.TracesVsImpl += len(cases)
}

func first(xs []string) string {
	if len(xs) == 0 {
		return ""
	}
	return xs[0]
}
