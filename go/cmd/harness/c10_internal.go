//go:build internaltie

package main

import (
	"fmt"
	"strings"

	"github.com/scrapli/scrapligo/channel"

	"verifgo/facts"
	"verifgo/vlib"
)

// c10Internal: auxiliary tie of the extracted ssh failure table + its Lean reading (`sshErrGen`)
// against the real sshMessageHandler on generated buffers: every trigger and nested trigger alone,
// in pairs (the switch takes the FIRST matching case only: "no matching" without a known object
// masks later cases), with case changes, with and without the appended-pattern text.
func c10Internal(c *ctx) {
	res := c.res
	res.InternalTie = true
	f := facts.SshErrors()
	var atoms []string
	for _, r := range f.Rows {
		atoms = append(atoms, r.Triggers...)
		for _, s := range r.Sub {
			atoms = append(atoms, s.Trigger)
		}
	}
	atoms = append(atoms, "their offer: aes128-cbc", "Their offer: ", "bad configuration option: x", "no matchin", "permission", " denied",
		"password:", "router#", "\n", "Connection closed", "")
	r := c.rng.Fork()
	var subjects [][]byte
	for _, a := range atoms {
		subjects = append(subjects, []byte(a), []byte(strings.ToUpper(a)), []byte("ssh: "+a+"."))
		for _, b := range atoms {
			subjects = append(subjects, []byte(a+" "+b), []byte(a+"\n"+strings.Title(b)))
		}
	}
	for i := c.n(1500, 20000); i > 0; i-- {
		var sb strings.Builder
		for k := r.Range(1, 4); k > 0; k-- {
			a := r.Pick(atoms)
			switch r.Intn(4) {
			case 0:
				a = strings.ToUpper(a)
			case 1:
				if len(a) > 1 { // damage one byte
					j := r.Intn(len(a))
					a = a[:j] + "_" + a[j+1:]
				}
			}
			sb.WriteString(a)
			sb.WriteString(r.Pick([]string{" ", "\n", "", ": "}))
		}
		subjects = append(subjects, []byte(sb.String()))
	}
	lines := make([]string, len(subjects))
	for i, s := range subjects {
		lines[i] = "c10 ssherr " + vlib.Hex(s)
	}
	ans := c10ask(c, lines)
	for i, s := range subjects {
		err := channel.VerifSSHMessageHandler(s)
		impl := "0"
		if err != nil {
			impl = "1"
			if cls := errClass(err); cls != "connection" {
				res.Fail("correspondence", lines[i], fmt.Sprintf("sshMessageHandler(%q) returns error class %s, the extracted table says connection", s, cls), "ssherr-class:"+cls)
			}
		}
		res.Count("ssherr-table:" + impl)
		if ans[i] != impl {
			res.Fail("correspondence", lines[i], fmt.Sprintf("sshMessageHandler(%q): implementation %s, table model %s", s, impl, ans[i]), "ssherr-table")
		}
	}
	res.Note("ssh failure table: %d buffers compared between sshMessageHandler and the Lean reading of the extracted table", len(subjects))
}
