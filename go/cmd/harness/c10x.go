package main

import (
	"fmt"
	"regexp"
	"strings"
	"sync"

	"github.com/scrapli/scrapligo/driver/generic"
	"github.com/scrapli/scrapligo/driver/netconf"
	"github.com/scrapli/scrapligo/driver/options"
	"github.com/scrapli/scrapligo/platform"
	"github.com/scrapli/scrapligo/util"

	"verifgo/facts"
	"verifgo/sim"
	"verifgo/vlib"
)

// Extended C10 scenarios (coverage round): other entry points (network driver built from a platform
// definition, netconf driver), custom login patterns set through options or through the platform
// definition, auth bypass / transports without in-channel authentication, unusual secrets (empty,
// long, containing the return character), transport faults during login, and a real first command.

const c10cmdOutput = "Version 1.2.3\nuptime is 5 days"

// c10drv is whichever driver the case opens.
type c10drv struct {
	gd   *generic.Driver
	nc   *netconf.Driver
	open func() error
}

var (
	c10defPromptOnce sync.Once
	c10defPrompt     string
)

// c10defaultPromptSrc is the library's default prompt pattern, read off a constructed channel.
func c10defaultPromptSrc() string {
	c10defPromptOnce.Do(func() {
		d, err := generic.NewDriver("h", options.WithCustomTransport(sim.NewPipe()))
		if err == nil {
			c10defPrompt = d.Channel.PromptPattern.String()
		}
	})
	return c10defPrompt
}

// c10platformYAML is a one-level network platform definition; custom login patterns go into its
// `options` list (username-pattern / password-pattern / passphrase-pattern), the prompt pattern is
// the privilege level's pattern (network.Driver joins the level patterns into Channel.PromptPattern).
func c10platformYAML(cs c10case, ps facts.AuthPatSet) string {
	prompt := ps.Prompt
	if prompt == "" {
		prompt = c10defaultPromptSrc()
	}
	var b strings.Builder
	b.WriteString("---\nplatform-type: 'verif_c10'\ndefault:\n  driver-type: 'network'\n  privilege-levels:\n    exec:\n      name: 'exec'\n")
	fmt.Fprintf(&b, "      pattern: '%s'\n", prompt)
	b.WriteString("      previous-priv:\n      deescalate:\n      escalate:\n      escalate-auth: false\n      escalate-prompt:\n")
	b.WriteString("  default-desired-privilege-level: 'exec'\n")
	if cs.firstOp != "D" { // with an on-open step the first read after the login happens inside Open
		b.WriteString("  network-on-open:\n    - operation: 'acquire-priv'\n")
	}
	if cs.viaPlatform {
		b.WriteString("  options:\n")
		for _, kv := range [][2]string{{"username-pattern", ps.User}, {"password-pattern", ps.Pass}, {"passphrase-pattern", ps.Phrase}} {
			if kv[1] != "" {
				fmt.Fprintf(&b, "    - option: %s\n      value: '%s'\n", kv[0], kv[1])
			}
		}
	}
	return b.String()
}

func c10newDriver(cs c10case, opts []util.Option) (*c10drv, func(), error) {
	ps := facts.AuthPool[cs.patSet]
	if !cs.viaPlatform {
		if ps.User != "" {
			opts = append(opts, options.WithUsernamePattern(regexp.MustCompile(ps.User)))
		}
		if ps.Pass != "" {
			opts = append(opts, options.WithPasswordPattern(regexp.MustCompile(ps.Pass)))
		}
		if ps.Phrase != "" {
			opts = append(opts, options.WithPassphrasePattern(regexp.MustCompile(ps.Phrase)))
		}
	}
	switch cs.entry {
	case "network":
		p, err := platform.NewPlatform([]byte(c10platformYAML(cs, ps)), "host", opts...)
		if err != nil {
			return nil, nil, err
		}
		nd, err := p.GetNetworkDriver()
		if err != nil {
			return nil, nil, err
		}
		return &c10drv{gd: nd.Driver, open: nd.Open}, func() { _ = nd.Driver.Close() }, nil
	case "netconf":
		nd, err := netconf.NewDriver("host", opts...)
		if err != nil {
			return nil, nil, err
		}
		return &c10drv{nc: nd, open: nd.Open}, func() { _ = nd.Close() }, nil
	}
	if ps.Prompt != "" {
		opts = append(opts, options.WithPromptPattern(regexp.MustCompile(ps.Prompt)))
	}
	d, err := generic.NewDriver("host", opts...)
	if err != nil {
		return nil, nil, err
	}
	return &c10drv{gd: d, open: d.Open}, func() { _ = d.Close() }, nil
}

func c10hello(caps []string, session uint64) string {
	var b strings.Builder
	b.WriteString(`<?xml version="1.0" encoding="UTF-8"?><hello xmlns="urn:ietf:params:xml:ns:netconf:base:1.0"><capabilities>`)
	for _, c := range caps {
		b.WriteString("<capability>" + c + "</capability>")
	}
	fmt.Fprintf(&b, "</capabilities><session-id>%d</session-id></hello>]]>]]>", session)
	return b.String()
}

// c10bigBanner: `target` bytes of harmless lines (no prompt look-alikes), each ending in nl.
func c10bigBanner(r *vlib.Rng, target int, nl string) string {
	words := []string{"interface", "GigabitEthernet0/1", "is", "up", "line", "protocol", "notice", "maintenance", "window", "sunday", "0200-0400", "contact", "noc", "ext", "4711", "unauthorized", "access", "prohibited"}
	var b strings.Builder
	for b.Len() < target {
		var l strings.Builder
		for l.Len() < 40+r.Intn(30) {
			l.WriteString(r.Pick(words))
			l.WriteString(" ")
		}
		line := l.String() + "." + nl
		if b.Len()+len(line) > target {
			pad := target - b.Len() - len(nl)
			if pad < 0 {
				return b.String()[:target-len(nl)] + nl
			}
			line = strings.Repeat("x", pad) + nl
		}
		b.WriteString(line)
	}
	return b.String()
}

// c10postLoginSize draws the size class of what the device prints between the last credential and
// the shell prompt: "" (generator's usual motd), or an exact / large byte count.
func c10postLoginSize(r *vlib.Rng) int {
	// the Lean regex engine is quadratic in the buffer: the quick tier keeps large texts rare
	n := 60
	if c10xThorough {
		n = 16
	}
	switch r.Intn(n) {
	case 0:
		return 999
	case 1:
		return 1000
	case 2:
		return 1001
	case 3:
		return r.Range(1002, 1600)
	case 4:
		if c10xThorough {
			return r.Range(3000, 10000)
		}
		if r.Chance(1, 2) {
			return r.Range(3000, 4000)
		}
	}
	return 0
}

// c10xThorough: set once per run from the tier (replay lines carry it).
var c10xThorough bool

// genC10x draws one extended scenario.
func genC10x(seed uint64) c10case {
	r := vlib.NewRng(seed ^ 0xc10e)
	cs := c10case{seed: seed, ext: true, depth: 1000}
	cs.ssh = r.Chance(1, 2)
	cs.nl = r.Pick([]string{"\n", "\n", "\r\n"})
	cs.echo = !r.Chance(1, 8)
	cs.segClass = r.Intn(5)
	cs.segK = r.Range(2, 24)
	cs.readSize = []int{3, 16, 8192, 8192, 65535}[r.Intn(5)]
	nl := cs.nl
	switch e := r.Intn(10); {
	case e < 4:
		cs.entry = "generic"
	case e < 7 || !cs.ssh:
		cs.entry = "network"
	default:
		cs.entry = "netconf"
	}
	if r.Chance(1, 2) {
		cs.patSet = r.Range(1, len(facts.AuthPool)-1)
	}
	ps := facts.AuthPool[cs.patSet]
	cs.viaPlatform = cs.entry == "network" && cs.patSet > 0 && r.Chance(2, 3)
	// credentials: usual, empty, long, with the return character inside
	cs.user = r.Pick([]string{"admin", "netops", "a", "user.name-1", "", strings.Repeat("u", 120)})
	cs.pass = r.Pick([]string{"secret", "P@ssw0rd!", "pa ss", "%s%d", "x", "", strings.Repeat("Zq9$", 75), strings.Repeat("long-secret-", 340)})
	cs.phrase = r.Pick([]string{"keyphrase", "k3y pass", "", "", strings.Repeat("K", 300)})
	if r.Chance(1, 14) {
		cs.rawSecret = true
		cs.pass = "ab\ncd"
	}
	cs.firstOp = r.Pick([]string{"A", "B", "C", "C", "D", "D"})
	cs.variantB = cs.firstOp == "B"
	pick := func(custom []string, def ...string) string {
		if len(custom) > 0 {
			return r.Pick(custom)
		}
		return r.Pick(def)
	}
	uP := func() string { return pick(ps.UserPrompts, "Username:", "Username: ", "login:", "login: ") }
	pP := func() string {
		return pick(ps.PassPrompts, "Password:", "Password: ", "admin@host's password: ", "password:")
	}
	fP := func() string {
		return pick(ps.PhrasePrompts, "Enter passphrase for key '/home/u/.ssh/id_ed25519':", "Enter passphrase for key '/x': ")
	}
	cs.prompt = pick(ps.ShellPrompts, "router#", "r1>", "host-1.lab$", "sw(config)#", "router# ")
	motd := func() string {
		return r.Pick([]string{"", "", "Welcome to the lab router" + nl, "Authorized users only!" + nl + "You have new mail." + nl})
	}
	big := c10postLoginSize(r)
	bigText := ""
	if big > 0 {
		// keep the number of read boundaries (each costs the model several regex runs on the whole
		// buffer) moderate: large texts come in large reads
		bigText = c10bigBanner(r, big-len(nl), nl)
		cs.bigBanner = big
		if cs.segClass == 1 {
			cs.segClass = 2
		}
		cs.segK = r.Range(48, 400)
		if big > 1001 {
			cs.segK = r.Range(600, 4000)
			cs.readSize = 65535
		}
		if cs.readSize < 64 {
			cs.readSize = 8192
		}
		if r.Chance(1, 3) {
			cs.depth = r.Range(40, 300)
		}
	}
	var shell sim.LoginStage
	if cs.entry == "netconf" {
		cs.ncSession = uint64(r.Range(1, 99999))
		cs.ncCaps = []string{"urn:ietf:params:netconf:base:1.0"}
		if r.Chance(1, 2) {
			cs.ncCaps = append(cs.ncCaps, "urn:ietf:params:netconf:base:1.1")
		}
		if r.Chance(1, 2) {
			cs.ncCaps = append(cs.ncCaps, "urn:ietf:params:netconf:capability:candidate:1.0")
		}
		for big > 0 && len(strings.Join(cs.ncCaps, "")) < big {
			cs.ncCaps = append(cs.ncCaps, fmt.Sprintf("urn:example:params:xml:ns:yang:module-%d?revision=2020-01-%02d", len(cs.ncCaps), 1+len(cs.ncCaps)%28))
		}
		shell = sim.LoginStage{Kind: sim.LoginShell, Text: motd() + c10hello(cs.ncCaps, cs.ncSession)}
	} else {
		shell = sim.LoginStage{Kind: sim.LoginShell, Text: motd() + bigText + cs.prompt}
	}
	rej := []int{0, 0, 0, 1, 1, 2, 3}[r.Intn(7)]
	reject := func() string { return r.Pick([]string{"Login incorrect", "% Authentication failed", "Access denied"}) + nl + nl }
	if !cs.ssh {
		if r.Chance(1, 5) { // password-only line
			cs.plan = append(cs.plan, sim.LoginStage{Kind: sim.LoginPass, Text: motd() + pP()})
			for i := 0; i < rej; i++ {
				cs.plan = append(cs.plan, sim.LoginStage{Kind: sim.LoginPass, Text: reject() + pP()})
			}
		} else {
			cs.plan = append(cs.plan, sim.LoginStage{Kind: sim.LoginUser, Text: motd() + uP()}, sim.LoginStage{Kind: sim.LoginPass, Text: pP()})
			for i := 0; i < rej; i++ {
				if r.Chance(2, 5) {
					cs.plan = append(cs.plan, sim.LoginStage{Kind: sim.LoginPass, Text: reject() + pP()})
				} else {
					cs.plan = append(cs.plan, sim.LoginStage{Kind: sim.LoginUser, Text: reject() + uP()}, sim.LoginStage{Kind: sim.LoginPass, Text: pP()})
				}
			}
		}
	} else {
		first := true
		greet := func(t string) string {
			if first {
				first = false
				return motd() + t
			}
			return t
		}
		if r.Chance(1, 2) {
			for i := []int{0, 0, 0, 1, 2, 3}[r.Intn(6)]; i >= 0; i-- {
				cs.plan = append(cs.plan, sim.LoginStage{Kind: sim.LoginPhrase, Text: greet(fP())})
			}
		}
		if len(cs.plan) == 0 || r.Chance(1, 2) {
			cs.plan = append(cs.plan, sim.LoginStage{Kind: sim.LoginPass, Text: greet(pP())})
			for i := 0; i < rej; i++ {
				switch r.Intn(6) {
				case 0: // failure text and the next prompt in one emission
					cs.plan = append(cs.plan, sim.LoginStage{Kind: sim.LoginErr, Text: "Permission denied, please try again." + nl + pP()})
				case 1:
					cs.plan = append(cs.plan, sim.LoginStage{Kind: sim.LoginPhrase, Text: fP()}, sim.LoginStage{Kind: sim.LoginPass, Text: pP()})
				default:
					cs.plan = append(cs.plan, sim.LoginStage{Kind: sim.LoginPass, Text: pP()})
				}
				if cs.plan[len(cs.plan)-1].Kind == sim.LoginErr {
					break
				}
			}
		}
		if r.Chance(1, 12) { // failure text in the same emission as a passphrase / shell prompt
			k := r.Intn(len(cs.plan) + 1)
			txt := "@ WARNING: UNPROTECTED PRIVATE KEY FILE! @" + nl
			if k < len(cs.plan) {
				cs.plan = append(cs.plan[:k:k], sim.LoginStage{Kind: sim.LoginErr, Text: txt + cs.plan[k].Text})
			} else {
				cs.plan = append(cs.plan, sim.LoginStage{Kind: sim.LoginErr, Text: txt + shell.Text})
			}
		}
	}
	if cs.plan == nil || cs.plan[len(cs.plan)-1].Kind != sim.LoginErr {
		cs.plan = append(cs.plan, shell)
	}
	switch m := r.Intn(20); {
	case m <= 1 && cs.entry == "generic":
		cs.bypass = true
	case m <= 3 && cs.entry == "generic":
		cs.plain = true
	case m <= 6:
		total := 0
		for _, s := range cs.plan {
			total += len(s.Text) + 1
		}
		cs.faultKind = r.Pick([]string{"eof", "ioerr", "werr"})
		if cs.faultKind == "werr" {
			cs.faultAt = r.Intn(len(cs.user) + len(cs.pass) + len(cs.phrase) + 6)
		} else {
			cs.faultAt = r.Intn(total + 8)
		}
	case m == 7:
		cs.silent = true
		j := r.Intn(len(cs.plan))
		t := cs.plan[j].Text
		if len(t) > 0 {
			t = t[:r.Intn(len(t))]
		}
		cs.plan = append(cs.plan[:j:j], sim.LoginStage{Kind: sim.LoginSilence, Text: t})
	}
	if cs.bypass || cs.plain || cs.faultKind != "" {
		cs.silent = true // short timer: a bypassed or broken login must not depend on the long one
	}
	return cs
}
