package main

// C16 — built-in transports are transparent, ordered byte pipes that unblock on close.
//
// Byte-pipe differential with real peers: telnet against a loopback TCP server, standard against an
// in-process x/crypto/ssh server (shell session and netconf subsystem), system through a real pty
// against a stand-in "ssh" (this very executable re-executed in relay mode, see sim.RelayMain).
// Every case is a history of peer sends, client reads (the size the OS chose to return becomes the
// model's choice parameter), client writes, and an ending (drain+close, blocked read + Close(true),
// blocked read + peer exit, peer sends then exits). The Lean model (`c16 run`) is asked for the same
// history; outcomes, bytes handed to the peer and the conservation law are compared.
// Plus: the lock skeleton of Transport.read / Close(force) against `c16 lock`, and end-to-end CLI /
// NETCONF sessions over each transport compared with the same session over the ideal sim.Pipe.

import (
	"bytes"
	"errors"
	"fmt"
	"io"
	"net"
	"os"
	"os/exec"
	"strconv"
	"strings"
	"sync"
	"time"

	"github.com/scrapli/scrapligo/logging"
	"github.com/scrapli/scrapligo/transport"
	"github.com/scrapli/scrapligo/util"

	"github.com/scrapli/scrapligo/driver/options"
	"golang.org/x/crypto/ssh/knownhosts"

	"verifgo/sim"
	"verifgo/vlib"
)

func init() { props["C16"] = runC16 }

const (
	c16ReadBound    = 10 * time.Second // a read with bytes outstanding must return within this
	c16UnblockBound = 3 * time.Second  // a blocked read must return within this after close / peer exit
	c16OpenBound    = 15 * time.Second
	c16BlockProbe   = 40 * time.Millisecond // how long a read is watched before it counts as blocked
	c16TelnetSocket = 600 * time.Millisecond
)

type c16Step struct {
	op       string // send | read | write | duplex | idle | cwrite
	data     []byte
	cuts     []int
	data2    []byte // duplex: what the peer sends meanwhile; cwrite: the second writer's bytes
	cuts2    []int
	idle     time.Duration // idle: how long the read stays blocked before the peer sends
	until    time.Duration // age / idle / traffic: the session age (since Open returned) to reach
	maxReads int           // read: 0 = until drained
	readN    int           // read: 0 = Transport.Read() (Args.ReadSize), else Transport.ReadN(readN)
}

type c16Case struct {
	line    string
	kind    string // system | standard | telnet
	mode    string // shell | netconf
	n       int
	opening []byte // telnet: bytes the server sends on accept (negotiation + data)
	ib      []byte // telnet: the data bytes of the opening
	steps   []c16Step
	ending  string // drain-close | block-close | block-exit | send-exit
	endData []byte // send-exit payload
	class   string
	multi   bool // some payload exceeds the read size
	v       c16Variant
}

// c16Variant selects option / peer flavours of a case.
type c16Variant struct {
	auth     string   // standard: "" password, "kbd" keyboard-interactive
	cipher   string   // standard: WithStandardTransportExtraCiphers([cipher]); the server offers only it
	kex      string   // standard: WithStandardTransportExtraKexs([kex]); the server offers only it
	sshArgs  []string // openssh: WithSystemTransportOpenArgs
	defaultN bool     // no WithTransportReadSize: the transport's default read size
	reject   string   // open-abort scenarios: where the peer refuses (see c16OpenAbort)
	// ssh-argument dimensions of the system transport (real OpenSSH, and the argv-recording stand-in)
	cfg        string        // ssh config file: "" none, minimal, unrelated, escape, escape-ctrl, system
	strict     bool          // strict host key checking left on
	knownHosts bool          // a known-hosts file (holding the server's key) is given
	user       bool          // a user name is given
	argvScript bool          // system: the stand-in is started through a script that records its argv (no args override)
	sockT      time.Duration // TimeoutSocket of the case (0: the harness default); aged cases run past multiples of it
}

type c16Read struct {
	data    []byte
	err     error
	blocked bool
}

type c16Fail struct{ kind, detail, sig string }

type c16Out struct {
	argv      []string    // what the stand-in ssh was started with (argvScript)
	argvModel string      // `c16 argv …` request computing the same from the generated buildOpenArgs
	merges    [][3][]byte // concurrent writes: writer A, writer B, what the peer received
	mergeOK   []bool      // the harness's own projection verdict per merge
	prefixOK  bool        // the ending stops reading early: the reads must be a prefix of the stream
	events    []string
	reads     []c16Read
	peerGot   []byte
	written   []byte
	sent      []byte
	fails     []c16Fail
	aborted   bool
	dur       time.Duration
}

func (o *c16Out) fail(kind, sig, f string, a ...any) {
	o.fails = append(o.fails, c16Fail{kind, fmt.Sprintf(f, a...), sig})
}

// withNetconfConnection is what netconf.NewDriver applies to the transport's SSH arguments.
func c16Netconf(b bool) util.Option {
	return func(o interface{}) error {
		a, ok := o.(*transport.SSHArgs)
		if !ok {
			return util.ErrIgnoredOption
		}
		a.NetconfConnection = b
		return nil
	}
}

type c16Conn struct {
	peer    io.ReadWriteCloser
	cleanup func()
}

var c16Exe string

// c16TransportOpts returns the options that point transport kind at a fresh loopback peer, and a
// function that (after Open was called / while it runs) yields the peer end of the connection.
func c16TransportOpts(kind, mode string, opening []byte, seed uint64) ([]util.Option, func() (*c16Conn, error), error) {
	return c16TransportOptsV(kind, mode, opening, seed, c16Variant{})
}

// c16TelnetTriples counts the DO/DONT/WILL/WONT triples of an opening (two-byte commands and the
// escaped IAC IAC are skipped as units).
func c16TelnetTriples(opening []byte) int {
	k := 0
	for i := 0; i < len(opening); {
		switch {
		case opening[i] != 255:
			i++
		case i+1 < len(opening) && opening[i+1] >= 251 && opening[i+1] <= 254:
			k++
			i += 3
		default:
			i += 2
		}
	}
	return k
}

var (
	c16TmpOnce       sync.Once
	c16TmpDir        string
	c16StandinScript string
)

// c16Tmp creates (once) the directory for ssh config / known-hosts files, recorded argument
// vectors and the argv-recording stand-in script.
func c16Tmp() string {
	c16TmpOnce.Do(func() {
		d, err := os.MkdirTemp("", "verif-c16-")
		if err != nil {
			fmt.Fprintln(os.Stderr, "harness:", err)
			os.Exit(3)
		}
		c16TmpDir = d
		c16StandinScript = d + "/ssh-standin.sh"
		// stand-in ssh with a visible argv: writes its arguments (one per line) to <dir>/<port>.argv,
		// then becomes the raw-mode relay between its tty and 127.0.0.1:<the -p port>
		script := "#!/bin/sh\nport=\"\"; prev=\"\"\nfor a in \"$@\"; do [ \"$prev\" = \"-p\" ] && port=\"$a\"; prev=\"$a\"; done\n" +
			": > \"" + d + "/$port.argv.tmp\"\nfor a in \"$@\"; do printf '%s\\n' \"$a\" >> \"" + d + "/$port.argv.tmp\"; done\n" +
			"mv \"" + d + "/$port.argv.tmp\" \"" + d + "/$port.argv\"\n" +
			"exec \"" + c16Exe + "\" C16 -replay \"relay:127.0.0.1:$port\" --\n"
		_ = os.WriteFile(c16StandinScript, []byte(script), 0o755)
	})
	return c16TmpDir
}

// c16SSHConfig writes the ssh config file of a variant and returns the option that selects it.
func c16SSHFileOpts(v c16Variant, seed uint64, hostKeyLine string) []util.Option {
	var opts []util.Option
	dir := c16Tmp()
	body := map[string]string{
		"minimal":     "Host *\n  ServerAliveCountMax 3\n",
		"unrelated":   "# unrelated options only\nHost *\n  Compression no\n  TCPKeepAlive yes\n  NumberOfPasswordPrompts 2\n",
		"escape":      "Host *\n  EscapeChar ~\n",
		"escape-ctrl": "EscapeChar ^B\nHost *\n  ServerAliveCountMax 3\n",
	}
	switch v.cfg {
	case "":
	case "system":
		opts = append(opts, options.WithSSHConfigFileSystem())
	default:
		f := fmt.Sprintf("%s/%d.sshconfig", dir, seed)
		_ = os.WriteFile(f, []byte(body[v.cfg]), 0o600)
		opts = append(opts, options.WithSSHConfigFile(f))
	}
	if v.knownHosts {
		f := fmt.Sprintf("%s/%d.known_hosts", dir, seed)
		_ = os.WriteFile(f, []byte(hostKeyLine+"\n"), 0o600)
		opts = append(opts, options.WithSSHKnownHostsFile(f))
	}
	if !v.strict {
		opts = append(opts, options.WithAuthNoStrictKey())
	}
	if len(v.sshArgs) > 0 {
		opts = append(opts, options.WithSystemTransportOpenArgs(v.sshArgs))
	}
	return opts
}

func c16TransportOptsV(kind, mode string, opening []byte, seed uint64, v c16Variant) ([]util.Option, func() (*c16Conn, error), error) {
	switch kind {
	case "telnet":
		l, err := sim.Listen()
		if err != nil {
			return nil, nil, err
		}
		type acc struct {
			c   io.ReadWriteCloser
			err error
		}
		ch := make(chan acc, 1)
		go func() {
			c, err := l.Accept(c16OpenBound)
			if err == nil && len(opening) > 0 {
				_, err = c.Write(opening)
			}
			if err == nil {
				// the client answers every DO/DONT/WILL/WONT triple with one triple while it opens
				// (property C15's subject); take the answers off the wire before the script starts
				k := c16TelnetTriples(opening)
				if v.reject == "telnet-reset" || v.reject == "telnet-reset-negotiating" {
					// the peer drops the connection in the middle of the negotiation
					if tc, ok := c.(*net.TCPConn); ok {
						_ = tc.SetLinger(0)
					}
					_ = c.Close()
					ch <- acc{nil, errors.New("peer reset the connection")}
					return
				}
				if v.reject == "telnet-eof" {
					_ = c.Close()
					ch <- acc{nil, errors.New("peer closed the connection")}
					return
				}
				if k > 0 {
					var rep []byte
					rep, err = c16ReadFull(c, 3*k, c16OpenBound)
					for i := 0; err == nil && i < len(rep); i += 3 {
						if rep[i] != 255 || rep[i+1] < 251 || rep[i+1] > 254 {
							err = fmt.Errorf("telnet client answered the opening with % x", rep)
						}
					}
				}
			}
			ch <- acc{c, err}
		}()
		if v.reject == "telnet-refused" { // nobody listens on the port
			l.Close()
		}
		opts := []util.Option{options.WithPort(l.Port), options.WithTimeoutSocket(c16TelnetSocket)}
		if v.sockT > 0 {
			opts = append(opts, options.WithTimeoutSocket(v.sockT))
		}
		return opts, func() (*c16Conn, error) {
			a := <-ch
			if a.err != nil {
				l.Close()
				return nil, a.err
			}
			return &c16Conn{peer: a.c, cleanup: func() { _ = a.c.Close(); l.Close() }}, nil
		}, nil
	case "standard":
		srv, err := sim.NewC16SSHServerOpts(seed, sim.C16SSHOpts{Auth: v.auth, Cipher: v.cipher, Kex: v.kex, Reject: v.reject})
		if err != nil {
			return nil, nil, err
		}
		opts := []util.Option{options.WithPort(srv.Port), options.WithAuthNoStrictKey(),
			options.WithAuthUsername("u"), options.WithAuthPassword("p"),
			options.WithTimeoutSocket(c16OpenBound), c16Netconf(mode == "netconf")}
		if v.sockT > 0 {
			opts = append(opts, options.WithTimeoutSocket(v.sockT))
		}
		if v.cipher != "" {
			opts = append(opts, options.WithStandardTransportExtraCiphers([]string{v.cipher}))
		}
		if v.kex != "" {
			opts = append(opts, options.WithStandardTransportExtraKexs([]string{v.kex}))
		}
		return opts, func() (*c16Conn, error) {
			s, err := srv.NextSession(c16OpenBound)
			if err != nil {
				srv.Close()
				return nil, err
			}
			want := "shell"
			if mode == "netconf" {
				want = "subsystem:netconf"
			}
			if s.Kind != want || (mode == "shell" && !s.PTY) {
				s.Shutdown()
				srv.Close()
				return nil, fmt.Errorf("ssh server saw session kind %q pty=%v, expected %q", s.Kind, s.PTY, want)
			}
			return &c16Conn{peer: s, cleanup: func() { s.Shutdown(); srv.Close() }}, nil
		}, nil
	case "openssh":
		// the system transport with the real OpenSSH client (`ssh` from PATH) talking to the in-process
		// server; authentication is in-channel (password prompt on the pty)
		srv, err := sim.NewC16SSHServer(seed)
		if err != nil {
			return nil, nil, err
		}
		opts := []util.Option{options.WithPort(srv.Port),
			options.WithAuthUsername("u"), options.WithAuthPassword("p"),
			options.WithTimeoutSocket(c16OpenBound), c16Netconf(mode == "netconf")}
		if v.sockT > 0 {
			opts = append(opts, options.WithTimeoutSocket(v.sockT))
		}
		opts = append(opts, c16SSHFileOpts(v, seed, knownhosts.Line([]string{fmt.Sprintf("[127.0.0.1]:%d", srv.Port)}, srv.HostKey))...)
		return opts, func() (*c16Conn, error) {
			s, err := srv.NextSession(c16OpenBound)
			if err != nil {
				srv.Close()
				return nil, err
			}
			return &c16Conn{peer: s, cleanup: func() { s.Shutdown(); srv.Close() }}, nil
		}, nil
	case "system":
		l, err := sim.Listen()
		if err != nil {
			return nil, nil, err
		}
		bin := c16Exe
		if v.reject == "no-such-binary" {
			bin = "/nonexistent/c16-ssh"
		}
		opts := []util.Option{options.WithSystemTransportOpenBin(bin),
			options.WithSystemTransportOpenArgsOverride([]string{"C16", "-replay", "relay:" + l.Addr(), "--"}),
			c16Netconf(mode == "netconf")}
		if v.argvScript {
			// no override: the transport builds the argument vector itself; the script records it and
			// finds the relay's port in it
			c16Tmp()
			opts = []util.Option{options.WithSystemTransportOpenBin(c16StandinScript), options.WithPort(l.Port), c16Netconf(mode == "netconf")}
			opts = append(opts, c16SSHFileOpts(v, seed, "[127.0.0.1]:1 ssh-ed25519 AAAAC3NzaC1lZDI1NTE5AAAAIJ0mPd3xYq0cS3t0bT3m1m0o8m3QpXqjJH0Lx0a3kq1V")...)
			if v.user {
				opts = append(opts, options.WithAuthUsername("operator"))
			}
		}
		if v.sockT > 0 {
			opts = append(opts, options.WithTimeoutSocket(v.sockT))
		}
		return opts, func() (*c16Conn, error) {
			c, err := l.Accept(c16OpenBound)
			if err != nil {
				l.Close()
				return nil, err
			}
			return &c16Conn{peer: c, cleanup: func() { _ = c.Close(); l.Close() }}, nil
		}, nil
	}
	return nil, nil, fmt.Errorf("unknown transport kind %q", kind)
}

// ---------------------------------------------------------------------------------------------
// byte-pipe cases

var c16ReadSizes = []int{1, 2, 3, 7, 16, 64, 100, 255, 1024, 4096, 8192, 65535, 65536}

// c16Seqs are byte sequences that terminals, telnet, ssh and line disciplines give a meaning to.
var c16Seqs = [][]byte{
	{'\r', '\n'}, {'\r', 0}, {'\n', '\r'}, {'\r'}, {'\n'}, {0}, {0, 0}, {255}, {255, 255}, {255, 255, 255},
	{255, 251, 1}, {255, 253, 3}, {255, 254, 24}, {255, 252, 31}, {255, 250, 24, 1, 255, 240}, {255, 241}, {255, 249}, {255, 244},
	{3}, {4}, {0x1a}, {0x1c}, {0x11}, {0x13}, {0x15}, {0x17}, {0x16, 3}, {0x7f}, {8}, {0x1b, '[', 'A'}, {0x1b, ']', '0', ';', 'x', 7},
	{'\n', '~', '.'}, {'\r', '~', '~'}, {'\n', '~', 'C'}, {'~', '?'}, {'\\', '\n'}, {0xc3, 0xbf}, {0xe2, 0x82}, {0x80}, {0xfe, 0xff},
}

func c16Payload(r *vlib.Rng, size int) []byte {
	b := make([]byte, size)
	switch r.Intn(6) {
	case 4: // every byte value, in a random rotation / stride, repeated to the size
		start, stride := r.Intn(256), []int{1, 3, 7, 255, 129}[r.Intn(5)]
		for i := range b {
			b[i] = byte(start + i*stride)
		}
		return b
	case 5: // sequences with a meaning to some layer, back to back
		for i := 0; i < size; {
			q := c16Seqs[r.Intn(len(c16Seqs))]
			i += copy(b[i:], q)
		}
		return b
	case 0: // bytes that terminals, telnet and line disciplines treat specially
		special := []byte{0x00, 0x03, 0x04, 0x08, 0x0a, 0x0d, 0x11, 0x13, 0x15, 0x1a, 0x1b, 0x1c, 0x7f, 0xff, 0xfe, 0xfd, 0xfb, 0xf0, 0xfa, '\\', '~', '.'}
		for i := range b {
			b[i] = special[r.Intn(len(special))]
		}
	default:
		for i := 0; i < size; i += 8 {
			v := r.U64()
			for j := 0; j < 8 && i+j < size; j++ {
				b[i+j] = byte(v >> (8 * j))
			}
		}
	}
	return b
}

// c16AbsSizes are sizes around the buffers in between: pty line / queue (4096), socket and ssh
// packet / window steps (32768, 65536).
var c16AbsSizes = []int{255, 256, 257, 4095, 4096, 4097, 32767, 32768, 32769, 65535, 65536, 65537}

func c16Size(r *vlib.Rng, n int, res *vlib.Result) int {
	var s int
	var cl string
	switch r.Intn(9) {
	case 7, 8:
		s = c16AbsSizes[r.Intn(len(c16AbsSizes))]
		if n < 16 && s > 4097 { // keep the number of reads of one case in the thousands
			s = c16AbsSizes[r.Intn(6)]
		}
		cl = fmt.Sprintf("abs:%d", s)
	case 0:
		s, cl = 1, "1"
	case 1:
		s, cl = n-1, "n-1"
	case 2:
		s, cl = n, "n"
	case 3:
		s, cl = n+1, "n+1"
	case 4:
		s, cl = 3*n+7, "3n+7"
	case 5:
		s, cl = r.Range(1, 2*n+5), "rand<=2n+5"
	default:
		s, cl = r.Range(1, 300), "rand<=300"
	}
	if s < 1 {
		s = 1
	}
	if res != nil {
		res.Count("payload:" + cl)
	}
	return s
}

func c16Cuts(r *vlib.Rng, size int) []int {
	switch r.Intn(3) {
	case 0:
		return []int{size}
	case 1: // a few large pieces
		var out []int
		for size > 0 {
			c := r.Range(1, size)
			out = append(out, c)
			size -= c
		}
		return out
	default: // many pieces, capped in number
		var out []int
		k := r.Range(2, 40)
		for size > 0 {
			c := size/k + 1
			if c > size {
				c = size
			}
			out = append(out, c)
			size -= c
		}
		return out
	}
}

var c16TelnetNeg = [][]byte{
	{255, 253, 1}, {255, 253, 3}, {255, 251, 1}, {255, 251, 3}, {255, 253, 24}, {255, 253, 31},
	{255, 254, 1}, {255, 252, 1}, {255, 253, 34}, {255, 251, 5},
}

// c16GenCase builds one case from its own seed (so that the case line replays it).
func c16GenCase(kind, mode string, n int, class string, seed uint64, res *vlib.Result) *c16Case {
	r := vlib.NewRng(seed)
	cs := &c16Case{kind: kind, mode: mode, n: n, class: class,
		line: fmt.Sprintf("case %s %s %d %s %d", kind, mode, n, class, seed)}
	switch kind {
	case "standard":
		if r.Chance(1, 3) {
			cs.v.auth = "kbd"
		}
		if r.Chance(1, 3) {
			cs.v.cipher = r.Pick([]string{"aes128-ctr", "aes256-ctr", "aes128-gcm@openssh.com", "aes256-gcm@openssh.com", "chacha20-poly1305@openssh.com", "aes128-cbc", "3des-cbc"})
		}
		if r.Chance(1, 4) {
			cs.v.kex = r.Pick([]string{"curve25519-sha256", "ecdh-sha2-nistp256", "ecdh-sha2-nistp384", "diffie-hellman-group14-sha256", "diffie-hellman-group14-sha1"})
		}
	case "system":
		if r.Chance(1, 3) { // the transport builds the argument vector itself; the stand-in records it
			cs.v.argvScript = true
			cs.v.cfg = []string{"", "minimal", "unrelated", "escape", "escape-ctrl", "system"}[r.Intn(6)]
			cs.v.strict, cs.v.knownHosts, cs.v.user = r.Chance(1, 2), r.Chance(1, 2), r.Chance(1, 2)
			if r.Chance(1, 3) {
				cs.v.sshArgs = [][]string{{"-v"}, {"-o", "EscapeChar=~"}, {"-e", "^B", "-4"}}[r.Intn(3)]
			}
		}
	case "openssh":
		cs.v.cfg = []string{"", "minimal", "unrelated", "escape", "escape-ctrl", "system"}[r.Intn(6)]
		if r.Chance(1, 3) { // strict host key checking needs the server's key in a known-hosts file
			cs.v.strict, cs.v.knownHosts = true, true
		} else {
			cs.v.knownHosts = r.Chance(1, 3)
		}
		if r.Chance(1, 2) {
			cs.v.sshArgs = [][]string{{"-c", "aes128-ctr"}, {"-o", "Ciphers=chacha20-poly1305@openssh.com"}, {"-o", "IPQoS=none", "-o", "Ciphers=aes256-gcm@openssh.com"},
				{"-o", "EscapeChar=~"}}[r.Intn(4)] // the last: ssh keeps the first value, the transport's `none` comes first
		}
	}
	if class == "default-n" {
		cs.v.defaultN = true
	}
	if kind == "telnet" {
		// opening: negotiation triples interleaved with data, two-byte commands (IAC NOP / GA: dropped)
		// and escaped IAC IAC (the data byte 255); what the parser makes of it is C15's subject, here it
		// only decides what the initial buffer holds
		segs := r.Intn(5)
		withData := r.Chance(3, 4)
		for i := 0; i < segs; i++ {
			if withData && r.Chance(1, 5) {
				cs.opening = append(cs.opening, 255, 255)
				cs.ib = append(cs.ib, 255)
			} else if r.Chance(1, 6) {
				cs.opening = append(cs.opening, 255, []byte{241, 249, 246}[r.Intn(3)])
			} else if r.Chance(2, 3) {
				cs.opening = append(cs.opening, c16TelnetNeg[r.Intn(len(c16TelnetNeg))]...)
			} else if withData {
				d := r.Bytes(r.Range(1, 12), []byte("Login:Username Password\r\n#> abc0123"))
				cs.opening = append(cs.opening, d...)
				cs.ib = append(cs.ib, d...)
			}
		}
		if class == "long-initial" { // an initial buffer longer than the read size
			d := r.Bytes(n+r.Range(1, 40), []byte("welcome to the device\r\nUsername: 0123456789"))
			cs.opening = append(cs.opening, d...)
			cs.ib = append(cs.ib, d...)
		}
	}
	pay := func() []byte {
		if class == "1MiB" {
			if res != nil {
				res.Count("payload:1MiB")
			}
			return c16Payload(r, 1<<20)
		}
		s := c16Size(r, n, res)
		if s > n {
			cs.multi = true
		}
		return c16Payload(r, s)
	}
	if class == "aged" {
		// the session outlives its TimeoutSocket: everything that works right after Open must work
		// after 1x, 2x, 3x that age — a write after idling, a read blocked across the boundary,
		// continuous traffic across the boundary; both directions are exercised after every boundary
		T, K := time.Second, 3
		switch kind {
		case "telnet":
			T = c16TelnetSocket
		case "openssh":
			T, K = 2*time.Second, 2
		}
		cs.v.sockT = T
		cs.multi = true
		small := func() []byte { return c16Payload(r, r.Range(1, c16min(n, 1500)+1)) }
		both := func() {
			d, d2 := small(), small()
			cs.steps = append(cs.steps, c16Step{op: "write", data: d}, c16Step{op: "send", data: d2, cuts: []int{len(d2)}}, c16Step{op: "read"})
		}
		both()
		for k := 1; k <= K; k++ {
			boundary := time.Duration(k) * T
			switch r.Intn(3) {
			case 0:
				cs.steps = append(cs.steps, c16Step{op: "age", until: boundary + boundary/10})
				if res != nil {
					res.Count("aged:idle-then-write")
				}
			case 1:
				d := small()
				cs.steps = append(cs.steps, c16Step{op: "idle", data: d, cuts: []int{len(d)}, until: boundary + boundary/10}, c16Step{op: "read"})
				if res != nil {
					res.Count("aged:read-blocked-across")
				}
			default:
				cs.steps = append(cs.steps, c16Step{op: "age", until: boundary - T/5},
					c16Step{op: "traffic", data: c16Payload(r, 64), until: boundary + T/4})
				if res != nil {
					res.Count("aged:traffic-across")
				}
			}
			both()
		}
	} else if class == "1MiB" {
		// one mebibyte towards the client (read with the case's read size), and half of the time one
		// mebibyte towards the peer
		cs.multi = true
		if r.Chance(1, 2) {
			cs.steps = append(cs.steps, c16Step{op: "write", data: c16Payload(r, c16Size(r, n, nil))})
		}
		d := pay()
		cs.steps = append(cs.steps, c16Step{op: "send", data: d, cuts: c16Cuts(r, len(d))}, c16Step{op: "read"})
		if r.Chance(1, 2) {
			cs.steps = append(cs.steps, c16Step{op: "write", data: c16Payload(r, 1<<20)})
		}
	} else {
		nsteps := r.Range(2, 6)
		unread := false
		wcuts := func(d []byte) []int { // one Write call, or many small ones
			if r.Chance(1, 2) {
				return nil
			}
			return c16Cuts(r, len(d))
		}
		for i := 0; i < nsteps; i++ {
			switch r.Intn(9) {
			case 5: // both directions at once
				d, d2 := c16Payload(r, c16Size(r, n, nil)), pay()
				cs.steps = append(cs.steps, c16Step{op: "duplex", data: d, cuts: wcuts(d), data2: d2, cuts2: c16Cuts(r, len(d2))})
				unread = false
				if res != nil {
					res.Count("step:duplex")
				}
			case 6: // a read that stays blocked for a while (longer than telnet's negotiation deadlines), then data
				d := pay()
				idle := time.Duration(r.Range(350, 700)) * time.Millisecond
				if kind != "telnet" && r.Chance(2, 3) {
					idle = time.Duration(r.Range(60, 250)) * time.Millisecond
				}
				cs.steps = append(cs.steps, c16Step{op: "idle", data: d, cuts: c16Cuts(r, len(d)), idle: idle})
				unread = true
				if res != nil {
					res.Count("step:idle-then-data")
				}
			case 7: // two goroutines write at the same time
				if kind == "standard" {
					// x/crypto/ssh's channel Write is not safe for concurrent use (it reuses one packet
					// buffer per channel) and Standard.Write does not serialise: concurrent writes corrupt
					// the ssh stream and end the session. The property does not speak about concurrent
					// client writes; the observation is recorded by c16ConcurrentProbe, not judged here.
					d := c16Payload(r, c16Size(r, n, nil))
					cs.steps = append(cs.steps, c16Step{op: "write", data: d, cuts: c16Cuts(r, len(d))})
					continue
				}
				a, b := c16Payload(r, c16min(c16Size(r, n, nil), 70000)), c16Payload(r, c16min(c16Size(r, n, nil), 70000))
				for i := range a {
					a[i] &= 0x7f
				}
				for i := range b {
					b[i] |= 0x80
				}
				cs.steps = append(cs.steps, c16Step{op: "cwrite", data: a, cuts: c16Cuts(r, len(a)), data2: b, cuts2: c16Cuts(r, len(b))})
				if res != nil {
					res.Count("step:concurrent-writes")
				}
			case 8:
				d := c16Payload(r, c16Size(r, n, nil))
				cs.steps = append(cs.steps, c16Step{op: "write", data: d, cuts: c16Cuts(r, len(d))})
				if res != nil {
					res.Count("step:write-in-pieces")
				}
			case 0, 1:
				d := pay()
				cs.steps = append(cs.steps, c16Step{op: "send", data: d, cuts: c16Cuts(r, len(d))})
				unread = true
			case 2:
				if unread {
					st := c16Step{op: "read"}
					if r.Chance(1, 2) {
						st.maxReads = r.Range(1, 3)
					}
					if r.Chance(1, 4) {
						st.readN = r.Range(1, 2*n)
					}
					cs.steps = append(cs.steps, st)
					unread = st.maxReads != 0
				}
			default:
				cs.steps = append(cs.steps, c16Step{op: "write", data: c16Payload(r, c16Size(r, n, nil))})
			}
		}
	}
	if kind == "openssh" || kind == "system" {
		// lines that start with '~' (the ssh client's escape character on a tty), as the first bytes of
		// the session and after CR / LF / CR LF, in one Write call or several
		d := []byte("~~ first\r~~ after cr\n~~ after lf\r\n~~ after crlf ~~ inline\n~?\r~~\r")
		d = append(d, c16Payload(r, r.Range(1, 40))...)
		d = append(d, []byte("\n~~")...)
		var cuts []int
		if r.Chance(1, 2) {
			cuts = c16Cuts(r, len(d))
		}
		cs.steps = append([]c16Step{{op: "write", data: d, cuts: cuts}}, cs.steps...)
	}
	cs.ending = []string{"drain-close", "block-close", "block-exit", "send-exit", "exit-then-write", "close-unread"}[r.Intn(6)]
	if cs.ending == "close-unread" {
		cs.endData = c16Payload(r, c16Size(r, n, res))
	}
	if cs.ending == "exit-then-write" {
		cs.endData = c16Payload(r, c16Size(r, n, nil))
		if kind == "system" && len(cs.endData) > 1024 {
			// with the ssh child gone nothing drains the pty any more: once its queues (a few KiB in
			// raw mode) are full a Write on the blocking-mode master blocks for good — the same root
			// as known finding C16-F17 (a stalled Write on the pty master is never released). The
			// property speaks about reads; the write here stays within what the pty still takes.
			cs.endData = cs.endData[:1024]
		}
	}
	if kind == "openssh" && (cs.ending == "block-exit" || cs.ending == "send-exit" || cs.ending == "exit-then-write") {
		// when the server ends the session the ssh client writes its own "Connection to … closed."
		// onto the pty before it exits; peer-exit endings are exercised with the stand-in relay
		cs.ending = "block-close"
	}
	if cs.ending == "send-exit" {
		cs.endData = c16Payload(r, c16Size(r, n, res))
	}
	return cs
}

type c16Reader struct {
	req chan int
	res chan c16Read
}

func c16NewReader(tr *transport.Transport) *c16Reader {
	rd := &c16Reader{req: make(chan int), res: make(chan c16Read, 1)}
	go func() {
		for m := range rd.req {
			var b []byte
			var err error
			if m == 0 {
				b, err = tr.Read()
			} else {
				b, err = tr.ReadN(m)
			}
			rd.res <- c16Read{data: b, err: err}
		}
	}()
	return rd
}

// start begins a read; wait returns its result or ok=false after d.
func (rd *c16Reader) start(m int) { rd.req <- m }
func (rd *c16Reader) wait(d time.Duration) (c16Read, bool) {
	select {
	case r := <-rd.res:
		return r, true
	case <-time.After(d):
		return c16Read{}, false
	}
}

// c16ReadUntil reads (and discards) until the accumulated bytes end with suffix.
func c16ReadUntil(rd *c16Reader, suffix []byte, d time.Duration) bool {
	var acc []byte
	deadline := time.Now().Add(d)
	for !bytes.HasSuffix(acc, suffix) {
		rd.start(0)
		r, ok := rd.wait(time.Until(deadline))
		if !ok || r.err != nil {
			return false
		}
		acc = append(acc, r.data...)
	}
	return true
}

func c16ReadFull(p io.Reader, n int, d time.Duration) ([]byte, error) {
	type rr struct {
		b   []byte
		err error
	}
	ch := make(chan rr, 1)
	var mu sync.Mutex
	b := make([]byte, n)
	k := 0
	go func() {
		var err error
		for err == nil {
			mu.Lock()
			if k == n {
				mu.Unlock()
				break
			}
			mu.Unlock()
			tmp := make([]byte, c16min(n-k, 1<<16))
			var m int
			m, err = p.Read(tmp)
			mu.Lock()
			copy(b[k:], tmp[:m])
			k += m
			mu.Unlock()
		}
		ch <- rr{nil, err}
	}()
	select {
	case r := <-ch:
		return b[:k], r.err
	case <-time.After(d):
		mu.Lock()
		defer mu.Unlock()
		return append([]byte{}, b[:k]...), errors.New("peer did not receive the bytes within bound")
	}
}

func c16max(a, b int) int {
	if a > b {
		return a
	}
	return b
}

func c16Short(b []byte) string {
	if len(b) > 24 {
		return fmt.Sprintf("%x…(%d bytes)", b[:24], len(b))
	}
	return fmt.Sprintf("%x", b)
}

func c16FirstDiff(a, b []byte) int {
	for i := 0; i < len(a) && i < len(b); i++ {
		if a[i] != b[i] {
			return i
		}
	}
	if len(a) != len(b) {
		if len(a) < len(b) {
			return len(a)
		}
		return len(b)
	}
	return -1
}

// c16RunCase executes one history against the real transport.
func c16RunCase(cs *c16Case, seed uint64) *c16Out {
	t0 := time.Now()
	o := &c16Out{}
	defer func() { o.dur = time.Since(t0) }()
	log, _ := logging.NewInstance()
	opts, peerOf, err := c16TransportOptsV(cs.kind, cs.mode, cs.opening, seed, cs.v)
	if err != nil {
		o.fail("machinery", "c16:peer-setup", "peer setup: %v", err)
		o.aborted = true
		return o
	}
	if !cs.v.defaultN {
		opts = append(opts, options.WithTransportReadSize(cs.n))
	}
	tr, err := transport.NewTransport(log, "127.0.0.1", c16TType(cs.kind), opts...)
	if err != nil {
		o.fail("oracle", "c16:"+cs.kind+":new-transport", "NewTransport: %v", err)
		o.aborted = true
		return o
	}
	if err := tr.Open(); err != nil {
		o.fail("oracle", "c16:"+cs.kind+":open-failed", "Open: %v", err)
		o.aborted = true
		return o
	}
	tOpen := time.Now() // session age counts from here (later than any deadline armed during Open)
	age := func() time.Duration { return time.Since(tOpen) }
	rd := c16NewReader(tr)
	defer close(rd.req)
	if !tr.IsAlive() {
		o.fail("oracle", "c16:"+cs.kind+":not-alive-after-open", "Transport.IsAlive() is false right after a successful Open")
	}
	if cs.v.defaultN {
		cs.n = tr.Args.ReadSize // what Read() will use
		if cs.n < 1 {
			o.fail("oracle", "c16:"+cs.kind+":default-read-size", "default read size %d", cs.n)
			o.aborted = true
			return o
		}
	}
	if cs.kind == "openssh" {
		// in-channel login by hand: wait for the client's password prompt on the pty, answer it
		if !c16ReadUntil(rd, []byte("password: "), c16OpenBound) {
			_ = tr.Close(true)
			o.fail("oracle", "c16:openssh:open-failed", "no password prompt from the ssh client within %v", c16OpenBound)
			o.aborted = true
			return o
		}
		_ = tr.Write([]byte("p\n"))
	}
	conn, err := peerOf()
	if err != nil {
		_ = tr.Close(true)
		o.fail("oracle", "c16:"+cs.kind+":open-failed", "peer side of the connection: %v", err)
		o.aborted = true
		return o
	}
	if cs.kind == "openssh" {
		// "after the session is up": everything up to the marker (ssh's own chatter) is not measured
		marker := []byte("\x02C16-SESSION-UP\x03")
		_, _ = conn.peer.Write(marker)
		if !c16ReadUntil(rd, marker, c16OpenBound) {
			_ = tr.Close(true)
			conn.cleanup()
			o.fail("oracle", "c16:openssh:open-failed", "session marker did not arrive within %v", c16OpenBound)
			o.aborted = true
			return o
		}
	}
	if sys, ok := tr.Impl.(*transport.System); ok && (cs.v.argvScript || cs.kind == "openssh") {
		// the argument vector: what the transport holds after Open, for the stand-in also what the
		// process really received; the model computes it from the regenerated body of buildOpenArgs
		o.argv = append([]string{}, sys.OpenArgs...)
		if cs.v.argvScript {
			b, err := os.ReadFile(fmt.Sprintf("%s/%d.argv", c16Tmp(), tr.Args.Port))
			if err != nil {
				o.fail("machinery", "c16:argv-record", "stand-in did not record its arguments: %v", err)
			} else if got := strings.Split(strings.TrimSuffix(string(b), "\n"), "\n"); strings.Join(got, "\x00") != strings.Join(o.argv, "\x00") {
				o.fail("oracle", "c16:system:argv-differs-from-openargs", "the ssh stand-in was started with %q, System.OpenArgs holds %q", got, o.argv)
			}
		}
		hx := func(s string) string { return vlib.Hex([]byte(s)) }
		var extra [][]byte
		for _, e := range sys.ExtraArgs {
			extra = append(extra, []byte(e))
		}
		o.argvModel = fmt.Sprintf("c16 argv %s %d %d %s %s %s %s %s %s %s", hx(tr.Args.Host), tr.Args.Port, int64(tr.Args.TimeoutSocket),
			hx(tr.Args.User), c16b(sys.SSHArgs.StrictKey), hx(sys.SSHArgs.KnownHostsFile), hx(sys.SSHArgs.ConfigFile), hx(sys.SSHArgs.PrivateKeyPath),
			vlib.HexList(extra), c16b(sys.SSHArgs.NetconfConnection))
		found := false
		for i := 0; i+1 < len(o.argv); i++ {
			if o.argv[i] == "-o" && o.argv[i+1] == "EscapeChar=none" {
				found = true
			}
		}
		if !found {
			o.fail("oracle", "c16:"+cs.kind+":argv-escape-char-not-disabled", "the ssh client is started without `-o EscapeChar=none` (config file %q): argv %q", sys.SSHArgs.ConfigFile, o.argv)
		}
	}
	closed := false
	defer func() {
		if !closed {
			go func() { _ = tr.Close(true) }()
		}
		conn.cleanup()
	}()

	// the peer writes through one queue so that sends keep their order; a send may block until the
	// client reads (large payloads), so it runs beside the script
	peerQ := make(chan []byte, 4096)
	var peerWG sync.WaitGroup
	peerErr := make(chan error, 1)
	peerWG.Add(1)
	go func() {
		defer peerWG.Done()
		for b := range peerQ {
			if _, err := conn.peer.Write(b); err != nil {
				select {
				case peerErr <- err:
				default:
				}
				return
			}
		}
	}()
	peerSend := func(data []byte, cuts []int) {
		o.events = append(o.events, "s"+vlib.Hex(data))
		o.sent = append(o.sent, data...)
		for _, c := range cuts {
			peerQ <- data[:c]
			data = data[c:]
		}
	}
	var qOnce sync.Once
	closeQ := func() { qOnce.Do(func() { close(peerQ) }) }
	defer closeQ()

	var got []byte
	target := func() int { return len(cs.ib) + len(o.sent) }
	// one completed read
	doRead := func(m int) bool {
		eff := m
		if eff == 0 {
			eff = cs.n
		}
		rd.start(m)
		r, ok := rd.wait(c16ReadBound)
		if !ok {
			o.fail("oracle", "c16:"+cs.kind+":read-stuck", "Read(%d) did not return within %v although %d byte(s) the peer sent are outstanding (received %d of %d)",
				eff, c16ReadBound, target()-len(got), len(got), target())
			o.aborted = true
			return false
		}
		o.events = append(o.events, fmt.Sprintf("r%d:%d", eff, len(r.data)))
		o.reads = append(o.reads, r)
		got = append(got, r.data...)
		if r.err != nil {
			o.fail("oracle", "c16:"+cs.kind+":read-error", "Read(%d) returned error %v with %d byte(s) outstanding", eff, r.err, target()-len(got))
			o.aborted = true
			return false
		}
		if len(r.data) == 0 {
			o.fail("oracle", "c16:"+cs.kind+":empty-read", "Read(%d) returned no data and no error with %d byte(s) outstanding", eff, target()-len(got))
			o.aborted = true
			return false
		}
		return true
	}
	drain := func(maxReads, m int) bool {
		for k := 0; len(got) < target() && (maxReads == 0 || k < maxReads); k++ {
			if !doRead(m) {
				return false
			}
		}
		return true
	}

	// doWrite: the client writes data (one Write call, or one per piece), the peer must receive
	// exactly these bytes. With data2 the peer sends data2 meanwhile and the client reads it while it
	// writes (both directions at once).
	doWrite := func(data []byte, cuts []int, data2 []byte, cuts2 []int) bool {
		if cs.kind == "openssh" && data2 == nil {
			// the OpenSSH client writes to its tty with blocking writes: while output the client
			// has not read fills the pty, ssh does not read its input either. scrapligo's channel
			// always reads concurrently; the script reads what is outstanding before it writes.
			if !drain(0, 0) {
				return false
			}
		}
		if len(cuts) == 0 {
			cuts = []int{len(data)}
		}
		if data2 != nil {
			peerSend(data2, cuts2)
		}
		rest := data
		for _, c := range cuts {
			o.events = append(o.events, "w"+vlib.Hex(rest[:c]))
			rest = rest[c:]
		}
		o.written = append(o.written, data...)
		werr := make(chan error, 1)
		go func() {
			d := data
			for _, c := range cuts {
				if e := tr.Write(d[:c]); e != nil {
					werr <- e
					return
				}
				d = d[c:]
			}
			werr <- nil
		}()
		// delivery bound: 10 s plus 10 s per 256 KiB (a mebibyte through ssh and a pty on a loaded
		// machine is many thousand small reads and writes)
		wb := c16ReadBound + time.Duration(len(data)>>18)*10*time.Second
		type pgr struct {
			b   []byte
			err error
		}
		pgc := make(chan pgr, 1)
		go func() {
			b, err := c16ReadFull(conn.peer, len(data), wb)
			pgc <- pgr{b, err}
		}()
		if data2 != nil && !drain(0, 0) {
			return false
		}
		pr := <-pgc
		pg, err := pr.b, pr.err
		o.peerGot = append(o.peerGot, pg...)
		if err != nil {
			i := c16FirstDiff(pg, data[:c16min(len(pg), len(data))])
			if i < 0 {
				i = len(pg)
			}
			o.fail("oracle", "c16:"+cs.kind+":write-lost", "client wrote %d byte(s) in %d call(s), peer received %d: %v; first difference at offset %d: got %s, written %s (preceded by %s)",
				len(data), len(cuts), len(pg), err, i, c16Short(pg[i:]), c16Short(data[i:]), c16Short(data[c16max(0, i-8):i]))
			o.aborted = true
			return false
		}
		select {
		case e := <-werr:
			if e != nil {
				o.fail("oracle", "c16:"+cs.kind+":write-error", "Write(%d bytes) returned %v", len(data), e)
				o.aborted = true
				return false
			}
		case <-time.After(wb):
			o.fail("oracle", "c16:"+cs.kind+":write-stuck", "Write(%d bytes) did not return within %v although the peer received them", len(data), wb)
			o.aborted = true
			return false
		}
		return true
	}

	for _, st := range cs.steps {
		switch st.op {
		case "send":
			peerSend(st.data, st.cuts)
		case "read":
			if !drain(st.maxReads, st.readN) {
				return o
			}
		case "write":
			if !doWrite(st.data, st.cuts, nil, nil) {
				return o
			}
		case "duplex":
			if !doWrite(st.data, st.cuts, st.data2, st.cuts2) {
				return o
			}
		case "age": // nothing happens until the session has the given age
			if d := st.until - age(); d > 0 {
				time.Sleep(d)
			}
		case "traffic": // small exchanges in both directions, back to back, until the session has the given age
			for k := 0; age() < st.until; k++ {
				lo := (k * 37) % (len(st.data) - 24)
				if !doWrite(st.data[lo:lo+1+k%23], nil, st.data[lo+1:lo+2+(k*7)%22], []int{1 + (k*7)%22}) {
					return o
				}
				time.Sleep(25 * time.Millisecond)
			}
		case "idle":
			if !drain(0, 0) {
				return o
			}
			if st.until > 0 { // the read stays blocked across the age boundary
				st.idle = st.until - age()
				if st.idle < 50*time.Millisecond {
					st.idle = 50 * time.Millisecond
				}
			}
			rd.start(0)
			if r, ok := rd.wait(st.idle); ok {
				o.events = append(o.events, fmt.Sprintf("r%d:%d", cs.n, len(r.data)))
				o.reads = append(o.reads, r)
				o.fail("oracle", "c16:"+cs.kind+":idle-read-returned", "a Read on an idle open connection returned (%s, err=%v) after less than %v although the peer sent nothing", c16Short(r.data), r.err, st.idle)
				o.aborted = true
				return o
			}
			o.events = append(o.events, fmt.Sprintf("r%d:0", cs.n)) // model: block
			o.reads = append(o.reads, c16Read{blocked: true})
			peerSend(st.data, st.cuts)
			r, ok := rd.wait(c16ReadBound)
			if !ok {
				o.fail("oracle", "c16:"+cs.kind+":read-stuck", "a Read blocked for %v did not return within %v after the peer sent %d byte(s)", st.idle, c16ReadBound, len(st.data))
				o.aborted = true
				return o
			}
			o.events = append(o.events, fmt.Sprintf("r%d:%d", cs.n, len(r.data)))
			o.reads = append(o.reads, r)
			got = append(got, r.data...)
			if r.err != nil || len(r.data) == 0 {
				o.fail("oracle", "c16:"+cs.kind+":read-error", "the Read blocked for %v returned (%d bytes, err=%v) when the peer sent %d byte(s)", st.idle, len(r.data), r.err, len(st.data))
				o.aborted = true
				return o
			}
		case "cwrite":
			if !drain(0, 0) {
				return o
			}
			total := len(st.data) + len(st.data2)
			werr := make(chan error, 2)
			wr := func(d []byte, cuts []int) {
				for _, c := range cuts {
					if e := tr.Write(d[:c]); e != nil {
						werr <- e
						return
					}
					d = d[c:]
				}
				werr <- nil
			}
			go wr(st.data, st.cuts)
			go wr(st.data2, st.cuts2)
			pg, err := c16ReadFull(conn.peer, total, c16ReadBound)
			// what the peer received is what the model is told was written (the interleaving is the
			// implementation's choice); the judgement is on the two projections
			o.events = append(o.events, "w"+vlib.Hex(pg))
			o.written = append(o.written, pg...)
			o.peerGot = append(o.peerGot, pg...)
			o.merges = append(o.merges, [3][]byte{st.data, st.data2, pg})
			o.mergeOK = append(o.mergeOK, false)
			if err != nil {
				o.fail("oracle", "c16:"+cs.kind+":write-lost", "two goroutines wrote %d + %d byte(s) concurrently, peer received %d: %v", len(st.data), len(st.data2), len(pg), err)
				o.aborted = true
				return o
			}
			for k := 0; k < 2; k++ {
				select {
				case e := <-werr:
					if e != nil {
						o.fail("oracle", "c16:"+cs.kind+":write-error", "concurrent Write returned %v", e)
					}
				case <-time.After(c16ReadBound):
					o.fail("oracle", "c16:"+cs.kind+":write-stuck", "a concurrent Write did not return within %v although the peer received everything", c16ReadBound)
					o.aborted = true
					return o
				}
			}
			var pa, pb []byte
			for _, x := range pg {
				if x < 0x80 {
					pa = append(pa, x)
				} else {
					pb = append(pb, x)
				}
			}
			o.mergeOK[len(o.mergeOK)-1] = bytes.Equal(pa, st.data) && bytes.Equal(pb, st.data2)
			if !o.mergeOK[len(o.mergeOK)-1] {
				ia, ib := c16FirstDiff(pa, st.data), c16FirstDiff(pb, st.data2)
				o.fail("oracle", "c16:"+cs.kind+":concurrent-write-mismatch", "two goroutines wrote %d (bytes < 0x80) and %d (bytes >= 0x80) byte(s) concurrently; what the peer received does not contain each writer's bytes once and in order (first difference: writer A offset %d, writer B offset %d; received %d)",
					len(st.data), len(st.data2), ia, ib, len(pg))
			}
		}
	}

	blockedThen := func(action func(), ev, what, sig string) {
		if !drain(0, 0) {
			return
		}
		rd.start(0)
		if r, ok := rd.wait(c16BlockProbe); ok {
			// the model says this read blocks
			o.events = append(o.events, fmt.Sprintf("r%d:%d", cs.n, len(r.data)))
			o.reads = append(o.reads, r)
			o.fail("oracle", "c16:"+cs.kind+":read-not-blocking", "Read returned (%s, err=%v) with nothing outstanding on an open connection", c16Short(r.data), r.err)
			o.aborted = true
			return
		}
		o.events = append(o.events, fmt.Sprintf("r%d:0", cs.n)) // model: block
		o.reads = append(o.reads, c16Read{blocked: true})
		o.events = append(o.events, ev)
		t := time.Now()
		action()
		r, ok := rd.wait(c16UnblockBound)
		if !ok {
			o.fail("oracle", "c16:"+cs.kind+":"+sig, "a Read blocked on an idle connection did not return within %v after %s", c16UnblockBound, what)
			o.aborted = true
			return
		}
		_ = t
		o.events = append(o.events, fmt.Sprintf("r%d:%d", cs.n, len(r.data)))
		o.reads = append(o.reads, r)
		if r.err == nil || len(r.data) != 0 {
			o.fail("oracle", "c16:"+cs.kind+":"+sig+"-result", "after %s the blocked Read returned (%s, err=%v); expected no data and an error", what, c16Short(r.data), r.err)
		}
	}
	closeForce := func() {
		closed = true
		done := make(chan struct{})
		go func() { _ = tr.Close(true); close(done) }()
		select {
		case <-done:
		case <-time.After(c16UnblockBound):
			o.fail("oracle", "c16:"+cs.kind+":close-stuck", "Close(true) did not return within %v while a Read was blocked", c16UnblockBound)
		}
	}
	switch cs.ending {
	case "drain-close":
		if !drain(0, 0) {
			return o
		}
		o.events = append(o.events, "c")
		closed = true
		done := make(chan error, 1)
		go func() { done <- tr.Close(false) }()
		select {
		case <-done:
		case <-time.After(c16UnblockBound):
			o.fail("oracle", "c16:"+cs.kind+":close-stuck", "Close(false) did not return within %v with no read in progress", c16UnblockBound)
			o.aborted = true
			return o
		}
		rd.start(0)
		r, ok := rd.wait(c16UnblockBound)
		if !ok {
			o.fail("oracle", "c16:"+cs.kind+":read-after-close-stuck", "Read after Close did not return within %v", c16UnblockBound)
			o.aborted = true
			return o
		}
		o.events = append(o.events, fmt.Sprintf("r%d:%d", cs.n, len(r.data)))
		o.reads = append(o.reads, r)
	case "block-close":
		blockedThen(closeForce, "c", "Close(true)", "not-unblocked-by-close")
	case "block-exit":
		blockedThen(func() { closeQ(); peerWG.Wait(); sim.PeerExit(conn.peer) }, "x", "the peer went away", "not-unblocked-by-peer-exit")
	case "exit-then-write":
		// the peer goes away, then the client writes: the Write must return (with or without error),
		// and so must the Read after it
		if !drain(0, 0) {
			return o
		}
		closeQ()
		peerWG.Wait()
		sim.PeerExit(conn.peer)
		o.events = append(o.events, "x")
		for k := 0; k < 3; k++ {
			werr := make(chan error, 1)
			go func() { werr <- tr.Write(cs.endData) }()
			select {
			case <-werr:
			case <-time.After(c16ReadBound):
				o.fail("oracle", "c16:"+cs.kind+":write-after-peer-exit-stuck", "Write(%d bytes) after the peer went away did not return within %v", len(cs.endData), c16ReadBound)
				o.aborted = true
				return o
			}
			if len(cs.endData) > 1<<16 {
				break
			}
		}
		rd.start(0)
		r, ok := rd.wait(c16UnblockBound)
		if !ok {
			o.fail("oracle", "c16:"+cs.kind+":not-unblocked-by-peer-exit", "Read did not return within %v after the peer went away and the client wrote to it", c16UnblockBound)
			o.aborted = true
			return o
		}
		o.events = append(o.events, fmt.Sprintf("r%d:%d", cs.n, len(r.data)))
		o.reads = append(o.reads, r)
		if r.err == nil || len(r.data) != 0 {
			o.fail("oracle", "c16:"+cs.kind+":after-exit-result", "after the peer went away Read returned (%s, err=%v); expected no data and an error", c16Short(r.data), r.err)
		}
	case "close-unread":
		// the client closes with bytes of the peer still unread: every later Read returns at once, what
		// it returns (some transports still hand out buffered bytes) continues the stream, and an error
		// comes after at most that many reads
		if !drain(0, 0) {
			return o
		}
		peerSend(cs.endData, []int{len(cs.endData)})
		time.Sleep(30 * time.Millisecond)
		o.events = append(o.events, "c")
		o.prefixOK = true
		closeForce()
		for k := 0; ; k++ {
			rd.start(0)
			r, ok := rd.wait(c16UnblockBound)
			if !ok {
				o.fail("oracle", "c16:"+cs.kind+":read-after-close-stuck", "Read after Close(true) with %d unread byte(s) did not return within %v", target()-len(got), c16UnblockBound)
				o.aborted = true
				return o
			}
			got = append(got, r.data...)
			if r.err != nil {
				break
			}
			if len(r.data) == 0 || k > len(cs.endData)+2 {
				o.fail("oracle", "c16:"+cs.kind+":read-after-close-no-error", "Reads after Close(true) keep returning without error (%d reads, last %d bytes)", k+1, len(r.data))
				break
			}
		}
	case "send-exit":
		peerSend(cs.endData, []int{len(cs.endData)})
		closeQ()
		// the peer can only go away once its bytes are on their way; with a payload larger than the
		// buffers in between that needs the client to read, so the exit happens beside the reads
		exited := make(chan struct{})
		go func() { peerWG.Wait(); sim.PeerExit(conn.peer); close(exited) }()
		if !drain(0, 0) {
			return o
		}
		select {
		case <-exited:
		case <-time.After(c16ReadBound):
			o.fail("machinery", "c16:peer-exit-stuck", "peer could not finish sending")
			o.aborted = true
			return o
		}
		o.events = append(o.events, "x")
		rd.start(0)
		r, ok := rd.wait(c16UnblockBound)
		if !ok {
			o.fail("oracle", "c16:"+cs.kind+":not-unblocked-by-peer-exit", "Read did not return within %v after the peer sent its last bytes and went away", c16UnblockBound)
			o.aborted = true
			return o
		}
		o.events = append(o.events, fmt.Sprintf("r%d:%d", cs.n, len(r.data)))
		o.reads = append(o.reads, r)
		if r.err == nil || len(r.data) != 0 {
			o.fail("oracle", "c16:"+cs.kind+":after-exit-result", "after the peer went away Read returned (%s, err=%v); expected no data and an error", c16Short(r.data), r.err)
		}
	}
	// spec, evaluated directly: the reads returned exactly initial buffer ++ sent, once, in order
	want := append(append([]byte{}, cs.ib...), o.sent...)
	if o.prefixOK && len(got) <= len(want) {
		want = want[:len(got)]
	}
	if !bytes.Equal(got, want) {
		i := c16FirstDiff(got, want)
		o.fail("oracle", "c16:"+cs.kind+":data-mismatch", "reads returned %d byte(s), the peer sent %d (+%d initial); first difference at offset %d: got %s want %s",
			len(got), len(o.sent), len(cs.ib), i, c16Short(got[c16min(i, len(got)):]), c16Short(want[c16min(i, len(want)):]))
	}
	if !bytes.Equal(o.peerGot, o.written) {
		i := c16FirstDiff(o.peerGot, o.written)
		o.fail("oracle", "c16:"+cs.kind+":write-mismatch", "peer received %d byte(s), client wrote %d; first difference at offset %d: got %s want %s",
			len(o.peerGot), len(o.written), i, c16Short(o.peerGot[c16min(i, len(o.peerGot)):]), c16Short(o.written[c16min(i, len(o.written)):]))
	}
	return o
}

// c16Compare checks one executed history against the model's answer.
func c16Compare(c *ctx, cs *c16Case, o *c16Out, ans string) {
	res := c.res
	f := strings.Fields(ans)
	if len(f) != 6 {
		res.Fail("machinery", cs.line, "model answered "+ans, "c16:model-answer")
		return
	}
	dom := f[0] == "1"
	if !dom {
		res.Fail("machinery", cs.line, "generated case outside the theorem's domain", "c16:dom")
		return
	}
	res.InDomain++
	var outs []string
	if f[1] != "." {
		outs = strings.Split(f[1], ",")
	}
	// model vs spec: the conservation law and the write law evaluated by Lean on the model's own run
	left, _ := vlib.UnHex(f[2])
	if f[4] != "1" {
		res.Fail("machinery", cs.line, "model: delivered ++ left differs from initial ++ sent", "c16:model-vs-spec")
	}
	if f[5] != "1" {
		res.Fail("machinery", cs.line, "model: bytes handed to the peer differ from the successful writes", "c16:model-vs-spec-out")
	}
	if len(outs) != len(o.reads) {
		if !o.aborted {
			res.Fail("machinery", cs.line, fmt.Sprintf("model has %d read outcomes, run has %d", len(outs), len(o.reads)), "c16:outcome-count")
		}
		return
	}
	for i, x := range outs {
		r := o.reads[i]
		var impl string
		switch {
		case r.blocked:
			impl = "b"
		case r.err != nil:
			impl = "d" + vlib.Hex(r.data) + ":err"
		default:
			impl = "d" + vlib.Hex(r.data) + ":n"
		}
		mod := x
		if x != "b" && !strings.HasSuffix(x, ":n") {
			mod = x[:strings.LastIndex(x, ":")] + ":err"
		}
		if impl != mod {
			show := func(s string) string {
				if len(s) > 80 {
					return s[:60] + "…" + s[len(s)-12:]
				}
				return s
			}
			res.Fail("correspondence", cs.line, fmt.Sprintf("read #%d: transport %s, model %s", i, show(impl), show(mod)),
				"c16:"+cs.kind+":read-outcome-differs")
			break
		}
	}
	if !o.aborted {
		mout, _ := vlib.UnHex(f[3])
		if !bytes.Equal(mout, o.peerGot) {
			res.Fail("correspondence", cs.line, fmt.Sprintf("bytes handed to the peer: transport %d, model %d", len(o.peerGot), len(mout)), "c16:"+cs.kind+":out-differs")
		}
		if len(left) != 0 && cs.ending != "close-unread" {
			res.Fail("correspondence", cs.line, fmt.Sprintf("model has %d byte(s) left after the run drained the transport", len(left)), "c16:"+cs.kind+":left-differs")
		}
	}
}

func c16ParseCase(line string) (*c16Case, error) {
	f := strings.Fields(line)
	if len(f) != 6 || f[0] != "case" {
		return nil, fmt.Errorf("not a C16 case line: %q", line)
	}
	n, err1 := strconv.Atoi(f[3])
	seed, err2 := strconv.ParseUint(f[5], 10, 64)
	if err1 != nil || err2 != nil {
		return nil, fmt.Errorf("bad number in case line %q", line)
	}
	return c16GenCase(f[1], f[2], n, f[4], seed, nil), nil
}

func runC16(c *ctx) {
	if strings.HasPrefix(c.replay, "relay:") { // stand-in ssh for the system transport
		os.Exit(sim.RelayMain(strings.TrimPrefix(c.replay, "relay:")))
	}
	res := c.res
	// vlib seeds splitmix64 with seed*gamma, so neighbouring seeds give the same stream shifted by
	// one draw; a fork (state = one mixed output) decorrelates them. Still only c.rng.
	c.rng = c.rng.Fork()
	defer func() {
		if c16TmpDir != "" {
			_ = os.RemoveAll(c16TmpDir)
		}
	}()
	exe, err := os.Executable()
	if err != nil {
		fmt.Fprintln(os.Stderr, "harness:", err)
		os.Exit(3)
	}
	c16Exe = exe
	res.Rule = "byte-pipe histories over the three real transports (telnet: loopback TCP; standard: in-process crypto/ssh server, shell and netconf subsystem; system: real pty + stand-in ssh relay): peer sends in pieces, client reads of sizes 1…65536 (Read and ReadN), client writes, payload sizes 1, n-1, n, n+1, 3n+7, random, 1 MiB, all byte values; endings drain+Close / blocked Read + Close(true) / blocked Read + peer exit / peer sends then exits. non-trivial = some payload exceeds the read size or the ending has a blocked read; distinct by case line. Plus lock-skeleton schedules and end-to-end CLI / NETCONF sessions vs the ideal pipe."

	if strings.HasPrefix(c.replay, "session ") {
		c16ReplaySession(c, c.replay)
		return
	}
	if strings.HasPrefix(c.replay, "lock ") {
		f := strings.Fields(c.replay)
		if len(f) != 4 {
			res.Fail("machinery", c.replay, "bad lock line", "c16:replay")
			return
		}
		c16Lock(c, f[1] == "1", f[2] == "1", f[3] == "1")
		return
	}
	if strings.HasPrefix(c.replay, "open-abort ") {
		c16ReplayOpenAbort(c, c.replay)
		return
	}
	if strings.HasPrefix(c.replay, "names") {
		c16Names(c)
		return
	}
	if strings.HasPrefix(c.replay, "sigclose ") {
		c16ReplaySigClose(c, c.replay)
		return
	}
	if strings.HasPrefix(c.replay, "wclose ") {
		c16ReplayWC(c, c.replay)
		return
	}
	if strings.HasPrefix(c.replay, "stall ") {
		c16ReplayStall(c, c.replay)
		return
	}
	var cases []*c16Case
	if c.replay != "" {
		cs, err := c16ParseCase(c.replay)
		if err != nil {
			res.Fail("machinery", c.replay, err.Error(), "c16:replay")
			return
		}
		cases = append(cases, cs)
		desc := []string{}
		for _, st := range cs.steps {
			desc = append(desc, fmt.Sprintf("%s(%d bytes, %d pieces, maxReads %d, readN %d)", st.op, len(st.data), len(st.cuts), st.maxReads, st.readN))
		}
		res.Note("replayed case: kind=%s mode=%s n=%d opening=%x steps=[%s] ending=%s(%d bytes)", cs.kind, cs.mode, cs.n, cs.opening, strings.Join(desc, " "), cs.ending, len(cs.endData))
	} else {
		r := c.rng
		type km struct{ kind, mode string }
		kms := []km{{"system", "shell"}, {"system", "netconf"}, {"standard", "shell"}, {"standard", "netconf"}, {"telnet", "shell"}}
		per := c.n(36, 400)
		if _, err := exec.LookPath("ssh"); err == nil {
			kms = append(kms, km{"openssh", "shell"})
		} else {
			res.Note("no ssh binary in PATH: byte-pipe histories over the system transport with the real OpenSSH client skipped")
		}
		// sessions that outlive their socket timeout: first, they take seconds and run beside the rest
		for _, k := range kms {
			for j := 0; j < c.n(1, 6); j++ {
				cases = append(cases, c16GenCase(k.kind, k.mode, []int{8192, 16, 1024, 65536, 100, 1}[(j+r.Intn(2))%6], "aged", r.U64(), res))
			}
		}
		for _, k := range kms {
			if k.kind == "openssh" {
				per = c.n(18, 150)
			}
			for i := 0; i < per; i++ {
				n := c16ReadSizes[(i+r.Intn(2))%len(c16ReadSizes)]
				if r.Chance(1, 4) {
					n = r.Range(1, 65536)
				}
				class := "mixed"
				if i%12 == 5 { // no read-size option: the transport's own default
					class, n = "default-n", 8192
				}
				if k.kind == "telnet" && i%3 == 0 {
					class = "long-initial"
					if n > 4096 {
						n = r.Range(1, 64)
					}
				}
				cases = append(cases, c16GenCase(k.kind, k.mode, n, class, r.U64(), res))
			}
		}
		// 1 MiB each way per transport (read sizes >= 1024 so that the number of reads stays small)
		bigs := []km{{"system", "shell"}, {"standard", "netconf"}, {"telnet", "shell"}}
		if c.thorough() {
			bigs = kms
		}
		for _, k := range bigs {
			for j := 0; j < c.n(1, 3); j++ {
				n := []int{1024, 8192, 65536, 4096}[r.Intn(4)]
				cases = append(cases, c16GenCase(k.kind, k.mode, n, "1MiB", r.U64(), res))
			}
		}
	}

	tStart := time.Now()
	// run: several cases at a time (each has its own listener / server / child process)
	outs := make([]*c16Out, len(cases))
	seeds := make([]uint64, len(cases))
	for i := range cases {
		seeds[i] = c.rng.U64()
	}
	sem := make(chan struct{}, vlib.Conc(8))
	var wg sync.WaitGroup
	for i := range cases {
		wg.Add(1)
		sem <- struct{}{}
		go func(i int) {
			defer wg.Done()
			defer func() { <-sem }()
			outs[i] = c16RunCase(cases[i], seeds[i])
		}(i)
	}
	wg.Wait()
	tRun := time.Now()

	var lines []string
	for i, cs := range cases {
		ev := "."
		if len(outs[i].events) > 0 {
			ev = strings.Join(outs[i].events, ",")
		}
		lines = append(lines, fmt.Sprintf("c16 run %s %s %s", c16TType(cs.kind), vlib.Hex(cs.ib), ev))
	}
	if p := os.Getenv("C16_DUMP"); p != "" {
		_ = os.WriteFile(p, []byte(strings.Join(lines, "\n")+"\n"), 0o644)
	}
	ans := c.ask(lines)
	// concurrent writes: the model's verdict on what the peer received (a merge of the two writers'
	// streams, decided through the two projections)
	var mlines, mcase []string
	var mok []bool
	for i, cs := range cases {
		for k, m := range outs[i].merges {
			mlines = append(mlines, fmt.Sprintf("c16 merge %s %s %s", vlib.Hex(m[0]), vlib.Hex(m[1]), vlib.Hex(m[2])))
			mcase = append(mcase, cs.line)
			mok = append(mok, outs[i].mergeOK[k])
		}
	}
	for i, a := range c.ask(mlines) {
		if (a == "1") != mok[i] {
			res.Fail("machinery", mcase[i], "concurrent writes: the model's merge verdict ("+a+") differs from the harness's projection check", "c16:model-vs-spec-merge")
		}
		res.Count("merge-verdicts")
	}
	// argument vectors: the model's (regenerated buildOpenArgs) against the transport's
	var alines []string
	var aidx []int
	for i := range cases {
		if outs[i].argvModel != "" {
			alines = append(alines, outs[i].argvModel)
			aidx = append(aidx, i)
		}
	}
	for k, a := range c.ask(alines) {
		i := aidx[k]
		var want []string
		if a != "." {
			for _, h := range strings.Split(a, ",") {
				b, _ := vlib.UnHex(h)
				want = append(want, string(b))
			}
		}
		res.Count("argv:" + cases[i].kind + ":cfg=" + cases[i].v.cfg)
		if cases[i].v.strict {
			res.Count("argv:strict")
		}
		if cases[i].v.knownHosts {
			res.Count("argv:known-hosts-file")
		}
		if strings.Join(want, "\x00") != strings.Join(outs[i].argv, "\x00") {
			res.Fail("correspondence", cases[i].line, fmt.Sprintf("ssh argument vector: transport %q, model (generated buildOpenArgs) %q", outs[i].argv, want), "c16:"+cases[i].kind+":argv-differs")
		}
	}
	// which byte values travelled in which direction over which transport
	seenS, seenW := map[string]*[256]bool{}, map[string]*[256]bool{}
	for i, cs := range cases {
		if seenS[cs.kind] == nil {
			seenS[cs.kind], seenW[cs.kind] = &[256]bool{}, &[256]bool{}
		}
		for _, x := range outs[i].sent {
			seenS[cs.kind][x] = true
		}
		for _, x := range outs[i].peerGot {
			seenW[cs.kind][x] = true
		}
		if bytes.IndexByte(outs[i].peerGot, 0xff) >= 0 {
			res.Count("written-has-0xff:" + cs.kind)
		}
		if bytes.IndexByte(outs[i].sent, 0xff) >= 0 {
			res.Count("sent-has-0xff:" + cs.kind)
		}
		v := cs.v
		if v.auth != "" {
			res.Count("variant:auth=" + v.auth)
		}
		if v.cipher != "" {
			res.Count("variant:cipher=" + v.cipher)
		}
		if v.kex != "" {
			res.Count("variant:kex=" + v.kex)
		}
		if len(v.sshArgs) > 0 {
			res.Count("variant:ssh-extra-args")
		}
	}
	if c.replay == "" {
		bv := ""
		for _, k := range []string{"system", "standard", "telnet", "openssh"} {
			if seenS[k] == nil {
				continue
			}
			ns, nw := 0, 0
			for x := 0; x < 256; x++ {
				if seenS[k][x] {
					ns++
				}
				if seenW[k][x] {
					nw++
				}
			}
			bv += fmt.Sprintf(" %s: %d/256 towards the client, %d/256 towards the peer;", k, ns, nw)
			if ns < 256 || nw < 256 {
				res.Fail("machinery", "byte-values "+k, fmt.Sprintf("generator did not cover every byte value over %s (%d / %d of 256)", k, ns, nw), "c16:generator-byte-values")
			}
		}
		res.Note("byte values delivered:%s", bv)
	}
	res.Note("phases: byte-pipe cases %v, model %v", tRun.Sub(tStart).Round(time.Millisecond), time.Since(tRun).Round(time.Millisecond))
	var slowest time.Duration
	for i, cs := range cases {
		o := outs[i]
		res.Case(cs.line, cs.multi || strings.HasPrefix(cs.ending, "block"))
		res.Count("kind:" + cs.kind + "/" + cs.mode)
		res.Count("ending:" + cs.ending)
		res.Count("class:" + cs.class)
		switch {
		case cs.n == 1:
			res.Count("readsize:1")
		case cs.n < 256:
			res.Count("readsize:2-255")
		case cs.n < 8192:
			res.Count("readsize:256-8191")
		default:
			res.Count("readsize:8192-65536")
		}
		res.Count(fmt.Sprintf("reads-per-case:%s", c16bucket(len(o.reads))))
		if o.dur > slowest {
			slowest = o.dur
		}
		for _, f := range o.fails {
			res.Fail(f.kind, cs.line, f.detail, f.sig)
		}
		c16Compare(c, cs, o, ans[i])
		res.TracesVsImpl++
		if i < 3 {
			res.Sample(map[string]any{"case": cs.line, "events": len(o.events), "reads": len(o.reads), "sent": len(o.sent), "written": len(o.written), "ending": cs.ending})
		}
	}
	res.Note("slowest byte-pipe case %v", slowest.Round(time.Millisecond))
	if c.replay != "" {
		return
	}
	c16Internal(c)
	c16Names(c)
	c16OpenAborts(c)
	c16ConcurrentProbe(c)
	c16WriteCloses(c)
	c16SigCloses(c)
	tL := time.Now()
	for _, l := range [][3]bool{{true, true, false}, {true, false, true}, {true, true, true},
		{false, true, false}, {false, false, true}, {false, true, true}} {
		c16Lock(c, l[0], l[1], l[2])
	}
	c16Stalls(c)
	tS := time.Now()
	c16Sessions(c)
	res.Note("phases: lock skeleton %v, sessions %v", tS.Sub(tL).Round(time.Millisecond), time.Since(tS).Round(time.Millisecond))
}

func c16bucket(n int) string {
	switch {
	case n <= 2:
		return "<=2"
	case n <= 8:
		return "3-8"
	case n <= 64:
		return "9-64"
	default:
		return ">64"
	}
}
