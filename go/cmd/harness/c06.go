package main

import (
	"bufio"
	"bytes"
	"encoding/json"
	"errors"
	"fmt"
	"io"
	"net"
	"os"
	"os/exec"
	"regexp"
	"sort"
	"strconv"
	"strings"
	"sync"
	"sync/atomic"
	"syscall"
	"time"

	"github.com/scrapli/scrapligo/channel"
	"github.com/scrapli/scrapligo/driver/generic"
	"github.com/scrapli/scrapligo/driver/netconf"
	"github.com/scrapli/scrapligo/driver/network"
	"github.com/scrapli/scrapligo/driver/opoptions"
	"github.com/scrapli/scrapligo/driver/options"
	"github.com/scrapli/scrapligo/platform"
	"github.com/scrapli/scrapligo/response"
	"github.com/scrapli/scrapligo/transport"
	"github.com/scrapli/scrapligo/util"

	"verifgo/facts"
	"verifgo/sim"
	"verifgo/vlib"
)

// Declared timing slack of the "promptly" clause (measured, not proved): an operation must return
// within c06Prompt of the moment the transport first reported the loss; its timeout is c06Timeout.
const (
	c06Timeout = 2 * time.Second
	c06Prompt  = 300 * time.Millisecond
	c06Watch   = 6 * time.Second // in-child watchdog per call: far beyond the timeout = a hang
)

// ---------------------------------------------------------------------------------------------
// scenarios

var c06scenarios = []string{"g-send", "g-prompt", "g-inter", "g-open", "n-send", "n-open",
	"nc10-open", "nc11-open", "nc10-rpc", "nc11-rpc", "nc11-rpc2",
	// the per-operation options that select another read path
	"g-send+x", "g-send+e", "g-send+i", "g-inter+x", "g-cb", "n-send+x",
	// batches, privilege navigation into configuration mode, in-channel authentication during Open
	"g-batch", "n-config", "g-tauth-open", "g-sauth-open",
	// NETCONF: subscription establishment, a transport that echoes requests
	"nc10-sub", "nc11-sub", "nc10-rpc-echo", "nc11-rpc-echo",
	// platform-built drivers: loss during the on-open steps inside Open, during Close's on-close steps
	"p-iosxe-open", "p-syn-open", "p-gen-open", "p-iosxe-close",
	// operations built on other operations: loss in the middle of their sequence
	"n-config1", "n-configf", "g-batchf",
	// AcquirePriv as an operation of its own: towards another level, and for the recorded level
	"n-acquire", "n-acquire-cur"}

type c06scen struct {
	Name  string
	VSeed uint64
	Seg   int // 0 whole, 1 one byte per read, 2 fixed K
	Rough int // 0: in the property's domain by construction; >0: a deliberately awkward variant
	// derived from VSeed
	segK   int
	host   string
	cmd    string
	out    string
	secret string
	delay  time.Duration
}

// base is the scenario without its operation-option suffix ("g-send+x" -> "g-send"); opt is the
// suffix: x = ExactMatchInput (echo read by ReadUntilExplicit), e = Eager (no prompt read),
// i = InterimPromptPatterns (prompt read by ReadUntilAnyPrompt).
func (s c06scen) base() string {
	if i := strings.IndexByte(s.Name, '+'); i >= 0 {
		return s.Name[:i]
	}
	return s.Name
}

func (s c06scen) opt() string {
	if i := strings.IndexByte(s.Name, '+'); i >= 0 {
		return s.Name[i+1:]
	}
	return ""
}

func (s c06scen) opOpts() []util.Option {
	switch s.opt() {
	case "x":
		return []util.Option{opoptions.WithExactMatchInput()}
	case "e":
		return []util.Option{opoptions.WithEager()}
	case "i":
		return []util.Option{opoptions.WithInterimPromptPattern([]*regexp.Regexp{regexp.MustCompile(facts.C06Patterns["password"])})}
	}
	return nil
}

func (s c06scen) id() string {
	return fmt.Sprintf("%s %d %d %d", s.Name, s.VSeed, s.Seg, s.Rough)
}

func c06mk(name string, vseed uint64, seg, rough int) c06scen {
	r := vlib.NewRng(vseed)
	s := c06scen{Name: name, VSeed: vseed, Seg: seg, Rough: rough}
	s.segK = r.Range(2, 9)
	s.host = r.Pick([]string{"r1", "core-sw1", "edge.lab", "a", "pe-7.example-net"})
	s.cmd = r.Pick([]string{"show version", "show ip int brief", "sh run | i host", "x", "display current-configuration"})
	var b strings.Builder
	for l := r.Range(0, 4); l > 0; l-- {
		for w := r.Range(1, 5); w > 0; w-- {
			b.WriteString(r.Pick([]string{"Interface", "up", "down", "Gi0/1", "10.0.0.1", "is", "a #b", "x > y", "100%", "(config)", "ok"}))
			if w > 1 {
				b.WriteString(" ")
			}
		}
		b.WriteString("\n")
	}
	s.out = b.String()
	s.secret = r.Pick([]string{"s3cret", "p", "longer-secret-0123456789"})
	s.delay = []time.Duration{20, 50, 150}[r.Intn(3)] * time.Microsecond
	return s
}

type c06res struct {
	Class     string `json:"c"` // canonical error class (errClass)
	Ident     string `json:"i"` // nil|connection|simio|simwrite|timeout|privilege|other
	Result    string `json:"r"`
	ElapsedUs int64  `json:"e"`
	SinceLoss int64  `json:"s"`  // µs between the transport's first loss report and the return (-1: n/a)
	LossFirst bool   `json:"lf"` // the transport had reported the loss (≥ 500 µs) before the call started
	Hang      bool   `json:"h"`
}

type c06write struct {
	Data    []byte `json:"d"`
	Emitted int    `json:"e"` // bytes emitted before this write, relative to the arming point
}

type c06obs struct {
	Setup        string     `json:"setup"` // "" or why the scenario could not be brought up
	Op           c06res     `json:"op"`
	Later        []c06res   `json:"later"`
	LossReported bool       `json:"lr"`
	Pre          []byte     `json:"pre"`    // emitted before any write after arming (device speaks first)
	Stream       []byte     `json:"stream"` // emitted after the arming point
	Cuts         []int      `json:"cuts"`   // read boundaries, relative to the arming point
	Writes       []c06write `json:"writes"`
	Delivered    int        `json:"dl"`    // delivered after arming
	Written      int        `json:"wr"`    // written after arming
	NB           []byte     `json:"nb"`    // NETCONF: what Driver.read is holding when the RPC starts
	Stale        [][]byte   `json:"stale"` // idle scenarios: the unsolicited bytes, as the reads delivered them
	Hist         []c06hist  `json:"hist"`  // what the caller tried on the same driver object after the loss
	Subs         [][]byte   `json:"subs"`  // NETCONF: GetSubscriptionMessages(7) at the end of the case
}

// c06hist is one step of the history after the loss: openfail (Open while the device refuses the
// connection), open (Open with a transport open that goes through), close, or an operation.
type c06hist struct {
	Act string `json:"a"`
	Res c06res `json:"r"`
}

type c06env struct {
	pipe  *sim.Pipe
	lossy *sim.Lossy
	open  func() error
	warm  func() error // extra exchanges before arming (not for *-open)
	op    func() (string, error)
	later []func() (string, error)
	close func() error
	unsol func(class int) []byte            // idle scenarios: what the device says unasked (by content class)
	hops  map[string]func() (string, error) // operations available to the history after the loss
	subs  func() [][]byte                   // NETCONF: the messages stored for subscription 7
}

// The property quantifies over error VALUES ("persistent non-EOF error such as EIO / connection
// reset"): every case draws the value its transport reports from these families. A value is of
// the EOF kind iff errors.Is(err, io.EOF).
type c06eofLookalike struct{}

func (c06eofLookalike) Error() string { return "EOF" }

type c06errVal struct {
	name string
	err  error
}

var c06readErrs = []c06errVal{
	{"sim.ErrIO", sim.ErrIO},
	{"net.OpError(ECONNRESET)", &net.OpError{Op: "read", Net: "tcp", Err: syscall.ECONNRESET}},
	{"net.OpError(ETIMEDOUT)", &net.OpError{Op: "read", Net: "tcp", Err: syscall.ETIMEDOUT}},
	{"os.ErrDeadlineExceeded", os.ErrDeadlineExceeded},
	{"syscall.EAGAIN", syscall.EAGAIN},
	{"io.ErrUnexpectedEOF", io.ErrUnexpectedEOF},
	{"lookalike(\"EOF\")", c06eofLookalike{}},
}

var c06eofErrs = []c06errVal{
	{"io.EOF", io.EOF},
	{"wrapped(io.EOF)", fmt.Errorf("read tcp 10.0.0.1:22: %w", io.EOF)},
}

var c06writeErrs = []c06errVal{
	{"sim.ErrWrite", sim.ErrWrite},
	{"net.OpError(EPIPE)", &net.OpError{Op: "write", Net: "tcp", Err: syscall.EPIPE}},
	{"net.OpError(ETIMEDOUT)", &net.OpError{Op: "write", Net: "tcp", Err: syscall.ETIMEDOUT}},
	{"os.ErrDeadlineExceeded", os.ErrDeadlineExceeded},
	{"syscall.EAGAIN", syscall.EAGAIN},
	{"io.ErrClosedPipe", io.ErrClosedPipe},
}

// c06pick is the error value of a case (a function of the case line, so a replay draws the same).
func c06pick(s c06scen, kind string, k int) c06errVal {
	i := int((s.VSeed + uint64(k)) % 1000003)
	switch kind {
	case "eof", "both", "tclose":
		return c06eofErrs[i%len(c06eofErrs)]
	case "werr":
		return c06writeErrs[i%len(c06writeErrs)]
	}
	return c06readErrs[i%len(c06readErrs)]
}

// c06curKind is the loss kind of the case being executed (cases run one at a time per process).
var c06curKind string

func c06ident(err error) string {
	fams := [][]c06errVal{c06readErrs, c06writeErrs}
	names := []string{"simio", "simwrite"}
	if c06curKind == "werr" {
		fams[0], fams[1] = fams[1], fams[0]
		names[0], names[1] = names[1], names[0]
	}
	for fi, fam := range fams {
		for _, v := range fam {
			if err != nil && !errors.Is(err, util.ErrTimeoutError) && !errors.Is(err, util.ErrPrivilegeError) && errors.Is(err, v.err) {
				return names[fi]
			}
		}
	}
	switch {
	case err == nil:
		return "nil"
	case errors.Is(err, util.ErrTimeoutError):
		return "timeout"
	case errors.Is(err, util.ErrPrivilegeError):
		return "privilege"
	case errors.Is(err, util.ErrConnectionError):
		return "connection"
	case errors.Is(err, sim.ErrIO):
		return "simio"
	case errors.Is(err, sim.ErrWrite):
		return "simwrite"
	}
	return "other"
}

func (s c06scen) setSeg(p *sim.Pipe) {
	switch s.Seg {
	case 1:
		p.Seg = sim.SegFixed(1)
	case 2:
		p.Seg = sim.SegFixed(s.segK)
	}
}

const c06genYAML = `---
platform-type: 'c06gen'
default:
  driver-type: 'generic'
  on-open:
    - operation: 'channel.write'
      input: 'stty cols 200'
    - operation: 'channel.return'
  on-close:
    - operation: 'channel.write'
      input: 'exit'
    - operation: 'channel.return'
`

// c06synYAML: a network platform definition over the harness patterns whose on-open steps use every
// on-X operation kind (acquire-priv, driver.send-command, channel.write, channel.return).
func c06synYAML() string {
	q := func(s string) string { return "'" + strings.ReplaceAll(s, "'", "''") + "'" }
	p := facts.C06Patterns
	return `---
platform-type: 'c06syn'
default:
  driver-type: 'network'
  privilege-levels:
    exec:
      name: 'exec'
      pattern: ` + q(p["exec"]) + `
      previous-priv:
      deescalate:
      escalate:
      escalate-auth: false
      escalate-prompt:
    privilege-exec:
      name: 'privilege-exec'
      pattern: ` + q(p["privexec"]) + `
      previous-priv: 'exec'
      deescalate: 'disable'
      escalate: 'enable'
      escalate-auth: true
      escalate-prompt: ` + q(p["password"]) + `
    configuration:
      name: 'configuration'
      pattern: ` + q(p["config"]) + `
      previous-priv: 'privilege-exec'
      deescalate: 'end'
      escalate: 'configure terminal'
      escalate-auth: false
      escalate-prompt:
  default-desired-privilege-level: 'privilege-exec'
  network-on-open:
    - operation: 'acquire-priv'
    - operation: 'driver.send-command'
      command: 'terminal length 0'
    - operation: 'channel.write'
      input: 'terminal monitor'
    - operation: 'channel.return'
  network-on-close:
    - operation: 'channel.write'
      input: 'exit'
    - operation: 'channel.return'
`
}

// c06respWithErr marks an operation that returned a response object together with its error.
const c06respWithErr = "RESPONSE-WITH-ERROR:"

// c06linesFile writes the lines to a file of this process' own (for the …FromFile operations).
func c06linesFile(lines []string) string {
	f, err := os.CreateTemp("", "c06-lines-*")
	if err != nil {
		panic(err)
	}
	defer f.Close()
	_, _ = f.WriteString(strings.Join(lines, "\n") + "\n")
	return f.Name()
}

func c06privs() map[string]*network.PrivilegeLevel {
	return map[string]*network.PrivilegeLevel{
		"exec": {Name: "exec", Pattern: facts.C06Patterns["exec"], PreviousPriv: ""},
		"privilege-exec": {Name: "privilege-exec", Pattern: facts.C06Patterns["privexec"], PreviousPriv: "exec",
			Escalate: "enable", EscalateAuth: true, EscalatePrompt: facts.C06Patterns["password"], Deescalate: "disable"},
		"configuration": {Name: "configuration", Pattern: facts.C06Patterns["config"], PreviousPriv: "privilege-exec",
			Escalate: "configure terminal", Deescalate: "end"},
	}
}

func (s c06scen) build() *c06env {
	e := &c06env{}
	base := []util.Option{options.WithAuthBypass(), options.WithTimeoutOps(c06Timeout), options.WithReadDelay(s.delay)}
	switch {
	case s.base() == "g-tauth-open" || s.base() == "g-sauth-open":
		// loss while channel.Open is authenticating in-channel (telnet / ssh flavour)
		dev := sim.NewC06Login(s.base() == "g-sauth-open", "admin", s.secret, s.host+"#")
		dev.Out = s.out
		s.setSeg(dev.Pipe)
		dev.Start()
		e.pipe = dev.Pipe
		la := sim.NewLossyAuth(dev)
		e.lossy = la.Lossy
		d, err := generic.NewDriver("h", options.WithCustomTransport(la), options.WithAuthUsername("admin"),
			options.WithAuthPassword(s.secret), options.WithTimeoutOps(c06Timeout), options.WithReadDelay(s.delay))
		if err != nil {
			panic(err)
		}
		e.open = d.Open
		e.close = d.Close
		send := func() (string, error) {
			r, err := d.SendCommand(s.cmd)
			if err != nil {
				return "", err
			}
			return r.Result, nil
		}
		prm := func() (string, error) { return d.GetPrompt() }
		e.later = []func() (string, error){prm, send}
		e.hops = map[string]func() (string, error){"prompt": prm, "send": send}
	case strings.HasPrefix(s.base(), "g-"):
		dev := sim.NewCLI()
		prompt := s.host + "#"
		if s.Rough == 1 {
			prompt = s.host + "# " // trailing blank: the prompt pattern already matches one byte early
		}
		dev.Prompt = func(c *sim.CLI) string {
			if c.Mode == "pw" {
				return ""
			}
			return prompt
		}
		dev.Handle = func(c *sim.CLI, line string) string {
			switch {
			case c.Hidden:
				c.Hidden = false
				return ""
			case line == "enable":
				c.Hidden = true
				return "Password:"
			case line == "":
				return ""
			}
			return s.out
		}
		s.setSeg(dev.Pipe)
		e.pipe = dev.Pipe
		e.lossy = sim.NewLossy(dev, dev.Pipe)
		opts := append(base, options.WithCustomTransport(e.lossy))
		if s.base() == "g-open" {
			dev.Start()
			opts = append(opts, options.WithOnOpen(func(d *generic.Driver) error {
				_, err := d.SendCommand("terminal length 0")
				return err
			}))
		}
		d, err := generic.NewDriver("h", opts...)
		if err != nil {
			panic(err)
		}
		e.open = d.Open
		e.close = d.Close
		send := func() (string, error) {
			r, err := d.SendCommand(s.cmd)
			if err != nil {
				return "", err
			}
			return r.Result, nil
		}
		prm := func() (string, error) { return d.GetPrompt() }
		e.warm = func() error { _, err := send(); return err }
		e.unsol = func(class int) []byte {
			log := "\n%LINK-3-UPDOWN: Interface Gi0/1, changed state to down"
			switch class {
			case 1:
				return []byte(log[:len(log)-3]) // an incomplete log line
			case 2:
				return []byte(log + "\n" + prompt) // a log line and a fresh prompt
			case 3:
				return []byte("\n" + prompt) // just a fresh prompt
			case 4:
				return []byte(log + "\n" + prompt[:len(prompt)-1]) // the prompt cut short
			}
			return nil
		}
		switch s.base() {
		case "g-send", "g-idle-send":
			e.op = func() (string, error) {
				r, err := d.SendCommand(s.cmd, s.opOpts()...)
				if err != nil {
					return "", err
				}
				return r.Result, nil
			}
		case "g-batch", "g-batchf":
			// SendCommands / SendCommandsFromFile: the loss strikes somewhere inside the batch; on an
			// error no response object may come back (it would present the completed part as a result)
			e.op = func() (string, error) {
				var m *response.MultiResponse
				var err error
				if s.base() == "g-batchf" {
					lf := c06linesFile([]string{s.cmd, "show clock", s.cmd})
					m, err = d.SendCommandsFromFile(lf)
					_ = os.Remove(lf)
				} else {
					m, err = d.SendCommands([]string{s.cmd, "show clock", s.cmd})
				}
				if err != nil {
					if m != nil {
						return fmt.Sprintf("%s%d responses", c06respWithErr, len(m.Responses)), err
					}
					return "", err
				}
				return m.JoinedResult(), nil
			}
		case "g-prompt", "g-idle-prompt":
			e.op = prm
		case "g-inter", "g-idle-inter":
			e.op = func() (string, error) {
				r, err := d.SendInteractive([]*channel.SendInteractiveEvent{
					{ChannelInput: "enable", ChannelResponse: facts.C06Patterns["password"]},
					{ChannelInput: s.secret, ChannelResponse: "", HideInput: true},
				}, s.opOpts()...)
				if err != nil {
					return "", err
				}
				return r.Result, nil
			}
		case "g-cb":
			// SendWithCallbacks: write input + return, then read (Channel.Read in a goroutine of its
			// own) until the completing callback's pattern matches
			e.op = func() (string, error) {
				cb, err := generic.NewCallback(nil, opoptions.WithCallbackContainsRe(regexp.MustCompile("(?im)^[a-z\\d.\\-@()/:]{1,48}[#>$]\\s*$")),
					opoptions.WithCallbackComplete(), opoptions.WithCallbackInsensitive(false))
				if err != nil {
					return "", err
				}
				r, err := d.SendWithCallbacks(s.cmd, []*generic.Callback{cb}, c06Timeout)
				if err != nil {
					return "", err
				}
				return r.Result, nil
			}
		case "g-idle-readall":
			// Channel.ReadAll as an operation of its own (what a console / file consumer polls)
			// polled a few times: the first call may legitimately hand out bytes received before
			// the loss; a consumer that keeps polling must be told the stream is gone
			e.op = func() (string, error) {
				var all []byte
				for i := 0; i < 4; i++ {
					b, err := d.Channel.ReadAll()
					if err != nil {
						return "", err
					}
					all = append(all, b...)
					time.Sleep(500 * time.Microsecond)
				}
				return string(all), nil
			}
		}
		e.later = []func() (string, error){prm, send}
		e.hops = map[string]func() (string, error){"prompt": prm, "send": send, "readall": func() (string, error) {
			var all []byte
			for i := 0; i < 3; i++ {
				b, err := d.Channel.ReadAll()
				if err != nil {
					return "", err
				}
				all = append(all, b...)
				time.Sleep(300 * time.Microsecond)
			}
			return string(all), nil
		}}
	case s.base() == "p-gen-open":
		// a generic platform definition whose on-open steps only write (channel.write, channel.return)
		dev := sim.NewCLI()
		dev.Prompt = func(c *sim.CLI) string { return s.host + "#" }
		dev.Handle = func(c *sim.CLI, line string) string {
			if line == "" || strings.HasPrefix(line, "stty") {
				return ""
			}
			return s.out
		}
		s.setSeg(dev.Pipe)
		e.pipe = dev.Pipe
		e.lossy = sim.NewLossy(dev, dev.Pipe)
		pf, err := platform.NewPlatform([]byte(c06genYAML), "h", append(base, options.WithCustomTransport(e.lossy))...)
		if err != nil {
			panic(err)
		}
		d, err := pf.GetGenericDriver()
		if err != nil {
			panic(err)
		}
		e.open = d.Open
		e.close = d.Close
		send := func() (string, error) {
			r, err := d.SendCommand(s.cmd)
			if err != nil {
				return "", err
			}
			return r.Result, nil
		}
		prm := func() (string, error) { return d.GetPrompt() }
		e.later = []func() (string, error){send, prm}
		e.hops = map[string]func() (string, error){"prompt": prm, "send": send}
	case strings.HasPrefix(s.base(), "n-") || strings.HasPrefix(s.base(), "p-"):
		dev := sim.NewCLI()
		dev.Mode = "exec"
		dev.Prompt = func(c *sim.CLI) string {
			switch c.Mode {
			case "exec":
				return s.host + ">"
			case "configuration":
				return s.host + "(config)#"
			}
			return s.host + "#"
		}
		dev.Handle = func(c *sim.CLI, line string) string {
			switch {
			case c.Hidden:
				c.Hidden = false
				if line == s.secret {
					c.Mode = "privilege-exec"
				}
				return ""
			case line == "enable" && c.Mode == "exec":
				c.Hidden = true
				return "Password:"
			case line == "configure terminal" && c.Mode == "privilege-exec":
				c.Mode = "configuration"
				return ""
			case line == "end" && c.Mode == "configuration":
				c.Mode = "privilege-exec"
				return ""
			case line == "" || c.Mode == "configuration":
				return ""
			}
			return s.out
		}
		s.setSeg(dev.Pipe)
		e.pipe = dev.Pipe
		e.lossy = sim.NewLossy(dev, dev.Pipe)
		opts := append(base, options.WithCustomTransport(e.lossy), options.WithPrivilegeLevels(c06privs()),
			options.WithDefaultDesiredPriv("privilege-exec"), options.WithAuthSecondary(s.secret))
		if s.base() == "n-open" {
			opts = append(opts, options.WithNetworkOnOpen(func(d *network.Driver) error {
				_, err := d.SendCommand("terminal length 0")
				return err
			}))
		}
		var d *network.Driver
		var err error
		if strings.HasPrefix(s.base(), "p-") {
			// the driver is built from a platform definition: the embedded cisco_iosxe with its real
			// on-open / on-close steps, or a synthetic one using every on-X operation kind
			var src interface{} = "cisco_iosxe"
			if strings.HasPrefix(s.base(), "p-syn") {
				src = []byte(c06synYAML())
			}
			pf, perr := platform.NewPlatform(src, "h", append(base, options.WithCustomTransport(e.lossy), options.WithAuthSecondary(s.secret))...)
			if perr != nil {
				panic(perr)
			}
			d, err = pf.GetNetworkDriver()
		} else {
			d, err = network.NewDriver("h", opts...)
		}
		if err != nil {
			panic(err)
		}
		e.open = d.Open
		e.close = d.Close
		send := func() (string, error) {
			r, err := d.SendCommand(s.cmd)
			if err != nil {
				return "", err
			}
			return r.Result, nil
		}
		e.op = func() (string, error) {
			r, err := d.SendCommand(s.cmd, s.opOpts()...)
			if err != nil {
				return "", err
			}
			return r.Result, nil
		}
		if strings.HasSuffix(s.base(), "-close") {
			// the operation under test is Close itself: the loss strikes during its on-close steps
			e.op = func() (string, error) { return "", d.Close() }
		}
		switch s.base() {
		case "n-config", "n-configf":
			// SendConfigs / SendConfigsFromFile: navigate exec -> privilege-exec (password) ->
			// configuration, then a batch
			e.op = func() (string, error) {
				lines := []string{"interface Gi0/1", "description uplink"}
				var m *response.MultiResponse
				var err error
				if s.base() == "n-configf" {
					lf := c06linesFile(lines)
					m, err = d.SendConfigsFromFile(lf)
					_ = os.Remove(lf)
				} else {
					m, err = d.SendConfigs(lines)
				}
				if err != nil {
					if m != nil {
						return fmt.Sprintf("%s%d responses", c06respWithErr, len(m.Responses)), err
					}
					return "", err
				}
				return m.JoinedResult(), nil
			}
		case "n-config1":
			// SendConfig: one multi-line string, built on SendConfigs, collapsed into one response
			e.op = func() (string, error) {
				r, err := d.SendConfig("interface Gi0/1\ndescription uplink")
				if err != nil {
					if r != nil {
						return c06respWithErr + r.Result, err
					}
					return "", err
				}
				return r.Result, nil
			}
		}
		e.later = []func() (string, error){func() (string, error) { return d.GetPrompt() }, send}
		acq := func(level string) func() (string, error) {
			return func() (string, error) { return "", d.AcquirePriv(level) }
		}
		e.hops = map[string]func() (string, error){"prompt": func() (string, error) { return d.GetPrompt() }, "send": send,
			// AcquirePriv for the level the driver has recorded / for another level: a round trip either way
			"acquire-cur": func() (string, error) {
				lvl := d.CurrentPriv
				if _, ok := d.PrivilegeLevels[lvl]; !ok {
					lvl = "privilege-exec"
				}
				return "", d.AcquirePriv(lvl)
			},
			"acquire-other": acq("configuration")}
		switch s.base() {
		case "n-acquire": // AcquirePriv as an operation of its own: exec -> privilege-exec -> configuration
			e.op = acq("configuration")
		case "n-acquire-cur", "n-idle-acquire-cur": // the level the driver already recorded
			e.warm = func() error { _, err := send(); return err }
			e.op = acq("privilege-exec")
		case "n-idle-acquire-other":
			e.warm = func() error { _, err := send(); return err }
			e.op = acq("configuration")
		}
		e.unsol = func(class int) []byte {
			log := "\n%LINK-3-UPDOWN: Interface Gi0/1, changed state to down"
			prompt := s.host + "#"
			switch class {
			case 1:
				return []byte(log[:len(log)-3])
			case 2:
				return []byte(log + "\n" + prompt)
			case 3:
				return []byte("\n" + prompt)
			case 4:
				return []byte(log + "\n" + prompt[:len(prompt)-1])
			}
			return nil
		}
	default: // NETCONF
		v11 := strings.HasPrefix(s.base(), "nc11")
		srv := sim.NewNCServer(true, v11)
		if s.Rough == 1 {
			srv.HelloSuffix = []byte("\n")
			srv.TrailingLF = true
		}
		srv.Behave = func(i int, req sim.NCRequest) sim.NCReply {
			p := fmt.Sprintf(`<rpc-reply xmlns="urn:ietf:params:xml:ns:netconf:base:1.0" message-id="%d"><data><cfg>%s</cfg></data></rpc-reply>`,
				req.MessageID, strings.ReplaceAll(strings.ReplaceAll(s.out, "<", ""), ">", ""))
			if bytes.Contains(req.Raw, []byte("establish-subscription")) {
				p = fmt.Sprintf(`<rpc-reply xmlns="urn:ietf:params:xml:ns:netconf:base:1.0" message-id="%d"><subscription-result xmlns="urn:ietf:params:xml:ns:yang:ietf-event-notifications">notif-bis:ok</subscription-result><subscription-id xmlns="urn:ietf:params:xml:ns:yang:ietf-event-notifications">7</subscription-id></rpc-reply>`, req.MessageID)
			}
			return sim.NCReply{Payload: []byte(p), Chunks: []int{10 + s.segK, 3}}
		}
		if strings.HasSuffix(s.base(), "-echo") {
			srv.Echo = true // a transport that echoes the request back (Driver.read's "</rpc>" branch)
		}
		s.setSeg(srv.Pipe)
		srv.Start()
		e.pipe = srv.Pipe
		e.lossy = sim.NewLossy(srv, srv.Pipe)
		ncopts := append(base, options.WithCustomTransport(e.lossy))
		if s.VSeed%3 == 0 {
			ncopts = append(ncopts, options.WithNetconfForceSelfClosingTags())
		}
		d, err := netconf.NewDriver("h", ncopts...)
		if err != nil {
			panic(err)
		}
		e.open = d.Open
		e.close = d.Close
		rpc := func() (string, error) {
			r, err := d.GetConfig("running")
			if err != nil {
				return "", err
			}
			return r.Result, nil
		}
		e.op = rpc
		if strings.HasSuffix(s.base(), "-rpc") || strings.HasSuffix(s.base(), "-rpc-echo") {
			// the operation under test is one of the RPC kinds, drawn from the case's variant seed
			kinds := []func() (*response.NetconfResponse, error){
				func() (*response.NetconfResponse, error) { return d.GetConfig("running") },
				func() (*response.NetconfResponse, error) { return d.Get("<interfaces/>") },
				func() (*response.NetconfResponse, error) {
					return d.EditConfig("candidate", "<config><x>1</x></config>")
				},
				func() (*response.NetconfResponse, error) { return d.CopyConfig("running", "startup") },
				func() (*response.NetconfResponse, error) { return d.DeleteConfig("startup") },
				func() (*response.NetconfResponse, error) { return d.Commit() },
				func() (*response.NetconfResponse, error) { return d.Discard() },
				func() (*response.NetconfResponse, error) { return d.Lock("candidate") },
				func() (*response.NetconfResponse, error) { return d.Unlock("candidate") },
				func() (*response.NetconfResponse, error) { return d.Validate("candidate") },
				func() (*response.NetconfResponse, error) { return d.RPC(opoptions.WithFilter("<get-schema/>")) },
			}
			kf := kinds[int(s.VSeed%uint64(len(kinds)))]
			e.op = func() (string, error) {
				r, err := kf()
				if err != nil {
					return "", err
				}
				return r.Result, nil
			}
		}
		if strings.HasSuffix(s.base(), "-sub") {
			e.op = func() (string, error) {
				r, err := d.EstablishPeriodicSubscription("/interfaces", 1000)
				if err != nil {
					return "", err
				}
				return r.Result, nil
			}
		}
		e.subs = func() [][]byte { return d.GetSubscriptionMessages(7) }
		e.later = []func() (string, error){rpc, rpc}
		e.hops = map[string]func() (string, error){"rpc": rpc}
		e.unsol = func(class int) []byte {
			note := srv.Frame(sim.NCReply{Payload: []byte(`<notification xmlns="urn:ietf:params:xml:ns:netconf:notification:1.0"><eventTime>2026-01-01T00:00:00Z</eventTime><push-update xmlns="urn:ietf:params:xml:ns:yang:ietf-yang-push"><subscription-id>7</subscription-id><link-down><if>Gi0/1</if></link-down></push-update></notification>`)})
			switch class {
			case 1:
				return note[:len(note)/2]
			case 2:
				return note
			case 3:
				return append(append([]byte{}, note...), note[:len(note)/3]...)
			case 4: // a complete rpc-reply nobody asked for, carrying the id the next RPC will use
				return srv.Frame(sim.NCReply{Payload: []byte(`<rpc-reply xmlns="urn:ietf:params:xml:ns:netconf:base:1.0" message-id="101"><ok/></rpc-reply>`)})
			}
			return nil
		}
		if s.base() == "nc11-rpc2" {
			e.warm = func() error { _, err := rpc(); return err }
		}
	}
	return e
}

func (s c06scen) atOpen() bool { return strings.HasSuffix(s.base(), "-open") }
func (s c06scen) isIdle() bool { return strings.Contains(s.base(), "-idle-") }
func (s c06scen) isNC() bool   { return strings.HasPrefix(s.base(), "nc") }

// c06call runs f with the in-child watchdog.
func c06call(l *sim.Lossy, f func() (string, error)) c06res {
	type ret struct {
		s   string
		err error
		at  time.Time
	}
	ch := make(chan ret, 1)
	t0 := time.Now()
	go func() {
		s, err := f()
		ch <- ret{s, err, time.Now()}
	}()
	select {
	case r := <-ch:
		res := c06res{Class: errClass(r.err), Ident: c06ident(r.err), Result: r.s, ElapsedUs: r.at.Sub(t0).Microseconds(), SinceLoss: -1}
		if at, _ := l.Loss(); !at.IsZero() {
			res.LossFirst = at.Add(500 * time.Microsecond).Before(t0)
			if at.Before(t0) {
				at = t0
			}
			if d := r.at.Sub(at); d >= 0 {
				res.SinceLoss = d.Microseconds()
			} else {
				res.SinceLoss = 0
			}
		}
		return res
	case <-time.After(c06Watch):
		return c06res{Class: "hang", Ident: "hang", Hang: true, ElapsedUs: time.Since(t0).Microseconds(), SinceLoss: -1}
	}
}

// c06exec runs one case: kind "" is the lossless reference run.
func c06exec(s c06scen, kind string, k int) (o c06obs) {
	e := s.build()
	c06curKind = kind
	if kind != "" {
		v := c06pick(s, kind, k)
		switch kind {
		case "eof", "both", "tclose":
			e.lossy.EOFErr = v.err
		case "werr":
			e.lossy.WriteErr = v.err
		default:
			e.lossy.ReadErr = v.err
		}
	}
	arm := func() {
		e.pipe.SetFaults(func(p *sim.Pipe) {
			switch kind {
			case "eof":
				p.EOFAt = p.Delivered + k
			case "err":
				p.ErrAt = p.Delivered + k
			case "werr":
				p.WriteErrAfter = p.Written + k
			case "both": // reads end and writes fail, both after k bytes
				p.EOFAt = p.Delivered + k
				p.WriteErrAfter = p.Written + k
			}
		})
		if kind == "tclose" { // a third party closes the transport after k more bytes
			if k == 0 {
				e.lossy.ThirdPartyClose()
			} else {
				// reads are cut at byte k (StallAt), and the read that delivers byte k triggers the close
				e.pipe.SetFaults(func(p *sim.Pipe) {
					p.StallAt = p.Delivered + k
					e.lossy.CloseAt = p.Delivered + k
				})
			}
		}
	}
	var baseD, baseW, baseReads, baseWrites int
	mark := func() {
		e.pipe.Snapshot(func() {
			baseD, baseW = e.pipe.Delivered, e.pipe.Written
			baseReads, baseWrites = len(e.pipe.ReadLog), len(e.pipe.Writes)
		})
	}
	if s.atOpen() {
		arm()
		o.Op = c06call(e.lossy, func() (string, error) { return "", e.open() })
		if o.Op.Ident == "nil" {
			// the loss did not strike during Open (k at the very end): later operations must see it
			for _, f := range e.later {
				o.Later = append(o.Later, c06call(e.lossy, f))
			}
		}
		time.Sleep(3 * time.Millisecond) // a panic of the read goroutine after a failed Open lands here
	} else {
		if err := e.open(); err != nil {
			o.Setup = "open: " + err.Error()
			return o
		}
		if e.warm != nil {
			if err := e.warm(); err != nil {
				o.Setup = "warm-up: " + err.Error()
				return o
			}
		}
		// quiesce: everything the device has emitted so far is delivered before the loss point is
		// armed, so that byte k means the same in the reference run and in every case
		for t0 := time.Now(); time.Since(t0) < 2*time.Second; {
			quiet := false
			e.pipe.Snapshot(func() { quiet = e.pipe.Delivered == e.pipe.Emitted })
			if quiet {
				break
			}
			time.Sleep(100 * time.Microsecond)
		}
		if s.isNC() {
			time.Sleep(2 * time.Millisecond) // let Driver.read drain what the warm-up left
		}
		mark()
		// what Driver.read holds: bytes delivered so far that no message consumed (a trailing LF
		// that arrived in a read of its own after the 1.1 end-of-chunks marker)
		if s.base() == "nc11-rpc2" {
			e.pipe.Snapshot(func() {
				d := e.pipe.DeliveredBytes()
				if n := len(e.pipe.ReadLog); n > 0 && e.pipe.ReadLog[n-1] == 1 && len(d) > 0 && d[len(d)-1] == '\n' {
					o.NB = []byte("\n")
				}
			})
		}
		if s.isIdle() {
			// k encodes (content class, number of reads): the device speaks unasked, then the
			// connection is lost, all while no operation is in flight
			class, parts := k/4, k%4
			if parts == 0 {
				parts = 1
			}
			data := e.unsol(class)
			e.pipe.SetFaults(func(p *sim.Pipe) {
				if kind == "eof" {
					p.EOFAt = p.Delivered + len(data)
				} else {
					p.ErrAt = p.Delivered + len(data)
				}
			})
			for i := 0; i < parts; i++ {
				lo, hi := len(data)*i/parts, len(data)*(i+1)/parts
				e.pipe.Snapshot(func() {
					e.pipe.Emit(data[lo:hi])
					e.pipe.EmitBarrier()
				})
				time.Sleep(400 * time.Microsecond)
			}
			for t0 := time.Now(); ; {
				if at, _ := e.lossy.Loss(); !at.IsZero() {
					break
				}
				if time.Since(t0) > time.Second {
					o.Setup = "the loss was not reported within 1 s while idle"
					return o
				}
				time.Sleep(200 * time.Microsecond)
			}
			time.Sleep(3 * time.Millisecond) // the read goroutine exits / blocks handing over the error
			e.pipe.Snapshot(func() {
				d := e.pipe.DeliveredBytes()
				pos := 0
				for i, sz := range e.pipe.ReadLog {
					if i >= baseReads {
						o.Stale = append(o.Stale, append([]byte{}, d[pos:pos+sz]...))
					}
					pos += sz
				}
			})
		} else {
			arm()
		}
		o.Op = c06call(e.lossy, e.op)
		if !o.Op.Hang && !(kind != "" && o.Op.Ident == "timeout") {
			for _, f := range e.later {
				r := c06call(e.lossy, f)
				o.Later = append(o.Later, r)
				if r.Hang {
					break
				}
			}
		}
		if at, _ := e.lossy.Loss(); kind != "" && !o.Op.Hang && o.Op.Ident != "timeout" && (!at.IsZero() || o.Op.Ident != "nil") {
			o.Hist = c06history(s, e, kind, k)
		}
	}
	if e.subs != nil && kind != "" {
		o.Subs = e.subs()
	}
	at, _ := e.lossy.Loss()
	o.LossReported = !at.IsZero()
	e.pipe.Snapshot(func() {
		all := e.pipe.EmittedBytes()
		o.Stream = append([]byte{}, all[baseD:]...)
		pos := 0
		for i, sz := range e.pipe.ReadLog {
			pos += sz
			if i >= baseReads {
				o.Cuts = append(o.Cuts, pos-baseD)
			}
		}
		for i, w := range e.pipe.Writes {
			if i >= baseWrites {
				o.Writes = append(o.Writes, c06write{Data: w.Data, Emitted: w.EmittedBefore - baseD})
			}
		}
		if len(o.Writes) > 0 && o.Writes[0].Emitted > 0 {
			o.Pre = append([]byte{}, o.Stream[:o.Writes[0].Emitted]...)
		} else if len(o.Writes) == 0 {
			o.Pre = o.Stream
		}
		o.Delivered = e.pipe.Delivered - baseD
		o.Written = e.pipe.Written - baseW
	})
	if kind == "" && e.close != nil {
		// lossless reference run (in the parent process): do not leave its goroutines polling
		done := make(chan struct{})
		go func() { _ = e.close(); close(done) }()
		select {
		case <-done:
		case <-time.After(2 * time.Second):
		}
	}
	return o
}

// c06history: after the loss the caller keeps trying things on the same driver object, in an order
// drawn from the case line: Open while the device refuses the connection, Open with a transport
// open that goes through (the transport itself stays dead), Close, further operations.
func c06history(s c06scen, e *c06env, kind string, k int) []c06hist {
	h := uint64(len(kind))
	for _, ch := range kind + s.Name {
		h = h*131 + uint64(ch)
	}
	r := vlib.NewRng(s.VSeed*31 + uint64(k)*7 + h)
	acts := []string{"openfail", "openfail", "open", "close"}
	// a second Open while the first read goroutine is still alive (persistent read error: blocked
	// handing it over; write error: reading) is API misuse (two read loops, C07's subject): there
	// the pass-through Open is only tried after a Close
	closedOnce := kind == "eof"
	var ops []string
	for name := range e.hops {
		if (kind == "werr" || kind == "both") && name == "readall" {
			continue // a write-only failure is invisible to (and irrelevant for) a pure reader
		}
		ops = append(ops, name)
	}
	sort.Strings(ops)
	var out []c06hist
	n := 5
	for i := 0; i < n; i++ {
		var act string
		if i%2 == 0 && i < n-1 {
			act = acts[r.Intn(len(acts))]
			if act == "open" && !closedOnce {
				act = "close"
			}
			if act == "close" {
				closedOnce = true
			}
		} else {
			act = ops[r.Intn(len(ops))] // every control action is followed by an operation
		}
		var res c06res
		switch act {
		case "openfail":
			e.lossy.SetOpenFail(true)
			res = c06call(e.lossy, func() (string, error) { return "", e.open() })
			e.lossy.SetOpenFail(false)
		case "open":
			res = c06call(e.lossy, func() (string, error) { return "", e.open() })
		case "close":
			res = c06call(e.lossy, func() (string, error) { return "", e.close() })
		default:
			res = c06call(e.lossy, e.hops[act])
		}
		out = append(out, c06hist{Act: act, Res: res})
		if res.Hang || res.Ident == "timeout" {
			break
		}
	}
	return out
}

// c06judgeSubs: what GetSubscriptionMessages hands out after a loss is complete messages only (the
// truncated-success clause for the subscription store): never a message the loss cut short.
func c06judgeSubs(c *ctx, caseLine string, kind string, subs [][]byte) bool {
	for _, m := range subs {
		c.res.Count("subscription message retrieved after the loss")
		// (a read that carried a complete message and the beginning of the next one is stored as one
		// blob: message framing is C08's subject; here: no blob that holds no complete message)
		complete := false
		for _, end := range []string{"</notification>]]>]]>", "</notification>\n##", "</rpc-reply>]]>]]>", "</rpc-reply>\n##"} {
			if bytes.Contains(m, []byte(end)) {
				complete = true
			}
		}
		if !complete {
			c.res.Fail("oracle", caseLine, fmt.Sprintf("after the loss (%s) GetSubscriptionMessages returned a message the loss cut short: %q", kind, m), "truncated-subscription-message")
			return true
		}
	}
	return false
}

// c06judgeHist: once the connection is lost every later operation on that driver object returns an
// error, promptly — whatever Open / Close calls the caller makes in between (in these runs the
// transport never comes back, so a re-Open that returns nil opens a connection that is lost at once).
func c06judgeHist(c *ctx, caseLine string, s c06scen, kind string, hist []c06hist) bool {
	res := c.res
	var trail []string
	for _, h := range hist {
		trail = append(trail, h.Act+"="+h.Res.Ident)
		tr := strings.Join(trail, " ")
		r := h.Res
		switch h.Act {
		case "openfail", "open":
			res.Count("history:" + h.Act + "->" + map[bool]string{true: "nil", false: "error"}[r.Ident == "nil"])
			if r.Hang {
				res.Fail("oracle", caseLine, "after the loss ("+kind+"): Open did not return; history: "+tr, "hang:history-open")
				return true
			}
			if h.Act == "openfail" && r.Ident == "nil" {
				res.Fail("oracle", caseLine, "Open returned nil although the transport refused the connection; history: "+tr, "history-open-success-on-refused-transport")
				return true
			}
		case "close":
			res.Count("history:close")
			if r.Hang {
				res.Fail("oracle", caseLine, "after the loss ("+kind+"): Close did not return; history: "+tr, "close-hang:history")
				return true
			}
		default:
			res.Count("history:op")
			switch {
			case r.Hang:
				res.Fail("oracle", caseLine, "after the loss ("+kind+"): operation "+h.Act+" hung; history: "+tr, "hang:history-op")
				return true
			case r.Ident == "nil":
				sig := "history-success:" + kind
				if kind == "err" {
					sig = "later-success:err" // the known stale-bytes-between-hand-overs mechanism
				}
				res.Fail("oracle", caseLine, fmt.Sprintf("the connection was lost (%s) and no Open has succeeded since, yet %s reported success (%q); history after the loss: %s", kind, h.Act, r.Result, tr), sig)
				return true
			case r.Ident == "timeout":
				res.Fail("oracle", caseLine, fmt.Sprintf("after the loss (%s) %s waited out its timeout (%d ms) instead of failing promptly; history: %s", kind, h.Act, r.ElapsedUs/1000, tr), "history-waited-out-timeout:"+kind)
				return true
			case r.ElapsedUs > c06Prompt.Microseconds():
				res.Fail("oracle", caseLine, fmt.Sprintf("after the loss (%s) %s took %d ms to fail; history: %s", kind, h.Act, r.ElapsedUs/1000, tr), "history-not-prompt:"+kind)
				return true
			}
		}
	}
	return false
}

// ---------------------------------------------------------------------------------------------
// the operation as a program of phases (what the model is told the operation does)

type c06phase struct {
	write []byte // nil: a read phase
	pred  string // "e;<hex>" | "p;<names>"
}

func c06W(b string) c06phase { return c06phase{write: []byte(b)} }
func c06E(cmd string) c06phase {
	return c06phase{pred: "e;" + vlib.Hex([]byte(cmd))}
}
func c06P(names string) c06phase { return c06phase{pred: "p;" + names} }

const c06joined = "C06.exec+C06.privexec+C06.config"

func (s c06scen) program() []c06phase {
	sendG := func(cmd, prompt string) []c06phase {
		return []c06phase{c06W(cmd), c06E(cmd), c06W("\n"), c06P(prompt)}
	}
	switch s.base() {
	case "g-send", "g-idle-send":
		switch s.opt() {
		case "e": // eager: the return is written and nothing more is read
			return []c06phase{c06W(s.cmd), c06E(s.cmd), c06W("\n")}
		case "i":
			return sendG(s.cmd, "Channel.promptPattern+C06.password")
		}
		return sendG(s.cmd, "Channel.promptPattern")
	case "g-cb":
		return []c06phase{c06W(s.cmd), c06W("\n"), c06P("Channel.promptPattern")}
	case "g-prompt", "g-idle-prompt":
		return []c06phase{c06W("\n"), c06P("Channel.promptPattern")}
	case "g-inter", "g-idle-inter":
		return []c06phase{c06W("enable"), c06E("enable"), c06W("\n"), c06P("C06.password"),
			c06W(s.secret), c06W("\n"), c06P("Channel.promptPattern")}
	case "g-open":
		return sendG("terminal length 0", "Channel.promptPattern")
	case "n-send", "n-open":
		cmd := s.cmd
		if s.base() == "n-open" {
			cmd = "terminal length 0"
		}
		p := []c06phase{c06W("\n"), c06P(c06joined), // GetPrompt
			c06W("enable"), c06E("enable"), c06W("\n"), c06P("C06.exec+C06.privexec+C06.password"),
			c06W(s.secret), c06W("\n"), c06P("C06.exec+C06.privexec+C06.privexec"),
			c06W("\n"), c06P(c06joined)} // GetPrompt
		return append(p, sendG(cmd, c06joined)...)
	case "p-iosxe-open", "p-syn-open", "p-iosxe-close":
		joined, exec, priv, pw := c06joined, "C06.exec", "C06.privexec", "C06.password"
		if strings.HasPrefix(s.base(), "p-iosxe") {
			joined = "C06.iosxe.exec+C06.iosxe.privilege-exec+C06.iosxe.configuration+C06.iosxe.tclsh"
			exec, priv, pw = "C06.iosxe.exec", "C06.iosxe.privilege-exec", "C06.iosxe.password"
		}
		if s.base() == "p-iosxe-close" {
			// network-on-close: acquire-priv (already there: one GetPrompt), channel.write, channel.return
			return []c06phase{c06W("\n"), c06P(joined), c06W("exit"), c06W("\n")}
		}
		p := []c06phase{c06W("\n"), c06P(joined), // acquire-priv: GetPrompt
			c06W("enable"), c06E("enable"), c06W("\n"), c06P(exec + "+" + priv + "+" + pw),
			c06W(s.secret), c06W("\n"), c06P(exec + "+" + priv + "+" + priv),
			c06W("\n"), c06P(joined)}
		if s.base() == "p-iosxe-open" {
			p = append(p, sendG("terminal width 512", joined)...)
			return append(p, sendG("terminal length 0", joined)...)
		}
		p = append(p, sendG("terminal length 0", joined)...)
		return append(p, c06W("terminal monitor"), c06W("\n"))
	case "p-gen-open":
		return []c06phase{c06W("stty cols 200"), c06W("\n")}
	case "g-batch", "g-batchf":
		p := sendG(s.cmd, "Channel.promptPattern")
		p = append(p, sendG("show clock", "Channel.promptPattern")...)
		return append(p, sendG(s.cmd, "Channel.promptPattern")...)
	case "n-acquire":
		p := []c06phase{c06W("\n"), c06P(c06joined),
			c06W("enable"), c06E("enable"), c06W("\n"), c06P("C06.exec+C06.privexec+C06.password"),
			c06W(s.secret), c06W("\n"), c06P("C06.exec+C06.privexec+C06.privexec"),
			c06W("\n"), c06P(c06joined)}
		p = append(p, sendG("configure terminal", c06joined)...)
		return append(p, c06W("\n"), c06P(c06joined))
	case "n-acquire-cur", "n-idle-acquire-cur":
		return []c06phase{c06W("\n"), c06P(c06joined)} // one GetPrompt round trip
	case "n-idle-acquire-other":
		p := []c06phase{c06W("\n"), c06P(c06joined)}
		p = append(p, sendG("configure terminal", c06joined)...)
		return append(p, c06W("\n"), c06P(c06joined))
	case "n-config", "n-config1", "n-configf":
		p := []c06phase{c06W("\n"), c06P(c06joined),
			c06W("enable"), c06E("enable"), c06W("\n"), c06P("C06.exec+C06.privexec+C06.password"),
			c06W(s.secret), c06W("\n"), c06P("C06.exec+C06.privexec+C06.privexec"),
			c06W("\n"), c06P(c06joined)}
		p = append(p, sendG("configure terminal", c06joined)...)
		p = append(p, c06W("\n"), c06P(c06joined))
		p = append(p, sendG("interface Gi0/1", c06joined)...)
		return append(p, sendG("description uplink", c06joined)...)
	case "g-tauth-open":
		const any3 = "Channel.promptPattern+Channel.username+Channel.password"
		return []c06phase{c06P(any3), c06W("admin"), c06W("\n"), c06P(any3), c06W(s.secret), c06W("\n"), c06P(any3)}
	case "g-sauth-open":
		const any3 = "Channel.promptPattern+Channel.password+Channel.passphrase"
		return []c06phase{c06P(any3), c06W(s.secret), c06W("\n"), c06P(any3)}
	case "nc10-open", "nc11-open":
		return []c06phase{c06P("Netconf.v1Dot0Delim"), {write: []byte{}, pred: "hello"}, c06W("\n")}
	}
	return nil
}

// chunks cuts stream[from:to] at the reference run's read boundaries.
func c06chunks(stream []byte, cuts []int, from, to int) [][]byte {
	var out [][]byte
	last := from
	for _, c := range cuts {
		if c > from && c < to {
			out = append(out, stream[last:c])
			last = c
		}
	}
	if to > last {
		out = append(out, stream[last:to])
	}
	return out
}

// c06request renders the model request for a sweep; "" if the reference run does not have the
// shape the program says (reported as machinery by the caller).
func c06request(s c06scen, ref c06obs, kind string, ks []int) (string, string) {
	if kind == "tclose" {
		kind = "eof" // the model's read side; that writes fail too is allowed for in the comparison
	}
	kl := make([]string, len(ks))
	for i, k := range ks {
		kl[i] = strconv.Itoa(k)
	}
	react := func(i int) [][]byte {
		from := ref.Writes[i].Emitted
		to := len(ref.Stream)
		if i+1 < len(ref.Writes) {
			to = ref.Writes[i+1].Emitted
		}
		return c06chunks(ref.Stream, ref.Cuts, from, to)
	}
	if s.isNC() && !s.atOpen() {
		pat := "Netconf.v1Dot0Delim"
		if strings.HasPrefix(s.base(), "nc11") {
			pat = "Netconf.v1Dot1Delim"
		}
		mid := 101
		if s.base() == "nc11-rpc2" {
			mid = 102
		}
		f := []string{"c06", "nc", pat, kind, strings.Join(kl, ","), vlib.Hex(ref.NB), strconv.Itoa(mid)}
		// the writes of the RPC under test only (later RPCs wrote too)
		n := 2
		if strings.HasPrefix(s.base(), "nc11") {
			n = 3
		}
		if len(ref.Writes) < n {
			return "", fmt.Sprintf("reference run has %d writes, the RPC needs %d", len(ref.Writes), n)
		}
		for i := 0; i < n; i++ {
			f = append(f, vlib.Hex(ref.Writes[i].Data)+";"+vlib.HexList(react(i)))
		}
		return strings.Join(f, " "), ""
	}
	prog := s.program()
	f := []string{"c06", "cli", "1000", b2s(s.opt() == "x"), kind, strings.Join(kl, ","), "."}
	if len(ref.Pre) > 0 {
		f = append(f, "w;-;"+vlib.HexList(c06chunks(ref.Stream, ref.Cuts, 0, len(ref.Pre))))
	}
	wi := 0
	for _, ph := range prog {
		if ph.write == nil {
			f = append(f, "r;"+ph.pred)
			continue
		}
		if wi >= len(ref.Writes) {
			return "", fmt.Sprintf("reference run has only %d writes", len(ref.Writes))
		}
		if ph.pred != "hello" && !bytes.Equal(ref.Writes[wi].Data, ph.write) {
			return "", fmt.Sprintf("write %d of the reference run is %q, the program says %q", wi, ref.Writes[wi].Data, ph.write)
		}
		f = append(f, "w;"+vlib.Hex(ref.Writes[wi].Data)+";"+vlib.HexList(react(wi)))
		wi++
	}
	return strings.Join(f, " "), ""
}

// need / wneed of the operation under test, from the reference run (for choosing the sweep range)
func (s c06scen) extent(ref c06obs) (int, int) {
	n := len(s.program())
	nw := 0
	for _, ph := range s.program() {
		if ph.write != nil {
			nw++
		}
	}
	if s.isNC() && !s.atOpen() {
		nw = 2
		if strings.HasPrefix(s.base(), "nc11") {
			nw = 3
		}
	}
	_ = n
	L := len(ref.Stream)
	W := 0
	for i, w := range ref.Writes {
		if i < nw {
			W += len(w.Data)
		}
	}
	if nw < len(ref.Writes) {
		L = ref.Writes[nw].Emitted // reactions to the later operations' writes do not count
	}
	if !(s.isNC() && !s.atOpen()) {
		// what the operation consumes ends with its last read phase (an eager send reads no prompt)
		wr, seen := 0, 0
		for _, ph := range s.program() {
			if ph.write != nil {
				seen++
			} else {
				wr = seen
			}
		}
		if wr < nw && wr < len(ref.Writes) {
			L = ref.Writes[wr].Emitted
		}
	}
	return L, W
}

// ---------------------------------------------------------------------------------------------
// child processes

type c06job struct {
	scen c06scen
	kind string
	ks   []int
}

func (j c06job) line(ks []int) string {
	kl := make([]string, len(ks))
	for i, k := range ks {
		kl[i] = strconv.Itoa(k)
	}
	return fmt.Sprintf("c06child %s %s %s", j.scen.id(), j.kind, strings.Join(kl, ","))
}

func c06parseScen(f []string) (c06scen, bool) {
	if len(f) < 4 {
		return c06scen{}, false
	}
	v, e1 := strconv.ParseUint(f[1], 10, 64)
	seg, e2 := strconv.Atoi(f[2])
	rough, e3 := strconv.Atoi(f[3])
	if e1 != nil || e2 != nil || e3 != nil {
		return c06scen{}, false
	}
	return c06mk(f[0], v, seg, rough), true
}

// c06child is the body of a child process: run the listed cases, one result line each.
func c06child(f []string) {
	s, ok := c06parseScen(f[1:])
	if !ok || len(f) < 7 {
		fmt.Println("C06BAD")
		return
	}
	kind := f[5]
	for _, ks := range strings.Split(f[6], ",") {
		k, _ := strconv.Atoi(ks)
		o := c06exec(s, kind, k)
		o.Stream, o.Cuts, o.Writes, o.Pre = nil, nil, nil, nil
		b, _ := json.Marshal(o)
		fmt.Printf("C06R %d %s\n", k, b)
		if o.Op.Hang || (len(o.Later) > 0 && o.Later[len(o.Later)-1].Hang) || (len(o.Hist) > 0 && o.Hist[len(o.Hist)-1].Res.Hang) {
			os.Exit(7) // goroutines are stuck: do not run further cases in this process
		}
	}
}

type c06out struct {
	obs  c06obs
	died string // "" | "exit:<status> <stderr tail>" | "watchdog"
}

// c06bad counts cases whose outcome already shows a SLOW violation (a waited-out timeout, a hang, a
// late return); past c06badMax the remaining sweeps are cut short: on a broken tree every further
// case would wait out 2 s timeouts and add nothing.
var c06bad atomic.Int32

const c06badMax = 30

func c06looksBad(o c06obs) bool {
	if o.Op.Hang || o.Op.Ident == "timeout" || o.Op.SinceLoss > c06Prompt.Microseconds() {
		return true
	}
	for _, l := range o.Later {
		if l.Hang || l.Ident == "timeout" || l.SinceLoss > c06Prompt.Microseconds() {
			return true
		}
	}
	for _, h := range o.Hist {
		if h.Res.Hang || h.Res.Ident == "timeout" {
			return true
		}
	}
	return false
}

// c06spawn runs a job in child processes until every k has an outcome.
func c06spawn(c *ctx, j c06job) map[int]c06out {
	res := map[int]c06out{}
	todo := append([]int{}, j.ks...)
	for len(todo) > 0 {
		if c06bad.Load() > c06badMax {
			break
		}
		cmd := exec.Command(os.Args[0], "C06", "-tier", c.tier, "-seed", strconv.FormatUint(c.seed, 10), "-replay", j.line(todo))
		var stderr bytes.Buffer
		cmd.Stderr = &stderr
		out, err := cmd.StdoutPipe()
		if err != nil || cmd.Start() != nil {
			for _, k := range todo {
				res[k] = c06out{died: "spawn failed"}
			}
			return res
		}
		lines := make(chan string)
		go func() {
			sc := bufio.NewScanner(out)
			sc.Buffer(make([]byte, 1<<20), 1<<24)
			for sc.Scan() {
				lines <- sc.Text()
			}
			close(lines)
		}()
		done := 0
		watchdog := false
	loop:
		for {
			select {
			case l, ok := <-lines:
				if !ok {
					break loop
				}
				if !strings.HasPrefix(l, "C06R ") {
					continue
				}
				f := strings.SplitN(l, " ", 3)
				k, _ := strconv.Atoi(f[1])
				var o c06obs
				if json.Unmarshal([]byte(f[2]), &o) == nil {
					res[k] = c06out{obs: o}
					done++
					if c06looksBad(o) {
						c06bad.Add(1)
					}
					if c06bad.Load() > c06badMax {
						_ = cmd.Process.Kill()
						go func() {
							for range lines {
							}
						}()
						_ = cmd.Wait()
						return res
					}
				}
			case <-time.After(4*c06Watch + 5*time.Second):
				watchdog = true
				_ = cmd.Process.Kill()
				go func() {
					for range lines {
					}
				}()
				break loop
			}
		}
		werr := cmd.Wait()
		if done >= len(todo) && werr == nil {
			break
		}
		if done > 0 && done < len(todo) && !watchdog && werr != nil && strings.Contains(werr.Error(), "exit status 7") {
			// the child reported a hang in its last case and left on purpose: go on with the rest
			todo = todo[done:]
			continue
		}
		// the child died or was killed: blame the case in flight
		if done < len(todo) {
			k := todo[done]
			why := "watchdog"
			if !watchdog {
				tail := stderr.String()
				if i := strings.Index(tail, "panic:"); i >= 0 {
					tail = tail[i:]
				}
				if len(tail) > 700 {
					tail = tail[:700]
				}
				why = fmt.Sprintf("exit:%v %s", werr, tail)
			}
			res[k] = c06out{died: why}
			todo = todo[done+1:]
		} else {
			// every case reported, then the process died (exit 7 after a hang, or a late panic)
			if werr != nil && !strings.Contains(werr.Error(), "exit status 7") {
				k := todo[len(todo)-1]
				o := res[k]
				o.died = fmt.Sprintf("late exit:%v %s", werr, stderr.String())
				if len(o.died) > 700 {
					o.died = o.died[:700]
				}
				res[k] = o
			}
			break
		}
	}
	return res
}

// ---------------------------------------------------------------------------------------------
// the run

func c06ks(c *ctx, L int) []int {
	if c.thorough() || L <= 24 {
		ks := make([]int, L+1)
		for i := range ks {
			ks[i] = i
		}
		return ks
	}
	// quick: boundaries, a stride, and a few seeded points
	set := map[int]bool{0: true, 1: true, 2: true, L: true, L - 1: true, L - 2: true, L / 2: true}
	stride := L / 14
	if stride < 2 {
		stride = 2
	}
	for k := c.rng.Intn(stride); k <= L; k += stride {
		set[k] = true
	}
	for i := 0; i < 3; i++ {
		set[c.rng.Intn(L+1)] = true
	}
	var ks []int
	for k := range set {
		if k >= 0 && k <= L {
			ks = append(ks, k)
		}
	}
	sort.Ints(ks)
	return ks
}

type c06sweep struct {
	idle bool
	ireq map[int]int // idle sweeps: index of each case's model request
	job  c06job
	ref  c06obs
	L, W int
	req  string
}

func runC06(c *ctx) {
	res := c.res
	res.Rule = "k-sweeps: real generic / network / NETCONF drivers over causal simulators behind a Lossy transport; loss kinds EOF, persistent EIO, write error at byte k of the exchange (incl. during Open); segmentations whole / 1-byte / fixed K; operation under test + 2 later operations per case, each case in a child process (exit status = panic, watchdog = hang). non-trivial = in-domain case (loss strictly before completion) ; distinct by (scenario, variant, segmentation, kind, k)"
	if strings.HasPrefix(c.replay, "c06child ") {
		c06child(strings.Fields(c.replay))
		c.out = ""
		return
	}
	var sweeps []*c06sweep
	telnetJudge := func() {}
	addScen := func(s c06scen, kinds []string, only int) {
		ref := c06exec(s, "", 0)
		sw0 := &c06sweep{job: c06job{scen: s}, ref: ref}
		if ref.Setup != "" || ref.Op.Ident != "nil" {
			res.Fail("machinery", "c06case "+s.id()+" ref 0", fmt.Sprintf("lossless reference run failed: setup=%q op=%+v", ref.Setup, ref.Op), "reference-run")
			return
		}
		for _, l := range ref.Later {
			if l.Ident != "nil" && !strings.HasSuffix(s.base(), "-close") { // after Close later operations fail anyway
				res.Fail("machinery", "c06case "+s.id()+" ref 0", fmt.Sprintf("lossless reference run: later op failed %+v", l), "reference-run")
				return
			}
		}
		sw0.L, sw0.W = s.extent(ref)
		if os.Getenv("C06_DEBUG") != "" {
			fmt.Fprintf(os.Stderr, "REF %s: stream=%d pre=%d L=%d W=%d writes=", s.id(), len(ref.Stream), len(ref.Pre), sw0.L, sw0.W)
			for _, w := range ref.Writes {
				fmt.Fprintf(os.Stderr, "(%d@%d)", len(w.Data), w.Emitted)
			}
			fmt.Fprintln(os.Stderr)
		}
		for _, kind := range kinds {
			sw := *sw0
			n := sw.L
			if kind == "werr" {
				n = sw.W
			}
			ks := c06ks(c, n)
			if only >= 0 {
				ks = []int{only}
			}
			sw.job = c06job{scen: s, kind: kind, ks: ks}
			var why string
			sw.req, why = c06request(s, ref, kind, ks)
			if sw.req == "" {
				// the lossless run does not perform the writes the operation's program (the model of
				// the operation) says it performs: implementation and model disagree
				res.Fail("correspondence", "c06case "+s.id()+" "+kind+" 0", "lossless reference run vs the operation's program: "+why, "impl-vs-program")
				continue
			}
			sweeps = append(sweeps, &sw)
		}
	}
	if strings.HasPrefix(c.replay, "c06witness ") {
		k, _ := strconv.Atoi(strings.Fields(c.replay)[1])
		c06witness(c, k)
		return
	}
	if strings.HasPrefix(c.replay, "c06case ") {
		f := strings.Fields(c.replay)
		s, ok := c06parseScen(f[1:])
		if !ok || len(f) < 7 {
			res.Note("cannot parse replay line %q", c.replay)
			return
		}
		k, _ := strconv.Atoi(f[6])
		if s.isIdle() {
			sweeps = append(sweeps, &c06sweep{idle: true, job: c06job{scen: s, kind: f[5], ks: []int{k}}})
		} else {
			addScen(s, []string{f[5]}, k)
		}
	} else {
		// the library's own telnet transport over loopback TCP (FIN / RST after k bytes), in the
		// background; judged at the end
		telnetJudge = c06telnetStart(c, 0, "", 0)
		rxDiff(c, []string{"Netconf.v1Dot", "Channel.promptPattern"}, c.n(150, 1500))
		c06rx(c)
		variants := c.n(1, 3)
		for ni, name := range c06scenarios {
			for v := 0; v < variants; v++ {
				for seg := 0; seg < 3; seg++ {
					// quick tier: the eleven base scenarios run under all three segmentation classes, the
					// option / batch / auth / subscription / echo variants under one class each, rotating
					if !c.thorough() && ni >= 11 && seg != (ni+int(c.seed))%3 {
						continue
					}
					s := c06mk(name, c.rng.U64()%1000000, seg, 0)
					kinds := []string{"eof", "err", "werr"}
					switch name {
					case "g-send", "n-send", "nc11-rpc", "g-tauth-open", "g-batch":
						// both directions at once; the transport closed by a third party
						if c.thorough() || seg == (ni+int(c.seed))%3 {
							kinds = append(kinds, "both", "tclose")
						}
					}
					addScen(s, kinds, -1)
				}
			}
		}
		// awkward variants (prompt with a trailing blank, hello / replies followed by LF): outside
		// the theorems' exactness hypothesis near the end of the exchange; evaluated all the same
		for _, name := range []string{"g-send", "g-prompt", "nc10-open", "nc10-rpc", "nc11-rpc"} {
			s := c06mk(name, c.rng.U64()%1000000, 2, 1)
			addScen(s, []string{"eof", "err"}, -1)
		}
		// loss while idle, with unsolicited output still unread in the queue
		for _, name := range c06idleScenarios {
			for seg := 0; seg < c.n(1, 3); seg++ {
				s := c06mk(name, c.rng.U64()%1000000, 0, 0)
				for _, kind := range []string{"eof", "err"} {
					sweeps = append(sweeps, &c06sweep{idle: true, job: c06job{scen: s, kind: kind, ks: c06idleCodes(s)}})
				}
			}
		}
		// a configuration in which the read goroutine re-reads a failing transport at once
		c06witness(c, -1)
	}
	// children, 12 sweeps at a time
	outs := make([]map[int]c06out, len(sweeps))
	var wg sync.WaitGroup
	sem := make(chan struct{}, vlib.Conc(12))
	for i := range sweeps {
		wg.Add(1)
		sem <- struct{}{}
		go func(i int) {
			defer wg.Done()
			outs[i] = c06spawn(c, sweeps[i].job)
			<-sem
		}(i)
	}
	wg.Wait()
	var reqs []string
	at := make([]int, len(sweeps))
	for i, sw := range sweeps {
		if !sw.idle {
			at[i] = len(reqs)
			reqs = append(reqs, sw.req)
			continue
		}
		sw.ireq = map[int]int{}
		if sw.job.scen.isNC() || sw.job.scen.base() == "g-idle-readall" {
			continue
		}
		for _, k := range sw.job.ks {
			o, ok := outs[i][k]
			if !ok || o.died != "" || o.obs.Setup != "" {
				continue
			}
			f := []string{"c06", "idle", "1000", b2s(sw.job.scen.opt() == "x"), sw.job.kind, "3", vlib.HexList(o.obs.Stale)}
			for _, ph := range sw.job.scen.program() {
				if ph.write == nil {
					f = append(f, "r;"+ph.pred)
				} else {
					f = append(f, "w;"+vlib.Hex(ph.write)+";.")
				}
			}
			sw.ireq[k] = len(reqs)
			reqs = append(reqs, strings.Join(f, " "))
		}
	}
	if f := os.Getenv("C06_DUMPREQ"); f != "" {
		_ = os.WriteFile(f, []byte(strings.Join(reqs, "\n")+"\n"), 0o644)
	}
	ans := c.ask(reqs)
	for i, sw := range sweeps {
		if sw.idle {
			c06judgeIdle(c, sw, outs[i], ans)
		} else {
			c06judge(c, sw, outs[i], ans[at[i]])
		}
	}
	telnetJudge()
	res.TracesVsImpl += len(sweeps)
}

// c06rx diffs the Lean engine against Go's regexp for the patterns the harness configures.
func c06rx(c *ctx) {
	var names []string
	all := facts.C06AllPatterns()
	for n := range all {
		names = append(names, n)
	}
	sort.Strings(names)
	subjects := []string{"", "r1>", "r1#", "\nr1#", "r1# ", "core-sw1(config)#", "\nPassword:", "Password: ", "password:\n", "x\nedge.lab>\n", "a#b", "pe-7.example-net>", "Password:x", strings.Repeat("a", 25) + "#", "R1#", "r1#\nmore"}
	for i := 0; i < 40; i++ {
		subjects = append(subjects, string(c.rng.Bytes(c.rng.Range(1, 14), []byte("ar1.-#>()cofigPpswd: \n"))))
	}
	var lines []string
	type q struct{ name, subj string }
	var qs []q
	for _, n := range names {
		for _, s := range subjects {
			lines = append(lines, fmt.Sprintf("c06 rx C06.%s %s", n, vlib.Hex([]byte(s))))
			qs = append(qs, q{n, s})
		}
	}
	ans := c.ask(lines)
	for i, a := range ans {
		want := "0"
		if regexp.MustCompile(all[qs[i].name]).MatchString(qs[i].subj) {
			want = "1"
		}
		if a != want {
			c.res.Fail("machinery", lines[i], fmt.Sprintf("Lean engine %s vs Go regexp %s for %s on %q", a, want, qs[i].name, qs[i].subj), "rx-diff")
		}
	}
	c.res.Count(fmt.Sprintf("rx-diff C06 patterns: %d subjects", len(lines)))
}

func c06classOf(model string) string {
	switch model {
	case "err:connection":
		return "connection"
	case "err:transport":
		return "simio"
	case "err:write":
		return "simwrite"
	}
	if strings.HasPrefix(model, "ok:") {
		return "nil"
	}
	return model
}

func c06judge(c *ctx, sw *c06sweep, out map[int]c06out, answer string) {
	res := c.res
	s := sw.job.scen
	kind := sw.job.kind
	var per []string
	exact := "1"
	if s.isNC() && !s.atOpen() {
		per = strings.Split(answer, ";")
	} else {
		f := strings.Fields(answer)
		if len(f) != 5 {
			res.Fail("machinery", "c06case "+s.id()+" "+kind+" 0", "driver answered "+answer+" for "+sw.req, "driver")
			return
		}
		exact = f[0]
		per = strings.Split(f[4], ";")
		need, _ := strconv.Atoi(f[1])
		wneed, _ := strconv.Atoi(f[2])
		if need != sw.L || wneed != sw.W {
			res.Fail("machinery", "c06case "+s.id()+" "+kind+" 0", fmt.Sprintf("model need=%d wneed=%d, reference run consumed %d wrote %d", need, wneed, sw.L, sw.W), "extent")
		}
	}
	if len(per) != len(sw.job.ks) {
		res.Fail("machinery", "c06case "+s.id()+" "+kind+" 0", "driver answered "+answer+" for "+sw.req, "driver")
		return
	}
	for i, k := range sw.job.ks {
		caseLine := fmt.Sprintf("c06case %s %s %d", s.id(), kind, k)
		m := strings.Split(per[i], "/")
		if len(m) != 3 {
			res.Fail("machinery", caseLine, "driver answered "+per[i], "driver")
			continue
		}
		dom := m[0] == "1"
		modelSet := strings.Split(m[1], "|")
		o, ok := out[k]
		if !ok && c06bad.Load() > c06badMax {
			res.Count("skipped after too many failures")
			continue
		}
		res.Count("scenario:" + s.Name)
		res.Count("kind:" + kind)
		res.Count("error value:" + kind + ":" + c06pick(s, kind, k).name)
		res.Count(fmt.Sprintf("seg:%d", s.Seg))
		res.Count(fmt.Sprintf("dom:%v", dom))
		if s.Rough > 0 {
			res.Count("rough-variant")
		}
		res.Case(caseLine, dom)
		if i == 0 || (k == sw.L/2 && s.Seg == 1) {
			res.Sample(map[string]any{"case": caseLine, "exchange_bytes": sw.L, "written_bytes": sw.W, "exact": exact, "dom": dom, "model": m[1], "impl": o.obs.Op.Ident, "since_loss_us": o.obs.Op.SinceLoss, "later": fmt.Sprintf("%v", o.obs.Later)})
		}
		if m[2] != "1" {
			res.Fail("machinery", caseLine, "model time exceeds the bound of loss_yields_error: "+per[i], "model-time")
		}
		if dom {
			res.InDomain++
			for _, x := range modelSet {
				if !strings.HasPrefix(x, "err:") {
					res.Fail("machinery", caseLine, "in-domain case but the model's outcomes are "+m[1], "model-vs-spec")
				}
			}
		}
		if !ok {
			res.Fail("machinery", caseLine, "no outcome from the child process", "child")
			continue
		}
		// ---- the process must survive (always gating: nothing in the property's quantifier excuses it)
		if o.died != "" {
			sig := "process-died"
			switch {
			case o.died == "watchdog":
				sig = "hang:child-watchdog"
			case strings.Contains(o.died, "send on closed channel") && s.atOpen():
				sig = "close-panic:open-error-path:send-on-closed-Errs"
			case strings.Contains(o.died, "panic:"):
				sig = "panic:" + firstLine(o.died[strings.Index(o.died, "panic:")+6:])
			}
			res.Fail("oracle", caseLine, fmt.Sprintf("the process did not survive the loss (%s %s at byte %d of %s): %s", kind, "loss", k, s.base(), o.died), sig)
			continue
		}
		if o.obs.Setup != "" {
			res.Fail("machinery", caseLine, "scenario setup failed: "+o.obs.Setup, "setup")
			continue
		}
		op := o.obs.Op
		if op.Hang {
			res.Fail("oracle", caseLine, fmt.Sprintf("operation did not return within %v after %s at byte %d (timeout is %v)", c06Watch, kind, k, c06Timeout), "hang:operation")
			continue
		}
		// ---- an error never comes with a response object that presents the completed part as a result
		if op.Ident != "nil" && strings.HasPrefix(op.Result, c06respWithErr) {
			res.Fail("oracle", caseLine, fmt.Sprintf("%s at byte %d of %d: the operation returned the error (%s) together with a response object (%s)", kind, k, sw.L, op.Ident, strings.TrimPrefix(op.Result, c06respWithErr)), "response-with-error")
			continue
		}
		// ---- oracle on the operation in flight
		closeOp := strings.HasSuffix(s.base(), "-close")
		if closeOp {
			// Close swallows the errors of its on-close steps by design: it has to return (above: no
			// hang, the process lives); whether it reports the loss is not the property's business
			res.Count("close under loss returned:" + op.Ident)
			if op.ElapsedUs > (c06Timeout+c06Prompt).Microseconds()*3 {
				res.Fail("oracle", caseLine, fmt.Sprintf("Close took %d ms under %s at byte %d of its on-close steps", op.ElapsedUs/1000, kind, k), "close-slow:on-close-steps")
				continue
			}
		} else if dom {
			switch {
			case op.Ident == "nil":
				sig := "success-after-loss"
				if op.Result != sw.ref.Op.Result {
					sig = "truncated-success"
				}
				res.Fail("oracle", caseLine, fmt.Sprintf("%s at byte %d of %d, before the exchange was complete, yet the operation reported success with %q (complete output %q)", kind, k, sw.L, op.Result, sw.ref.Op.Result), sig)
				continue
			case op.Ident == "timeout":
				res.Fail("oracle", caseLine, fmt.Sprintf("%s at byte %d (transport error value %s): the operation waited out its timeout (%d ms) instead of reporting the loss", kind, k, c06pick(s, kind, k).name, op.ElapsedUs/1000), "waited-out-timeout")
				continue
			case op.SinceLoss > c06Prompt.Microseconds():
				if !c06confirmSlow(c, sw, k) {
					res.Count("slow once, prompt when re-run alone (machine load)")
					break
				}
				res.Fail("oracle", caseLine, fmt.Sprintf("%s at byte %d: the operation returned %d ms after the transport reported the loss (declared slack %v)", kind, k, op.SinceLoss/1000, c06Prompt), "not-prompt")
				continue
			}
		} else if op.Ident == "nil" && op.Result != sw.ref.Op.Result && exact == "1" {
			// success is allowed (completion held before the loss) but never with other output;
			// when the exchange does not complete exactly at its end (awkward variants: exact = 0)
			// "complete output" is ambiguous and the comparison is skipped
			res.Fail("oracle", caseLine, fmt.Sprintf("%s at byte %d of %d: success with %q, the complete exchange gives %q", kind, k, sw.L, op.Result, sw.ref.Op.Result), "truncated-success")
			continue
		}
		// ---- later operations: the loss is permanent
		lossHit := o.obs.LossReported || op.Ident != "nil"
		bad := false
		if !s.atOpen() || op.Ident == "nil" {
			if len(o.obs.Later) == 0 && op.Ident != "timeout" {
				res.Fail("machinery", caseLine, "no later operation was run", "child")
				continue
			}
			for li, l := range o.obs.Later {
				switch {
				case l.Hang:
					res.Fail("oracle", caseLine, fmt.Sprintf("later operation %d hung after %s at byte %d", li, kind, k), "hang:later-operation")
					bad = true
				case l.Ident == "nil" && !l.LossFirst && op.Ident == "nil":
					// the exchange completed and the transport had not yet reported the loss when this
					// operation ran (it found what it needed already queued): not a violation
					res.Count("later operation succeeded before the transport reported the loss")
				case l.Ident == "nil":
					res.Fail("oracle", caseLine, fmt.Sprintf("later operation %d succeeded (%q) although the connection was lost (%s at byte %d, first operation: %s)", li, l.Result, kind, k, op.Ident), "later-success:"+kind)
					bad = true
				case l.Ident == "timeout" && lossHit:
					res.Fail("oracle", caseLine, fmt.Sprintf("later operation %d waited out its timeout (%d ms) after %s at byte %d", li, l.ElapsedUs/1000, kind, k), "later-waited-out-timeout")
					bad = true
				case l.SinceLoss > c06Prompt.Microseconds() && !c06confirmSlow(c, sw, k):
					res.Count("slow once, prompt when re-run alone (machine load)")
				case l.SinceLoss > c06Prompt.Microseconds():
					res.Fail("oracle", caseLine, fmt.Sprintf("later operation %d returned %d ms after it started on a lost connection", li, l.SinceLoss/1000), "later-not-prompt")
					bad = true
				}
				if bad {
					break
				}
			}
		}
		if bad {
			continue
		}
		// ---- history after the loss: re-Open / Close / more operations on the same driver object
		if c06judgeHist(c, caseLine, s, kind, o.obs.Hist) || c06judgeSubs(c, caseLine, kind, o.obs.Subs) {
			continue
		}
		// ---- correspondence: the implementation's outcome is one the model allows
		okc := closeOp
		for _, x := range modelSet {
			cl := c06classOf(x)
			if cl == op.Ident || (strings.HasPrefix(s.base(), "n-") && cl != "nil" && op.Ident == "privilege") {
				okc = true
			}
			// reads and writes both dead: which of the two the operation trips over first is timing
			if (kind == "both" || kind == "tclose") && cl != "nil" && (op.Ident == "connection" || op.Ident == "simwrite" || op.Ident == "simio") {
				okc = true
			}
		}
		if !okc {
			res.Fail("correspondence", caseLine, fmt.Sprintf("implementation returned %s (%q), the model allows %s; request %s", op.Ident, op.Result, m[1], sw.req), "impl-vs-model")
		}
	}
}

// c06confirmSlow re-runs one case alone in a fresh child and says whether it is slow again: a
// wall-clock measurement taken while 12 children compete for the machine is confirmed before it
// is reported (a real delay, e.g. a sleep in the error path, reproduces every time). After a few
// confirmations further slow cases are taken at face value.
var c06slowConfirmed, c06slowRetries int

func c06confirmSlow(c *ctx, sw *c06sweep, k int) bool {
	if c06slowConfirmed >= 3 || c06slowRetries >= 12 {
		return c06slowConfirmed > 0
	}
	c06slowRetries++
	out := c06spawn(c, c06job{scen: sw.job.scen, kind: sw.job.kind, ks: []int{k}})
	o, ok := out[k]
	if !ok || o.died != "" {
		return true
	}
	slow := o.obs.Op.SinceLoss > c06Prompt.Microseconds()
	for _, l := range o.obs.Later {
		if l.SinceLoss > c06Prompt.Microseconds() {
			slow = true
		}
	}
	if slow {
		c06slowConfirmed++
	}
	return slow
}

var c06idleScenarios = []string{"g-idle-prompt", "g-idle-send", "g-idle-inter", "nc10-idle-rpc", "nc11-idle-rpc",
	"g-idle-send+x", "g-idle-inter+x", "g-idle-readall", "n-idle-acquire-cur", "n-idle-acquire-other"}

// c06idleCodes lists (content class, reads) codes: class*4 + reads.
func c06idleCodes(s c06scen) []int {
	classes := 4
	if s.isNC() {
		classes = 3
	}
	ks := []int{1} // nothing unsolicited, plain idle loss
	for cl := 1; cl <= classes; cl++ {
		for parts := 1; parts <= 3; parts++ {
			ks = append(ks, cl*4+parts)
		}
	}
	return ks
}

// c06judgeIdle: the connection was lost while idle, with the device's unsolicited output (possibly
// a complete prompt / a complete NETCONF message) delivered but unread. later_ops_error_any_queue:
// every operation that has to read returns an error, whatever the queue holds.
func c06judgeIdle(c *ctx, sw *c06sweep, out map[int]c06out, ans []string) {
	res := c.res
	s := sw.job.scen
	kind := sw.job.kind
	for _, k := range sw.job.ks {
		caseLine := fmt.Sprintf("c06case %s %s %d", s.id(), kind, k)
		o, ok := out[k]
		if !ok {
			if c06bad.Load() > c06badMax {
				res.Count("skipped after too many failures")
				continue
			}
			res.Fail("machinery", caseLine, "no outcome from the child process", "child")
			continue
		}
		res.Count("scenario:" + s.Name)
		res.Count("kind:" + kind)
		res.Count("error value:" + kind + ":" + c06pick(s, kind, k).name)
		res.Count(fmt.Sprintf("idle unsolicited class:%d reads:%d", k/4, len(o.obs.Stale)))
		res.Case(caseLine, true)
		res.InDomain++
		if o.died != "" {
			sig := "process-died"
			if o.died == "watchdog" {
				sig = "hang:child-watchdog"
			} else if i := strings.Index(o.died, "panic:"); i >= 0 {
				sig = "panic:" + firstLine(o.died[i+6:])
			}
			res.Fail("oracle", caseLine, "the process did not survive a loss while idle: "+o.died, sig)
			continue
		}
		if o.obs.Setup != "" {
			res.Fail("machinery", caseLine, "scenario setup failed: "+o.obs.Setup, "setup")
			continue
		}
		stale := string(bytes.Join(o.obs.Stale, nil))
		modelSet := []string{}
		if ri, has := sw.ireq[k]; has {
			m := strings.Split(ans[ri], "/")
			if len(m) != 3 {
				res.Fail("machinery", caseLine, "driver answered "+ans[ri], "driver")
				continue
			}
			modelSet = strings.Split(m[1], "|")
			bad := m[0] != "1" || m[2] != "1"
			for _, x := range modelSet {
				if !strings.HasPrefix(x, "err:") {
					bad = true
				}
			}
			if bad {
				res.Fail("machinery", caseLine, "later_ops_error_any_queue says error within the bound; the model answered "+ans[ri], "model-vs-spec")
			}
		}
		if k == 9 {
			res.Sample(map[string]any{"case": caseLine, "unsolicited": stale, "reads": len(o.obs.Stale), "model": strings.Join(modelSet, "|"), "impl": o.obs.Op.Ident, "later": fmt.Sprintf("%v", o.obs.Later)})
		}
		all := append([]c06res{o.obs.Op}, o.obs.Later...)
		failed := false
		for i, r := range all {
			which := "the first operation after the loss"
			if i > 0 {
				which = fmt.Sprintf("later operation %d", i)
			}
			switch {
			case r.Hang:
				res.Fail("oracle", caseLine, fmt.Sprintf("%s hung (%s while idle, unread %q)", which, kind, stale), "hang:after-idle-loss")
				failed = true
			case r.Ident == "nil" && i == 0 && s.base() == "g-idle-readall":
				res.Fail("oracle", caseLine, fmt.Sprintf("%s while idle (unread %q): four polls of Channel.ReadAll returned %q and never an error — the loss is invisible to a ReadAll consumer", kind, stale, r.Result), "readall-silent-after-loss:"+kind)
				failed = true
			case r.Ident == "nil":
				res.Fail("oracle", caseLine, fmt.Sprintf("%s while idle with %q delivered but unread (%d reads): %s reported success (%q) on the dead connection", kind, stale, len(o.obs.Stale), which, r.Result), "success-after-idle-loss:stale-queue:"+kind+":"+map[bool]string{true: "first", false: "later"}[i == 0])
				failed = true
			case r.Ident == "timeout":
				res.Fail("oracle", caseLine, fmt.Sprintf("%s while idle (transport error value %s): %s waited out its timeout (%d ms)", kind, c06pick(s, kind, k).name, which, r.ElapsedUs/1000), "waited-out-timeout:after-idle-loss")
				failed = true
			case r.SinceLoss > c06Prompt.Microseconds():
				res.Fail("oracle", caseLine, fmt.Sprintf("%s while idle: %s returned after %d ms", kind, which, r.SinceLoss/1000), "not-prompt:after-idle-loss")
				failed = true
			}
			if failed {
				break
			}
		}
		if !failed && (c06judgeHist(c, caseLine, s, kind, o.obs.Hist) || c06judgeSubs(c, caseLine, kind, o.obs.Subs)) {
			failed = true
		}
		if failed || len(modelSet) == 0 {
			continue
		}
		okc := false
		for _, x := range modelSet {
			if c06classOf(x) == o.obs.Op.Ident {
				okc = true
			}
		}
		if !okc {
			res.Fail("correspondence", caseLine, fmt.Sprintf("implementation returned %s, the model allows %s (unread %q)", o.obs.Op.Ident, strings.Join(modelSet, "|"), stale), "impl-vs-model")
		}
	}
}

func firstLine(s string) string {
	s = strings.TrimSpace(s)
	if i := strings.IndexByte(s, '\n'); i >= 0 {
		s = s[:i]
	}
	return s
}

// c06witness: loss during Open with a read goroutine that re-reads the failing transport at once
// (ReadDelay 0, a descriptor that fails immediately). Open's error path closes the channel while
// the read goroutine is again blocked handing over the error.
func c06witness(c *ctx, only int) {
	n := c.n(6, 20)
	for i := 0; i < n; i++ {
		k := 10 + 17*i
		if only >= 0 {
			if i > 0 {
				break
			}
			k = only
		}
		caseLine := fmt.Sprintf("c06witness %d", k)
		cmd := exec.Command(os.Args[0], "C06", "-replay", fmt.Sprintf("c06wchild %d", k))
		var stderr bytes.Buffer
		cmd.Stderr = &stderr
		done := make(chan error, 1)
		if cmd.Start() != nil {
			continue
		}
		go func() { done <- cmd.Wait() }()
		var err error
		select {
		case err = <-done:
		case <-time.After(20 * time.Second):
			_ = cmd.Process.Kill()
			c.res.Fail("oracle", caseLine, "NETCONF Open under EIO did not return", "hang:open-witness")
			continue
		}
		c.res.Case(caseLine, true)
		c.res.InDomain++
		c.res.Count("witness:open-eio-readdelay0")
		if err != nil {
			tail := stderr.String()
			if j := strings.Index(tail, "panic:"); j >= 0 {
				tail = tail[j:]
			}
			if len(tail) > 500 {
				tail = tail[:500]
			}
			sig := "process-died"
			if strings.Contains(tail, "send on closed channel") {
				sig = "close-panic:open-error-path:send-on-closed-Errs"
			}
			c.res.Fail("oracle", caseLine, fmt.Sprintf("netconf Open with EIO at byte %d (ReadDelay 0): the process died: %s", k, tail), sig)
		}
	}
}

func init() {
	props["C06"] = func(c *ctx) {
		if strings.HasPrefix(c.replay, "c06tchild ") {
			c06telnetChild(strings.Fields(c.replay))
			c.out = ""
			return
		}
		if strings.HasPrefix(c.replay, "c06telnet ") {
			f := strings.Fields(c.replay)
			if len(f) >= 4 {
				seed, _ := strconv.ParseUint(f[1], 10, 64)
				k, _ := strconv.Atoi(f[3])
				c06telnet(c, seed, f[2], k)
			}
			return
		}
		if strings.HasPrefix(c.replay, "c06wchild ") {
			k, _ := strconv.Atoi(strings.Fields(c.replay)[1])
			c06witnessChild(k)
			c.out = ""
			return
		}
		runC06(c)
	}
}

func c06witnessChild(k int) {
	srv := sim.NewNCServer(true, false)
	srv.Seg = sim.SegFixed(7)
	srv.Start()
	l := sim.NewLossy(srv, srv.Pipe)
	l.ErrDelay = 0
	srv.SetFaults(func(p *sim.Pipe) { p.ErrAt = k })
	var t transport.Implementation = l
	d, err := netconf.NewDriver("h", options.WithCustomTransport(t), options.WithAuthBypass(),
		options.WithTimeoutOps(c06Timeout), options.WithReadDelay(0))
	if err != nil {
		panic(err)
	}
	err = d.Open()
	fmt.Println("C06W open:", errClass(err))
	time.Sleep(5 * time.Millisecond)
}
