package main

import (
	"fmt"
	"regexp"
	"regexp/syntax"
	"strconv"
	"strings"

	"verifgo/facts"
	"verifgo/vlib"
)

// sampleRe draws a string from (a superset-ish neighbourhood of) the language of re.
func sampleRe(r *vlib.Rng, re *syntax.Regexp, depth int) []byte {
	switch re.Op {
	case syntax.OpLiteral:
		s := string(re.Rune)
		if re.Flags&syntax.FoldCase != 0 && r.Chance(1, 3) {
			s = strings.ToUpper(s)
		}
		return []byte(s)
	case syntax.OpCharClass:
		if len(re.Rune) == 0 {
			return nil
		}
		i := r.Intn(len(re.Rune)/2) * 2
		lo, hi := re.Rune[i], re.Rune[i+1]
		if hi > lo+200 {
			hi = lo + 200
		}
		return []byte(string(rune(int(lo) + r.Intn(int(hi-lo)+1))))
	case syntax.OpAnyCharNotNL, syntax.OpAnyChar:
		return []byte(r.Pick([]string{"a", "Z", "0", " ", "<", ">", "/", ":", "é", "#", "-", "\t", "x"}))
	case syntax.OpCapture:
		return sampleRe(r, re.Sub[0], depth)
	case syntax.OpStar, syntax.OpPlus, syntax.OpQuest, syntax.OpRepeat:
		lo, hi := 0, 3
		switch re.Op {
		case syntax.OpPlus:
			lo = 1
		case syntax.OpQuest:
			hi = 1
		case syntax.OpRepeat:
			lo, hi = re.Min, re.Max
			if hi < 0 || hi > lo+4 {
				hi = lo + 4
			}
		}
		var out []byte
		for k := r.Range(lo, hi); k > 0; k-- {
			out = append(out, sampleRe(r, re.Sub[0], depth+1)...)
		}
		return out
	case syntax.OpConcat:
		var out []byte
		for _, s := range re.Sub {
			out = append(out, sampleRe(r, s, depth)...)
		}
		return out
	case syntax.OpAlternate:
		return sampleRe(r, re.Sub[r.Intn(len(re.Sub))], depth)
	}
	return nil
}

func spanStr(idx []int, g int) string {
	if 2*g+1 >= len(idx) || idx[2*g] < 0 {
		return "-"
	}
	return strconv.Itoa(idx[2*g]) + ":" + strconv.Itoa(idx[2*g+1])
}

// rxDiff compares the Lean regex engine running the extracted pattern terms with Go's regexp on
// generated subjects (find span + groups, ReplaceAll(nil), FindAllIndex). Disagreements are
// `correspondence` findings with signature rx:<name>. prefix filters pattern names ("" = all).
func rxDiff(c *ctx, prefixes []string, perPattern int) {
	facts.Repo = repoDir()
	r := c.rng.Fork()
	type pat struct {
		name string
		re   *regexp.Regexp
		syn  *syntax.Regexp
	}
	var pats []pat
	for _, pk := range facts.PatternPkgs {
		for _, fp := range facts.FindPatterns(pk.Dir) {
			name := pk.Ns + "." + fp.Name
			ok := len(prefixes) == 0
			for _, p := range prefixes {
				if strings.HasPrefix(name, p) {
					ok = true
				}
			}
			if !ok {
				continue
			}
			re, err := regexp.Compile(fp.Src)
			if err != nil {
				continue
			}
			syn, _ := syntax.Parse(fp.Src, syntax.Perl)
			pats = append(pats, pat{name, re, syn})
		}
	}
	var lines []string
	type q struct {
		p    pat
		s    []byte
		kind string
	}
	var qs []q
	noise := []string{"\n", " ", "x", "#", ">", "<", "/", "password:", "\n##\n", "]]>]]>", "é", "\x1b[0m", "\r", "A", ":", "\xff", "ſ", "K"}
	for _, p := range pats {
		for i := 0; i < perPattern; i++ {
			var s []byte
			for k := r.Range(0, 3); k >= 0; k-- {
				switch r.Intn(4) {
				case 0:
					s = append(s, r.Pick(noise)...)
				case 1:
					s = append(s, r.Pick(noise)...)
					s = append(s, sampleRe(r, p.syn, 0)...)
				default:
					s = append(s, sampleRe(r, p.syn, 0)...)
				}
				if r.Chance(1, 3) {
					s = append(s, '\n')
				}
			}
			if r.Chance(1, 6) && len(s) > 0 { // mutate one byte
				s[r.Intn(len(s))] = r.Bytes(1, []byte("aZ0 #>\n:/<"))[0]
			}
			if len(s) > 160 {
				s = s[:160]
			}
			kind := []string{"find", "find", "del", "all"}[r.Intn(4)]
			qs = append(qs, q{p, s, kind})
			lines = append(lines, fmt.Sprintf("rx %s %s %s", kind, p.name, vlib.Hex(s)))
		}
	}
	ans := c.ask(lines)
	for i, x := range qs {
		var want string
		switch x.kind {
		case "find":
			idx := x.p.re.FindSubmatchIndex(x.s)
			if idx == nil {
				want = "0"
			} else {
				want = fmt.Sprintf("1 %d %d %s %s %s %s", idx[0], idx[1], spanStr(idx, 1), spanStr(idx, 2), spanStr(idx, 3), spanStr(idx, 4))
			}
		case "del":
			want = vlib.Hex(x.p.re.ReplaceAll(x.s, nil))
		case "all":
			all := x.p.re.FindAllIndex(x.s, -1)
			if len(all) == 0 {
				want = "."
			} else {
				var ps []string
				for _, m := range all {
					ps = append(ps, fmt.Sprintf("%d:%d", m[0], m[1]))
				}
				want = strings.Join(ps, ",")
			}
		}
		c.res.Count("rxdiff:" + x.p.name)
		if ans[i] != want {
			c.res.Fail("correspondence", lines[i], fmt.Sprintf("regex engine: pattern %s on %q (%s): Go %s, Lean %s", x.p.name, x.s, x.kind, want, ans[i]), "rx:"+x.p.name)
		}
	}
	c.res.Note("regex engine diffed against Go regexp on %d subjects over %d extracted patterns", len(qs), len(pats))
}
