package main

// C16, sixth part: close unblocks a read on the system transport whatever the spawned program does
// with polite signals. The stand-in is `/bin/sh -c "trap '' <SIG…>; echo READY; exec sleep <marker>"`
// (an ignored signal stays ignored across exec). Demanded: a Read blocked when Close is called
// returns within the bound, and the child is gone (dead or a zombie: its end of the pty is closed).

import (
	"bytes"
	"fmt"
	"os"
	"strconv"
	"strings"
	"time"

	"github.com/scrapli/scrapligo/driver/options"
	"github.com/scrapli/scrapligo/logging"
	"github.com/scrapli/scrapligo/transport"
)

// c16FindProc returns pid and state letter of the process whose command line contains marker.
func c16FindProc(marker string) (pid int, state string) {
	ents, _ := os.ReadDir("/proc")
	for _, e := range ents {
		p, err := strconv.Atoi(e.Name())
		if err != nil {
			continue
		}
		cl, err := os.ReadFile("/proc/" + e.Name() + "/cmdline")
		if err != nil || !bytes.Contains(cl, []byte(marker)) {
			continue
		}
		st, err := os.ReadFile("/proc/" + e.Name() + "/stat")
		if err != nil {
			continue
		}
		// pid (comm) S …
		if i := bytes.LastIndexByte(st, ')'); i >= 0 && i+2 < len(st) {
			return p, string(st[i+2 : i+3])
		}
	}
	return 0, ""
}

func c16SigClose(c *ctx, sigs string, seed uint64) {
	res := c.res
	line := fmt.Sprintf("sigclose %s %d", sigs, seed)
	res.Case(line, true)
	res.InDomain++
	res.Count("close-vs-child-ignoring:" + sigs)
	marker := fmt.Sprintf("97.%09d", seed%1000000000) // `sleep 97.<n>`: findable in /proc, gone by itself in the end
	trap := ""
	if sigs != "none" {
		trap = "trap '' " + strings.ReplaceAll(sigs, "+", " ") + "; "
	}
	log, _ := logging.NewInstance()
	tr, err := transport.NewTransport(log, "127.0.0.1", transport.SystemTransport,
		options.WithSystemTransportOpenBin("/bin/sh"),
		options.WithSystemTransportOpenArgsOverride([]string{"-c", trap + "echo READY; exec sleep " + marker}))
	if err == nil {
		err = tr.Open()
	}
	if err != nil {
		res.Fail("oracle", line, fmt.Sprint("open: ", err), "c16:system:open-failed")
		return
	}
	rd := c16NewReader(tr)
	defer close(rd.req)
	if !c16ReadUntil(rd, []byte("READY\r\n"), c16OpenBound) {
		res.Fail("machinery", line, "stand-in did not print READY", "c16:sigclose-setup")
		_ = tr.Close(true)
		return
	}
	pid, st := 0, ""
	for k := 0; k < 100 && pid == 0; k++ { // the shell execs sleep right after the echo
		pid, st = c16FindProc("sleep\x00" + marker)
		if pid == 0 {
			time.Sleep(10 * time.Millisecond)
		}
	}
	if pid == 0 {
		res.Fail("machinery", line, "spawned child not found in /proc", "c16:sigclose-setup")
		_ = tr.Close(true)
		return
	}
	_ = st
	rd.start(0)
	if r, ok := rd.wait(c16BlockProbe); ok {
		res.Fail("oracle", line, fmt.Sprintf("Read returned (%s, err=%v) although the child is silent", c16Short(r.data), r.err), "c16:system:read-not-blocking")
		_ = tr.Close(true)
		return
	}
	cdone := make(chan struct{})
	go func() { _ = tr.Close(true); close(cdone) }()
	what := fmt.Sprintf("Close(true) with a Read blocked on the pty of a child that ignores %s", sigs)
	select {
	case <-cdone:
	case <-time.After(c16UnblockBound):
		res.Fail("oracle", line, what+": Close did not return within the bound", "c16:system:close-stuck")
	}
	if r, ok := rd.wait(c16UnblockBound); !ok {
		res.Fail("oracle", line, fmt.Sprintf("%s: the blocked Read did not return within %v", what, c16UnblockBound), "c16:system:not-unblocked-by-close")
	} else if r.err == nil {
		res.Fail("oracle", line, fmt.Sprintf("%s: the blocked Read returned (%s) without error", what, c16Short(r.data)), "c16:system:not-unblocked-by-close-result")
	}
	// the child: dead (no /proc entry) or a zombie (killed, not reaped — the transport never waits)
	gone := false
	state := ""
	for k := 0; k < 300 && !gone; k++ {
		b, err := os.ReadFile(fmt.Sprintf("/proc/%d/stat", pid))
		if err != nil {
			gone = true
			break
		}
		if i := bytes.LastIndexByte(b, ')'); i >= 0 && i+2 < len(b) {
			state = string(b[i+2 : i+3])
		}
		if state == "Z" || state == "X" {
			gone = true
			break
		}
		time.Sleep(10 * time.Millisecond)
	}
	if !gone {
		res.Fail("oracle", line, fmt.Sprintf("%s: the spawned process %d is still running (state %s) %v after Close", what, pid, state, c16UnblockBound), "c16:system:child-survives-close")
		if p, err := os.FindProcess(pid); err == nil {
			_ = p.Kill() // do not leave it behind
		}
	}
	res.TracesVsImpl++
}

func c16SigCloses(c *ctx) {
	for _, s := range []string{"TERM", "HUP", "INT", "TERM+HUP+INT+QUIT", "none"} {
		c16SigClose(c, s, c.rng.U64())
	}
}

func c16ReplaySigClose(c *ctx, line string) {
	f := strings.Fields(line)
	if len(f) != 3 {
		c.res.Fail("machinery", line, "bad sigclose line", "c16:replay")
		return
	}
	seed, _ := strconv.ParseUint(f[2], 10, 64)
	c16SigClose(c, f[1], seed)
}
