//go:build !internaltie

package main

// c16Internal is the auxiliary wrapper-level tie; without the overlay exports it does nothing.
func c16Internal(c *ctx) {}
