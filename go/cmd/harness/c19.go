package main

// C19 — driver options land on their target regardless of order; user options win.
//
// Random option lists (subsets, permutations, duplicates, valid and invalid values) go through
// the real constructors (generic.NewDriver, network.NewDriver, netconf.NewDriver,
// platform.NewPlatform(...).Get{Generic,Network}Driver with an in-memory YAML definition, and
// logging.NewInstance); every exported setting field of every object of the result is read by
// reflection and compared with the Lean model's configuration (correspondence) and with the
// declarative per-field spec (oracle). Go-only oracles: single-option frame (exactly the named
// setting changes), order independence under shuffling of a compatible list.

import (
	"bytes"
	"errors"
	"fmt"
	"io"
	"os"
	"path/filepath"
	"reflect"
	"regexp"
	"sort"
	"strconv"
	"strings"
	"sync/atomic"
	"time"

	"github.com/scrapli/scrapligo/driver/generic"
	"github.com/scrapli/scrapligo/driver/netconf"
	"github.com/scrapli/scrapligo/driver/network"
	"github.com/scrapli/scrapligo/driver/options"
	"github.com/scrapli/scrapligo/logging"
	"github.com/scrapli/scrapligo/platform"
	"github.com/scrapli/scrapligo/transport"
	"github.com/scrapli/scrapligo/util"

	"verifgo/vlib"
)

func init() { props["C19"] = runC19 }

// ---------------------------------------------------------------- identity tokens

type c19Impl struct{ id int }

func (*c19Impl) Open(*transport.Args) error { return nil }
func (*c19Impl) Close() error               { return nil }
func (*c19Impl) IsAlive() bool              { return true }
func (*c19Impl) Read(int) ([]byte, error)   { return nil, io.EOF }
func (*c19Impl) Write([]byte) error         { return nil }

func c19gf0(*generic.Driver) error { return errors.New("g0") }
func c19gf1(*generic.Driver) error { return errors.New("g1") }
func c19gf2(*generic.Driver) error { return errors.New("g2") }
func c19gf3(*generic.Driver) error { return errors.New("g3") }
func c19nf0(*network.Driver) error { return errors.New("n0") }
func c19nf1(*network.Driver) error { return errors.New("n1") }
func c19nf2(*network.Driver) error { return errors.New("n2") }
func c19nf3(*network.Driver) error { return errors.New("n3") }
func c19lf0(...interface{})        { _ = 0 }
func c19lf1(...interface{})        { _ = 1 }
func c19lf2(...interface{})        { _ = 2 }
func c19ff0(a, b string) string    { return a + b + "0" }
func c19ff1(a, b string) string    { return a + b + "1" }

const c19N = 4

var (
	c19Loggers [c19N]*logging.Instance
	c19Writers [c19N]*bytes.Buffer
	c19Impls   [c19N]*c19Impl
	c19GFuncs  = []func(*generic.Driver) error{c19gf0, c19gf1, c19gf2, c19gf3}
	c19NFuncs  = []func(*network.Driver) error{c19nf0, c19nf1, c19nf2, c19nf3}
	c19LFuncs  = []func(...interface{}){c19lf0, c19lf1, c19lf2}
	c19FFuncs  = []func(string, string) string{c19ff0, c19ff1}
	c19FuncTok = map[uintptr]string{}
	c19Dir     string // temp dir with ssh config / known hosts files
)

func c19Setup() {
	for i := 0; i < c19N; i++ {
		c19Loggers[i], _ = logging.NewInstance()
		c19Writers[i] = &bytes.Buffer{}
		c19Impls[i] = &c19Impl{id: i}
	}
	for i, f := range c19GFuncs {
		c19FuncTok[reflect.ValueOf(f).Pointer()] = "gfn:" + strconv.Itoa(i)
	}
	for i, f := range c19NFuncs {
		c19FuncTok[reflect.ValueOf(f).Pointer()] = "nfn:" + strconv.Itoa(i)
	}
	for i, f := range c19LFuncs {
		c19FuncTok[reflect.ValueOf(f).Pointer()] = "logfn:" + strconv.Itoa(i)
	}
	for i, f := range c19FFuncs {
		c19FuncTok[reflect.ValueOf(f).Pointer()] = "fmt:" + strconv.Itoa(i)
	}
	// a private HOME with ~/.ssh/config but no ~/.ssh/known_hosts, plus named files; the path is
	// fixed so that a recorded case line replays
	d := filepath.Join(os.TempDir(), "verif-c19-env")
	if err := os.MkdirAll(filepath.Join(d, ".ssh"), 0o755); err != nil {
		panic(err)
	}
	c19Dir = d
	for _, n := range []string{".ssh/config", "cfgA", "cfgB", "khA", "khB"} {
		if _, err := os.Stat(filepath.Join(d, n)); err != nil {
			os.WriteFile(filepath.Join(d, n), []byte("# verif\n"), 0o644)
		}
	}
	os.Setenv("HOME", d)
}

func c19Teardown() {}

// ---------------------------------------------------------------- rendering of the result

type c19Val [][]byte
type c19Fields map[string]c19Val

func tokIdx(tok, prefix string, n int) (int, bool) {
	if !strings.HasPrefix(tok, prefix) {
		return 0, false
	}
	i, err := strconv.Atoi(tok[len(prefix):])
	if err != nil || i < 0 || i >= n {
		return 0, false
	}
	return i, true
}

func renderFunc(v reflect.Value) []byte {
	if v.IsNil() {
		return []byte("<nil>")
	}
	if t, ok := c19FuncTok[v.Pointer()]; ok {
		return []byte(t)
	}
	return []byte("<platform-fn>")
}

func renderLogger(l *logging.Instance) []byte {
	if l == nil {
		return []byte("<nil>")
	}
	for i, x := range c19Loggers {
		if x == l {
			return []byte("logger:" + strconv.Itoa(i))
		}
	}
	if len(l.Loggers) == 0 {
		return []byte("<noop-logger>")
	}
	return []byte("<default-logger>")
}

var (
	tDuration = reflect.TypeOf(time.Duration(0))
	tRegexp   = reflect.TypeOf(&regexp.Regexp{})
	tLogger   = reflect.TypeOf(&logging.Instance{})
)

// renderStruct renders every exported setting field of the struct (same selection rule as the
// translator: no channels, no pointers to other constructed objects).
func renderStruct(name string, sv reflect.Value, out c19Fields) {
	st := sv.Type()
	for i := 0; i < st.NumField(); i++ {
		sf := st.Field(i)
		if !sf.IsExported() || sf.Anonymous {
			continue
		}
		fv := sv.Field(i)
		key := name + "." + sf.Name
		switch {
		case sf.Type == tDuration:
			out[key] = c19Val{[]byte(strconv.FormatInt(fv.Int(), 10))}
		case sf.Type == tRegexp:
			if fv.IsNil() {
				out[key] = c19Val{[]byte("<nil>")}
			} else {
				out[key] = c19Val{[]byte(fv.Interface().(*regexp.Regexp).String())}
			}
		case sf.Type == tLogger:
			out[key] = c19Val{renderLogger(fv.Interface().(*logging.Instance))}
		default:
			switch fv.Kind() {
			case reflect.Int, reflect.Int64:
				out[key] = c19Val{[]byte(strconv.FormatInt(fv.Int(), 10))}
			case reflect.Uint64:
				out[key] = c19Val{[]byte(strconv.FormatUint(fv.Uint(), 10))}
			case reflect.String:
				out[key] = c19Val{[]byte(fv.String())}
			case reflect.Bool:
				out[key] = c19Val{[]byte(strconv.FormatBool(fv.Bool()))}
			case reflect.Func:
				out[key] = c19Val{renderFunc(fv)}
			case reflect.Interface:
				if fv.IsNil() {
					out[key] = c19Val{[]byte("<nil>")}
				} else {
					tok := "<other>"
					switch x := fv.Interface().(type) {
					case *bytes.Buffer:
						for j, w := range c19Writers {
							if w == x {
								tok = "writer:" + strconv.Itoa(j)
							}
						}
					case *c19Impl:
						tok = "impl:" + strconv.Itoa(x.id)
					}
					out[key] = c19Val{[]byte(tok)}
				}
			case reflect.Slice:
				v := c19Val{}
				switch sf.Type.Elem().Kind() {
				case reflect.String:
					for j := 0; j < fv.Len(); j++ {
						v = append(v, []byte(fv.Index(j).String()))
					}
				case reflect.Uint8:
					v = c19Val{append([]byte{}, fv.Bytes()...)}
				case reflect.Func:
					for j := 0; j < fv.Len(); j++ {
						v = append(v, renderFunc(fv.Index(j)))
					}
				case reflect.Slice:
					for j := 0; j < fv.Len(); j++ {
						v = append(v, append([]byte{}, fv.Index(j).Bytes()...))
					}
				default:
					continue
				}
				out[key] = v
			case reflect.Map:
				if m, ok := fv.Interface().(map[string]*network.PrivilegeLevel); ok {
					out[key] = renderPrivs(m)
				}
			}
		}
	}
}

func renderPrivs(m map[string]*network.PrivilegeLevel) c19Val {
	var keys []string
	for k := range m {
		keys = append(keys, k)
	}
	sort.Strings(keys)
	v := c19Val{}
	for _, k := range keys {
		p := ""
		if m[k] != nil {
			p = m[k].Pattern
		}
		v = append(v, []byte(k+"\x00"+p))
	}
	return v
}

func renderTransport(t *transport.Transport, out c19Fields) {
	if t == nil {
		return
	}
	if t.Args != nil {
		renderStruct("transport.Args", reflect.ValueOf(t.Args).Elem(), out)
	}
	switch i := t.Impl.(type) {
	case *transport.System:
		renderStruct("transport.System", reflect.ValueOf(i).Elem(), out)
		if i.SSHArgs != nil {
			renderStruct("transport.SSHArgs", reflect.ValueOf(i.SSHArgs).Elem(), out)
		}
	case *transport.Standard:
		renderStruct("transport.Standard", reflect.ValueOf(i).Elem(), out)
		if i.SSHArgs != nil {
			renderStruct("transport.SSHArgs", reflect.ValueOf(i.SSHArgs).Elem(), out)
		}
	case *transport.Telnet:
		renderStruct("transport.Telnet", reflect.ValueOf(i).Elem(), out)
	case *transport.File:
		renderStruct("transport.File", reflect.ValueOf(i).Elem(), out)
	}
}

func renderGeneric(d *generic.Driver, out c19Fields) {
	renderStruct("generic.Driver", reflect.ValueOf(d).Elem(), out)
	renderTransport(d.Transport, out)
	if d.Channel != nil {
		renderStruct("channel.Channel", reflect.ValueOf(d.Channel).Elem(), out)
	}
}

// ---------------------------------------------------------------- options: encoded form <-> real option

// c19Opt is one option as the model sees it: name, rendered arguments, environment part.
type c19Opt struct {
	name  string
	args  []c19Val
	env   c19Val
	envOk bool
}

func (o c19Opt) encode() string {
	parts := []string{o.name, map[bool]string{true: "1", false: "0"}[o.envOk], vlib.HexList(o.env)}
	for _, a := range o.args {
		parts = append(parts, vlib.HexList(a))
	}
	return strings.Join(parts, ":")
}

func encodeOpts(os []c19Opt) string {
	if len(os) == 0 {
		return "_"
	}
	s := make([]string, len(os))
	for i, o := range os {
		s[i] = o.encode()
	}
	return strings.Join(s, "|")
}

func unhexList(s string) (c19Val, error) {
	if s == "." {
		return c19Val{}, nil
	}
	v := c19Val{}
	for _, p := range strings.Split(s, ",") {
		b, err := vlib.UnHex(p)
		if err != nil {
			return nil, err
		}
		v = append(v, b)
	}
	return v, nil
}

func decodeOpts(s string) ([]c19Opt, error) {
	if s == "_" {
		return nil, nil
	}
	var out []c19Opt
	for _, it := range strings.Split(s, "|") {
		f := strings.Split(it, ":")
		if len(f) < 3 {
			return nil, fmt.Errorf("bad option item %q", it)
		}
		o := c19Opt{name: f[0], envOk: f[1] == "1"}
		var err error
		if o.env, err = unhexList(f[2]); err != nil {
			return nil, err
		}
		for _, a := range f[3:] {
			v, err := unhexList(a)
			if err != nil {
				return nil, err
			}
			o.args = append(o.args, v)
		}
		out = append(out, o)
	}
	return out, nil
}

func argS(o c19Opt, i int) string {
	if i < len(o.args) && len(o.args[i]) == 1 {
		return string(o.args[i][0])
	}
	return ""
}

func argI(o c19Opt, i int) int {
	n, _ := strconv.Atoi(argS(o, i))
	return n
}

func argD(o c19Opt, i int) time.Duration {
	n, _ := strconv.ParseInt(argS(o, i), 10, 64)
	return time.Duration(n)
}

func argL(o c19Opt, i int) []string {
	if i >= len(o.args) {
		return nil
	}
	out := make([]string, len(o.args[i]))
	for j, b := range o.args[i] {
		out[j] = string(b)
	}
	return out
}

func argPrivs(o c19Opt, i int) map[string]*network.PrivilegeLevel {
	m := map[string]*network.PrivilegeLevel{}
	if i >= len(o.args) {
		return m
	}
	for _, e := range o.args[i] {
		parts := strings.SplitN(string(e), "\x00", 2)
		pat := ""
		if len(parts) == 2 {
			pat = parts[1]
		}
		m[parts[0]] = &network.PrivilegeLevel{Name: parts[0], Pattern: pat}
	}
	return m
}

// realOption builds the real scrapligo option from the encoded form.
func realOption(o c19Opt) (util.Option, error) {
	tok := argS(o, 0)
	switch o.name {
	case "WithAuthBypass":
		return options.WithAuthBypass(), nil
	case "WithAuthNoStrictKey":
		return options.WithAuthNoStrictKey(), nil
	case "WithAuthPassphrase":
		return options.WithAuthPassphrase(tok), nil
	case "WithAuthPassword":
		return options.WithAuthPassword(tok), nil
	case "WithAuthPrivateKey":
		return options.WithAuthPrivateKey(argS(o, 0), argS(o, 1)), nil
	case "WithAuthSecondary":
		return options.WithAuthSecondary(tok), nil
	case "WithAuthUsername":
		return options.WithAuthUsername(tok), nil
	case "WithChannelLog":
		if i, ok := tokIdx(tok, "writer:", c19N); ok {
			return options.WithChannelLog(c19Writers[i]), nil
		}
	case "WithCustomTransport":
		if i, ok := tokIdx(tok, "impl:", c19N); ok {
			return options.WithCustomTransport(c19Impls[i]), nil
		}
	case "WithDefaultDesiredPriv":
		return options.WithDefaultDesiredPriv(tok), nil
	case "WithDefaultLogger":
		return options.WithDefaultLogger(), nil
	case "WithFailedWhenContains":
		return options.WithFailedWhenContains(argL(o, 0)), nil
	case "WithFileTransportFile":
		return options.WithFileTransportFile(tok), nil
	case "WithLogger":
		if i, ok := tokIdx(tok, "logger:", c19N); ok {
			return options.WithLogger(c19Loggers[i]), nil
		}
	case "WithNetconfExcludeHeader":
		return options.WithNetconfExcludeHeader(), nil
	case "WithNetconfForceSelfClosingTags":
		return options.WithNetconfForceSelfClosingTags(), nil
	case "WithNetconfPreferredVersion":
		return options.WithNetconfPreferredVersion(tok), nil
	case "WithNetworkOnClose":
		if i, ok := tokIdx(tok, "nfn:", len(c19NFuncs)); ok {
			return options.WithNetworkOnClose(c19NFuncs[i]), nil
		}
	case "WithNetworkOnOpen":
		if i, ok := tokIdx(tok, "nfn:", len(c19NFuncs)); ok {
			return options.WithNetworkOnOpen(c19NFuncs[i]), nil
		}
	case "WithOnClose":
		if i, ok := tokIdx(tok, "gfn:", len(c19GFuncs)); ok {
			return options.WithOnClose(c19GFuncs[i]), nil
		}
	case "WithOnOpen":
		if i, ok := tokIdx(tok, "gfn:", len(c19GFuncs)); ok {
			return options.WithOnOpen(c19GFuncs[i]), nil
		}
	case "WithPassphrasePattern":
		return options.WithPassphrasePattern(regexp.MustCompile(tok)), nil
	case "WithPasswordPattern":
		return options.WithPasswordPattern(regexp.MustCompile(tok)), nil
	case "WithPort":
		return options.WithPort(argI(o, 0)), nil
	case "WithPrivilegeLevels":
		return options.WithPrivilegeLevels(argPrivs(o, 0)), nil
	case "WithPromptPattern":
		return options.WithPromptPattern(regexp.MustCompile(tok)), nil
	case "WithPromptSearchDepth":
		return options.WithPromptSearchDepth(argI(o, 0)), nil
	case "WithReadDelay":
		return options.WithReadDelay(argD(o, 0)), nil
	case "WithReturnChar":
		return options.WithReturnChar(tok), nil
	case "WithSSHConfigFile":
		return options.WithSSHConfigFile(tok), nil
	case "WithSSHConfigFileSystem":
		return options.WithSSHConfigFileSystem(), nil
	case "WithSSHKnownHostsFile":
		return options.WithSSHKnownHostsFile(tok), nil
	case "WithSSHKnownHostsFileSystem":
		return options.WithSSHKnownHostsFileSystem(), nil
	case "WithStandardTransportExtraCiphers":
		return options.WithStandardTransportExtraCiphers(argL(o, 0)), nil
	case "WithStandardTransportExtraKexs":
		return options.WithStandardTransportExtraKexs(argL(o, 0)), nil
	case "WithSystemTransportOpenArgs":
		return options.WithSystemTransportOpenArgs(argL(o, 0)), nil
	case "WithSystemTransportOpenArgsOverride":
		return options.WithSystemTransportOpenArgsOverride(argL(o, 0)), nil
	case "WithSystemTransportOpenBin":
		return options.WithSystemTransportOpenBin(tok), nil
	case "WithTermHeight":
		return options.WithTermHeight(argI(o, 0)), nil
	case "WithTermWidth":
		return options.WithTermWidth(argI(o, 0)), nil
	case "WithTimeoutOps":
		return options.WithTimeoutOps(argD(o, 0)), nil
	case "WithTimeoutSocket":
		return options.WithTimeoutSocket(argD(o, 0)), nil
	case "WithTransportReadSize":
		return options.WithTransportReadSize(argI(o, 0)), nil
	case "WithTransportType":
		return options.WithTransportType(tok), nil
	case "WithUsernamePattern":
		return options.WithUsernamePattern(regexp.MustCompile(tok)), nil
	case "logging_WithLevel":
		if len(o.env) == 1 {
			return logging.WithLevel(string(o.env[0])), nil
		}
		return logging.WithLevel(tok), nil
	case "logging_WithLogger":
		if i, ok := tokIdx(tok, "logfn:", len(c19LFuncs)); ok {
			return logging.WithLogger(c19LFuncs[i]), nil
		}
	case "logging_WithFormatter":
		if i, ok := tokIdx(tok, "fmt:", len(c19FFuncs)); ok {
			return logging.WithFormatter(c19FFuncs[i]), nil
		}
	}
	return nil, fmt.Errorf("cannot build option %s(%q)", o.name, tok)
}

// c19Named: the setting(s) each option names (Go-side copy of the spec, used by the frame oracle).
var c19Named = map[string][]string{
	"WithAuthBypass": {"channel.Channel.AuthBypass"}, "WithAuthNoStrictKey": {"transport.SSHArgs.StrictKey"},
	"WithAuthPassphrase": {"transport.SSHArgs.PrivateKeyPassPhrase"}, "WithAuthPassword": {"transport.Args.Password"},
	"WithAuthPrivateKey": {"transport.SSHArgs.PrivateKeyPath", "transport.SSHArgs.PrivateKeyPassPhrase"},
	"WithAuthSecondary":  {"network.Driver.AuthSecondary"}, "WithAuthUsername": {"transport.Args.User"},
	"WithChannelLog": {"channel.Channel.ChannelLog"}, "WithCustomTransport": {"transport.Args.UserImplementation"},
	"WithDefaultDesiredPriv": {"network.Driver.DefaultDesiredPriv"}, "WithDefaultLogger": {"generic.Driver.Logger", "netconf.Driver.Logger"},
	"WithFailedWhenContains": {"generic.Driver.FailedWhenContains"}, "WithFileTransportFile": {"transport.File.F"},
	"WithLogger": {"generic.Driver.Logger", "netconf.Driver.Logger"}, "WithNetconfExcludeHeader": {"netconf.Driver.ExcludeHeader"},
	"WithNetconfForceSelfClosingTags": {"netconf.Driver.ForceSelfClosingTags"}, "WithNetconfPreferredVersion": {"netconf.Driver.PreferredVersion"},
	"WithNetworkOnClose": {"network.Driver.OnClose"}, "WithNetworkOnOpen": {"network.Driver.OnOpen"},
	"WithOnClose": {"generic.Driver.OnClose"}, "WithOnOpen": {"generic.Driver.OnOpen"},
	"WithPassphrasePattern": {"channel.Channel.PassphrasePattern"}, "WithPasswordPattern": {"channel.Channel.PasswordPattern"},
	"WithPort": {"transport.Args.Port"}, "WithPrivilegeLevels": {"network.Driver.PrivilegeLevels", "channel.Channel.PromptPattern"},
	"WithPromptPattern": {"channel.Channel.PromptPattern"}, "WithPromptSearchDepth": {"channel.Channel.PromptSearchDepth"},
	"WithReadDelay": {"channel.Channel.ReadDelay"}, "WithReturnChar": {"channel.Channel.ReturnChar"},
	"WithSSHConfigFile": {"transport.SSHArgs.ConfigFile"}, "WithSSHConfigFileSystem": {"transport.SSHArgs.ConfigFile"},
	"WithSSHKnownHostsFile": {"transport.SSHArgs.KnownHostsFile"}, "WithSSHKnownHostsFileSystem": {"transport.SSHArgs.KnownHostsFile"},
	"WithStandardTransportExtraCiphers": {"transport.Standard.ExtraCiphers"}, "WithStandardTransportExtraKexs": {"transport.Standard.ExtraKexs"},
	"WithSystemTransportOpenArgs": {"transport.System.ExtraArgs"}, "WithSystemTransportOpenArgsOverride": {"transport.System.OpenArgs"},
	"WithSystemTransportOpenBin": {"transport.System.OpenBin"}, "WithTermHeight": {"transport.Args.TermHeight"},
	"WithTermWidth": {"transport.Args.TermWidth"}, "WithTimeoutOps": {"channel.Channel.TimeoutOps"},
	"WithTimeoutSocket": {"transport.Args.TimeoutSocket"}, "WithTransportReadSize": {"transport.Args.ReadSize"},
	"WithTransportType": {"generic.Driver.TransportType", "netconf.Driver.TransportType"}, "WithUsernamePattern": {"channel.Channel.UsernamePattern"},
	"logging_WithLevel": {"logging.Instance.Level"}, "logging_WithLogger": {"logging.Instance.Loggers"}, "logging_WithFormatter": {"logging.Instance.Formatter"},
}

var c19DriverOpts, c19LoggingOpts []string

var c19FileSeq atomic.Int64

func init() {
	for n := range c19Named {
		if strings.HasPrefix(n, "logging_") {
			c19LoggingOpts = append(c19LoggingOpts, n)
		} else {
			c19DriverOpts = append(c19DriverOpts, n)
		}
	}
	sort.Strings(c19DriverOpts)
	sort.Strings(c19LoggingOpts)
}

func sv(s string) c19Val { return c19Val{[]byte(s)} }

func lv(xs ...string) c19Val {
	v := c19Val{}
	for _, x := range xs {
		v = append(v, []byte(x))
	}
	return v
}

// resolvePath mirrors util.ResolveFilePath for the environment part of the system-file options.
func resolvePath(f string) (string, bool) {
	if _, err := os.Stat(f); err == nil {
		return f, true
	}
	f = strings.TrimPrefix(f, "~/")
	h, err := os.UserHomeDir()
	if err != nil {
		return "", false
	}
	f = h + "/" + f
	if _, err := os.Stat(f); err == nil {
		return f, true
	}
	return "", false
}

func resolveFirst(paths ...string) (c19Val, bool) {
	for _, p := range paths {
		if r, ok := resolvePath(p); ok {
			return sv(r), true
		}
	}
	return c19Val{}, false
}

var c19Words = []string{"a", "b", "-v", "-o", "x=1", "", "ü", "a b", "p:q|r;s", "zz", "#", "%s"}

// Boundary values: every value generator mixes these in (about one value in three), so that an
// option that trims, folds, re-parses or otherwise normalises its value is seen. All are valid
// UTF-8 (a YAML scalar cannot carry arbitrary bytes).
var c19Long = " " + strings.Repeat("long-value ", 300)

var c19BoundaryStrings = []string{"", " ", "  ", " lead", "trail ", " both ", "\ttab\t", "\t", "line\n", "\nline", "a\r\nb\r\n", "\n",
	c19Long, "üñí ✓ 日本 ", "\u00a0nbsp\u00a0", "0", "00", "-1", "1e3", "0x10", "true", "True", "false", "null", "Null", "~", "yes", "no",
	".*[a-z]+$^(|)\\", "%s%d%!x", "'single'", "\"double\"", "#hash", ": colon", "- dash", "{a: b}", "[x, y]", "a,b", "&anchor", "*alias", "!tag", "|", ">",
	"@at", "`tick`", "\x7f", "\x01ctl", "5s", "1m30s", "250ms"}

// valid regular expressions whose text has significant blanks / looks like something else
var c19BoundaryPatterns = []string{"(?m)^user@host:~\\$ ", "(?i)login: ", "(?i)password:\\s ", " ^lead", "trail\t", "\tlead", "a\nb", "tail\n", "\nhead", "",
	" ", "0", "true", "null", "~", "ü+ ", "^[a-z]{1,3}\\.\\*$ ", "\\Q.*\\E ", "(?s).* ", " " + strings.Repeat("(a|b)?x", 200) + " ", "[ ]", "\\ ", "#>", "- $"}

var c19BoundaryInts = []int{0, -1, 1, 65535, 65536, 2147483647, -2147483648, 9223372036854775807, -9223372036854775808}

// multiples of 1/8 s whose nanosecond value is exact in float64 and fits a Duration (platform floats)
var c19BoundaryEighths = []int{0, 1, -1, -12, 8, 8 * 86400, 8000000000, -8000000000}

func c19BoundaryList(r *vlib.Rng) []string {
	switch r.Intn(4) {
	case 0:
		return []string{}
	case 1:
		return []string{r.Pick(c19BoundaryStrings)}
	case 2:
		out := make([]string, 40)
		for i := range out {
			out[i] = r.Pick(c19BoundaryStrings)
		}
		return out
	}
	return []string{"", " ", ""}
}

// genOpt draws random arguments for the named option; invalid asks for a rejected value where the
// option has one.
func genOpt(r *vlib.Rng, name string, invalid bool) c19Opt {
	o := c19Opt{name: name, envOk: true, env: c19Val{}}
	boundary := r.Chance(1, 3)
	word := func() string {
		if boundary {
			return r.Pick(c19BoundaryStrings)
		}
		return r.Pick(c19Words)
	}
	words := func() c19Val {
		if boundary {
			return lv(c19BoundaryList(r)...)
		}
		n := r.Intn(4)
		v := c19Val{}
		for i := 0; i < n; i++ {
			v = append(v, []byte(word()))
		}
		return v
	}
	one := func(s string) { o.args = []c19Val{sv(s)} }
	num := func(lo, hi int) {
		if boundary {
			one(strconv.Itoa(c19BoundaryInts[r.Intn(len(c19BoundaryInts))]))
			return
		}
		one(strconv.Itoa(r.Range(lo, hi)))
	}
	re := func() {
		if boundary {
			one(r.Pick(c19BoundaryPatterns))
			return
		}
		one("tok" + strconv.Itoa(r.Intn(50)) + r.Pick([]string{">", "#$", "[>#]", "\\s*$"}))
	}
	switch name {
	case "WithAuthBypass", "WithAuthNoStrictKey", "WithNetconfExcludeHeader", "WithNetconfForceSelfClosingTags":
	case "WithAuthPassphrase", "WithAuthPassword", "WithAuthSecondary", "WithAuthUsername", "WithFileTransportFile",
		"WithSystemTransportOpenBin", "WithReturnChar":
		one(word())
	case "WithAuthPrivateKey":
		o.args = []c19Val{sv(word()), sv(word())}
	case "WithChannelLog":
		one("writer:" + strconv.Itoa(r.Intn(c19N)))
	case "WithCustomTransport":
		one("impl:" + strconv.Itoa(r.Intn(c19N)))
	case "WithDefaultDesiredPriv":
		one(r.Pick([]string{"exec", "exec", "cfg", "p1", ""}))
		if boundary {
			one(word())
		}
		if !invalid && argS(o, 0) == "" {
			one("exec")
		}
	case "WithDefaultLogger":
		o.env = sv("<default-logger>")
	case "WithFailedWhenContains", "WithStandardTransportExtraCiphers", "WithStandardTransportExtraKexs",
		"WithSystemTransportOpenArgs", "WithSystemTransportOpenArgsOverride":
		o.args = []c19Val{words()}
	case "WithLogger":
		one("logger:" + strconv.Itoa(r.Intn(c19N)))
	case "WithNetconfPreferredVersion":
		one(r.Pick([]string{"1.0", "1.1"}))
		if invalid {
			one(r.Pick([]string{"2.0", "", "1.10", "v1.1"}))
		}
	case "WithNetworkOnClose", "WithNetworkOnOpen":
		one("nfn:" + strconv.Itoa(r.Intn(len(c19NFuncs))))
	case "WithOnClose", "WithOnOpen":
		one("gfn:" + strconv.Itoa(r.Intn(len(c19GFuncs))))
	case "WithPassphrasePattern", "WithPasswordPattern", "WithPromptPattern", "WithUsernamePattern":
		re()
	case "WithPort":
		num(1, 65535)
	case "WithPromptSearchDepth", "WithTransportReadSize":
		num(1, 100000)
	case "WithTermHeight", "WithTermWidth":
		num(1, 500)
	case "WithReadDelay", "WithTimeoutOps", "WithTimeoutSocket":
		one(strconv.FormatInt(int64(r.Range(1, 100000))*int64(time.Microsecond)*int64(c19Pick2(r, 1, 1000)), 10))
		if boundary {
			one(strconv.FormatInt([]int64{0, 1, -1, int64(time.Hour) * 24 * 365, 9223372036854775807, -9223372036854775808}[r.Intn(6)], 10))
		}
	case "WithPrivilegeLevels":
		n := r.Range(1, 3)
		if invalid {
			n = 0
		}
		names := []string{"cfg", "exec", "p1"}
		v := c19Val{}
		for i := 0; i < n; i++ {
			v = append(v, []byte(names[i]+"\x00"+"lvl"+strconv.Itoa(r.Intn(30))+names[i]+"[>#]$"))
		}
		o.args = []c19Val{v}
	case "WithSSHConfigFile":
		one(filepath.Join(c19Dir, r.Pick([]string{"cfgA", "cfgB"})))
		if invalid {
			one(filepath.Join(c19Dir, "missing-cfg"))
			o.envOk = false
		}
	case "WithSSHKnownHostsFile":
		one(filepath.Join(c19Dir, r.Pick([]string{"khA", "khB"})))
		if invalid {
			one(filepath.Join(c19Dir, "missing-kh"))
			o.envOk = false
		}
	case "WithSSHConfigFileSystem":
		o.env, o.envOk = resolveFirst("~/.ssh/config", "/etc/ssh/ssh_config")
	case "WithSSHKnownHostsFileSystem":
		o.env, o.envOk = resolveFirst("~/.ssh/known_hosts", "/etc/ssh/ssh_known_hosts")
	case "WithTransportType":
		one(r.Pick([]string{"system", "standard", "telnet", "file", "system", "standard"}))
		if invalid {
			one(r.Pick([]string{"ssh", "", "System", "netconf"}))
		}
	case "logging_WithLevel":
		// documented case-insensitive: the level is lower-cased before it is checked and stored; the
		// model gets the lower-cased value, the real option the raw one (kept in env for replay)
		raw := r.Pick([]string{"info", "debug", "critical", "INFO", "Debug", "CRITICAL", "iNfO"})
		if invalid {
			raw = r.Pick([]string{"loud", "", "warn", " info", "info ", "INFO\n"})
		}
		one(strings.ToLower(raw))
		o.env = sv(raw)
	case "logging_WithLogger":
		one("logfn:" + strconv.Itoa(r.Intn(len(c19LFuncs))))
	case "logging_WithFormatter":
		one("fmt:" + strconv.Itoa(r.Intn(len(c19FFuncs))))
	}
	return o
}

var c19CanBeInvalid = map[string]bool{"WithNetconfPreferredVersion": true, "WithTransportType": true, "WithSSHConfigFile": true,
	"WithSSHKnownHostsFile": true, "logging_WithLevel": true}

// c19Additive: the options that append; every other option replaces.
var c19Additive = map[string]bool{"WithSystemTransportOpenArgs": true, "logging_WithLogger": true}

// c19PlatToOpt: platform option name -> option function (Go-side copy, independent of the translator).
var c19PlatToOpt = map[string]string{"port": "WithPort", "auth-bypass": "WithAuthBypass", "auth-strict-key": "WithAuthNoStrictKey",
	"prompt-pattern": "WithPromptPattern", "username-pattern": "WithUsernamePattern", "password-pattern": "WithPasswordPattern",
	"passphrase-pattern": "WithPassphrasePattern", "return-char": "WithReturnChar", "read-delay": "WithReadDelay", "timeout-ops": "WithTimeoutOps",
	"transport-type": "WithTransportType", "read-size": "WithTransportReadSize", "transport-pty-height": "WithTermHeight",
	"transport-pty-width": "WithTermWidth", "transport-system-open-args": "WithSystemTransportOpenArgs"}

// optWrites: the (field, value) pairs the option assigns, by the Go-side spec.
func optWrites(o c19Opt) map[string]c19Val {
	w := map[string]c19Val{}
	named := c19Named[o.name]
	var v c19Val
	switch o.name {
	case "WithAuthBypass", "WithNetconfExcludeHeader", "WithNetconfForceSelfClosingTags":
		v = sv("true")
	case "WithAuthNoStrictKey":
		v = sv("false")
	case "WithDefaultLogger", "WithSSHConfigFileSystem", "WithSSHKnownHostsFileSystem":
		v = o.env
	case "WithAuthPrivateKey":
		w[named[0]] = o.args[0]
		w[named[1]] = o.args[1]
		return w
	case "WithPrivilegeLevels":
		w[named[0]] = o.args[0]
		return w
	default:
		if len(o.args) > 0 {
			v = o.args[0]
		}
	}
	for _, n := range named {
		w[n] = v
	}
	return w
}

// goSpec folds the effective option list (platform options first, then the user's) into the
// expected value of every field some option names: last replacement wins, additive options
// accumulate in order.
func goSpec(plat *c19Plat, user []c19Opt) (map[string]c19Val, bool) {
	var all []c19Opt
	if plat != nil {
		plat = plat.merged()
	}
	if plat != nil {
		if len(plat.fwc) > 0 {
			all = append(all, c19Opt{name: "WithFailedWhenContains", args: []c19Val{lv(plat.fwc...)}})
		}
		pf := sv("<platform-fn>")
		if plat.oo {
			all = append(all, c19Opt{name: "WithOnOpen", args: []c19Val{pf}})
		}
		if plat.oc {
			all = append(all, c19Opt{name: "WithOnClose", args: []c19Val{pf}})
		}
		all = append(all, c19Opt{name: "WithPrivilegeLevels", args: []c19Val{plat.privs}}, c19Opt{name: "WithDefaultDesiredPriv", args: []c19Val{sv(plat.ddp)}})
		if plat.noo {
			all = append(all, c19Opt{name: "WithNetworkOnOpen", args: []c19Val{pf}})
		}
		if plat.noc {
			all = append(all, c19Opt{name: "WithNetworkOnClose", args: []c19Val{pf}})
		}
		for _, po := range plat.opts {
			on, ok := c19PlatToOpt[po.name]
			if !ok {
				return nil, false
			}
			o := c19Opt{name: on}
			switch po.kind {
			case 'i':
				o.args = []c19Val{sv(strconv.Itoa(po.n))}
			case 's':
				o.args = []c19Val{sv(po.s)}
			case 'f':
				o.args = []c19Val{sv(strconv.FormatInt(int64(po.n)*125000000, 10))}
			case 'l':
				o.args = []c19Val{lv(po.l...)}
			}
			all = append(all, o)
		}
	}
	all = append(all, user...)
	exp := map[string]c19Val{}
	for _, o := range all {
		for f, v := range optWrites(o) {
			if c19Additive[o.name] {
				exp[f] = append(append(c19Val{}, exp[f]...), v...)
			} else {
				exp[f] = v
			}
		}
	}
	return exp, true
}

// c19Valid: the documented values of the validated options (Go-side copy).
var c19Valid = map[string][]string{
	"WithTransportType":           {"system", "standard", "telnet", "file"},
	"WithNetconfPreferredVersion": {"1.0", "1.1"},
	"logging_WithLevel":           {"info", "debug", "critical"},
}

// goExpectOK: by the documentation alone, must this construction succeed? (every validated option
// carries a documented value, every named file exists, the network driver gets its privilege
// levels and default desired privilege)
func goExpectOK(ctor string, plat *c19Plat, user []c19Opt) bool {
	exp, ok := goSpec(plat, user)
	if !ok {
		return false
	}
	// the ssh argument object exists only for the two ssh transports without a custom transport:
	// an ssh-only option whose file does not exist fails there and is ignored everywhere else
	tt := "system"
	if v := exp["generic.Driver.TransportType"]; len(v) == 1 {
		tt = string(v[0])
	}
	_, custom := exp["transport.Args.UserImplementation"]
	sshBuilt := (tt == "system" || tt == "standard") && !custom && ctor != "logging"
	for _, o := range user {
		if !o.envOk && (sshBuilt || !strings.HasPrefix(o.name, "WithSSH")) {
			return false
		}
		if vs, ok := c19Valid[o.name]; ok {
			good := false
			for _, v := range vs {
				if argS(o, 0) == v {
					good = true
				}
			}
			if !good {
				return false
			}
		}
	}
	if plat != nil {
		for _, po := range plat.opts {
			want := map[string]byte{"WithPort": 'i', "WithTransportReadSize": 'i', "WithTermHeight": 'i', "WithTermWidth": 'i',
				"WithPromptPattern": 's', "WithUsernamePattern": 's', "WithPasswordPattern": 's', "WithPassphrasePattern": 's',
				"WithReturnChar": 's', "WithTransportType": 's', "WithReadDelay": 'f', "WithTimeoutOps": 'f', "WithSystemTransportOpenArgs": 'l'}[c19PlatToOpt[po.name]]
			if want != 0 && want != po.kind {
				return false
			}
		}
	}
	if ctor == "network" {
		d := exp["network.Driver.DefaultDesiredPriv"]
		if len(d) != 1 || len(d[0]) == 0 || len(exp["network.Driver.PrivilegeLevels"]) == 0 {
			return false
		}
	}
	return true
}

// ---------------------------------------------------------------- platform definitions

type c19PlatOpt struct {
	name string
	kind byte // i s f l b n
	s    string
	l    []string
	n    int // int value / eighths for f
	b    bool
}

type c19Plat struct {
	driverType string
	fwc        []string
	oo, oc     bool
	noo, noc   bool
	privs      c19Val
	ddp        string
	opts       []c19PlatOpt
	via        string   // "" = YAML bytes, "file" = path of a YAML file handed to NewPlatform
	variant    *c19Plat // NewPlatformVariant(def, "v1", ...) with this variant block
}

// merged: Go-side copy of Platform.mergeVariant (independent of the Lean model): the variant
// replaces what it sets; the options block of a variant is not merged.
func (p *c19Plat) merged() *c19Plat {
	if p.variant == nil {
		return p
	}
	v := p.variant
	m := *p
	m.variant = nil
	if v.driverType != "" {
		m.driverType = v.driverType
	}
	if len(v.fwc) > 0 {
		m.fwc = v.fwc
	}
	if v.oo {
		m.oo = true
	}
	if v.oc {
		m.oc = true
	}
	if len(v.privs) > 0 {
		m.privs = v.privs
	}
	if v.ddp != "" {
		m.ddp = v.ddp
	}
	if v.noo {
		m.noo = true
	}
	if v.noc {
		m.noc = true
	}
	return &m
}

func (p *c19Plat) encode() string {
	tok := func(b bool) string {
		if b {
			return vlib.Hex([]byte("<platform-fn>"))
		}
		return "_"
	}
	var os []string
	for _, o := range p.opts {
		v := ""
		switch o.kind {
		case 'i':
			v = "i" + vlib.Hex([]byte(strconv.Itoa(o.n)))
		case 's':
			v = "s" + vlib.Hex([]byte(o.s))
		case 'f':
			v = "f" + strconv.Itoa(o.n)
		case 'l':
			v = "l" + vlib.HexList(lv(o.l...))
		case 'b':
			v = "b" + map[bool]string{true: "1", false: "0"}[o.b]
		default:
			v = "n"
		}
		os = append(os, vlib.Hex([]byte(o.name))+":"+v)
	}
	ob := "_"
	if len(os) > 0 {
		ob = strings.Join(os, "|")
	}
	return strings.Join([]string{
		"fwc=" + vlib.HexList(lv(p.fwc...)), "oo=" + tok(p.oo), "oc=" + tok(p.oc), "noo=" + tok(p.noo), "noc=" + tok(p.noc),
		"pl=" + vlib.HexList(p.privs), "ddp=" + vlib.Hex([]byte(p.ddp)), "opts=" + ob, "dt=" + p.driverType}, ";") + p.encodeTail()
}

func (p *c19Plat) encodeTail() string {
	t := ""
	if p.via != "" {
		t += ";via=" + p.via
	}
	if p.variant != nil {
		t += ";var=" + vlib.Hex([]byte(p.variant.encode()))
	}
	return t
}

func decodePlat(s string) (*c19Plat, error) {
	p := &c19Plat{}
	unl := func(v string) []string {
		x, _ := unhexList(v)
		out := []string{}
		for _, b := range x {
			out = append(out, string(b))
		}
		return out
	}
	for _, kv := range strings.Split(s, ";") {
		i := strings.Index(kv, "=")
		if i < 0 {
			return nil, fmt.Errorf("bad platform field %q", kv)
		}
		k, v := kv[:i], kv[i+1:]
		switch k {
		case "fwc":
			p.fwc = unl(v)
		case "oo":
			p.oo = v != "_"
		case "oc":
			p.oc = v != "_"
		case "noo":
			p.noo = v != "_"
		case "noc":
			p.noc = v != "_"
		case "pl":
			p.privs, _ = unhexList(v)
		case "ddp":
			b, _ := vlib.UnHex(v)
			p.ddp = string(b)
		case "via":
			p.via = v
		case "var":
			b, _ := vlib.UnHex(v)
			vp, err := decodePlat(string(b))
			if err != nil {
				return nil, err
			}
			p.variant = vp
		case "dt":
			p.driverType = v
		case "opts":
			if v == "_" {
				continue
			}
			for _, it := range strings.Split(v, "|") {
				f := strings.SplitN(it, ":", 2)
				if len(f) != 2 || len(f[1]) == 0 {
					return nil, fmt.Errorf("bad platform option %q", it)
				}
				nb, _ := vlib.UnHex(f[0])
				o := c19PlatOpt{name: string(nb), kind: f[1][0]}
				rest := f[1][1:]
				switch o.kind {
				case 'i':
					b, _ := vlib.UnHex(rest)
					o.n, _ = strconv.Atoi(string(b))
				case 's':
					b, _ := vlib.UnHex(rest)
					o.s = string(b)
				case 'f':
					o.n, _ = strconv.Atoi(rest)
				case 'l':
					o.l = unl(rest)
				case 'b':
					o.b = rest == "1"
				}
				p.opts = append(p.opts, o)
			}
		}
	}
	return p, nil
}

// leanPlat is the platform field of the request line (the model does not need the driver type).
func (p *c19Plat) leanPlat() string {
	e := p.encode()
	return e[:strings.LastIndex(e, ";dt=")]
}

func c19yq(s string) string { return strconv.Quote(s) } // a Go-quoted string is a valid YAML double-quoted scalar for our alphabet

func (p *c19Plat) yaml() []byte {
	out := "platform-type: 'verif'\ndefault:\n" + p.body()
	if p.variant != nil {
		out += "variants:\n  v1:\n"
		for _, l := range strings.SplitAfter(p.variant.body(), "\n") {
			if l != "" {
				out += "  " + l
			}
		}
	}
	return []byte(out)
}

// body: the lines of one platform block (two-space indented, as under `default:`). Multi-line
// scalars are double-quoted with escapes, so every line of the body is a structural line.
func (p *c19Plat) body() string {
	var b strings.Builder
	if p.driverType != "" {
		fmt.Fprintf(&b, "  driver-type: '%s'\n", p.driverType)
	}
	if len(p.privs) > 0 {
		b.WriteString("  privilege-levels:\n")
		for _, e := range p.privs {
			parts := strings.SplitN(string(e), "\x00", 2)
			fmt.Fprintf(&b, "    %s:\n      name: %s\n      pattern: %s\n", parts[0], c19yq(parts[0]), c19yq(parts[1]))
		}
	}
	if p.ddp != "" {
		fmt.Fprintf(&b, "  default-desired-privilege-level: %s\n", c19yq(p.ddp))
	}
	if len(p.fwc) > 0 {
		b.WriteString("  failed-when-contains:\n")
		for _, s := range p.fwc {
			fmt.Fprintf(&b, "    - %s\n", c19yq(s))
		}
	}
	onx := func(key string, on bool) {
		if on {
			fmt.Fprintf(&b, "  %s:\n    - operation: 'channel.return'\n", key)
		}
	}
	onx("on-open", p.oo)
	onx("on-close", p.oc)
	onx("network-on-open", p.noo)
	onx("network-on-close", p.noc)
	if len(p.opts) > 0 {
		b.WriteString("  options:\n")
		for _, o := range p.opts {
			fmt.Fprintf(&b, "    - option: %s\n", c19yq(o.name))
			switch o.kind {
			case 'i':
				fmt.Fprintf(&b, "      value: %d\n", o.n)
			case 's':
				fmt.Fprintf(&b, "      value: %s\n", c19yq(o.s))
			case 'f':
				s := strconv.FormatFloat(float64(o.n)/8.0, 'f', -1, 64)
				if !strings.Contains(s, ".") {
					s += ".0"
				}
				fmt.Fprintf(&b, "      value: %s\n", s)
			case 'l':
				if len(o.l) == 0 {
					b.WriteString("      value: []\n")
				} else {
					b.WriteString("      value:\n")
					for _, s := range o.l {
						fmt.Fprintf(&b, "        - %s\n", c19yq(s))
					}
				}
			case 'b':
				fmt.Fprintf(&b, "      value: %v\n", o.b)
			default:
				b.WriteString("      value:\n")
			}
		}
	}
	return b.String()
}

// documented value type of each platform option name, as the model driver reports it
// (`c19 names`): "an int" | "a string" | "a float" | "an array of strings" | "" (value unused).
func genPlatOpt(r *vlib.Rng, name, documented string, wrongType bool) c19PlatOpt {
	o := c19PlatOpt{name: name}
	boundary := r.Chance(1, 3)
	kind := map[string]byte{"an int": 'i', "a string": 's', "a float": 'f', "an array of strings": 'l', "": 'b'}[documented]
	if wrongType {
		alts := []byte{'i', 's', 'f', 'l', 'b', 'n'}
		for {
			k := alts[r.Intn(len(alts))]
			if k != kind && documented != "" {
				kind = k
				break
			}
			if documented == "" {
				kind = k
				break
			}
		}
	}
	o.kind = kind
	switch kind {
	case 'i':
		o.n = r.Range(1, 60000)
		if boundary {
			o.n = c19BoundaryInts[r.Intn(len(c19BoundaryInts))]
		}
	case 's':
		switch {
		case name == "transport-type":
			o.s = r.Pick([]string{"system", "standard", "telnet", "file"})
		case name == "return-char":
			o.s = r.Pick([]string{"\n", "\r\n", "\r"})
			if boundary {
				o.s = r.Pick(c19BoundaryStrings)
			}
		case strings.HasSuffix(name, "-pattern"):
			o.s = "ptok" + strconv.Itoa(r.Intn(50)) + r.Pick([]string{">", "#$", "[>#]"})
			if boundary {
				o.s = r.Pick(c19BoundaryPatterns)
			}
		default:
			o.s = r.Pick(c19BoundaryStrings)
		}
	case 'f':
		o.n = r.Range(1, 4000)
		if boundary {
			o.n = c19BoundaryEighths[r.Intn(len(c19BoundaryEighths))]
		}
	case 'l':
		n := r.Intn(4)
		for i := 0; i < n; i++ {
			o.l = append(o.l, r.Pick(c19Words))
		}
		if o.l == nil {
			o.l = []string{}
		}
		if boundary {
			o.l = c19BoundaryList(r)
		}
	case 'b':
		o.b = r.Bool()
	}
	return o
}

// ---------------------------------------------------------------- running the implementation

type c19Out struct {
	fields   c19Fields
	err      string // "" | badoption | other
	panicked bool
	pmsg     string
}

func c19errClass(err error) string {
	switch {
	case err == nil:
		return ""
	case errors.Is(err, util.ErrBadOption):
		return "badoption"
	case errors.Is(err, util.ErrIgnoredOption):
		return "ignored"
	}
	return "other"
}

const c19Host = "verif-host"

func runImpl(ctor string, plat *c19Plat, user []c19Opt) (out c19Out) {
	defer func() {
		if r := recover(); r != nil {
			out.panicked = true
			out.pmsg = fmt.Sprint(r)
		}
	}()
	return runImplWith(ctor, plat, c19BuildOpts(user, 0))
}

// c19Probe is handed to a tagged option to learn which option sits in a slot of the caller's slice.
type c19Probe struct{ id int }

// c19BuildOpts builds the caller's option slice: every option is wrapped so that it can be
// identified later (function values cannot be compared), with `spare` unused capacity.
func c19BuildOpts(user []c19Opt, spare int) []util.Option {
	opts := make([]util.Option, 0, len(user)+spare)
	for i, o := range user {
		ro, err := realOption(o)
		if err != nil {
			panic("harness: " + err.Error())
		}
		id := i
		opts = append(opts, func(x interface{}) error {
			if p, ok := x.(*c19Probe); ok {
				p.id = id
				return util.ErrIgnoredOption
			}
			return ro(x)
		})
	}
	return opts
}

// c19SliceIntact: is the caller's slice still the options it put there, in order?
func c19SliceIntact(opts []util.Option, n int) (bool, string) {
	if len(opts) != n {
		return false, fmt.Sprintf("length %d -> %d", n, len(opts))
	}
	var ids []string
	ok := true
	for i, o := range opts {
		p := &c19Probe{id: -1}
		if o != nil {
			_ = o(p)
		}
		ids = append(ids, strconv.Itoa(p.id))
		if p.id != i {
			ok = false
		}
	}
	return ok, "slots now hold options #[" + strings.Join(ids, " ") + "]"
}

// runImplWith runs one constructor on the caller's (possibly shared) option slice.
func runImplWith(ctor string, plat *c19Plat, opts []util.Option) (out c19Out) {
	defer func() {
		if r := recover(); r != nil {
			out.panicked = true
			out.pmsg = fmt.Sprint(r)
		}
	}()
	out.fields = c19Fields{}
	switch {
	case plat != nil:
		var src interface{} = plat.yaml()
		if plat.via == "file" {
			// NewPlatform / NewPlatformVariant given a path: not an embedded asset, read from disk
			path := filepath.Join(c19Dir, fmt.Sprintf("plat-%d-%d.yaml", os.Getpid(), c19FileSeq.Add(1)))
			if werr := os.WriteFile(path, plat.yaml(), 0o644); werr != nil {
				panic("harness: " + werr.Error())
			}
			defer os.Remove(path)
			src = path
		}
		var p *platform.Platform
		var err error
		if plat.variant != nil {
			p, err = platform.NewPlatformVariant(src, "v1", c19Host, opts...)
		} else {
			p, err = platform.NewPlatform(src, c19Host, opts...)
		}
		if err != nil {
			out.err = c19errClass(err)
			return out
		}
		if p.GetPlatformType() != "verif" && plat.variant == nil {
			out.err = "platform-type:" + p.GetPlatformType()
			return out
		}
		if ctor == "network" {
			d, err := p.GetNetworkDriver()
			if err != nil {
				out.err = c19errClass(err)
				return out
			}
			renderStruct("network.Driver", reflect.ValueOf(d).Elem(), out.fields)
			renderGeneric(d.Driver, out.fields)
			canonPrompt(out.fields)
		} else {
			d, err := p.GetGenericDriver()
			if err != nil {
				out.err = c19errClass(err)
				return out
			}
			renderGeneric(d, out.fields)
		}
	case ctor == "generic":
		d, err := generic.NewDriver(c19Host, opts...)
		if err != nil {
			out.err = c19errClass(err)
			return out
		}
		renderGeneric(d, out.fields)
	case ctor == "network":
		d, err := network.NewDriver(c19Host, opts...)
		if err != nil {
			out.err = c19errClass(err)
			return out
		}
		renderStruct("network.Driver", reflect.ValueOf(d).Elem(), out.fields)
		renderGeneric(d.Driver, out.fields)
		canonPrompt(out.fields)
	case ctor == "netconf":
		d, err := netconf.NewDriver(c19Host, opts...)
		if err != nil {
			out.err = c19errClass(err)
			return out
		}
		renderStruct("netconf.Driver", reflect.ValueOf(d).Elem(), out.fields)
		renderTransport(d.Transport, out.fields)
		if d.Channel != nil {
			renderStruct("channel.Channel", reflect.ValueOf(d.Channel).Elem(), out.fields)
		}
	case ctor == "logging":
		i, err := logging.NewInstance(opts...)
		if err != nil {
			out.err = c19errClass(err)
			return out
		}
		renderStruct("logging.Instance", reflect.ValueOf(i).Elem(), out.fields)
	}
	return out
}

// canonPrompt: the network driver joins the privilege level patterns in Go map order, which is
// not defined; the rendered prompt pattern becomes the sorted list of its alternatives.
func canonPrompt(f c19Fields) {
	v, ok := f["channel.Channel.PromptPattern"]
	if !ok || len(v) != 1 {
		return
	}
	g := c19Val{}
	for _, p := range strings.Split(string(v[0]), "|") {
		g = append(g, []byte(p))
	}
	f["channel.Channel.PromptPattern"] = sortedVal(g)
}

// ---------------------------------------------------------------- comparison

func parseModelRes(s string) (fields c19Fields, err string, panicked bool, ok bool) {
	switch {
	case s == "panic":
		return nil, "", true, true
	case strings.HasPrefix(s, "err:"):
		return nil, s[4:], false, true
	case strings.HasPrefix(s, "ok:"):
		fields = c19Fields{}
		for _, kv := range strings.Split(s[3:], ";") {
			i := strings.Index(kv, "=")
			if i < 0 {
				return nil, "", false, false
			}
			v, e := unhexList(kv[i+1:])
			if e != nil {
				return nil, "", false, false
			}
			fields[kv[:i]] = v
		}
		return fields, "", false, true
	}
	return nil, "", false, false
}

func valEq(a, b c19Val) bool {
	if len(a) != len(b) {
		return false
	}
	for i := range a {
		if !bytes.Equal(a[i], b[i]) {
			return false
		}
	}
	return true
}

func sortedVal(v c19Val) c19Val {
	out := append(c19Val{}, v...)
	sort.Slice(out, func(i, j int) bool { return bytes.Compare(out[i], out[j]) < 0 })
	return out
}

func showVal(v c19Val) string {
	s := make([]string, len(v))
	for i, b := range v {
		s[i] = strconv.Quote(string(b))
	}
	return "[" + strings.Join(s, ",") + "]"
}

// diffFields compares the implementation's fields with an expected configuration; `<default>` in
// the expectation stands for the value of the no-option construction. Returns the first
// differing field.
func diffFields(ctor string, impl, want, baseline c19Fields) (string, string) {
	var keys []string
	for k := range impl {
		keys = append(keys, k)
	}
	sort.Strings(keys)
	for _, k := range keys {
		w, ok := want[k]
		if !ok {
			continue // a field the translator does not know (noted once elsewhere)
		}
		got := impl[k]
		if len(w) == 1 && string(w[0]) == "<default>" {
			w = baseline[k]
		}
		if k == "channel.Channel.PromptPattern" && ctor == "network" {
			w = sortedVal(w) // the implementation's value was canonicalised by canonPrompt
		}
		if !valEq(got, w) {
			return k, fmt.Sprintf("%s: impl %s, expected %s", k, showVal(got), showVal(w))
		}
	}
	return "", ""
}

// ---------------------------------------------------------------- the run

type c19Case struct {
	class string
	ctor  string
	plat  *c19Plat
	user  []c19Opt
	perm  []int // shuffle oracle: permutation applied to user
}

// c19Reuse: one caller-owned option slice handed to several constructions in a row.
type c19Step struct {
	ctor string
	plat *c19Plat
}

type c19Reuse struct {
	user  []c19Opt
	spare int
	steps []c19Step
}

// line: `c19 reuse <spare> <ctor@plat+ctor@plat…> <opts>`
func (rc *c19Reuse) line() string {
	var st []string
	for _, s := range rc.steps {
		pl := "-"
		if s.plat != nil {
			pl = s.plat.encode()
		}
		st = append(st, s.ctor+"@"+pl)
	}
	return fmt.Sprintf("c19 reuse %d %s %s", rc.spare, strings.Join(st, "+"), encodeOpts(rc.user))
}

func decodeReuse(line string) (c19Reuse, bool) {
	f := strings.Fields(line)
	rc := c19Reuse{}
	if len(f) != 5 || f[1] != "reuse" {
		return rc, false
	}
	rc.spare, _ = strconv.Atoi(f[2])
	for _, s := range strings.Split(f[3], "+") {
		i := strings.Index(s, "@")
		if i < 0 {
			return rc, false
		}
		st := c19Step{ctor: s[:i]}
		if s[i+1:] != "-" {
			p, err := decodePlat(s[i+1:])
			if err != nil {
				return rc, false
			}
			st.plat = p
		}
		rc.steps = append(rc.steps, st)
	}
	u, err := decodeOpts(f[4])
	if err != nil {
		return rc, false
	}
	rc.user = u
	return rc, true
}

func (cs *c19Case) line() string {
	pl := "-"
	if cs.plat != nil {
		pl = cs.plat.encode()
	}
	return fmt.Sprintf("c19 construct %s %s %s", cs.ctor, pl, encodeOpts(cs.user))
}

func (cs *c19Case) leanLine() string {
	pl := "-"
	if cs.plat != nil {
		pl = cs.plat.leanPlat()
	}
	if cs.plat != nil && cs.plat.variant != nil {
		return fmt.Sprintf("c19 constructv %s %s %s %s", cs.ctor, pl, cs.plat.variant.leanPlat(), encodeOpts(cs.user))
	}
	return fmt.Sprintf("c19 construct %s %s %s", cs.ctor, pl, encodeOpts(cs.user))
}

func runC19(c *ctx) {
	res := c.res
	res.Rule = "option lists of 0..14 options drawn with repetition from all 45 driver options (+3 logging options), valid and invalid values, through generic/network/netconf.NewDriver, platform.NewPlatform with a generated YAML definition (options block over every recognised name, documented and wrong value types, plus user options) and logging.NewInstance; all exported setting fields read by reflection. non-trivial = at least two options or a platform definition; distinct by request line"
	c19Setup()
	defer c19Teardown()
	r := c.rng

	// platform option names the model knows (from the regenerated table)
	platDoc := map[string]string{}
	var platNames []string
	for _, it := range strings.Split(c.ask([]string{"c19 names"})[0], ",") {
		f := strings.Split(it, ":")
		if len(f) != 2 {
			continue
		}
		n, _ := vlib.UnHex(f[0])
		d, _ := vlib.UnHex(f[1])
		platDoc[string(n)] = string(d)
		platNames = append(platNames, string(n))
	}

	// rows of the regenerated tables that differ from the expected rows (Lean: changedOptionRows /
	// changedPlatformRows): the search is directed at exactly these
	var changedOpts, changedPlat []string
	for _, part := range strings.Fields(c.ask([]string{"c19 rowdiff"})[0]) {
		kv := strings.SplitN(part, "=", 2)
		if len(kv) != 2 || kv[1] == "" {
			continue
		}
		if kv[0] == "opts" {
			changedOpts = strings.Split(kv[1], ",")
		} else if kv[0] == "plat" {
			changedPlat = strings.Split(kv[1], ",")
		}
	}
	if len(changedOpts)+len(changedPlat) > 0 {
		res.Note("regenerated table rows differ from the expected rows: options %v, platform options %v; search directed at them", changedOpts, changedPlat)
	}

	var cases []c19Case
	netPrivs := func() []c19Opt {
		return []c19Opt{genOpt(r, "WithPrivilegeLevels", false), {name: "WithDefaultDesiredPriv", args: []c19Val{sv("exec")}, envOk: true, env: c19Val{}}}
	}
	if c.replay != "" {
		f := strings.Fields(c.replay)
		if len(f) == 5 && f[1] == "construct" {
			cs := c19Case{class: "replay", ctor: f[2]}
			if f[3] != "-" {
				p, err := decodePlat(f[3])
				if err != nil {
					res.Fail("machinery", c.replay, err.Error(), "replay")
					return
				}
				cs.plat = p
			}
			u, err := decodeOpts(f[4])
			if err != nil {
				res.Fail("machinery", c.replay, err.Error(), "replay")
				return
			}
			cs.user = u
			cases = append(cases, cs)
		}
	} else {
		// (1) exhaustive single-option frame cases: every option x every constructor x every transport type
		for _, name := range c19DriverOpts {
			for _, ctor := range []string{"generic", "network", "netconf"} {
				for _, tt := range []string{"", "standard", "telnet", "file"} {
					var u []c19Opt
					if ctor == "network" {
						u = append(u, netPrivs()...)
					}
					if tt != "" && name != "WithTransportType" {
						u = append(u, c19Opt{name: "WithTransportType", args: []c19Val{sv(tt)}, envOk: true, env: c19Val{}})
					}
					u = append(u, genOpt(r, name, false))
					cases = append(cases, c19Case{class: "single", ctor: ctor, user: u})
				}
			}
		}
		for _, name := range c19LoggingOpts {
			cases = append(cases, c19Case{class: "single", ctor: "logging", user: []c19Opt{genOpt(r, name, false)}})
		}
		// (2) random lists
		for i := 0; i < c.n(8000, 400000); i++ {
			ctor := r.Pick([]string{"generic", "network", "netconf", "generic", "network", "netconf", "logging"})
			var u []c19Opt
			n := r.Intn(15)
			pool := c19DriverOpts
			if ctor == "logging" {
				pool = c19LoggingOpts
				n = r.Intn(7)
			}
			invalidP := c19Pick2(r, 0, 8) // most lists are fully valid
			for j := 0; j < n; j++ {
				name := pool[r.Intn(len(pool))]
				inv := invalidP > 0 && c19CanBeInvalid[name] && r.Chance(1, 3)
				u = append(u, genOpt(r, name, inv))
				if r.Chance(1, 6) { // duplicates of the same setting
					u = append(u, genOpt(r, name, false))
				}
			}
			if ctor == "network" && r.Chance(9, 10) {
				at := r.Intn(len(u) + 1)
				u = append(u[:at:at], append(netPrivs(), u[at:]...)...)
			}
			if r.Chance(1, 10) && len(u) > 0 && ctor != "logging" {
				k := r.Intn(len(u))
				if u[k].name == "WithPrivilegeLevels" || u[k].name == "WithDefaultDesiredPriv" {
					u[k] = genOpt(r, u[k].name, true)
				}
			}
			cases = append(cases, c19Case{class: "random-" + ctor, ctor: ctor, user: u})
		}
		// (3) platform definitions: every recognised option name with a value of the documented type
		for i := 0; i < c.n(3000, 150000); i++ {
			p := &c19Plat{driverType: r.Pick([]string{"network", "network", "generic"})}
			if p.driverType == "network" || r.Chance(1, 3) {
				p.privs = genOpt(r, "WithPrivilegeLevels", false).args[0]
				p.ddp = "exec"
			}
			if r.Chance(1, 2) {
				for j := r.Range(1, 3); j > 0; j-- {
					p.fwc = append(p.fwc, r.Pick(c19Words[:5]))
				}
				if r.Chance(1, 3) {
					p.fwc = append(p.fwc, c19BoundaryList(r)...)
				}
			}
			p.oo, p.oc, p.noo, p.noc = r.Chance(1, 3), r.Chance(1, 3), r.Chance(1, 3), r.Chance(1, 3)
			class := "platform"
			var names []string
			switch {
			case i < len(platNames): // each name on its own at least once
				names = []string{platNames[i]}
			case i < 2*len(platNames):
				names = append([]string{}, platNames...) // all of them
			default:
				for j := r.Intn(7); j > 0; j-- {
					names = append(names, platNames[r.Intn(len(platNames))])
				}
			}
			for _, n := range names {
				p.opts = append(p.opts, genPlatOpt(r, n, platDoc[n], false))
			}
			if r.Chance(1, 12) { // malformed stream: wrong value type or unknown name
				class = "platform-malformed"
				if r.Bool() && len(platNames) > 0 {
					n := platNames[r.Intn(len(platNames))]
					p.opts = append(p.opts, genPlatOpt(r, n, platDoc[n], true))
				} else {
					p.opts = append(p.opts, c19PlatOpt{name: "no-such-option", kind: 'i', n: 1})
				}
			}
			var u []c19Opt
			// user options, preferably for the same settings the platform names
			for j := r.Intn(6); j > 0; j-- {
				name := c19DriverOpts[r.Intn(len(c19DriverOpts))]
				if r.Chance(2, 3) {
					name = r.Pick([]string{"WithPort", "WithAuthBypass", "WithAuthNoStrictKey", "WithPromptPattern", "WithUsernamePattern",
						"WithPasswordPattern", "WithPassphrasePattern", "WithReturnChar", "WithReadDelay", "WithTimeoutOps", "WithTransportType",
						"WithTransportReadSize", "WithTermHeight", "WithTermWidth", "WithSystemTransportOpenArgs", "WithFailedWhenContains",
						"WithOnOpen", "WithOnClose", "WithNetworkOnOpen", "WithNetworkOnClose", "WithPrivilegeLevels", "WithDefaultDesiredPriv"})
				}
				u = append(u, genOpt(r, name, false))
			}
			cases = append(cases, c19Case{class: class, ctor: p.driverType, plat: p, user: u})
		}
		// (3a) the other entry points of the platform constructor: NewPlatformVariant (the variant
		// replaces what it sets, the options block stays the default's) and a definition read from a
		// file path instead of bytes
		for i := 0; i < c.n(700, 20000); i++ {
			mk := func(dt string, full bool) *c19Plat {
				p := &c19Plat{driverType: dt}
				if full || r.Chance(1, 2) {
					p.privs = genOpt(r, "WithPrivilegeLevels", false).args[0]
				}
				if full || r.Chance(1, 2) {
					p.ddp = r.Pick([]string{"exec", "cfg", "p1"})
				}
				if r.Chance(1, 2) {
					p.fwc = []string{r.Pick(c19Words[:5]), r.Pick(c19BoundaryStrings)}
				}
				p.oo, p.oc, p.noo, p.noc = r.Chance(1, 3), r.Chance(1, 3), r.Chance(1, 3), r.Chance(1, 3)
				for j := r.Intn(4); j > 0; j-- {
					n := platNames[r.Intn(len(platNames))]
					p.opts = append(p.opts, genPlatOpt(r, n, platDoc[n], false))
				}
				return p
			}
			p := mk(r.Pick([]string{"network", "generic"}), true)
			class := "platform-file"
			if r.Chance(2, 3) {
				class = "platform-variant"
				p.variant = mk(r.Pick([]string{"", "", "network", "generic"}), false)
				if p.variant.body() == "" {
					// a variant block with nothing in it is a YAML null: NewPlatformVariant dereferences
					// the nil variant and panics (reported as an observation, outside the quantifier)
					p.variant.fwc = []string{"% empty"}
				}
			}
			if class == "platform-file" || r.Chance(1, 3) {
				p.via = "file"
			}
			var u []c19Opt
			for j := r.Intn(5); j > 0; j-- {
				u = append(u, genOpt(r, c19DriverOpts[r.Intn(len(c19DriverOpts))], false))
			}
			cases = append(cases, c19Case{class: class, ctor: p.merged().driverType, plat: p, user: u})
		}
		// (3c) ssh-only options — with existing and with missing files — on drivers that build no ssh
		// argument object (telnet, file, custom transport), through all four constructors: they are
		// not applicable there and must be ignored silently, whatever their value
		for i := 0; i < c.n(500, 20000); i++ {
			ctor := r.Pick([]string{"generic", "network", "netconf", "platform-generic", "platform-network"})
			var u []c19Opt
			var p *c19Plat
			how := r.Intn(3)
			if strings.HasPrefix(ctor, "platform-") {
				p = &c19Plat{driverType: strings.TrimPrefix(ctor, "platform-"), ddp: "exec", privs: genOpt(r, "WithPrivilegeLevels", false).args[0]}
				ctor = p.driverType
				if how < 2 && r.Bool() {
					p.opts = append(p.opts, c19PlatOpt{name: "transport-type", kind: 's', s: []string{"telnet", "file"}[how]})
					how = 3
				}
			} else if ctor == "network" {
				u = append(u, netPrivs()...)
			}
			switch how {
			case 0:
				u = append(u, opt1("WithTransportType", "telnet"))
			case 1:
				u = append(u, opt1("WithTransportType", "file"))
			case 2:
				u = append(u, genOpt(r, "WithCustomTransport", false))
			}
			for j := r.Range(1, 4); j > 0; j-- {
				name := r.Pick([]string{"WithSSHConfigFile", "WithSSHKnownHostsFile", "WithSSHConfigFileSystem", "WithSSHKnownHostsFileSystem",
					"WithAuthNoStrictKey", "WithAuthPrivateKey", "WithAuthPassphrase"})
				at := r.Intn(len(u) + 1)
				u = append(u[:at:at], append([]c19Opt{genOpt(r, name, c19CanBeInvalid[name] && r.Chance(2, 3))}, u[at:]...)...)
			}
			for j := r.Intn(3); j > 0; j-- {
				u = append(u, genOpt(r, c19DriverOpts[r.Intn(len(c19DriverOpts))], false))
			}
			cases = append(cases, c19Case{class: "ssh-option-without-ssh", ctor: ctor, plat: p, user: u})
		}
		// (3b) directed: options / platform option names whose regenerated table row differs from
		// the expected row (a table obligation is broken) are sampled heavily with boundary values,
		// alone and among other options, through every constructor
		for _, name := range changedOpts {
			if _, ok := c19Named[name]; !ok {
				continue
			}
			for i := 0; i < c.n(600, 6000); i++ {
				ctor := r.Pick([]string{"generic", "network", "netconf"})
				if strings.HasPrefix(name, "logging_") {
					ctor = "logging"
				}
				var u []c19Opt
				if ctor == "network" {
					u = append(u, netPrivs()...)
				}
				if ctor != "logging" {
					for j := r.Intn(3); j > 0; j-- {
						u = append(u, genOpt(r, c19DriverOpts[r.Intn(len(c19DriverOpts))], false))
					}
				}
				u = append(u, genOpt(r, name, false))
				cases = append(cases, c19Case{class: "directed", ctor: ctor, user: u})
			}
		}
		for _, name := range changedPlat {
			if _, ok := platDoc[name]; !ok {
				continue
			}
			for i := 0; i < c.n(600, 6000); i++ {
				p := &c19Plat{driverType: r.Pick([]string{"network", "generic"})}
				p.privs = genOpt(r, "WithPrivilegeLevels", false).args[0]
				p.ddp = "exec"
				for j := r.Intn(3); j > 0; j-- {
					n := platNames[r.Intn(len(platNames))]
					p.opts = append(p.opts, genPlatOpt(r, n, platDoc[n], false))
				}
				p.opts = append(p.opts, genPlatOpt(r, name, platDoc[name], false))
				cases = append(cases, c19Case{class: "directed-platform", ctor: p.driverType, plat: p})
			}
		}
		// (4) order independence: shuffled copies of compatible lists
		for i := 0; i < c.n(2500, 120000); i++ {
			ctor := r.Pick([]string{"generic", "network", "netconf"})
			idx := c19Perm(r, len(c19DriverOpts))
			n := r.Range(2, 14)
			var u []c19Opt
			for _, k := range idx[:n] {
				name := c19DriverOpts[k]
				u = append(u, genOpt(r, name, c19CanBeInvalid[name] && r.Chance(1, 12)))
			}
			if ctor == "network" && r.Chance(9, 10) {
				u = append(u, netPrivs()...)
			}
			cases = append(cases, c19Case{class: "shuffle", ctor: ctor, user: u, perm: c19Perm(r, len(u))})
		}
	}

	// baselines: no-option constructions
	baseline := map[string]c19Fields{}
	for _, ctor := range []string{"generic", "network", "netconf", "logging"} {
		var u []c19Opt
		if ctor == "network" {
			u = []c19Opt{{name: "WithPrivilegeLevels", args: []c19Val{lv("exec\x00x")}, envOk: true}, {name: "WithDefaultDesiredPriv", args: []c19Val{sv("exec")}, envOk: true}}
		}
		b := runImpl(ctor, nil, u)
		if b.panicked || b.err != "" {
			res.Fail("oracle", "c19 construct "+ctor+" - "+encodeOpts(u), "constructor fails without options: "+b.err+b.pmsg, "baseline-fails")
			return
		}
		baseline[ctor] = b.fields
	}

	// model answers
	var lines []string
	for i := range cases {
		lines = append(lines, cases[i].leanLine())
		if cases[i].perm != nil {
			lines = append(lines, fmt.Sprintf("c19 compat %s %s", cases[i].ctor, encodeOpts(cases[i].user)))
		}
	}
	ans := c.ask(lines)
	unknownNoted := map[string]bool{}
	reuseShrunk := map[string]bool{}
	eval := func(cs *c19Case, a string, compat bool, res *vlib.Result, i int) {
		line := cs.line()
		res.Count("class:" + cs.class)
		res.Count("ctor:" + cs.ctor)
		res.Count(fmt.Sprintf("len:%02d", len(cs.user)))
		res.Case(line, len(cs.user) >= 2 || cs.plat != nil)
		f := strings.Fields(a)
		if len(f) != 3 || !strings.HasPrefix(f[0], "dom=") || !strings.HasPrefix(f[1], "model=") || !strings.HasPrefix(f[2], "spec=") {
			res.Fail("machinery", line, "driver answered "+a, "driver")
			return
		}
		dom := f[0] == "dom=1"
		mF, mErr, mPanic, ok1 := parseModelRes(f[1][6:])
		if !ok1 {
			res.Fail("machinery", line, "driver answered "+a[:min(len(a), 200)], "driver")
			return
		}
		impl := runImpl(cs.ctor, cs.plat, cs.user)
		if i%401 == 0 {
			res.Sample(map[string]any{"class": cs.class, "ctor": cs.ctor, "options": optNames(cs.user), "platform_options": platOptNames(cs.plat),
				"impl_error": impl.err, "impl_panicked": impl.panicked, "fields_compared": len(impl.fields)})
		}
		for fk := range impl.fields {
			if mF != nil {
				if _, ok := mF[fk]; !ok && !unknownNoted[fk] {
					unknownNoted[fk] = true
					res.Note("field %s of the implementation is not in the generated table (not compared)", fk)
				}
			}
		}
		describe := func() string {
			return fmt.Sprintf("ctor=%s platform-options=%v user-options=%v", cs.ctor, platOptNames(cs.plat), optNames(cs.user))
		}
		// --- correspondence: implementation vs model of the code
		switch {
		case impl.panicked && dom:
			// a value of the documented type / an ordinary option list must never panic
			res.InDomain++
			res.Fail("oracle", line, fmt.Sprintf("%s: implementation panicked: %s", describe(), impl.pmsg), "panic:"+panicSite(cs, impl.pmsg))
			return
		case impl.panicked != mPanic:
			sig := "panic-mismatch"
			if impl.panicked {
				sig = "panic-out-of-domain:" + panicSite(cs, impl.pmsg)
			}
			res.Fail("correspondence", line, fmt.Sprintf("%s: implementation panicked=%v (%s), model panic=%v", describe(), impl.panicked, impl.pmsg, mPanic), sig)
			return
		case impl.panicked:
			res.Count("outcome:panic(out-of-domain)")
			return
		case impl.err != mErr:
			kind := "correspondence"
			if dom {
				kind = "oracle"
			}
			res.Fail(kind, line, fmt.Sprintf("%s: implementation error class %q, model %q", describe(), impl.err, mErr), "wrong-error:"+impl.err+"-vs-"+mErr)
			return
		case impl.err != "":
			res.Count("outcome:err-" + impl.err)
		default:
			res.Count("outcome:ok")
			if fk, d := diffFields(cs.ctor, impl.fields, mF, baseline[cs.ctor]); fk != "" {
				kind := "correspondence"
				if dom {
					kind = "oracle"
				}
				res.Fail(kind, line, describe()+": "+d, "wrong-field:"+fk)
				return
			}
		}
		// --- oracle: implementation vs declarative spec, model vs spec (in-domain cases)
		if dom {
			res.InDomain++
			sF, sErr, _, ok2 := parseModelRes(f[2][5:])
			if !ok2 {
				res.Fail("machinery", line, "driver answered spec "+f[2][:min(len(f[2]), 200)], "driver")
				return
			}
			// implementation vs what the property demands
			implBad := ""
			switch {
			case sErr != impl.err:
				implBad = fmt.Sprintf("error class %q, the property demands %q", impl.err, sErr)
				res.Fail("oracle", line, describe()+": "+implBad, "wrong-error:"+impl.err+"-vs-"+sErr)
			case sF != nil:
				if fk, d := diffFields(cs.ctor, impl.fields, sF, baseline[cs.ctor]); fk != "" {
					implBad = d
					res.Fail("oracle", line, describe()+": "+d, "wrong-field:"+fk)
				}
			}
			// model vs spec: a machinery bug only when the implementation itself meets the spec
			// (otherwise the regenerated model merely mirrors the defective source)
			if implBad == "" {
				if sErr != mErr || (sF != nil) != (mF != nil) {
					res.Fail("machinery", line, fmt.Sprintf("model %q vs spec %q", mErr, sErr), "model-vs-spec")
				} else if sF != nil {
					for fk, v := range sF {
						if !valEq(v, mF[fk]) {
							res.Fail("machinery", line, fmt.Sprintf("model and spec differ on %s: %s vs %s", fk, showVal(mF[fk]), showVal(v)), "model-vs-spec")
							break
						}
					}
				}
			} else {
				return
			}
		}
		// --- Go-only oracle: single option changes exactly the setting it names
		if cs.class == "single" && impl.err == "" {
			o := cs.user[len(cs.user)-1]
			var base []c19Opt
			base = append(base, cs.user[:len(cs.user)-1]...)
			b := runImpl(cs.ctor, nil, base)
			named := map[string]bool{}
			for _, n := range c19Named[o.name] {
				named[n] = true
			}
			if o.name == "WithTransportType" || o.name == "WithCustomTransport" {
				// selects which transport objects exist: compare only the fields both have
			}
			changed := 0
			for fk, v := range impl.fields {
				bv, ok := b.fields[fk]
				if !ok {
					continue
				}
				if !valEq(v, bv) {
					changed++
					if !named[fk] {
						res.Fail("oracle", line, fmt.Sprintf("%s through %s changed %s (%s -> %s), which it does not name", o.name, cs.ctor, fk, showVal(bv), showVal(v)), "frame:"+o.name+":"+fk)
					}
				}
			}
			res.Count(fmt.Sprintf("single-changed:%d", changed))
		}
		// --- Go-only oracle: a construction the documentation says is fine must succeed
		if goExpectOK(cs.ctor, cs.plat, cs.user) && (impl.err != "" || impl.panicked) {
			res.Fail("oracle", line, fmt.Sprintf("%s: every option carries a documented value, yet the constructor fails (%s%s)", describe(), impl.err, impl.pmsg), "valid-rejected:"+impl.err)
		}
		// --- Go-only oracle: last wins / additive in order / user over platform, from the Go-side
		// table of named settings (independent of the translator and the Lean model)
		if dom && impl.err == "" && !impl.panicked {
			if exp, ok := goSpec(cs.plat, cs.user); ok {
				for fk, want := range exp {
					got, have := impl.fields[fk]
					if !have {
						continue // object not built by this constructor / transport
					}
					if fk == "channel.Channel.PromptPattern" && cs.ctor != "generic" {
						continue // network and NETCONF drivers derive the prompt pattern themselves (documented)
					}
					if !valEq(got, want) {
						res.Fail("oracle", line, fmt.Sprintf("%s: %s is %s, the options naming it say %s", describe(), fk, showVal(got), showVal(want)), "named-setting:"+fk)
						break
					}
				}
			}
		}
		// --- Go-only oracle: order independence
		if cs.perm != nil {
			if !compat {
				res.Count("shuffle:not-compatible(skipped)")
				return
			}
			sh := make([]c19Opt, len(cs.user))
			for j, p := range cs.perm {
				sh[j] = cs.user[p]
			}
			other := runImpl(cs.ctor, nil, sh)
			sline := fmt.Sprintf("c19 construct %s - %s", cs.ctor, encodeOpts(sh))
			switch {
			case other.panicked:
				res.Fail("oracle", sline, "panic on the shuffled list: "+other.pmsg, "panic:shuffle")
			case other.err != impl.err:
				res.Fail("oracle", sline, fmt.Sprintf("%s: error class %q, but %q for the permutation %v", describe(), impl.err, other.err, optNames(sh)), "order-dependent-error")
			case impl.err == "":
				if fk, d := diffFields("", other.fields, impl.fields, nil); fk != "" {
					res.Fail("oracle", sline, fmt.Sprintf("order dependent: %s vs permutation %v: %s", describe(), optNames(sh), d), "order-dependent:"+fk)
				} else if fk, d := diffFields("", impl.fields, other.fields, nil); fk != "" {
					res.Fail("oracle", sline, fmt.Sprintf("order dependent: %s vs permutation %v: %s", describe(), optNames(sh), d), "order-dependent:"+fk)
				} else {
					res.Count("shuffle:same")
				}
			default:
				res.Count("shuffle:same-error")
			}
		}
	}
	k := 0
	for i := range cases {
		cs := &cases[i]
		a := ans[k]
		k++
		compat := false
		if cs.perm != nil {
			compat = ans[k] == "1"
			k++
		}
		eval(cs, a, compat, res, i)
	}
	// (5) one caller-owned option slice handed to several constructions in a row: every driver must
	// equal the model's (pure) construction from the same list, and the caller's slice must be
	// element-wise unchanged afterwards
	evalReuse := func(rc *c19Reuse, answers []string, res *vlib.Result) {
		line := rc.line()
		opts := c19BuildOpts(rc.user, rc.spare)
		sliceReported := false
		for k, st := range rc.steps {
			f := strings.Fields(answers[k])
			if len(f) != 3 {
				res.Fail("machinery", line, "driver answered "+answers[k], "driver")
				return
			}
			dom := f[0] == "dom=1"
			mF, mErr, mPanic, ok := parseModelRes(f[1][6:])
			if !ok {
				res.Fail("machinery", line, "driver answered "+answers[k][:min(len(answers[k]), 200)], "driver")
				return
			}
			impl := runImplWith(st.ctor, st.plat, opts)
			kind := "correspondence"
			if dom {
				kind = "oracle"
			}
			where := fmt.Sprintf("construction %d of %d (%s, platform-options=%v) from one shared slice of %v (spare capacity %d)",
				k+1, len(rc.steps), st.ctor, platOptNames(st.plat), optNames(rc.user), rc.spare)
			switch {
			case impl.panicked != mPanic:
				res.Fail(kind, line, fmt.Sprintf("%s: panicked=%v (%s), model panic=%v", where, impl.panicked, impl.pmsg, mPanic), "reuse:panic")
				return
			case impl.panicked:
			case impl.err != mErr:
				res.Fail(kind, line, fmt.Sprintf("%s: error class %q, model %q", where, impl.err, mErr), "reuse:wrong-error:"+impl.err+"-vs-"+mErr)
				return
			case impl.err == "":
				if fk, d := diffFields(st.ctor, impl.fields, mF, baseline[st.ctor]); fk != "" {
					res.Fail(kind, line, where+": "+d, "reuse:wrong-field:"+fk)
					return
				}
			}
			if ok, how := c19SliceIntact(opts, len(rc.user)); !ok && !sliceReported {
				// keep going: the next construction shows what the damaged slice does to a driver
				sliceReported = true
				res.Fail("oracle", line, where+": the caller's option slice was modified: "+how, "reuse:caller-slice-modified")
			}
		}
	}
	askReuse := func(rc *c19Reuse) []string {
		var ls []string
		for _, st := range rc.steps {
			cs := c19Case{ctor: st.ctor, plat: st.plat, user: rc.user}
			ls = append(ls, cs.leanLine())
		}
		return c.ask(ls)
	}
	var reuses []c19Reuse
	if c.replay != "" {
		if rc, ok := decodeReuse(c.replay); ok {
			reuses = append(reuses, rc)
		}
	} else {
		for i := 0; i < c.n(1200, 60000); i++ {
			var u []c19Opt
			n := r.Range(1, 9)
			for j := 0; j < n; j++ {
				u = append(u, genOpt(r, c19DriverOpts[r.Intn(len(c19DriverOpts))], false))
			}
			// driver-level and additive options, where a damaged slice shows
			for _, name := range []string{"WithTransportType", "WithFailedWhenContains", "WithLogger", "WithOnOpen", "WithSystemTransportOpenArgs"} {
				if r.Chance(1, 2) {
					at := r.Intn(len(u) + 1)
					u = append(u[:at:at], append([]c19Opt{genOpt(r, name, false)}, u[at:]...)...)
				}
			}
			if r.Chance(1, 2) {
				u = append(u, genOpt(r, "WithSystemTransportOpenArgs", false))
			}
			at := r.Intn(len(u) + 1)
			u = append(u[:at:at], append(netPrivs(), u[at:]...)...)
			rc := c19Reuse{user: u, spare: c19Pick2(r, 0, 4)}
			for k := r.Range(2, 4); k > 0; k-- {
				st := c19Step{ctor: r.Pick([]string{"generic", "network", "netconf", "generic"})}
				if r.Chance(1, 4) {
					st.ctor = r.Pick([]string{"generic", "network"})
					p := &c19Plat{driverType: st.ctor, ddp: "exec", privs: genOpt(r, "WithPrivilegeLevels", false).args[0]}
					if r.Bool() {
						p.fwc = []string{r.Pick(c19Words[:5])}
					}
					for j := r.Intn(3); j > 0 && len(platNames) > 0; j-- {
						nm := platNames[r.Intn(len(platNames))]
						p.opts = append(p.opts, genPlatOpt(r, nm, platDoc[nm], false))
					}
					st.plat = p
				}
				rc.steps = append(rc.steps, st)
			}
			reuses = append(reuses, rc)
		}
	}
	if len(reuses) > 0 {
		var ls []string
		for i := range reuses {
			for _, st := range reuses[i].steps {
				cs := c19Case{ctor: st.ctor, plat: st.plat, user: reuses[i].user}
				ls = append(ls, cs.leanLine())
			}
		}
		ra := c.ask(ls)
		k := 0
		for i := range reuses {
			rc := &reuses[i]
			res.Count("class:reuse")
			res.Count(fmt.Sprintf("reuse-steps:%d", len(rc.steps)))
			res.Case(rc.line(), true)
			before := len(res.Findings)
			evalReuse(rc, ra[k:k+len(rc.steps)], res)
			k += len(rc.steps)
			// shrink the first failure of each reuse signature: fewer constructions, fewer options
			for fi := before; fi < len(res.Findings) && c.replay == ""; fi++ {
				fd := &res.Findings[fi]
				if !reuseShrunk[fd.Signature] {
					reuseShrunk[fd.Signature] = true
					cur := *rc
					same := func(cand *c19Reuse) (string, bool) {
						scratch := vlib.NewResult("C19")
						evalReuse(cand, askReuse(cand), scratch)
						for _, g := range scratch.Findings {
							if g.Signature == fd.Signature {
								return g.Detail, true
							}
						}
						return "", false
					}
					detail, budget := fd.Detail, 60
					for changed := true; changed && budget > 0; {
						changed = false
						for j := 0; j < len(cur.steps) && len(cur.steps) > 2 && budget > 0; j++ {
							cand := cur
							cand.steps = append(append([]c19Step{}, cur.steps[:j]...), cur.steps[j+1:]...)
							budget--
							if d, ok := same(&cand); ok {
								cur, detail, changed = cand, d, true
								j--
							}
						}
						for j := 0; j < len(cur.user) && budget > 0; j++ {
							cand := cur
							cand.user = append(append([]c19Opt{}, cur.user[:j]...), cur.user[j+1:]...)
							budget--
							if d, ok := same(&cand); ok {
								cur, detail, changed = cand, d, true
								j--
							}
						}
					}
					fd.Case, fd.Detail = cur.line(), detail
				}
			}
		}
	}
	// (5b) platform entry points judged directly: an embedded definition by name with user options
	// on top (user options win; the platform type is reported), asking a platform for the other
	// driver flavour, an unknown variant
	if c.replay == "" {
		for i := 0; i < c.n(120, 3000); i++ {
			name := r.Pick([]string{"cisco_iosxe", "arista_eos", "juniper_junos", "nokia_srl", "cisco_nxos", "cisco_iosxr"})
			var u []c19Opt
			for j := r.Range(1, 6); j > 0; j-- {
				u = append(u, genOpt(r, r.Pick([]string{"WithPort", "WithAuthUsername", "WithAuthPassword", "WithFailedWhenContains", "WithOnOpen", "WithNetworkOnOpen",
					"WithDefaultDesiredPriv", "WithPrivilegeLevels", "WithTransportType", "WithTimeoutOps", "WithPromptSearchDepth", "WithLogger", "WithAuthSecondary",
					"WithSystemTransportOpenArgs", "WithReturnChar", "WithTermWidth"}), false))
			}
			res.Count("class:platform-asset")
			line := fmt.Sprintf("c19 asset %s %s", name, encodeOpts(u))
			res.Case(line, true)
			var d *network.Driver
			var ptype string
			err := func() (err error) {
				defer func() {
					if rr := recover(); rr != nil {
						err = fmt.Errorf("panic: %v", rr)
					}
				}()
				p, err := platform.NewPlatform(name, c19Host, c19BuildOpts(u, 0)...)
				if err != nil {
					return err
				}
				ptype = p.GetPlatformType()
				d, err = p.GetNetworkDriver()
				if err != nil {
					return err
				}
				if _, gerr := p.GetGenericDriver(); gerr == nil || !errors.Is(gerr, util.ErrPlatformError) {
					return fmt.Errorf("GetGenericDriver on a network platform: %v", gerr)
				}
				return nil
			}()
			if err != nil {
				res.Fail("oracle", line, fmt.Sprintf("embedded platform %s with user options %v: %v", name, optNames(u), err), "asset:construct")
				continue
			}
			res.InDomain++
			if ptype != name {
				res.Fail("oracle", line, fmt.Sprintf("GetPlatformType() = %q for the embedded platform %q", ptype, name), "asset:platform-type")
			}
			got := c19Fields{}
			renderStruct("network.Driver", reflect.ValueOf(d).Elem(), got)
			renderGeneric(d.Driver, got)
			exp, _ := goSpec(nil, u)
			for fk, want := range exp {
				g, have := got[fk]
				if !have || fk == "channel.Channel.PromptPattern" {
					continue
				}
				if !valEq(g, want) {
					res.Fail("oracle", line, fmt.Sprintf("embedded platform %s, user options %v: %s is %s, the user's options say %s", name, optNames(u), fk, showVal(g), showVal(want)), "asset:user-option-lost:"+fk)
					break
				}
			}
		}
		// the other flavour / an unknown variant are errors, never panics or nil drivers
		for _, dt := range []string{"generic", "network"} {
			p := &c19Plat{driverType: dt, ddp: "exec", privs: lv("exec\x00x>")}
			line := "c19 getter " + dt
			res.Case(line, true)
			err := func() (err error) {
				defer func() {
					if rr := recover(); rr != nil {
						err = fmt.Errorf("panic: %v", rr)
					}
				}()
				pl, err := platform.NewPlatform(p.yaml(), c19Host)
				if err != nil {
					return err
				}
				gd, gerr := pl.GetGenericDriver()
				nd, nerr := pl.GetNetworkDriver()
				if dt == "generic" && (gd == nil || gerr != nil || nd != nil || !errors.Is(nerr, util.ErrPlatformError)) {
					return fmt.Errorf("generic platform: GetGenericDriver=(%v,%v) GetNetworkDriver=(%v,%v)", gd != nil, gerr, nd != nil, nerr)
				}
				if dt == "network" && (nd == nil || nerr != nil || gd != nil || !errors.Is(gerr, util.ErrPlatformError)) {
					return fmt.Errorf("network platform: GetGenericDriver=(%v,%v) GetNetworkDriver=(%v,%v)", gd != nil, gerr, nd != nil, nerr)
				}
				if _, verr := platform.NewPlatformVariant(p.yaml(), "no-such-variant", c19Host); !errors.Is(verr, util.ErrPlatformError) {
					return fmt.Errorf("unknown variant: %v", verr)
				}
				// definitions that cannot be loaded are errors, not panics, through both entry points
				for _, src := range []interface{}{filepath.Join(c19Dir, "no-such-definition.yaml"), []byte("default: [not, a, mapping")} {
					if pp, lerr := platform.NewPlatform(src, c19Host); lerr == nil || pp != nil {
						return fmt.Errorf("NewPlatform(%v) = (%v, %v)", src, pp != nil, lerr)
					}
					if pp, lerr := platform.NewPlatformVariant(src, "v1", c19Host); lerr == nil || pp != nil {
						return fmt.Errorf("NewPlatformVariant(%v) = (%v, %v)", src, pp != nil, lerr)
					}
				}
				return nil
			}()
			if err != nil {
				res.Fail("oracle", line, err.Error(), "platform-getter")
			}
		}
	}
	// (5c) histories: several platforms from the same named definition, drivers fetched afterwards
	nHist := runC19Histories(c, baseline, platNames, platDoc)
	// (6) effect class: open the driver and judge every option where it acts (c19_effect.go)
	nEffects := runC19Effects(c, baseline, platNames, platDoc)
	// observations outside the property's quantifier (reported, never gating)
	if c.replay == "" {
		for _, pr := range []struct {
			what string
			o    c19PlatOpt
		}{
			{"an integer YAML value (timeout-ops: 60) for the float option timeout-ops", c19PlatOpt{name: "timeout-ops", kind: 'i', n: 60}},
			{"an integer YAML value (read-delay: 1) for the float option read-delay", c19PlatOpt{name: "read-delay", kind: 'i', n: 1}},
			{"an option name the platform package does not recognise", c19PlatOpt{name: "no-such-option", kind: 'i', n: 1}},
		} {
			p := &c19Plat{driverType: "generic", opts: []c19PlatOpt{pr.o}}
			out := runImpl("generic", p, nil)
			res.Note("observation (out of domain): %s -> panicked=%v %s", pr.what, out.panicked, out.pmsg)
		}
		func() {
			defer func() {
				if rr := recover(); rr != nil {
					res.Note("observation (out of domain): NewPlatformVariant with an empty variant block (`variants: {v1: }`) panics: %v", rr)
				}
			}()
			_, err := platform.NewPlatformVariant([]byte("platform-type: 'x'\ndefault:\n  driver-type: 'generic'\nvariants:\n  v1:\n"), "v1", c19Host)
			res.Note("observation: NewPlatformVariant with an empty variant block returns err=%v", err)
		}()
		if pv, err := platform.NewPlatformVariant([]byte("platform-type: 'x'\ndefault:\n  driver-type: 'generic'\nvariants:\n  v1:\n    failed-when-contains: ['e']\n"), "v1", c19Host); err == nil {
			res.Note("observation: a platform built by NewPlatformVariant reports GetPlatformType()=%q (NewPlatform reports the definition's platform-type)", pv.GetPlatformType())
		}
		p := &c19Plat{driverType: "generic", opts: []c19PlatOpt{{name: "auth-strict-key", kind: 'b', b: true}}}
		out := runImpl("generic", p, nil)
		res.Note("observation: platform option auth-strict-key ignores its value: `auth-strict-key: true` gives SSHArgs.StrictKey=%s", showVal(out.fields["transport.SSHArgs.StrictKey"]))
	}
	// shrink the first failing case of every oracle signature (greedy removal of user options and
	// platform options while the same signature still fails), so that the replay is small
	shrunk := map[string]bool{}
	for fi := range res.Findings {
		fd := &res.Findings[fi]
		if fd.Kind != "oracle" || shrunk[fd.Signature] || c.replay != "" {
			continue
		}
		shrunk[fd.Signature] = true
		fl := strings.Fields(fd.Case)
		if len(fl) != 5 || fl[1] != "construct" {
			continue
		}
		cur := c19Case{class: "shrink", ctor: fl[2]}
		if fl[3] != "-" {
			p, err := decodePlat(fl[3])
			if err != nil {
				continue
			}
			cur.plat = p
		}
		u, err := decodeOpts(fl[4])
		if err != nil {
			continue
		}
		cur.user = u
		fails := func(cand *c19Case) (string, bool) {
			scratch := vlib.NewResult("C19")
			eval(cand, c.ask([]string{cand.leanLine()})[0], false, scratch, 1)
			for _, g := range scratch.Findings {
				if g.Kind == "oracle" && g.Signature == fd.Signature {
					return g.Detail, true
				}
			}
			return "", false
		}
		detail, budget := fd.Detail, 60
		for changed := true; changed && budget > 0; {
			changed = false
			for j := 0; j < len(cur.user) && budget > 0; j++ {
				cand := cur
				cand.user = append(append([]c19Opt{}, cur.user[:j]...), cur.user[j+1:]...)
				budget--
				if d, ok := fails(&cand); ok {
					cur, detail, changed = cand, d, true
					j--
				}
			}
			if cur.plat != nil {
				for j := 0; j < len(cur.plat.opts) && budget > 0; j++ {
					cp := *cur.plat
					cp.opts = append(append([]c19PlatOpt{}, cur.plat.opts[:j]...), cur.plat.opts[j+1:]...)
					cand := cur
					cand.plat = &cp
					budget--
					if d, ok := fails(&cand); ok {
						cur, detail, changed = cand, d, true
						j--
					}
				}
				cp := *cur.plat
				cp.fwc, cp.oo, cp.oc, cp.noo, cp.noc = nil, false, false, false, false
				cand := cur
				cand.plat = &cp
				if len(cur.plat.fwc) > 0 || cur.plat.oo || cur.plat.oc || cur.plat.noo || cur.plat.noc {
					budget--
					if d, ok := fails(&cand); ok {
						cur, detail, changed = cand, d, true
					}
				}
			}
		}
		if cur.line() != fd.Case {
			fd.Case, fd.Detail = cur.line(), detail
		}
	}
	res.TracesVsImpl = len(cases) + len(reuses) + nEffects + nHist
}

func c19Pick2(r *vlib.Rng, a, b int) int {
	if r.Bool() {
		return a
	}
	return b
}

func c19Perm(r *vlib.Rng, n int) []int {
	p := make([]int, n)
	for i := range p {
		p[i] = i
	}
	for i := n - 1; i > 0; i-- {
		j := r.Intn(i + 1)
		p[i], p[j] = p[j], p[i]
	}
	return p
}

func min(a, b int) int {
	if a < b {
		return a
	}
	return b
}

func optNames(os []c19Opt) []string {
	out := make([]string, len(os))
	for i, o := range os {
		out[i] = o.name
	}
	return out
}

func platOptNames(p *c19Plat) []string {
	if p == nil {
		return nil
	}
	out := []string{}
	for _, o := range p.opts {
		out = append(out, o.name+"("+string(o.kind)+")")
	}
	return out
}

// panicSite names the platform option whose translation panicked (for the finding signature).
func panicSite(cs *c19Case, msg string) string {
	if cs.plat != nil {
		if i := strings.Index(msg, "option "); i >= 0 {
			w := strings.Fields(msg[i:])
			if len(w) > 1 {
				return "platform-option:" + w[1]
			}
		}
		return "platform"
	}
	return "constructor"
}
