package main

import (
	"encoding/json"
	"fmt"
	"net"
	"os"
	"os/exec"
	"strconv"
	"strings"
	"sync"
	"time"

	"github.com/scrapli/scrapligo/driver/generic"
	"github.com/scrapli/scrapligo/driver/options"

	"verifgo/sim"
	"verifgo/vlib"
)

// Real-transport flavour for C06: the library's own telnet transport over loopback TCP against a
// login device; the server hangs up (FIN -> io.EOF from net.Conn) or resets (RST -> ECONNRESET)
// after it has sent k bytes: during option negotiation, during the in-channel login inside Open,
// or during the operations that follow. No model request (the theorems do not mention the
// transport); the property's oracle on the observed calls.

type c06tcall struct {
	Name    string `json:"n"`
	Ident   string `json:"i"`
	Result  string `json:"r"`
	StartUs int64  `json:"s"` // start, µs since the case began
	EndUs   int64  `json:"e"`
	Hang    bool   `json:"h"`
}

type c06tobs struct {
	Calls  []c06tcall `json:"calls"`
	LossUs int64      `json:"loss"` // when the server hung up (-1: never)
	Sent   int        `json:"sent"`
	SentAt []int      `json:"at"` // bytes sent when each call returned (reference run)
	Setup  string     `json:"setup"`
}

// c06telnetRun runs one case in this process; kind "" = reference.
func c06telnetRun(seed uint64, kind string, k int) (o c06tobs) {
	r := vlib.NewRng(seed)
	host := r.Pick([]string{"r1", "core-sw1", "edge.lab"})
	secret := r.Pick([]string{"s3cret", "p"})
	dev := sim.NewC06Login(false, "admin", secret, host+"#")
	dev.Out = "Interface Gi0/1 is up\nline protocol is up\n"
	ln, err := net.Listen("tcp", "127.0.0.1:0")
	if err != nil {
		o.Setup = err.Error()
		return o
	}
	defer ln.Close()
	t0 := time.Now()
	var mu sync.Mutex
	o.LossUs = -1
	go func() {
		conn, err := ln.Accept()
		if err != nil {
			return
		}
		hang := func() {
			mu.Lock()
			if o.LossUs < 0 {
				o.LossUs = time.Since(t0).Microseconds()
			}
			mu.Unlock()
			if kind == "rst" {
				if tc, ok := conn.(*net.TCPConn); ok {
					_ = tc.SetLinger(0)
				}
			}
			_ = conn.Close()
		}
		if kind != "" && k == 0 {
			hang()
			return
		}
		dev.Start()
		go func() { // client -> device
			buf := make([]byte, 4096)
			for {
				n, err := conn.Read(buf)
				if n > 0 {
					_ = dev.Pipe.Write(buf[:n])
				}
				if err != nil {
					return
				}
			}
		}()
		for { // device -> client, k bytes at most
			b, err := dev.Pipe.Read(7)
			if err != nil {
				return
			}
			mu.Lock()
			sent := o.Sent
			mu.Unlock()
			if kind != "" && sent+len(b) > k {
				b = b[:k-sent]
			}
			if len(b) > 0 {
				if _, err := conn.Write(b); err != nil {
					return
				}
			}
			mu.Lock()
			o.Sent += len(b)
			sent = o.Sent
			mu.Unlock()
			if kind != "" && sent >= k {
				time.Sleep(300 * time.Microsecond)
				hang()
				return
			}
		}
	}()
	port := ln.Addr().(*net.TCPAddr).Port
	d, err := generic.NewDriver("127.0.0.1", options.WithPort(port), options.WithTransportType("telnet"),
		options.WithAuthUsername("admin"), options.WithAuthPassword(secret), options.WithTimeoutOps(c06Timeout),
		options.WithTimeoutSocket(120*time.Millisecond), options.WithReadDelay(50*time.Microsecond))
	if err != nil {
		o.Setup = err.Error()
		return o
	}
	call := func(name string, f func() (string, error)) bool {
		type ret struct {
			s   string
			err error
		}
		ch := make(chan ret, 1)
		c := c06tcall{Name: name, StartUs: time.Since(t0).Microseconds()}
		go func() { s, err := f(); ch <- ret{s, err} }()
		select {
		case x := <-ch:
			c.Ident, c.Result = c06ident(x.err), x.s
			if x.err != nil && c.Ident == "other" {
				c.Ident = "other:" + firstLine(x.err.Error())
			}
		case <-time.After(c06Watch):
			c.Hang, c.Ident = true, "hang"
		}
		c.EndUs = time.Since(t0).Microseconds()
		mu.Lock()
		o.Calls = append(o.Calls, c)
		o.SentAt = append(o.SentAt, o.Sent)
		mu.Unlock()
		return !c.Hang
	}
	send := func() (string, error) {
		r, err := d.SendCommand("show interfaces")
		if err != nil {
			return "", err
		}
		return r.Result, nil
	}
	if !call("open", func() (string, error) { return "", d.Open() }) {
		return o
	}
	opened := o.Calls[0].Ident == "nil"
	if opened {
		for _, st := range []struct {
			n string
			f func() (string, error)
		}{{"send", send}, {"prompt", func() (string, error) { return d.GetPrompt() }}, {"send", send}} {
			if !call(st.n, st.f) {
				return o
			}
		}
		if kind == "" {
			_ = d.Close()
		}
	}
	mu.Lock()
	defer mu.Unlock()
	cp := o
	return cp
}

func c06telnetChild(f []string) {
	seed, _ := strconv.ParseUint(f[1], 10, 64)
	for _, ks := range strings.Split(f[3], ",") {
		k, _ := strconv.Atoi(ks)
		o := c06telnetRun(seed, f[2], k)
		if n := len(o.Calls); o.LossUs < 0 || (n > 0 && o.Calls[n-1].Hang) {
			// real sockets and socket timeouts on a loaded host: a case in which the server never got
			// to hang up, or a call starved past the watchdog, is run once more before it is reported
			// (every case has its own listener and driver, nothing is shared with the stuck one)
			time.Sleep(100 * time.Millisecond)
			o = c06telnetRun(seed, f[2], k)
		}
		b, _ := json.Marshal(o)
		fmt.Printf("C06T %d %s\n", k, b)
	}
}

// c06telnet: reference run, then the k-sweep in child processes, then the oracle.
func c06telnet(c *ctx, onlySeed uint64, onlyKind string, onlyK int) {
	c06telnetStart(c, onlySeed, onlyKind, onlyK)()
}

// c06telnetStart runs the sweep in the background (it is sequential and mostly waits on socket
// timeouts) and returns the function that judges it.
func c06telnetStart(c *ctx, onlySeed uint64, onlyKind string, onlyK int) func() {
	seed := c.rng.U64() % 1000000
	if onlyKind != "" {
		seed = onlySeed
	}
	thorough := c.thorough()
	type sweep struct {
		kind string
		ks   []int
		got  map[int]c06tobs
		err  error
	}
	var ref c06tobs
	var sweeps []*sweep
	done := make(chan struct{})
	go func() {
		defer close(done)
		ref = c06telnetRun(seed, "", 0)
		if ref.Setup != "" || len(ref.Calls) != 4 {
			return
		}
		L := ref.SentAt[1]
		for _, kind := range []string{"fin", "rst"} {
			if onlyKind != "" && kind != onlyKind {
				continue
			}
			var ks []int
			step := 1
			if !thorough {
				step = L/24 + 1
			}
			for k := int(seed) % step; k < L; k += step {
				ks = append(ks, k)
			}
			ks = append(ks, 0, ref.SentAt[0]-1, ref.SentAt[0], L-1)
			if onlyKind != "" {
				ks = []int{onlyK}
			}
			kl := make([]string, len(ks))
			for i, k := range ks {
				kl[i] = strconv.Itoa(k)
			}
			cmd := exec.Command(os.Args[0], "C06", "-replay", fmt.Sprintf("c06tchild %d %s %s", seed, kind, strings.Join(kl, ",")))
			out, err := cmd.Output()
			sw := &sweep{kind: kind, ks: ks, got: map[int]c06tobs{}, err: err}
			for _, l := range strings.Split(string(out), "\n") {
				if !strings.HasPrefix(l, "C06T ") {
					continue
				}
				f := strings.SplitN(l, " ", 3)
				k, _ := strconv.Atoi(f[1])
				var o c06tobs
				if json.Unmarshal([]byte(f[2]), &o) == nil {
					sw.got[k] = o
				}
			}
			sweeps = append(sweeps, sw)
		}
	}()
	return func() {
		<-done
		c06telnetJudge(c, seed, ref, func(yield func(kind string, ks []int, got map[int]c06tobs, err error)) {
			for _, sw := range sweeps {
				yield(sw.kind, sw.ks, sw.got, sw.err)
			}
		})
	}
}

func c06telnetJudge(c *ctx, seed uint64, ref c06tobs, each func(func(kind string, ks []int, got map[int]c06tobs, err error))) {
	res := c.res
	if ref.Setup != "" || len(ref.Calls) != 4 {
		res.Fail("machinery", fmt.Sprintf("c06telnet %d ref 0", seed), fmt.Sprintf("reference run over the telnet transport failed: %+v", ref), "reference-run")
		return
	}
	for _, cl := range ref.Calls {
		if cl.Ident != "nil" {
			res.Fail("machinery", fmt.Sprintf("c06telnet %d ref 0", seed), fmt.Sprintf("reference run: %s returned %s", cl.Name, cl.Ident), "reference-run")
			return
		}
	}
	each(func(kind string, ks []int, got map[int]c06tobs, err error) {
		for _, k := range ks {
			caseLine := fmt.Sprintf("c06telnet %d %s %d", seed, kind, k)
			o, ok := got[k]
			res.Case(caseLine, true)
			res.InDomain++
			res.Count("scenario:telnet-transport")
			res.Count("kind:" + kind)
			if !ok {
				res.Fail("oracle", caseLine, fmt.Sprintf("the process did not survive (server hung up after %d bytes over the telnet transport): %v", k, err), "process-died")
				break
			}
			if o.Setup != "" || o.LossUs < 0 {
				res.Fail("machinery", caseLine, fmt.Sprintf("setup: %q loss=%d", o.Setup, o.LossUs), "setup")
				continue
			}
			lost := false
			for _, cl := range o.Calls {
				after := cl.EndUs >= o.LossUs || cl.Ident != "nil" // returned after the server hung up
				switch {
				case cl.Hang:
					res.Fail("oracle", caseLine, fmt.Sprintf("%s did not return after the server hung up (%s after %d bytes)", cl.Name, kind, k), "hang:telnet")
				case !after && !lost:
					continue // finished before the loss
				case cl.Ident == "nil" && cl.StartUs < o.LossUs && !lost:
					continue // in flight at the hang-up but already complete: allowed
				case cl.Ident == "nil":
					sig := "later-success:telnet:" + kind
					if kind == "rst" {
						sig = "later-success:err"
					}
					res.Fail("oracle", caseLine, fmt.Sprintf("%s reported success (%q) after the server hung up (%s after %d bytes)", cl.Name, cl.Result, kind, k), sig)
				case cl.Ident == "timeout":
					res.Fail("oracle", caseLine, fmt.Sprintf("%s waited out its timeout after the server hung up (%s after %d bytes)", cl.Name, kind, k), "waited-out-timeout:telnet")
				case cl.EndUs-max64(cl.StartUs, o.LossUs) > c06Prompt.Microseconds():
					res.Fail("oracle", caseLine, fmt.Sprintf("%s returned %d ms after the server hung up", cl.Name, (cl.EndUs-max64(cl.StartUs, o.LossUs))/1000), "not-prompt:telnet")
				}
				lost = true
			}
			if !lost {
				res.Fail("machinery", caseLine, fmt.Sprintf("no call saw the loss: %+v", o), "setup")
			}
		}
	})
}

func max64(a, b int64) int64 {
	if a > b {
		return a
	}
	return b
}
