package main

// C16, second half: the lock skeleton of Transport.read / Transport.Close(force) against the model,
// and end-to-end CLI / NETCONF sessions over each real transport compared with the same session
// over the ideal in-memory pipe (sim.Pipe used directly as the transport).

import (
	"errors"
	"fmt"
	"os/exec"
	"strconv"
	"strings"
	"sync"
	"time"

	"github.com/scrapli/scrapligo/driver/generic"
	"github.com/scrapli/scrapligo/driver/netconf"
	"github.com/scrapli/scrapligo/driver/options"
	"github.com/scrapli/scrapligo/transport"
	"github.com/scrapli/scrapligo/util"

	"verifgo/sim"
	"verifgo/vlib"
)

func c16min(a, b int) int {
	if a < b {
		return a
	}
	return b
}

// ---------------------------------------------------------------------------------------------
// end-to-end sessions

func c16ErrClass(err error) string {
	switch {
	case err == nil:
		return "nil"
	case errors.Is(err, util.ErrTimeoutError):
		return "timeout"
	case errors.Is(err, util.ErrConnectionError):
		return "connection"
	case errors.Is(err, util.ErrAuthError):
		return "auth"
	case errors.Is(err, util.ErrPrivilegeError):
		return "privilege"
	case errors.Is(err, util.ErrNetconfError):
		return "netconf"
	case errors.Is(err, util.ErrOperationError):
		return "operation"
	case errors.Is(err, util.ErrBadOption):
		return "badoption"
	case errors.Is(err, util.ErrIgnoredOption):
		return "ignored"
	}
	return "other"
}

func c16CLIDevice() *sim.CLI {
	dev := sim.NewCLI()
	dev.Mode = "exec"
	dev.Prompt = func(*sim.CLI) string { return "router#" }
	dev.Handle = func(_ *sim.CLI, line string) string {
		f := strings.Fields(line)
		if len(f) == 3 && f[0] == "show" && f[1] == "lines" {
			k, _ := strconv.Atoi(f[2])
			var b strings.Builder
			for i := 0; i < k; i++ {
				fmt.Fprintf(&b, "line %d of %d: the quick brown fox jumps over the lazy dog \x00\x7f\t%c end\n", i, k, 'a'+i%26)
			}
			return b.String()
		}
		if line == "" {
			return ""
		}
		return "output of <" + line + ">\n"
	}
	return dev
}

type c16Session struct {
	open    string
	results []string
	lines   []sim.LineEvent
	close   string
	extra   string
}

func (s c16Session) String() string {
	var b strings.Builder
	fmt.Fprintf(&b, "open=%s close=%s %s\n", s.open, s.close, s.extra)
	for i, r := range s.results {
		if len(r) > 120 {
			r = fmt.Sprintf("%s…(%d bytes, sum %d)", r[:100], len(r), c16Sum(r))
		}
		fmt.Fprintf(&b, "  [%d] %q\n", i, r)
	}
	for _, l := range s.lines {
		fmt.Fprintf(&b, "  dev(%s) %q\n", l.Mode, l.Line)
	}
	return b.String()
}

func c16Sum(s string) uint32 {
	var h uint32 = 2166136261
	for i := 0; i < len(s); i++ {
		h = (h ^ uint32(s[i])) * 16777619
	}
	return h
}

// c16PeerBridge waits (beside Open) for the peer end of the connection and puts dev behind it.
func c16PeerBridge(peerOf func() (*c16Conn, error), dev sim.Device, start func()) (stop func() error) {
	var mu sync.Mutex
	var stopBridge func()
	var conn *c16Conn
	var perr error
	done := make(chan struct{})
	go func() {
		defer close(done)
		cn, err := peerOf()
		mu.Lock()
		defer mu.Unlock()
		if err != nil {
			perr = err
			return
		}
		conn = cn
		stopBridge = sim.Bridge(dev, cn.peer)
		start()
	}()
	return func() error {
		select {
		case <-done:
		case <-time.After(c16OpenBound + time.Second):
			return errors.New("peer side never connected")
		}
		mu.Lock()
		defer mu.Unlock()
		if stopBridge != nil {
			stopBridge()
		}
		if conn != nil {
			conn.cleanup()
		}
		return perr
	}
}

// c16TType maps a peer kind to the scrapligo transport name ("openssh" is the system transport with
// the real ssh binary).
func c16TType(kind string) string {
	if kind == "openssh" {
		return transport.SystemTransport
	}
	return kind
}

func c16SessionOpts(kind string, n int, ops time.Duration) []util.Option {
	opts := []util.Option{options.WithTimeoutOps(ops), options.WithTransportReadSize(n),
		options.WithReadDelay(50 * time.Microsecond)}
	// in-channel authentication is left on where a transport asks for it (system: the channel looks
	// for a password prompt or the device prompt; telnet: username / password prompts; standard: the
	// transport reports that it needs none). Only the ideal pipe has nothing to ask.
	if kind == "ideal" {
		opts = append(opts, options.WithAuthBypass())
	}
	opts = append(opts, options.WithAuthUsername("u"), options.WithAuthPassword("p"))
	return opts
}

// c16TelnetLike is the ideal pipe of a telnet login session: the simulator itself as the transport,
// flagged as wanting in-channel telnet authentication like transport.Telnet.
type c16TelnetLike struct{ *sim.CLI }

func (c16TelnetLike) GetInChannelAuthType() transport.InChannelAuthType {
	return transport.InChannelAuthTelnet
}

// c16LoginDevice asks for a user name and a password before it shows its prompt.
func c16LoginDevice() *sim.CLI {
	dev := c16CLIDevice()
	inner := dev.Handle
	dev.Mode = "login-user"
	dev.Prompt = func(d *sim.CLI) string {
		if d.Mode == "login-user" {
			return "Username: "
		}
		return "router#"
	}
	dev.Handle = func(d *sim.CLI, line string) string {
		switch d.Mode {
		case "login-user":
			d.Mode, d.Hidden = "login-pass", true
			return "Password: "
		case "login-pass":
			d.Hidden = false
			if line == "p" {
				d.Mode = "exec"
				return "\nlast login: never\n"
			}
			d.Mode = "login-user"
			return "\nLogin incorrect\n"
		}
		return inner(d, line)
	}
	return dev
}

const (
	c16SessionOps = 8 * time.Second
	// sessions that probe one recorded defect each (a reply that never comes costs one timeout)
	c16ShortOps = 3 * time.Second
)

func c16CLISession(kind string, cmds []string, n int, seed uint64, ops time.Duration) c16Session {
	return c16CLISessionL(kind, cmds, n, seed, ops, false)
}

func c16CLISessionL(kind string, cmds []string, n int, seed uint64, ops time.Duration, login bool) c16Session {
	return c16CLISessionX(kind, cmds, n, seed, ops, login, 0, 0)
}

// c16CLISessionX: gap is slept before every command (the session ages past its timeouts between
// operations), sockT is the TimeoutSocket of the transport (0: harness default).
func c16CLISessionX(kind string, cmds []string, n int, seed uint64, ops time.Duration, login bool, gap, sockT time.Duration) c16Session {
	var s c16Session
	dev := c16CLIDevice()
	if login {
		dev = c16LoginDevice()
	}
	opts := c16SessionOpts(kind, n, ops)
	stop := func() error { return nil }
	if kind == "ideal" && login {
		dev.Start()
		opts = []util.Option{options.WithTimeoutOps(ops), options.WithTransportReadSize(n), options.WithReadDelay(50 * time.Microsecond),
			options.WithAuthUsername("u"), options.WithAuthPassword("p"), options.WithCustomTransport(c16TelnetLike{dev})}
	} else if kind == "ideal" {
		dev.Start()
		opts = append(opts, options.WithCustomTransport(dev))
	} else {
		topts, peerOf, err := c16TransportOptsV(kind, "shell", []byte{255, 253, 1, 255, 251, 3}, seed, c16Variant{sockT: sockT})
		if err != nil {
			s.open = "peer-setup: " + err.Error()
			return s
		}
		opts = append(opts, options.WithTransportType(c16TType(kind)))
		opts = append(opts, topts...)
		stop = c16PeerBridge(peerOf, dev, dev.Start)
	}
	d, err := generic.NewDriver("127.0.0.1", opts...)
	if err != nil {
		s.open = "new: " + err.Error()
		_ = stop()
		return s
	}
	s.open = c16ErrClass(d.Open())
	if s.open == "nil" {
		p, err := d.GetPrompt()
		s.results = append(s.results, "prompt="+p+" err="+c16ErrClass(err))
		for _, cmd := range cmds {
			if gap > 0 && kind != "ideal" {
				time.Sleep(gap)
			}
			r, err := d.SendCommand(cmd)
			if err != nil {
				s.results = append(s.results, "err="+c16ErrClass(err))
				continue
			}
			s.results = append(s.results, r.Result)
		}
		cd := make(chan error, 1)
		go func() { cd <- d.Close() }()
		select {
		case e := <-cd:
			s.close = c16ErrClass(e)
		case <-time.After(c16UnblockBound + 2*time.Second):
			s.close = "stuck"
		}
	}
	if e := stop(); e != nil {
		s.extra = "peer: " + e.Error()
	}
	dev.Snapshot(func() { s.lines = append(s.lines, dev.Lines...) })
	return s
}

func c16NCServer(v11 bool, seed uint64) *sim.NCServer {
	srv := sim.NewNCServer(true, v11)
	r := vlib.NewRng(seed)
	srv.Behave = func(i int, req sim.NCRequest) sim.NCReply {
		var b strings.Builder
		fmt.Fprintf(&b, `<rpc-reply xmlns="urn:ietf:params:xml:ns:netconf:base:1.0" message-id="%d"><data>`, req.MessageID)
		k := []int{1, 40, 900, 3}[i%4]
		for j := 0; j < k; j++ {
			fmt.Fprintf(&b, "<item><name>interface-%d-%d</name><description>uplink to core %d, request %d</description></item>\n", i, j, j*7, len(req.Raw))
		}
		b.WriteString("</data></rpc-reply>")
		p := []byte(b.String())
		var chunks []int
		for rest := len(p); rest > 0; {
			c := r.Range(1, 9000)
			if len(chunks) == 0 && c < 200 {
				// a chunk boundary inside the message-id attribute makes the driver miss the reply
				// (it looks the id up with a regex on the framed bytes: property C08's subject)
				c = 200
			}
			if c > rest {
				c = rest
			}
			chunks = append(chunks, c)
			rest -= c
		}
		return sim.NCReply{Payload: p, Chunks: chunks}
	}
	return srv
}

func c16NCSession(kind string, v11 bool, longLine bool, n int, seed uint64) c16Session {
	var s c16Session
	srv := c16NCServer(v11, seed)
	ops := c16SessionOps
	if longLine {
		ops = c16ShortOps
	}
	opts := c16SessionOpts(kind, n, ops)
	stop := func() error { return nil }
	if kind == "ideal" {
		srv.Start()
		opts = append(opts, options.WithCustomTransport(srv))
	} else {
		topts, peerOf, err := c16TransportOpts(kind, "netconf", nil, seed)
		if err != nil {
			s.open = "peer-setup: " + err.Error()
			return s
		}
		opts = append(opts, options.WithTransportType(c16TType(kind)))
		opts = append(opts, topts...)
		stop = c16PeerBridge(peerOf, srv, srv.Start)
	}
	d, err := netconf.NewDriver("127.0.0.1", opts...)
	if err != nil {
		s.open = "new: " + err.Error()
		_ = stop()
		return s
	}
	tOpen := time.Now()
	s.open = c16ErrClass(d.Open())
	if c16Timing {
		fmt.Printf("  %s open %v\n", kind, time.Since(tOpen))
	}
	if s.open == "nil" {
		s.extra = fmt.Sprintf("version=%s session-id=%d", d.SelectedVersion, d.SessionID())
		for i := 0; i < 5; i++ {
			var err error
			var result string
			var failed bool
			if longLine {
				// one request whose XML has a line of more than 4096 bytes (scrapligo serialises a
				// request on one line, so any configuration of that size does)
				if i > 0 {
					break
				}
				cfg := "<config><system xmlns=\"urn:example\"><banner>" + strings.Repeat("0123456789abcdef", 300+i*40) + "</banner></system></config>"
				r, e := d.EditConfig("candidate", cfg)
				err = e
				if e == nil {
					result, failed = r.Result, r.Failed != nil
				}
			} else if i%2 == 0 {
				r, e := d.GetConfig("running")
				err = e
				if e == nil {
					result, failed = r.Result, r.Failed != nil
				}
			} else {
				r, e := d.Get(fmt.Sprintf(`<interfaces xmlns="urn:example"><interface><name>eth%d</name></interface></interfaces>`, i))
				err = e
				if e == nil {
					result, failed = r.Result, r.Failed != nil
				}
			}
			if c16Timing {
				fmt.Printf("  %s rpc %d done at %v\n", kind, i, time.Since(tOpen))
			}
			if err != nil {
				s.results = append(s.results, "err="+c16ErrClass(err))
				continue
			}
			s.results = append(s.results, fmt.Sprintf("failed=%v %s", failed, result))
		}
		cd := make(chan error, 1)
		go func() { cd <- d.Close() }()
		select {
		case e := <-cd:
			s.close = c16ErrClass(e)
		case <-time.After(c16UnblockBound + 2*time.Second):
			s.close = "stuck"
		}
	}
	if e := stop(); e != nil {
		s.extra += " peer: " + e.Error()
	}
	srv.Snapshot(func() {
		for _, q := range srv.Requests {
			s.lines = append(s.lines, sim.LineEvent{Mode: fmt.Sprintf("id=%d ok=%v", q.MessageID, q.FrameOK), Line: string(q.Raw)})
		}
		if len(srv.BadBytes) > 0 {
			s.lines = append(s.lines, sim.LineEvent{Mode: "bad", Line: string(srv.BadBytes)})
		}
	})
	return s
}

func c16Cmds(r *vlib.Rng) []string {
	cmds := []string{"show version"}
	k := r.Range(3, 5)
	for i := 0; i < k; i++ {
		switch r.Intn(4) {
		case 0:
			cmds = append(cmds, fmt.Sprintf("show lines %d", r.Range(1, 12)))
		case 1:
			cmds = append(cmds, fmt.Sprintf("show lines %d", r.Range(200, 700))) // tens of kilobytes: many reads
		case 2:
			cmds = append(cmds, "show running-config | include "+string(r.Bytes(r.Range(1, 30), []byte("abcdefghijklmnopqrstuvwxyz0123456789/-_."))))
		default:
			cmds = append(cmds, "show interface "+string(r.Bytes(r.Range(1, 8), []byte("eth0123456789/"))))
		}
	}
	return cmds
}

// c16SessionLine / replay: "session cli|nc10|nc11 <kind> <n> <seed>"
func c16RunSession(c *ctx, what, kind string, n int, seed uint64) {
	ideal, real, ok := c16SessionPair(what, kind, n, seed)
	c16RecordSession(c, what, kind, n, seed, ideal, real, ok)
}

// c16SessionPair runs the session over the ideal pipe and over the real transport.
func c16SessionPair(what, kind string, n int, seed uint64) (ideal, real c16Session, ok bool) {
	switch what {
	case "cli":
		cmds := c16Cmds(vlib.NewRng(seed))
		ideal = c16CLISession("ideal", cmds, n, seed, c16SessionOps)
		real = c16CLISession(kind, cmds, n, seed, c16SessionOps)
	case "cli-login":
		// the device asks for user name and password: in-channel telnet authentication
		cmds := c16Cmds(vlib.NewRng(seed))
		ideal = c16CLISessionL("ideal", cmds, n, seed, c16SessionOps, true)
		real = c16CLISessionL(kind, cmds, n, seed, c16SessionOps, true)
	case "cli-aged":
		// TimeoutOps and TimeoutSocket of one second, an operation after 1.2 s, 2.4 s, 3.6 s of session age
		cmds := c16Cmds(vlib.NewRng(seed))[:3]
		T := time.Second
		if kind == "telnet" {
			T = c16TelnetSocket
		}
		ideal = c16CLISessionX("ideal", cmds, n, seed, time.Second, false, 0, 0)
		real = c16CLISessionX(kind, cmds, n, seed, time.Second, false, T+T/5, T)
	case "cli-tilde":
		// input lines that start with '~' (the OpenSSH client's escape character when it has a tty)
		cmds := []string{"show version", "~~ banner line", "show clock"}
		ideal = c16CLISession("ideal", cmds, n, seed, c16ShortOps)
		real = c16CLISession(kind, cmds, n, seed, c16ShortOps)
	case "nc10", "nc11":
		ideal = c16NCSession("ideal", what == "nc11", false, n, seed)
		real = c16NCSession(kind, what == "nc11", false, n, seed)
	case "nc10-longline", "nc11-longline":
		ideal = c16NCSession("ideal", what == "nc11-longline", true, n, seed)
		real = c16NCSession(kind, what == "nc11-longline", true, n, seed)
	default:
		return ideal, real, false
	}
	return ideal, real, true
}

func c16RecordSession(c *ctx, what, kind string, n int, seed uint64, ideal, real c16Session, ok bool) {
	res := c.res
	line := fmt.Sprintf("session %s %s %d %d", what, kind, n, seed)
	if !ok {
		res.Fail("machinery", line, "unknown session kind", "c16:replay")
		return
	}
	res.Case(line, true)
	res.InDomain++
	res.Count("session:" + what + "/" + kind)
	res.TracesVsImpl++
	for _, r := range ideal.results {
		if strings.HasPrefix(r, "err=") || strings.Contains(r, " err=") && !strings.HasSuffix(r, "err=nil") {
			res.Fail("machinery", line, "session over the ideal pipe has a failing call (the comparison would be between two failures):\n"+ideal.String(), "c16:ideal-session-call-failed")
			return
		}
	}
	if ideal.open != "nil" || ideal.close != "nil" {
		res.Fail("oracle", line, "session over the ideal pipe (sim.Pipe behind Transport.read / Close) did not open/close cleanly:\n"+ideal.String(), "c16:ideal-session")
		return
	}
	if ideal.String() != real.String() {
		sig := "c16:" + kind + ":" + what + "-session-differs"
		// finer classes for the ways the real OpenSSH client on a pty is known not to be transparent
		if kind == "openssh" {
			tildes := func(s c16Session) int {
				n := 0
				for _, l := range s.lines {
					n += strings.Count(l.Line, "~")
				}
				return n
			}
			echoed := false
			for _, r := range real.results {
				if strings.Contains(r, "<hello") || strings.Contains(r, "</rpc>") {
					echoed = true
				}
			}
			switch {
			case what == "cli-tilde" && tildes(real) < tildes(ideal):
				sig = "c16:openssh:tilde-escape-consumed"
			case strings.HasSuffix(what, "-longline"):
				sig = "c16:openssh:netconf-long-line-cut"
			case strings.HasPrefix(what, "nc") && echoed:
				sig = "c16:openssh:netconf-tty-echo-in-reply"
			}
		}
		res.Fail("oracle", line, fmt.Sprintf("%s session over the %s transport differs from the same session over the ideal pipe: %s", what, kind, c16Diff(ideal.String(), real.String())),
			sig)
	}
}

// c16Diff shows the first differing line of two session records.
func c16Diff(a, b string) string {
	la, lb := strings.Split(a, "\n"), strings.Split(b, "\n")
	cut := func(s string) string {
		if len(s) > 420 {
			return s[:300] + "…" + s[len(s)-100:]
		}
		return s
	}
	nd := 0
	first := ""
	for i := 0; i < len(la) || i < len(lb); i++ {
		var x, y string
		if i < len(la) {
			x = la[i]
		}
		if i < len(lb) {
			y = lb[i]
		}
		if x != y {
			nd++
			if nd <= 3 {
				first += fmt.Sprintf("\n record line %d\n  ideal: %s\n  real:  %s", i, cut(x), cut(y))
			}
		}
	}
	return fmt.Sprintf("%d record line(s) differ, the first ones:%s", nd, first)
}

func c16ReplaySession(c *ctx, line string) {
	c16Timing = true
	f := strings.Fields(line)
	if len(f) != 5 {
		c.res.Fail("machinery", line, "bad session line", "c16:replay")
		return
	}
	n, _ := strconv.Atoi(f[3])
	seed, _ := strconv.ParseUint(f[4], 10, 64)
	c16RunSession(c, f[1], f[2], n, seed)
}

func c16Sessions(c *ctx) {
	r := c.rng
	type job struct {
		what, kind string
		n          int
		seed       uint64
	}
	var jobs []job
	_, sshErr := exec.LookPath("ssh")
	haveSSH := sshErr == nil
	if !haveSSH {
		c.res.Note("no ssh binary in PATH: sessions over the system transport with the real OpenSSH client skipped")
	}
	rounds := c.n(2, 12)
	for i := 0; i < rounds; i++ {
		sizes := []int{8192, 64, 256, 100, 65535, 4096, 333, 1500}
		cliKinds := []string{"system", "standard", "telnet"}
		ncKinds := []string{"system", "standard"}
		if haveSSH {
			cliKinds = append(cliKinds, "openssh")
			ncKinds = append(ncKinds, "openssh")
		}
		for _, kind := range cliKinds {
			n := sizes[(i+r.Intn(len(sizes)))%len(sizes)]
			if i == 0 {
				n = 8192
			}
			if n < 64 && i%2 == 1 { // tiny read sizes: still a full session, fewer big outputs
				n = 64
			}
			jobs = append(jobs, job{"cli", kind, n, r.U64()})
		}
		for _, kind := range ncKinds {
			for _, what := range []string{"nc10", "nc11"} {
				n := sizes[(i+r.Intn(len(sizes)))%len(sizes)]
				if i == 0 {
					n = 8192
				}
				if n < 64 {
					n = 64
				}
				jobs = append(jobs, job{what, kind, n, r.U64()})
			}
		}
	}
	// lines longer than the tty's canonical-mode limit, and lines that start with the ssh escape
	// character, once per transport
	for _, kind := range append([]string{"system", "standard"}, map[bool][]string{true: {"openssh"}}[haveSSH]...) {
		jobs = append(jobs, job{"nc10-longline", kind, 8192, r.U64()}, job{"nc11-longline", kind, 8192, r.U64()})
	}
	for _, kind := range append([]string{"system", "standard", "telnet"}, map[bool][]string{true: {"openssh"}}[haveSSH]...) {
		jobs = append(jobs, job{"cli-tilde", kind, 8192, r.U64()})
	}
	for i := 0; i < c.n(1, 3); i++ {
		for _, kind := range []string{"system", "standard", "telnet"} {
			jobs = append(jobs, job{"cli-aged", kind, []int{8192, 100, 1500}[i%3], r.U64()})
		}
	}
	for i := 0; i < rounds; i++ {
		jobs = append(jobs, job{"cli-login", "telnet", []int{8192, 64, 1500, 333}[i%4], r.U64()})
	}
	// run several sessions at a time, record them in generation order
	type pair struct {
		ideal, real c16Session
		ok          bool
		dur         time.Duration
	}
	pairs := make([]pair, len(jobs))
	sem := make(chan struct{}, vlib.Conc(6))
	var wg sync.WaitGroup
	for i := range jobs {
		wg.Add(1)
		sem <- struct{}{}
		go func(i int) {
			defer wg.Done()
			defer func() { <-sem }()
			j := jobs[i]
			t0 := time.Now()
			pairs[i].ideal, pairs[i].real, pairs[i].ok = c16SessionPair(j.what, j.kind, j.n, j.seed)
			pairs[i].dur = time.Since(t0)
		}(i)
	}
	wg.Wait()
	slow := ""
	for i, j := range jobs {
		c16RecordSession(c, j.what, j.kind, j.n, j.seed, pairs[i].ideal, pairs[i].real, pairs[i].ok)
		if pairs[i].dur > 2*time.Second {
			slow += fmt.Sprintf(" [session %s %s %d %d]=%v", j.what, j.kind, j.n, j.seed, pairs[i].dur.Round(100*time.Millisecond))
		}
	}
	if slow != "" {
		c.res.Note("sessions (ideal + real) that took more than 2 s:%s", slow)
	}
}

// c16Timing (set on session replays) prints phase durations of a NETCONF session.
var c16Timing = false
