package main

func init() { props["rx"] = func(c *ctx) { rxDiff(c, nil, c.n(400, 5000)) } }
