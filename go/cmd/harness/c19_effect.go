package main

// C19, "effect" class: after construction the driver is OPENED and the effect of every option is
// judged at the place the option is documented to act, not only as a field value:
//
//	dev     custom transport (in-channel telnet-style login): user / password / return char written,
//	        username / password / prompt patterns in use, auth bypass, on-open / on-close hooks
//	        (generic, network, platform-built) actually run, the logger actually receives the
//	        driver's messages, the channel log receives the device's bytes, the transport sees the
//	        configured host / port / user / socket timeout
//	telnet  the real telnet transport against a loopback listener: the configured port is dialled
//	system  the real system transport with the C14 stand-in as open binary: the spawned argv
//	        (model: argvOfConfig / SshCfg.systemArgv) for generic, network, NETCONF and platform
//	ncdev   netconf.NewDriver over the NETCONF server simulator: the NETCONF driver's own logger
//	        receives its messages, the session opens and closes
//
// Expectations come from the model's declarative configuration (`spec`) of the same option list.

import (
	"bytes"
	"errors"
	"fmt"
	"io"
	"log"
	"net"
	"os"
	"path/filepath"
	"strconv"
	"strings"
	"sync"
	"time"

	"github.com/scrapli/scrapligo/driver/generic"
	"github.com/scrapli/scrapligo/driver/netconf"
	"github.com/scrapli/scrapligo/driver/network"
	"github.com/scrapli/scrapligo/driver/options"
	"github.com/scrapli/scrapligo/logging"
	"github.com/scrapli/scrapligo/platform"
	"github.com/scrapli/scrapligo/transport"
	"github.com/scrapli/scrapligo/util"

	"verifgo/sim"
	"verifgo/vlib"
)

// ---------------------------------------------------------------- per-case recorder

type c19Rec struct {
	mu      sync.Mutex
	calls   []string       // hook tokens in call order
	logs    map[string]int // logger token -> messages received
	loggers map[string]*logging.Instance
	writers map[string]*bytes.Buffer
	fail    map[string]bool // "<option name>:<token>" -> that hook returns errC19Hook
}

var errC19Hook = errors.New("verif: hook failed on purpose")

func (r *c19Rec) hook(name, tok string) error {
	r.call(tok)
	if r.fail[name+":"+tok] {
		return errC19Hook
	}
	return nil
}

func newC19Rec() *c19Rec {
	return &c19Rec{logs: map[string]int{}, loggers: map[string]*logging.Instance{}, writers: map[string]*bytes.Buffer{}, fail: map[string]bool{}}
}

func (r *c19Rec) call(tok string) {
	r.mu.Lock()
	r.calls = append(r.calls, tok)
	r.mu.Unlock()
}

func (r *c19Rec) logger(tok string) *logging.Instance {
	r.mu.Lock()
	defer r.mu.Unlock()
	if l, ok := r.loggers[tok]; ok {
		return l
	}
	l, _ := logging.NewInstance(logging.WithLevel("debug"), logging.WithLogger(func(...interface{}) {
		r.mu.Lock()
		r.logs[tok]++
		r.mu.Unlock()
	}))
	r.loggers[tok] = l
	return l
}

type c19SyncBuf struct {
	mu sync.Mutex
	b  bytes.Buffer
}

func (w *c19SyncBuf) Write(p []byte) (int, error) {
	w.mu.Lock()
	defer w.mu.Unlock()
	return w.b.Write(p)
}

func (w *c19SyncBuf) String() string {
	w.mu.Lock()
	defer w.mu.Unlock()
	return w.b.String()
}

// the standard library logger (WithDefaultLogger prints through log.Print)
var c19StdLog = &c19SyncBuf{}

// effectOption builds the real option with per-case observable objects behind the identity tokens.
func effectOption(o c19Opt, rec *c19Rec, chlogs map[string]*c19SyncBuf) (util.Option, error) {
	tok := argS(o, 0)
	switch o.name {
	case "WithOnOpen":
		return options.WithOnOpen(func(*generic.Driver) error { return rec.hook(o.name, tok) }), nil
	case "WithOnClose":
		return options.WithOnClose(func(*generic.Driver) error { return rec.hook(o.name, tok) }), nil
	case "WithNetworkOnOpen":
		return options.WithNetworkOnOpen(func(*network.Driver) error { return rec.hook(o.name, tok) }), nil
	case "WithNetworkOnClose":
		return options.WithNetworkOnClose(func(*network.Driver) error { return rec.hook(o.name, tok) }), nil
	case "WithLogger":
		return options.WithLogger(rec.logger(tok)), nil
	case "WithChannelLog":
		w, ok := chlogs[tok]
		if !ok {
			w = &c19SyncBuf{}
			chlogs[tok] = w
		}
		return options.WithChannelLog(w), nil
	}
	return realOption(o)
}

// ---------------------------------------------------------------- the device

// c19Dev is a login + prompt device. It is a transport.Implementation (custom transport) that asks
// for in-channel telnet-style authentication, and can also sit behind a TCP listener.
type c19Dev struct {
	mu     sync.Mutex
	cond   *sync.Cond
	out    []byte
	closed bool
	opens  int
	args   transport.Args

	login      bool // ask for user and password first
	ret        []byte
	userPrompt string
	passPrompt string
	prompt     string

	state int // 0 user, 1 password, 2 shell
	cur   []byte
	lines []string // "<state>:<line>"
}

func newC19Dev(login bool, ret, userPrompt, passPrompt, prompt string) *c19Dev {
	d := &c19Dev{login: login, ret: []byte(ret), userPrompt: userPrompt, passPrompt: passPrompt, prompt: prompt}
	d.cond = sync.NewCond(&d.mu)
	if !login {
		d.state = 2
	}
	return d
}

func (d *c19Dev) banner() {
	if d.login {
		d.out = append(d.out, d.userPrompt...)
	} else {
		d.out = append(d.out, d.prompt...)
	}
	d.cond.Broadcast()
}

func (d *c19Dev) Open(a *transport.Args) error {
	d.mu.Lock()
	defer d.mu.Unlock()
	d.opens++
	d.args = *a
	d.banner()
	return nil
}

func (d *c19Dev) Close() error {
	d.mu.Lock()
	d.closed = true
	d.cond.Broadcast()
	d.mu.Unlock()
	return nil
}

func (d *c19Dev) IsAlive() bool { d.mu.Lock(); defer d.mu.Unlock(); return !d.closed }

func (d *c19Dev) Read(n int) ([]byte, error) {
	d.mu.Lock()
	defer d.mu.Unlock()
	for len(d.out) == 0 && !d.closed {
		d.cond.Wait()
	}
	if len(d.out) == 0 {
		return nil, io.EOF
	}
	if n > len(d.out) {
		n = len(d.out)
	}
	b := append([]byte{}, d.out[:n]...)
	d.out = d.out[n:]
	return b, nil
}

func (d *c19Dev) Write(b []byte) error {
	d.mu.Lock()
	defer d.mu.Unlock()
	d.feed(b)
	return nil
}

// feed consumes client bytes (caller holds mu).
func (d *c19Dev) feed(b []byte) {
	for _, ch := range b {
		d.cur = append(d.cur, ch)
		if len(d.ret) == 0 || !bytes.HasSuffix(d.cur, d.ret) {
			continue
		}
		line := string(d.cur[:len(d.cur)-len(d.ret)])
		d.cur = nil
		d.lines = append(d.lines, strconv.Itoa(d.state)+":"+line)
		switch d.state {
		case 0:
			d.state = 1
			d.out = append(d.out, "\n"+d.passPrompt...)
		case 1:
			d.state = 2
			d.out = append(d.out, "\nwelcome\n"+d.prompt...)
		default:
			d.out = append(d.out, "\n"+d.prompt...)
		}
		d.cond.Broadcast()
	}
}

func (d *c19Dev) GetInChannelAuthType() transport.InChannelAuthType {
	return transport.InChannelAuthTelnet
}

// waitLines waits (bounded) until the device has received at least n lines.
func (d *c19Dev) waitLines(n int, max time.Duration) {
	deadline := time.Now().Add(max)
	for time.Now().Before(deadline) {
		d.mu.Lock()
		got := len(d.lines)
		d.mu.Unlock()
		if got >= n {
			return
		}
		time.Sleep(200 * time.Microsecond)
	}
}

func (d *c19Dev) snapshot() (lines []string, opens int, closed bool, a transport.Args) {
	d.mu.Lock()
	defer d.mu.Unlock()
	return append([]string{}, d.lines...), d.opens, d.closed, d.args
}

// serve bridges an accepted TCP connection to the device.
func (d *c19Dev) serve(c net.Conn) {
	d.mu.Lock()
	d.opens++
	d.banner()
	d.mu.Unlock()
	go func() {
		buf := make([]byte, 512)
		for {
			n, err := c.Read(buf)
			if n > 0 {
				d.mu.Lock()
				d.feed(buf[:n])
				d.mu.Unlock()
			}
			if err != nil {
				d.Close()
				return
			}
		}
	}()
	for {
		b, err := d.Read(512)
		if err != nil {
			c.Close()
			return
		}
		if _, err := c.Write(b); err != nil {
			return
		}
	}
}

// ---------------------------------------------------------------- pattern <-> matching text

const (
	c19DefUser   = "login:"
	c19DefPass   = "password:"
	c19DefPrompt = "verif-1#"
)

// textFor: a text that the given pattern source (one of ours, or a default) matches, and that no
// other pattern of the same session matches.
func textFor(src string, def string) string {
	switch {
	case strings.HasPrefix(src, "tok_"), strings.HasPrefix(src, "usr_"), strings.HasPrefix(src, "pwd_"):
		return strings.NewReplacer(`\?`, "?", "$", "").Replace(src)
	case strings.HasPrefix(src, "lvl") && strings.HasSuffix(src, "[>#]$"):
		return strings.TrimSuffix(src, "[>#]$") + ">"
	}
	return def
}

func effPattern(r *vlib.Rng, kind string) string {
	n := strconv.Itoa(r.Intn(30))
	switch kind {
	case "prompt":
		return "tok_" + n + "!$"
	case "user":
		return "usr_" + n + `\?$`
	}
	return "pwd_" + n + `\?$`
}

// ---------------------------------------------------------------- cases

type c19Effect struct {
	flavour string // dev | telnet | system | ncdev
	ctor    string
	plat    *c19Plat
	user    []c19Opt
}

func (e *c19Effect) line() string {
	pl := "-"
	if e.plat != nil {
		pl = e.plat.encode()
	}
	return fmt.Sprintf("c19 effect %s %s %s %s", e.flavour, e.ctor, pl, encodeOpts(e.user))
}

func decodeEffect(line string) (c19Effect, bool) {
	f := strings.Fields(line)
	e := c19Effect{}
	if len(f) != 6 || f[1] != "effect" {
		return e, false
	}
	e.flavour, e.ctor = f[2], f[3]
	if f[4] != "-" {
		p, err := decodePlat(f[4])
		if err != nil {
			return e, false
		}
		e.plat = p
	}
	u, err := decodeOpts(f[5])
	if err != nil {
		return e, false
	}
	e.user = u
	return e, true
}

func opt1(name, v string) c19Opt {
	return c19Opt{name: name, args: []c19Val{sv(v)}, envOk: true, env: c19Val{}}
}
func opt0(name string) c19Opt { return c19Opt{name: name, envOk: true, env: c19Val{}} }

// effect-relevant options with tame values (boundary values are the construct classes' business)
func genEffectOpt(r *vlib.Rng, flavour, ctor string) c19Opt {
	names := []string{"WithAuthUsername", "WithAuthPassword", "WithReturnChar", "WithPromptPattern", "WithUsernamePattern", "WithPasswordPattern",
		"WithAuthBypass", "WithOnOpen", "WithOnClose", "WithNetworkOnOpen", "WithNetworkOnClose", "WithLogger", "WithDefaultLogger", "WithChannelLog",
		"WithPort", "WithTimeoutSocket", "WithReadDelay", "WithPromptSearchDepth", "WithTransportReadSize", "WithFailedWhenContains",
		"WithAuthSecondary", "WithTermHeight", "WithTermWidth", "WithAuthNoStrictKey", "WithSystemTransportOpenArgs", "WithNetconfPreferredVersion",
		"WithNetconfExcludeHeader", "WithSystemTransportOpenArgsOverride", "WithSSHConfigFile", "WithSSHKnownHostsFile", "WithAuthPassphrase"}
	name := names[r.Intn(len(names))]
	switch name {
	case "WithAuthUsername":
		return opt1(name, r.Pick([]string{"admin", "u1", "", "op er"}))
	case "WithAuthPassword":
		return opt1(name, r.Pick([]string{"pw", "s3cr3t!", "", "p w"}))
	case "WithReturnChar":
		return opt1(name, r.Pick([]string{"\n", "\r\n", "\r"}))
	case "WithPromptPattern":
		return opt1(name, effPattern(r, "prompt"))
	case "WithUsernamePattern":
		return opt1(name, effPattern(r, "user"))
	case "WithPasswordPattern":
		return opt1(name, effPattern(r, "pass"))
	case "WithOnOpen", "WithOnClose":
		return opt1(name, "gfn:"+strconv.Itoa(r.Intn(4)))
	case "WithNetworkOnOpen", "WithNetworkOnClose":
		return opt1(name, "nfn:"+strconv.Itoa(r.Intn(4)))
	case "WithLogger":
		return opt1(name, "logger:"+strconv.Itoa(r.Intn(c19N)))
	case "WithChannelLog":
		return opt1(name, "writer:"+strconv.Itoa(r.Intn(c19N)))
	case "WithPort":
		return opt1(name, strconv.Itoa(r.Range(1, 65535)))
	case "WithTimeoutSocket":
		return opt1(name, strconv.FormatInt(int64(r.Range(1, 90))*int64(time.Second)+int64(r.Intn(1000))*int64(time.Millisecond), 10))
	case "WithReadDelay":
		return opt1(name, strconv.FormatInt(int64(r.Range(50, 900))*int64(time.Microsecond), 10))
	case "WithPromptSearchDepth", "WithTransportReadSize":
		return opt1(name, strconv.Itoa(r.Range(64, 70000)))
	case "WithTermHeight", "WithTermWidth":
		return opt1(name, strconv.Itoa(r.Range(10, 300)))
	case "WithSSHConfigFile":
		return opt1(name, filepath.Join(c19Dir, r.Pick([]string{"cfgA", "cfgB"})))
	case "WithSSHKnownHostsFile":
		return opt1(name, filepath.Join(c19Dir, r.Pick([]string{"khA", "khB"})))
	case "WithNetconfPreferredVersion":
		return opt1(name, r.Pick([]string{"1.0", "1.1"}))
	case "WithDefaultLogger":
		o := opt0(name)
		o.env = sv("<default-logger>")
		return o
	case "WithAuthBypass", "WithAuthNoStrictKey", "WithNetconfExcludeHeader":
		return opt0(name)
	case "WithFailedWhenContains", "WithSystemTransportOpenArgs", "WithSystemTransportOpenArgsOverride":
		n := r.Range(1, 3)
		v := c19Val{}
		for i := 0; i < n; i++ {
			v = append(v, []byte(r.Pick([]string{"-v", "-o", "Ciphers=+aes128-cbc", "x y", "-4", "-T"})))
		}
		return c19Opt{name: name, args: []c19Val{v}, envOk: true, env: c19Val{}}
	}
	return opt1(name, r.Pick([]string{"a", "b c", "zz"}))
}

func genEffect(r *vlib.Rng, flavour string, platNames []string, platDoc map[string]string) c19Effect {
	e := c19Effect{flavour: flavour}
	switch flavour {
	case "ncdev":
		e.ctor = "netconf"
	case "system":
		e.ctor = r.Pick([]string{"generic", "network", "netconf"})
	default:
		e.ctor = r.Pick([]string{"generic", "network"})
	}
	privs := func() c19Val {
		return genOpt(r, "WithPrivilegeLevels", false).args[0]
	}
	if e.ctor != "netconf" && r.Chance(1, 3) {
		p := &c19Plat{driverType: e.ctor, privs: privs(), ddp: "exec"}
		p.oo, p.oc, p.noo, p.noc = r.Chance(1, 2), r.Chance(1, 2), r.Chance(1, 2), r.Chance(1, 2)
		for j := r.Intn(5); j > 0; j-- {
			switch r.Intn(8) {
			case 0:
				p.opts = append(p.opts, c19PlatOpt{name: "prompt-pattern", kind: 's', s: effPattern(r, "prompt")})
			case 1:
				p.opts = append(p.opts, c19PlatOpt{name: "username-pattern", kind: 's', s: effPattern(r, "user")})
			case 2:
				p.opts = append(p.opts, c19PlatOpt{name: "password-pattern", kind: 's', s: effPattern(r, "pass")})
			case 3:
				p.opts = append(p.opts, c19PlatOpt{name: "return-char", kind: 's', s: r.Pick([]string{"\n", "\r\n", "\r"})})
			case 4:
				p.opts = append(p.opts, c19PlatOpt{name: "port", kind: 'i', n: r.Range(1, 65535)})
			case 5:
				p.opts = append(p.opts, c19PlatOpt{name: "auth-bypass", kind: 'b', b: true})
			case 6:
				p.opts = append(p.opts, c19PlatOpt{name: "transport-system-open-args", kind: 'l', l: []string{r.Pick([]string{"-v", "-4", "-T"}), "p q"}})
			default:
				p.opts = append(p.opts, c19PlatOpt{name: "read-size", kind: 'i', n: r.Range(64, 9000)})
			}
		}
		e.plat = p
	}
	for j := r.Intn(9); j > 0; j-- {
		e.user = append(e.user, genEffectOpt(r, flavour, e.ctor))
	}
	if e.ctor == "network" && e.plat == nil {
		at := r.Intn(len(e.user) + 1)
		pl := c19Opt{name: "WithPrivilegeLevels", args: []c19Val{privs()}, envOk: true, env: c19Val{}}
		e.user = append(e.user[:at:at], append([]c19Opt{pl, opt1("WithDefaultDesiredPriv", "exec")}, e.user[at:]...)...)
	}
	return e
}

// harnessOpts: the options the harness itself appends (modelled like any other option).
func (e *c19Effect) modelOpts(port int) []c19Opt {
	u := append([]c19Opt{}, e.user...)
	switch e.flavour {
	case "dev", "devfail", "devfailclose", "ncdev":
		u = append(u, opt1("WithCustomTransport", "impl:0"))
	case "telnet":
		u = append(u, opt1("WithTransportType", "telnet"), opt1("WithPort", strconv.Itoa(port)),
			opt1("WithTimeoutSocket", strconv.FormatInt(int64(40*time.Millisecond), 10)))
	case "system":
		u = append(u, opt1("WithTransportType", "system"), opt1("WithSystemTransportOpenBin", c19Standin))
	}
	if e.flavour != "system" {
		u = append(u, opt1("WithTimeoutOps", strconv.FormatInt(int64(1500*time.Millisecond), 10)))
	}
	return u
}

var c19Standin string

// one scalar of the model's configuration
func specS(f c19Fields, key string) string {
	v := f[key]
	if len(v) == 1 {
		return string(v[0])
	}
	return ""
}

type c19EffectEnv struct {
	c        *ctx
	res      *vlib.Result
	baseline map[string]c19Fields
}

// evalEffect opens the driver and judges the effects. answers: [construct answer, argv answer (system)].
func (env *c19EffectEnv) evalEffect(e *c19Effect, port int, ln net.Listener, answers []string, res *vlib.Result) {
	line := e.line()
	fail := func(sig, format string, a ...any) {
		res.Fail("oracle", line, fmt.Sprintf("%s/%s platform-options=%v options=%v: ", e.flavour, e.ctor, platOptNames(e.plat), optNames(e.user))+fmt.Sprintf(format, a...), "effect:"+sig)
	}
	f := strings.Fields(answers[0])
	if len(f) != 3 || f[0] != "dom=1" || !strings.HasPrefix(f[2], "spec=ok:") {
		res.Count("effect:skipped(" + e.flavour + ",not-constructible)")
		return
	}
	S, _, _, ok := parseModelRes(f[2][5:])
	if !ok || S == nil {
		res.Fail("machinery", line, "driver answered "+answers[0][:min(200, len(answers[0]))], "driver")
		return
	}
	res.InDomain++
	isNet := e.ctor == "network"
	isNC := e.ctor == "netconf"
	// ---- what the device must look like for THIS configuration
	prompt := textFor(specS(S, "channel.Channel.PromptPattern"), c19DefPrompt)
	if isNet {
		if alts := S["channel.Channel.PromptPattern"]; len(alts) > 0 {
			prompt = textFor(string(alts[0]), c19DefPrompt)
		}
	}
	userP := textFor(specS(S, "channel.Channel.UsernamePattern"), c19DefUser)
	passP := textFor(specS(S, "channel.Channel.PasswordPattern"), c19DefPass)
	bypass := specS(S, "channel.Channel.AuthBypass") == "true"
	ret := specS(S, "channel.Channel.ReturnChar")
	dev := newC19Dev(!bypass, ret, userP, passP, prompt)

	// ---- build the real options
	rec := newC19Rec()
	failOpen := ""
	if e.flavour == "devfail" {
		if t := specS(S, "network.Driver.OnOpen"); isNet && strings.HasPrefix(t, "nfn:") {
			failOpen = "WithNetworkOnOpen:" + t
		} else if t := specS(S, "generic.Driver.OnOpen"); strings.HasPrefix(t, "gfn:") {
			failOpen = "WithOnOpen:" + t
		}
		if failOpen != "" {
			rec.fail[failOpen] = true
		}
	}
	if e.flavour == "devfailclose" {
		rec.fail["WithOnClose:"+specS(S, "generic.Driver.OnClose")] = true
		rec.fail["WithNetworkOnClose:"+specS(S, "network.Driver.OnClose")] = true
	}
	chlogs := map[string]*c19SyncBuf{}
	var opts []util.Option
	for _, o := range e.user {
		ro, err := effectOption(o, rec, chlogs)
		if err != nil {
			res.Fail("machinery", line, err.Error(), "harness")
			return
		}
		opts = append(opts, ro)
	}
	var nc *sim.NCServer
	switch e.flavour {
	case "dev", "devfail", "devfailclose":
		opts = append(opts, options.WithCustomTransport(dev))
	case "ncdev":
		nc = sim.NewNCServer(true, true)
		nc.Hello = nc.DefaultHello(7, nil)
		opts = append(opts, options.WithCustomTransport(nc))
	case "telnet":
		opts = append(opts, options.WithTransportType("telnet"), options.WithPort(port), options.WithTimeoutSocket(40*time.Millisecond))
	case "system":
		opts = append(opts, options.WithTransportType("system"), options.WithSystemTransportOpenBin(c19Standin))
	}
	if e.flavour != "system" {
		opts = append(opts, options.WithTimeoutOps(1500*time.Millisecond))
	}
	host := c19Host
	if e.flavour == "telnet" {
		host = "127.0.0.1"
	}
	c19StdLog.mu.Lock()
	c19StdLog.b.Reset()
	c19StdLog.mu.Unlock()

	// ---- construct
	var gd *generic.Driver
	var nd *network.Driver
	var ncd *netconf.Driver
	var err error
	func() {
		defer func() {
			if r := recover(); r != nil {
				err = fmt.Errorf("panic: %v", r)
			}
		}()
		switch {
		case e.plat != nil:
			var p *platform.Platform
			p, err = platform.NewPlatform(e.plat.yaml(), host, opts...)
			if err == nil {
				if isNet {
					nd, err = p.GetNetworkDriver()
					if nd != nil {
						gd = nd.Driver
					}
				} else {
					gd, err = p.GetGenericDriver()
				}
			}
		case isNC:
			ncd, err = netconf.NewDriver(host, opts...)
		case isNet:
			nd, err = network.NewDriver(host, opts...)
			if nd != nil {
				gd = nd.Driver
			}
		default:
			gd, err = generic.NewDriver(host, opts...)
		}
	}()
	if err != nil {
		fail("construct-failed", "the model constructs this driver, the implementation fails: %v", err)
		return
	}

	// ---- system flavour: the argv the transport spawns
	if e.flavour == "system" {
		var tr *transport.Transport
		if ncd != nil {
			tr = ncd.Transport
		} else {
			tr = gd.Transport
		}
		want := ""
		if len(answers) > 1 && strings.HasPrefix(answers[1], "argv=") {
			want = answers[1][5:]
		} else {
			res.Fail("machinery", line, "driver answered "+strings.Join(answers[1:], " "), "driver")
			return
		}
		recf := filepath.Join(c19Dir, fmt.Sprintf("argv-%d-%d", os.Getpid(), time.Now().UnixNano()))
		os.Setenv("VERIF_C14_ARGV", recf)
		defer os.Unsetenv("VERIF_C14_ARGV")
		defer os.Remove(recf)
		if oerr := tr.Open(); oerr != nil {
			fail("open-failed", "system transport Open: %v", oerr)
			return
		}
		var got []string
		deadline := time.Now().Add(15 * time.Second)
		seen := false
		for time.Now().Before(deadline) {
			if b, rerr := os.ReadFile(recf); rerr == nil {
				seen = true
				if len(b) > 0 {
					got = strings.Split(strings.TrimSuffix(string(b), "\x00"), "\x00")
				}
				break
			}
			time.Sleep(time.Millisecond)
		}
		tr.Close(true)
		reap()
		if !seen {
			fail("argv-not-seen", "the open binary %s was not run", c19Standin)
			return
		}
		wantV, _ := unhexList(want)
		gotV := lv(got...)
		if !valEq(gotV, wantV) {
			fail("argv", "spawned argv %s, the configuration demands %s", showVal(gotV), showVal(wantV))
		}
		res.Count("effect:system-argv-checked")
		return
	}

	// ---- netconf over the NETCONF server simulator
	if e.flavour == "ncdev" {
		nc.Start()
		done := make(chan error, 1)
		go func() { done <- ncd.Open() }()
		select {
		case oerr := <-done:
			if oerr != nil {
				fail("open-failed", "netconf Open: %v", oerr)
				return
			}
		case <-time.After(10 * time.Second):
			fail("open-hangs", "netconf Open did not return")
			return
		}
		cerr := ncd.Close()
		if cerr != nil {
			fail("close-failed", "netconf Close: %v", cerr)
		}
		env.judgeLogger(specS(S, "netconf.Driver.Logger"), "netconf.Driver.Logger", rec, fail)
		res.Count("effect:netconf-open-close")
		return
	}

	// ---- dev / telnet: open, look, close
	if e.flavour == "telnet" {
		acceptDone := make(chan struct{})
		go func() {
			defer close(acceptDone)
			c, aerr := ln.Accept()
			if aerr == nil {
				dev.serve(c)
			}
		}()
		defer func() {
			// never leave an Accept behind that would steal the next case's connection
			tl := ln.(*net.TCPListener)
			tl.SetDeadline(time.Now())
			select {
			case <-acceptDone:
			case <-time.After(3 * time.Second):
				dev.Close()
				<-acceptDone
			}
			tl.SetDeadline(time.Time{})
		}()
	}
	openErr := make(chan error, 1)
	go func() {
		if nd != nil {
			openErr <- nd.Open()
		} else {
			openErr <- gd.Open()
		}
	}()
	select {
	case oerr := <-openErr:
		if failOpen != "" {
			// the configured on-open hook fails: Open must hand that error back and must not leave
			// the transport open
			if !errors.Is(oerr, errC19Hook) {
				fail("on-open-error-lost", "the configured hook %s returned an error, Open returned %v", failOpen, oerr)
			}
			time.Sleep(time.Millisecond)
			if _, _, closed, _ := dev.snapshot(); !closed {
				fail("on-open-error-leaves-open", "the configured hook %s failed, yet the transport is still open", failOpen)
			}
			res.Count("effect:dev-on-open-error")
			return
		}
		if oerr != nil {
			lines, _, _, _ := dev.snapshot()
			fail("open-failed", "Open fails (%v) against a device that shows user prompt %q, password prompt %q, prompt %q and expects return %q (bypass=%v); device received %q",
				oerr, userP, passP, prompt, ret, bypass, lines)
			return
		}
	case <-time.After(15 * time.Second):
		fail("open-hangs", "Open did not return")
		return
	}
	// what the configuration demands the device to have received by now (over TCP the last bytes
	// may still be in flight: wait for the demanded number of lines, bounded)
	demand := 0
	if !bypass {
		demand += 2
	}
	if specS(S, "generic.Driver.OnOpen") == "<platform-fn>" {
		demand++
	}
	if isNet && specS(S, "network.Driver.OnOpen") == "<platform-fn>" {
		demand++
	}
	dev.waitLines(demand, 1500*time.Millisecond)
	lines, opens, _, args := dev.snapshot()
	// the transport was opened once, with the configured arguments
	if opens != 1 {
		fail("opens", "transport opened %d times", opens)
	}
	if e.flavour != "telnet" {
		if gd.Transport.GetHost() != host || strconv.Itoa(gd.Transport.GetPort()) != specS(S, "transport.Args.Port") {
			fail("transport-getters", "Transport.GetHost/GetPort = %q %d, configured %q %s", gd.Transport.GetHost(), gd.Transport.GetPort(), host, specS(S, "transport.Args.Port"))
		}
		if got, want := strconv.Itoa(args.Port), specS(S, "transport.Args.Port"); got != want {
			fail("args-port", "transport.Open saw port %s, configured %s", got, want)
		}
		if args.User != specS(S, "transport.Args.User") || args.Host != host {
			fail("args-user-host", "transport.Open saw user %q host %q, configured %q %q", args.User, args.Host, specS(S, "transport.Args.User"), host)
		}
		if got, want := strconv.FormatInt(int64(args.TimeoutSocket), 10), specS(S, "transport.Args.TimeoutSocket"); got != want {
			fail("args-timeout-socket", "transport.Open saw socket timeout %s, configured %s", got, want)
		}
	}
	// login: user, then password, each followed by the configured return sequence
	var wantLines []string
	if !bypass {
		wantLines = append(wantLines, "0:"+specS(S, "transport.Args.User"), "1:"+specS(S, "transport.Args.Password"))
	}
	// platform-built on-open hooks send one return each (generic first, then network)
	if specS(S, "generic.Driver.OnOpen") == "<platform-fn>" {
		wantLines = append(wantLines, "2:")
	}
	if isNet && specS(S, "network.Driver.OnOpen") == "<platform-fn>" {
		wantLines = append(wantLines, "2:")
	}
	if strings.Join(lines, "|") != strings.Join(wantLines, "|") {
		fail("written-lines", "device received lines %q during Open, the configuration demands %q (state:line; 0 user, 1 password, 2 shell)", lines, wantLines)
	}
	// hooks run so far
	var wantCalls []string
	if t := specS(S, "generic.Driver.OnOpen"); strings.HasPrefix(t, "gfn:") {
		wantCalls = append(wantCalls, t)
	}
	if t := specS(S, "network.Driver.OnOpen"); isNet && strings.HasPrefix(t, "nfn:") {
		wantCalls = append(wantCalls, t)
	}
	rec.mu.Lock()
	gotCalls := append([]string{}, rec.calls...)
	rec.mu.Unlock()
	if strings.Join(gotCalls, ",") != strings.Join(wantCalls, ",") {
		fail("on-open", "hooks run during Open %v, configured %v", gotCalls, wantCalls)
	}
	// the prompt pattern in use
	type pr struct {
		s   string
		err error
	}
	pc := make(chan pr, 1)
	go func() {
		s, perr := gd.GetPrompt()
		pc <- pr{s, perr}
	}()
	select {
	case p := <-pc:
		if p.err != nil || p.s != prompt {
			fail("prompt-pattern", "GetPrompt returns %q (%v), the device shows %q, configured pattern %s", p.s, p.err, prompt, showVal(S["channel.Channel.PromptPattern"]))
		}
	case <-time.After(10 * time.Second):
		fail("prompt-hangs", "GetPrompt did not return")
	}
	// close
	closeErr := make(chan error, 1)
	go func() {
		if nd != nil {
			closeErr <- nd.Close()
		} else {
			closeErr <- gd.Close()
		}
	}()
	select {
	case cerr := <-closeErr:
		if cerr != nil {
			fail("close-failed", "Close: %v", cerr)
		}
	case <-time.After(10 * time.Second):
		fail("close-hangs", "Close did not return")
		return
	}
	if isNet {
		if t := specS(S, "network.Driver.OnClose"); strings.HasPrefix(t, "nfn:") {
			wantCalls = append(wantCalls, t)
		}
	}
	if t := specS(S, "generic.Driver.OnClose"); strings.HasPrefix(t, "gfn:") {
		wantCalls = append(wantCalls, t)
	}
	rec.mu.Lock()
	gotCalls = append([]string{}, rec.calls...)
	rec.mu.Unlock()
	if strings.Join(gotCalls, ",") != strings.Join(wantCalls, ",") {
		fail("on-close", "hooks run until Close %v, configured %v", gotCalls, wantCalls)
	}
	wantAfter := len(wantLines) + 1 // GetPrompt's return
	if isNet && specS(S, "network.Driver.OnClose") == "<platform-fn>" {
		wantAfter++
	}
	if specS(S, "generic.Driver.OnClose") == "<platform-fn>" {
		wantAfter++
	}
	dev.waitLines(wantAfter, 1500*time.Millisecond)
	linesAfter, _, closed, _ := dev.snapshot()
	if len(linesAfter) != wantAfter {
		fail("on-close-platform", "device received %d lines in all (%q), the configured platform on-close hooks demand %d", len(linesAfter), linesAfter, wantAfter)
	}
	if e.flavour != "telnet" && !closed {
		fail("not-closed", "Close left the transport open")
	}
	env.judgeLogger(specS(S, "generic.Driver.Logger"), "generic.Driver.Logger", rec, fail)
	// channel log
	wantLog := specS(S, "channel.Channel.ChannelLog")
	for tok, w := range chlogs {
		got := w.String()
		if tok == wantLog && !strings.Contains(got, prompt) {
			fail("channel-log", "the configured channel log %s did not receive the device's output (%q)", tok, got)
		}
		if tok != wantLog && got != "" {
			fail("channel-log-other", "channel log %s is not the configured one (%s) but received %q", tok, wantLog, got)
		}
	}
	res.Count("effect:" + e.flavour + "-open-close")
}

func (env *c19EffectEnv) judgeLogger(want, field string, rec *c19Rec, fail func(string, string, ...any)) {
	rec.mu.Lock()
	logs := map[string]int{}
	for k, v := range rec.logs {
		logs[k] = v
	}
	rec.mu.Unlock()
	std := c19StdLog.String()
	for tok, n := range logs {
		if tok != want && n > 0 {
			fail("logger-other", "%s is %s, yet logger %s received %d messages", field, want, tok, n)
		}
	}
	switch {
	case strings.HasPrefix(want, "logger:"):
		if logs[want] == 0 {
			fail("logger", "%s is %s, but that logger received no message of the driver", field, want)
		}
	case want == "<default-logger>":
		if std == "" {
			fail("default-logger", "%s is the default logger, but log.Print received nothing", field)
		}
	}
	if want != "<default-logger>" && std != "" {
		fail("default-logger-other", "%s is %s, yet the standard logger printed %q", field, want, std[:min(len(std), 120)])
	}
}

func effectFails(res *vlib.Result) int {
	n := 0
	for k, v := range res.Distribution {
		if strings.HasPrefix(k, "finding:oracle:effect:") {
			n += v
		}
	}
	return n
}

// runC19Effects generates, asks and evaluates the effect class.
func runC19Effects(c *ctx, baseline map[string]c19Fields, platNames []string, platDoc map[string]string) int {
	res := c.res
	r := c.rng
	c19Standin = findStandin()
	log.SetOutput(c19StdLog)
	log.SetFlags(0)
	defer log.SetOutput(os.Stderr)
	env := &c19EffectEnv{c: c, res: res, baseline: baseline}
	ln, err := net.Listen("tcp", "127.0.0.1:0")
	if err != nil {
		res.Note("effect class: cannot listen on loopback (%v); telnet flavour skipped", err)
	}
	port := 0
	if ln != nil {
		defer ln.Close()
		port = ln.Addr().(*net.TCPAddr).Port
	}
	var effects []c19Effect
	if c.replay != "" {
		if e, ok := decodeEffect(c.replay); ok {
			effects = append(effects, e)
		}
	} else {
		for i := 0; i < c.n(600, 12000); i++ {
			effects = append(effects, genEffect(r, "dev", platNames, platDoc))
		}
		for i := 0; i < c.n(120, 1500); i++ {
			e := genEffect(r, r.Pick([]string{"devfail", "devfailclose"}), platNames, platDoc)
			e.user = append(e.user, opt1(r.Pick([]string{"WithOnOpen", "WithOnClose"}), "gfn:"+strconv.Itoa(r.Intn(4))))
			if e.ctor == "network" {
				e.user = append(e.user, opt1(r.Pick([]string{"WithNetworkOnOpen", "WithNetworkOnClose"}), "nfn:"+strconv.Itoa(r.Intn(4))))
			}
			effects = append(effects, e)
		}
		for i := 0; i < c.n(40, 600) && ln != nil; i++ {
			effects = append(effects, genEffect(r, "telnet", platNames, platDoc))
		}
		for i := 0; i < c.n(150, 3000); i++ {
			effects = append(effects, genEffect(r, "system", platNames, platDoc))
		}
		for i := 0; i < c.n(60, 800); i++ {
			effects = append(effects, genEffect(r, "ncdev", platNames, platDoc))
		}
	}
	ask := func(e *c19Effect) []string {
		cs := c19Case{ctor: e.ctor, plat: e.plat, user: e.modelOpts(port)}
		ls := []string{cs.leanLine()}
		if e.flavour == "system" {
			pl := "-"
			if e.plat != nil {
				pl = e.plat.leanPlat()
			}
			ls = append(ls, fmt.Sprintf("c19 argv %s %s %s %s", e.ctor, vlib.Hex([]byte(c19Host)), pl, encodeOpts(cs.user)))
		}
		return ls
	}
	var lines []string
	var idx []int
	for i := range effects {
		idx = append(idx, len(lines))
		lines = append(lines, ask(&effects[i])...)
	}
	ans := c.ask(lines)
	shrunk := map[string]bool{}
	spent := map[string]time.Duration{}
	failed, failedOpen := 0, 0
	defer func() {
		if c.replay == "" {
			res.Note("effect class wall time per flavour: %v", spent)
		}
	}()
	for i := range effects {
		e := &effects[i]
		n := 1
		if e.flavour == "system" {
			n = 2
		}
		if failed >= 6 && c.replay == "" {
			res.Note("effect class stopped after %d failing cases (every failing open waits for its timeout); %d of %d cases evaluated", failed, i, len(effects))
			break
		}
		res.Count("class:effect-" + e.flavour)
		res.Case(e.line(), true)
		before := len(res.Findings)
		t0 := time.Now()
		env.evalEffect(e, port, ln, ans[idx[i]:idx[i]+n], res)
		spent[e.flavour] += time.Since(t0)
		if n := effectFails(res); n > failedOpen {
			failed++
			failedOpen = n
		}
		for fi := before; fi < len(res.Findings) && c.replay == ""; fi++ {
			fd := &res.Findings[fi]
			if fd.Kind != "oracle" || shrunk[fd.Signature] || len(shrunk) >= 2 {
				continue
			}
			shrunk[fd.Signature] = true
			cur := *e
			same := func(cand *c19Effect) (string, bool) {
				scratch := vlib.NewResult("C19")
				env.evalEffect(cand, port, ln, c.ask(ask(cand)), scratch)
				for _, g := range scratch.Findings {
					if g.Signature == fd.Signature {
						return g.Detail, true
					}
				}
				return "", false
			}
			detail, budget := fd.Detail, 8
			for changed := true; changed && budget > 0; {
				changed = false
				for j := 0; j < len(cur.user) && budget > 0; j++ {
					cand := cur
					cand.user = append(append([]c19Opt{}, cur.user[:j]...), cur.user[j+1:]...)
					budget--
					if d, ok := same(&cand); ok {
						cur, detail, changed = cand, d, true
						j--
					}
				}
				if cur.plat != nil {
					for j := 0; j < len(cur.plat.opts) && budget > 0; j++ {
						cp := *cur.plat
						cp.opts = append(append([]c19PlatOpt{}, cur.plat.opts[:j]...), cur.plat.opts[j+1:]...)
						cand := cur
						cand.plat = &cp
						budget--
						if d, ok := same(&cand); ok {
							cur, detail, changed = cand, d, true
							j--
						}
					}
				}
			}
			fd.Case, fd.Detail = cur.line(), detail
		}
	}
	return len(effects)
}
