package main

// C17 user-supplied definitions: complete, drivable definitions generated from a seed and handed
// to the real constructors in each of the three forms the API accepts (raw bytes, file path,
// URL), for both driver types, with
//   - an `options:` block that carries every option kind platform/options.go knows (the model says
//     on which field each lands, or that the block panics / is refused),
//   - generic on-open / on-close lists (channel.write with and without `redacted`, channel.return)
//     and network lists (all four operations, acquire-priv with and without `target`),
//   - every optional section absent at random (failure strings, each on-X list, options,
//     textfsm-platform, variants), variants that override the default level and the on-X lists,
//   - a malformed stream: wrong option value types, unknown option names, an unknown transport
//     type, on-X steps with a missing argument or a non-string operation, unparsable YAML, a file
//     or URL that does not exist.
// Every loaded definition is DRIVEN: a definition-derived device (network: privilege device;
// generic: one-mode CLI whose prompt only the definition's own prompt pattern accepts, whose
// return byte is the definition's return-char) is opened, used and closed, and the device-side
// log is compared with what the model's on-X interpreters (Lean: runGenericOnX / runNetworkOnX)
// and the tree path prescribe.

import (
	"errors"
	"fmt"
	"net/http"
	"net/http/httptest"
	"os"
	"path/filepath"
	"sort"
	"strings"
	"sync"
	"time"

	"github.com/scrapli/scrapligo/driver/generic"
	"github.com/scrapli/scrapligo/driver/network"
	"github.com/scrapli/scrapligo/driver/options"
	"github.com/scrapli/scrapligo/platform"
	"github.com/scrapli/scrapligo/util"

	"verifgo/facts"
	"verifgo/sim"
	"verifgo/vlib"
)

type c17uopt struct {
	name string
	val  interface{} // as yaml.v3 decodes it
	text string      // YAML text of the value
}

type c17ucase struct {
	seed       uint64
	driverType string
	form       int // 0 raw bytes, 1 file path, 2 URL
	useVariant bool
	malformed  string // "" or the kind of defect
	levels     []*c17level
	dd, vdd    string // default level of the base / of the variant ("" = not overridden)
	fw         []string
	textfsm    bool
	opts       []c17uopt
	oo, oc     []map[string]interface{} // generic lists (nil = absent)
	noo, noc   []map[string]interface{} // network lists of the base
	vnoo, vnoc []map[string]interface{} // network lists of the variant (nil = not overridden)
	vfw        []string
	prompt     string // generic flavour: the device's prompt
	promptPat  string // generic flavour: prompt-pattern option ("" = channel default)
	retChar    string
	yaml       string
}

func (u *c17ucase) opt(name string) (interface{}, bool) {
	for _, o := range u.opts {
		if o.name == name {
			return o.val, true
		}
	}
	return nil, false
}

func c17uSteps(r *vlib.Rng, levels []*c17level, networkOps bool) []map[string]interface{} {
	var out []map[string]interface{}
	n := r.Range(1, 4)
	for i := 0; i < n; i++ {
		k := r.Intn(4)
		if !networkOps {
			k = []int{0, 2, 3, 3}[r.Intn(4)] // generic lists: a network operation (skipped), a bare return, write+return
		}
		switch k {
		case 0:
			st := map[string]interface{}{"operation": "acquire-priv"}
			if r.Chance(1, 2) && len(levels) > 0 {
				st["target"] = levels[r.Intn(len(levels))].key
			}
			out = append(out, st)
		case 1:
			out = append(out, map[string]interface{}{"operation": "driver.send-command", "command": r.Pick([]string{"terminal length 0", "terminal width 512", "set cli off"})})
		case 2:
			out = append(out, map[string]interface{}{"operation": "channel.return"})
		default:
			st := map[string]interface{}{"operation": "channel.write", "input": r.Pick([]string{"screen-length 0", "no paging", "logout"})}
			switch r.Intn(3) {
			case 0:
				st["redacted"] = true
			case 1:
				st["redacted"] = false
			}
			out = append(out, st, map[string]interface{}{"operation": "channel.return"})
		}
	}
	return out
}

var c17uLevelPool = []*c17level{
	{key: "exec", name: "exec", pattern: `(?im)^host>$`, witness: "host>", targetable: true, unamb: true},
	{key: "privilege-exec", name: "privilege-exec", pattern: `(?im)^host#$`, previous: "exec", esc: "enable", deesc: "disable",
		escPrompt: `(?im)^password:\s?$`, authWitness: "password:", witness: "host#", targetable: true, unamb: true},
	{key: "configuration", name: "configuration", pattern: `(?im)^host\(config[\w-]*\)#$`, notContains: []string{"tcl)"}, previous: "privilege-exec",
		esc: "configure terminal", deesc: "end", witness: "host(config)#", targetable: true, unamb: true},
	{key: "shell", name: "shell", pattern: `(?im)^host\$$`, previous: "exec", esc: "start shell", deesc: "exit", witness: "host$", targetable: true, unamb: true},
}

func c17genUser(seed uint64) *c17ucase {
	r := vlib.NewRng(seed)
	u := &c17ucase{seed: seed, driverType: "network", form: r.Intn(3), retChar: "\n", prompt: "host#"}
	if r.Chance(2, 5) {
		u.driverType = "generic"
	}
	nl := r.Range(2, 4)
	for i := 0; i < nl; i++ {
		l := *c17uLevelPool[i]
		if l.key == "privilege-exec" {
			l.auth = r.Chance(1, 2)
			if !l.auth {
				l.escPrompt, l.authWitness = "", ""
			}
		}
		u.levels = append(u.levels, &l)
	}
	u.dd = u.levels[r.Intn(len(u.levels))].key
	if r.Chance(2, 3) {
		u.fw = []string{"% Invalid input", "ERROR:"}[:r.Range(1, 2)]
	}
	u.textfsm = r.Chance(1, 2)
	// every option kind, a random subset per case
	all := []c17uopt{
		{"port", 2022 + r.Intn(5), ""}, {"auth-bypass", true, "true"}, {"auth-strict-key", false, "false"},
		{"username-pattern", `(?im)^login:\s?$`, ""}, {"password-pattern", `(?im)^secret:\s?$`, ""}, {"passphrase-pattern", `(?im)^phrase:\s?$`, ""},
		{"return-char", "\r", `"\r"`}, {"read-delay", 0.0001, "0.0001"}, {"timeout-ops", 2.5, "2.5"},
		{"transport-type", r.Pick([]string{"system", "standard", "telnet"}), ""}, {"read-size", []int{5, 64, 8192}[r.Intn(3)], ""},
		{"transport-pty-height", 40 + r.Intn(9), ""}, {"transport-pty-width", 200 + r.Intn(9), ""},
		{"transport-system-open-args", []interface{}{"-o", "ProxyCommand=none"}, "['-o', 'ProxyCommand=none']"},
	}
	if u.driverType == "generic" {
		all = append(all, c17uopt{"prompt-pattern", `(?im)^c17@[a-z]+~~$`, ""})
	} else {
		all = append(all, c17uopt{"prompt-pattern", `(?im)^never-shown$`, ""}) // overridden by the joined level patterns
	}
	for _, o := range all {
		if r.Chance(1, 2) {
			if o.text == "" {
				switch v := o.val.(type) {
				case string:
					o.text = yq(v)
				default:
					o.text = fmt.Sprint(v)
				}
			}
			u.opts = append(u.opts, o)
		}
	}
	for i := range u.opts { // block order is random
		j := r.Intn(i + 1)
		u.opts[i], u.opts[j] = u.opts[j], u.opts[i]
	}
	if v, ok := u.opt("return-char"); ok {
		u.retChar = v.(string)
	}
	if v, ok := u.opt("prompt-pattern"); ok && u.driverType == "generic" {
		u.promptPat, u.prompt = v.(string), "c17@host~~"
	}
	if r.Chance(2, 3) {
		u.oo = c17uSteps(r, nil, false)
	}
	if r.Chance(2, 3) {
		u.oc = c17uSteps(r, nil, false)
	}
	if r.Chance(3, 4) {
		u.noo = c17uSteps(r, u.levels, true)
	}
	if r.Chance(3, 4) {
		u.noc = c17uSteps(r, u.levels, true)
	}
	if r.Chance(1, 2) {
		u.useVariant = true
		if r.Chance(1, 2) {
			u.vdd = u.levels[r.Intn(len(u.levels))].key
		}
		if r.Chance(1, 2) {
			u.vnoo = c17uSteps(r, u.levels, true)
		}
		if r.Chance(1, 2) {
			u.vnoc = c17uSteps(r, u.levels, true)
		}
		if r.Chance(1, 3) {
			u.vfw = []string{"variant failure"}
		}
	}
	// malformed stream (seeds below 48 enumerate every wrong-type option and every on-X defect for
	// both driver types, so that each of them is met on every run)
	bad := []c17uopt{{"port", "2022", "'2022'"}, {"read-size", 1.5, "1.5"}, {"return-char", 10, "10"}, {"timeout-ops", "fast", "'fast'"},
		{"transport-system-open-args", []interface{}{"-o", 5}, "['-o', 5]"}, {"transport-system-open-args", "-o x", "'-o x'"},
		{"prompt-pattern", 7, "7"}, {"username-pattern", true, "true"}, {"password-pattern", 1.5, "1.5"}, {"passphrase-pattern", 3, "3"},
		{"transport-type", true, "true"}, {"read-delay", 1, "1"}, {"transport-pty-height", "40", "'40'"}, {"transport-pty-width", 2.5, "2.5"}}
	forced := seed < 48
	if forced || r.Chance(1, 4) {
		kinds := []string{"option-type", "option-unknown", "transport-type", "onx-missing-arg", "onx-operation-type", "yaml", "missing-source", "wrong-getter-only"}
		u.malformed = kinds[r.Intn(len(kinds))]
		if forced {
			u.malformed = "option-type"
			if seed >= 32 {
				u.malformed = []string{"onx-missing-arg", "onx-operation-type"}[seed%2]
				u.driverType = []string{"network", "generic"}[(seed/2)%2]
			}
		}
		switch u.malformed {
		case "option-type":
			b := bad[r.Intn(len(bad))]
			if forced {
				b = bad[int(seed)%len(bad)]
			}
			var keep []c17uopt
			for _, o := range u.opts {
				if o.name != b.name {
					keep = append(keep, o)
				}
			}
			u.opts = append(keep, b)
		case "option-unknown":
			u.opts = append([]c17uopt{{"no-such-option", "x", "'x'"}}, u.opts...)
		case "transport-type":
			var keep []c17uopt
			for _, o := range u.opts {
				if o.name != "transport-type" {
					keep = append(keep, o)
				}
			}
			u.opts = append(keep, c17uopt{"transport-type", "carrier-pigeon", "'carrier-pigeon'"})
		case "onx-missing-arg":
			bad := map[string]interface{}{"operation": "channel.write"}
			if u.driverType == "network" && r.Chance(1, 2) {
				bad = map[string]interface{}{"operation": "driver.send-command", "cmd": "typo"}
				u.noo = append(u.noo, bad)
				u.vnoo = nil
			} else if u.driverType == "network" {
				u.noo = append(u.noo, bad)
				u.vnoo = nil
			} else {
				u.oo = append(u.oo, bad)
			}
		case "onx-operation-type":
			bad := map[string]interface{}{"operation": 5}
			if u.driverType == "network" {
				u.noo = append(u.noo, bad)
				u.vnoo = nil
			} else {
				u.oo = append(u.oo, bad)
			}
		}
	}
	if u.malformed == "missing-source" && u.form == 0 {
		u.form = 1 + r.Intn(2) // raw bytes cannot be "missing"
	}
	u.yaml = u.render()
	if u.malformed == "yaml" {
		u.yaml = "default:\n\t- {unclosed: [\n" + u.yaml[:c17min(40, len(u.yaml))]
	}
	return u
}

func c17uYamlVal(v interface{}) string {
	switch x := v.(type) {
	case string:
		return yq(x)
	case bool, int, float64:
		return fmt.Sprint(x)
	}
	return "''"
}

func c17uRenderSteps(b *strings.Builder, ind, key string, steps []map[string]interface{}) {
	if steps == nil {
		return
	}
	fmt.Fprintf(b, "%s%s:\n", ind, key)
	for _, m := range steps {
		fmt.Fprintf(b, "%s  - operation: %s\n", ind, c17uYamlVal(m["operation"]))
		var ks []string
		for k := range m {
			if k != "operation" {
				ks = append(ks, k)
			}
		}
		sort.Strings(ks)
		for _, k := range ks {
			fmt.Fprintf(b, "%s    %s: %s\n", ind, k, c17uYamlVal(m[k]))
		}
	}
}

func (u *c17ucase) render() string {
	var b strings.Builder
	b.WriteString("---\nplatform-type: 'c17_user'\ndefault:\n")
	fmt.Fprintf(&b, "  driver-type: %s\n", yq(u.driverType))
	b.WriteString("  privilege-levels:\n")
	for _, l := range u.levels {
		fmt.Fprintf(&b, "    %s:\n      name: %s\n      pattern: %s\n", l.key, yq(l.name), yq(l.pattern))
		if len(l.notContains) > 0 {
			b.WriteString("      not-contains:\n")
			for _, nc := range l.notContains {
				fmt.Fprintf(&b, "        - %s\n", yq(nc))
			}
		}
		fmt.Fprintf(&b, "      previous-priv: %s\n      deescalate: %s\n      escalate: %s\n      escalate-auth: %v\n      escalate-prompt: %s\n",
			yq(l.previous), yq(l.deesc), yq(l.esc), l.auth, yq(l.escPrompt))
	}
	fmt.Fprintf(&b, "  default-desired-privilege-level: %s\n", yq(u.dd))
	if u.fw != nil {
		b.WriteString("  failed-when-contains:\n")
		for _, f := range u.fw {
			fmt.Fprintf(&b, "    - %s\n", yq(f))
		}
	}
	if u.textfsm {
		b.WriteString("  textfsm-platform: 'cisco_iosxe'\n")
	}
	c17uRenderSteps(&b, "  ", "on-open", u.oo)
	c17uRenderSteps(&b, "  ", "on-close", u.oc)
	c17uRenderSteps(&b, "  ", "network-on-open", u.noo)
	c17uRenderSteps(&b, "  ", "network-on-close", u.noc)
	if len(u.opts) > 0 {
		b.WriteString("  options:\n")
		for _, o := range u.opts {
			fmt.Fprintf(&b, "    - option: %s\n      value: %s\n", o.name, o.text)
		}
	}
	if u.useVariant {
		b.WriteString("variants:\n  v1:\n    textfsm-platform: ''\n")
		if u.vdd != "" {
			fmt.Fprintf(&b, "    default-desired-privilege-level: %s\n", yq(u.vdd))
		}
		if u.vfw != nil {
			b.WriteString("    failed-when-contains:\n")
			for _, f := range u.vfw {
				fmt.Fprintf(&b, "      - %s\n", yq(f))
			}
		}
		c17uRenderSteps(&b, "    ", "network-on-open", u.vnoo)
		c17uRenderSteps(&b, "    ", "network-on-close", u.vnoc)
	}
	return b.String()
}

// staleCmd: a plain command that is a level transition of the device at the default desired level
// (half of the network cases), sent between the ordinary command and Close.
func (u *c17ucase) staleCmd() string {
	if u.driverType != "network" || (u.seed>>5)%2 == 0 {
		return ""
	}
	var cands []string
	rd := u.effDD()
	for _, l := range u.levels {
		if l.previous == rd && l.esc != "" && !l.auth {
			cands = append(cands, l.esc)
		}
		if l.key == rd && l.previous != "" {
			cands = append(cands, l.deesc)
		}
	}
	if len(cands) == 0 {
		return ""
	}
	return cands[int(u.seed>>11)%len(cands)]
}

// effective sections (the property's statement: a variant replaces the sections it defines)
func (u *c17ucase) effDD() string {
	if u.useVariant && u.vdd != "" {
		return u.vdd
	}
	return u.dd
}
func (u *c17ucase) effNoo() []map[string]interface{} {
	if u.useVariant && u.vnoo != nil {
		return u.vnoo
	}
	return u.noo
}
func (u *c17ucase) effNoc() []map[string]interface{} {
	if u.useVariant && u.vnoc != nil {
		return u.vnoc
	}
	return u.noc
}
func (u *c17ucase) effFw() []string {
	if u.useVariant && len(u.vfw) > 0 {
		return u.vfw
	}
	return u.fw
}

// c17uServer serves user definitions for the URL form.
type c17uServer struct {
	srv *httptest.Server
	mu  sync.Mutex
	doc map[string]string
}

func c17newUServer() *c17uServer {
	s := &c17uServer{doc: map[string]string{}}
	s.srv = httptest.NewServer(http.HandlerFunc(func(w http.ResponseWriter, r *http.Request) {
		s.mu.Lock()
		d, ok := s.doc[r.URL.Path]
		s.mu.Unlock()
		if !ok {
			http.NotFound(w, r)
			return
		}
		_, _ = w.Write([]byte(d))
	}))
	return s
}

// source hands the definition over in the form the case asks for.
func (u *c17ucase) source(dir string, srv *c17uServer) (interface{}, string) {
	switch u.form {
	case 1:
		p := filepath.Join(dir, fmt.Sprintf("c17-user-%d.yaml", u.seed))
		if u.malformed != "missing-source" {
			_ = os.WriteFile(p, []byte(u.yaml), 0o600)
		}
		return p, "file path"
	case 2:
		path := fmt.Sprintf("/c17-user-%d.yaml", u.seed)
		if u.malformed != "missing-source" {
			srv.mu.Lock()
			srv.doc[path] = u.yaml
			srv.mu.Unlock()
		}
		return srv.srv.URL + path, "URL"
	}
	return []byte(u.yaml), "raw bytes"
}

// c17uModel is what the Lean model says about the case.
type c17uModel struct {
	perOpt        []string // outcome per option: l<field>, p, b
	block         string   // outcome of the block
	gOpen, gClose []c17act // generic lists
	nOpen, nClose []c17act // network lists with the effective default
}

func c17uAsk(c *ctx, us []*c17ucase) []*c17uModel {
	var lines []string
	for _, u := range us {
		var os []string
		for _, o := range u.opts {
			os = append(os, c17hex(o.name)+"="+facts.PlatValCanon(o.val))
		}
		ol := "."
		if len(os) > 0 {
			ol = strings.Join(os, ",")
		}
		lines = append(lines, "c17 opts "+ol,
			"c17 onxraw g - "+c17stepsCanon(u.oo), "c17 onxraw g - "+c17stepsCanon(u.oc),
			"c17 onxraw n "+c17hex(u.effDD())+" "+c17stepsCanon(u.effNoo()), "c17 onxraw n "+c17hex(u.effDD())+" "+c17stepsCanon(u.effNoc()))
	}
	ans := c.ask(lines)
	var out []*c17uModel
	for i := range us {
		m := &c17uModel{}
		kv := map[string]string{}
		for _, f := range strings.Split(ans[5*i], " ") {
			if j := strings.Index(f, "="); j > 0 {
				kv[f[:j]] = f[j+1:]
			}
		}
		if kv["per"] != "." && kv["per"] != "" {
			m.perOpt = strings.Split(kv["per"], ",")
		}
		m.block = kv["all"]
		m.gOpen, m.gClose = c17parseActs(ans[5*i+1]), c17parseActs(ans[5*i+2])
		m.nOpen, m.nClose = c17parseActs(ans[5*i+3]), c17parseActs(ans[5*i+4])
		out = append(out, m)
	}
	return out
}

// expectedLines: the non-empty lines a list of on-X actions makes the device receive, starting
// with the device in `mode` and the driver's cached level `cache`. An acquire re-reads the prompt
// and walks the tree path from the device's ACTUAL level (onx_acquire_reads_device_level); a
// command goes through SendCommand, which navigates to the default desired level only when the
// cached level is not the default (the library's documented fast path: a payload command that
// changed the level itself leaves that cache stale — DESIGN §6, not a finding); written input goes
// out with the next return.
func (d *c17def) expectedLines(acts []c17act, mode, cache, rd, secret string) (lines []string, end, endCache string, stop byte) {
	pending := ""
	for _, a := range acts {
		switch a.kind {
		case 'a':
			if pending != "" { // the prompt probe of the acquisition sends the return
				lines = append(lines, pending)
				pending = ""
			}
			lines = append(lines, d.pathLines(mode, a.arg, secret)...)
			mode, cache = a.arg, a.arg
		case 'c':
			if cache != rd {
				if pending != "" {
					lines = append(lines, pending)
					pending = ""
				}
				lines = append(lines, d.pathLines(mode, rd, secret)...)
				mode, cache = rd, rd
			}
			lines = append(lines, pending+a.arg)
			pending = ""
		case 'w':
			pending += a.arg
		case 'r':
			if pending != "" {
				lines = append(lines, pending)
			}
			pending = ""
		case 'e', 'p':
			return lines, mode, cache, a.kind
		}
	}
	return lines, mode, cache, 0
}

type c17uOut struct {
	loadErr             error
	loadPanic           string
	wrongGetterErr      error
	landing             []string // mismatches between option values and driver fields
	sections            string
	openErr, closeErr   error
	cmdErr              error
	sessPanic           string
	hang                bool
	lines               []sim.LineEvent
	nOpen, nCmd, nStale int
	modeCmd             string
	staleErr            error
	modeOpen            string
	maxRead             int
	closeCalls          int
	stage               string
}

func c17uLanding(u *c17ucase, m *c17uModel, gd *generic.Driver) []string {
	var bad []string
	for i, o := range u.opts {
		if i >= len(m.perOpt) || !strings.HasPrefix(m.perOpt[i], "l") {
			continue
		}
		// a later entry for the same field wins; the generator never repeats a name
		field := c17unhex(m.perOpt[i][1:])
		var got interface{}
		want := o.val
		switch field {
		case "Args.Port":
			got = gd.Transport.Args.Port
		case "Args.ReadSize":
			got = gd.Transport.Args.ReadSize
		case "Args.TermHeight":
			got = gd.Transport.Args.TermHeight
		case "Args.TermWidth":
			got = gd.Transport.Args.TermWidth
		case "Channel.AuthBypass":
			got, want = gd.Channel.AuthBypass, true
		case "Channel.PromptPattern":
			if u.driverType == "network" {
				continue // the joined level patterns replace it
			}
			got = gd.Channel.PromptPattern.String()
		case "Channel.UsernamePattern":
			got = gd.Channel.UsernamePattern.String()
		case "Channel.PasswordPattern":
			got = gd.Channel.PasswordPattern.String()
		case "Channel.PassphrasePattern":
			got = gd.Channel.PassphrasePattern.String()
		case "Channel.ReturnChar":
			got = string(gd.Channel.ReturnChar)
		case "Channel.ReadDelay":
			got, want = gd.Channel.ReadDelay, time.Duration(o.val.(float64)*float64(time.Second))
		case "Channel.TimeoutOps":
			got, want = gd.Channel.TimeoutOps, time.Duration(o.val.(float64)*float64(time.Second))
		case "Driver.TransportType":
			got = gd.TransportType
		default:
			continue // SSH / system transport arguments: not reachable behind a custom transport
		}
		if fmt.Sprint(got) != fmt.Sprint(want) {
			bad = append(bad, fmt.Sprintf("option %s=%v: %s is %v", o.name, o.val, field, got))
		}
	}
	return bad
}

func c17uRun(u *c17ucase, m *c17uModel, d *c17def, dir string, srv *c17uServer) *c17uOut {
	out := &c17uOut{}
	var mu sync.Mutex
	done := make(chan struct{})
	var cli *sim.CLI
	var dev *c17dev
	if u.driverType == "network" {
		start := d.levels[int(u.seed>>7)%len(d.levels)].key
		dev = c17newDev(d, start, c17secret, int(u.seed>>3)%2)
		cli = dev.cli
	} else {
		cli = sim.NewCLI()
		cli.Prompt = func(*sim.CLI) string { return u.prompt }
		cli.Handle = func(_ *sim.CLI, line string) string {
			if line == "" {
				return ""
			}
			return "ok " + line + "\n"
		}
	}
	if u.retChar != "" {
		cli.Return = u.retChar[0]
	}
	set := func(f func()) { mu.Lock(); f(); mu.Unlock() }
	go func() {
		defer close(done)
		defer func() {
			if r := recover(); r != nil {
				set(func() {
					if out.stage == "" {
						out.loadPanic = fmt.Sprint(r)
					} else {
						out.sessPanic = fmt.Sprint(r)
					}
				})
			}
		}()
		opts := []util.Option{options.WithCustomTransport(cli.Pipe), options.WithAuthSecondary(c17secret)}
		if _, ok := u.opt("auth-bypass"); !ok {
			opts = append(opts, options.WithAuthBypass())
		}
		if _, ok := u.opt("timeout-ops"); !ok {
			opts = append(opts, options.WithTimeoutOps(2*time.Second))
		}
		if _, ok := u.opt("read-delay"); !ok {
			opts = append(opts, options.WithReadDelay(50*time.Microsecond))
		}
		src, _ := u.source(dir, srv)
		var p *platform.Platform
		var err error
		if u.useVariant {
			p, err = platform.NewPlatformVariant(src, "v1", "host", opts...)
		} else {
			p, err = platform.NewPlatform(src, "host", opts...)
		}
		if err != nil || p == nil {
			set(func() { out.loadErr = err; out.stage = "load-failed" })
			return
		}
		set(func() { out.stage = "loaded"; out.sections = c17platformCanon(p) })
		var gd *generic.Driver
		var nd *network.Driver
		if u.driverType == "network" {
			nd, err = p.GetNetworkDriver()
			_, werr := p.GetGenericDriver()
			set(func() { out.wrongGetterErr = werr })
			if err != nil {
				set(func() { out.loadErr = err })
				return
			}
			gd = nd.Driver
		} else {
			gd, err = p.GetGenericDriver()
			_, werr := p.GetNetworkDriver()
			set(func() { out.wrongGetterErr = werr })
			if err != nil {
				set(func() { out.loadErr = err })
				return
			}
		}
		bad := c17uLanding(u, m, gd)
		if fmt.Sprint(gd.FailedWhenContains) != fmt.Sprint(append([]string{}, u.effFw()...)) {
			bad = append(bad, fmt.Sprintf("failed-when-contains is %q, definition says %q", gd.FailedWhenContains, u.effFw()))
		}
		if nd != nil && nd.DefaultDesiredPriv != u.effDD() {
			bad = append(bad, fmt.Sprintf("DefaultDesiredPriv is %q, definition says %q", nd.DefaultDesiredPriv, u.effDD()))
		}
		set(func() { out.landing = bad })
		cli.Start()
		snap := func() (string, int) {
			var mo string
			var n int
			cli.Snapshot(func() { mo, n = cli.Mode, len(cli.Lines) })
			return mo, n
		}
		if nd != nil {
			err = nd.Open()
		} else {
			err = gd.Open()
		}
		mo, n := snap()
		set(func() { out.stage, out.openErr, out.modeOpen, out.nOpen = "open", err, mo, n })
		if err != nil {
			return
		}
		if nd != nil {
			_, err = nd.SendCommand("show c17")
		} else {
			_, err = gd.SendCommand("show c17")
		}
		mo, n = snap()
		set(func() { out.stage, out.cmdErr, out.nCmd, out.modeCmd, out.nStale = "command", err, n, mo, n })
		if sc := u.staleCmd(); sc != "" && err == nil && nd != nil {
			_, err = nd.SendCommand(sc)
			mo, n = snap()
			set(func() { out.staleErr, out.modeCmd, out.nStale = err, mo, n })
		}
		if nd != nil {
			err = nd.Close()
		} else {
			err = gd.Close()
		}
		set(func() { out.stage, out.closeErr = "close", err })
	}()
	select {
	case <-done:
	case <-time.After(20 * time.Second):
		set(func() { out.hang = true })
	}
	mu.Lock()
	res := *out
	mu.Unlock()
	cli.Snapshot(func() {
		res.lines = append([]sim.LineEvent{}, cli.Lines...)
		res.closeCalls = cli.CloseCalls
		for _, k := range cli.ReadLog {
			if k > res.maxRead {
				res.maxRead = k
			}
		}
	})
	return &res
}

// c17uDef is the model-side view of a user definition (device + tree).
func (u *c17ucase) def() *c17def {
	d := &c17def{file: fmt.Sprintf("user-%d", u.seed), byKey: map[string]*c17level{}, class: map[string]int{}, dd: u.effDD(), kind: u.driverType, c04: "ok"}
	for i, l := range u.levels {
		d.levels = append(d.levels, l)
		d.byKey[l.key] = l
		d.class[l.key] = i
		d.classes = append(d.classes, []string{l.key})
	}
	return d
}

func c17user(c *ctx, seeds []uint64, verbose bool) {
	dir, err := os.MkdirTemp("", "c17-user-")
	if err != nil {
		c.res.Note("c17 user definitions: no temp dir: %v", err)
		return
	}
	defer os.RemoveAll(dir)
	srv := c17newUServer()
	defer srv.srv.Close()
	var us []*c17ucase
	for _, sd := range seeds {
		us = append(us, c17genUser(sd))
	}
	ms := c17uAsk(c, us)
	outs := make([]*c17uOut, len(us))
	defs := make([]*c17def, len(us))
	sem := make(chan struct{}, vlib.Conc(12))
	var wg sync.WaitGroup
	for i := range us {
		defs[i] = us[i].def()
		wg.Add(1)
		sem <- struct{}{}
		go func(i int) {
			defer wg.Done()
			outs[i] = c17uRun(us[i], ms[i], defs[i], dir, srv)
			<-sem
		}(i)
	}
	wg.Wait()
	for i, u := range us {
		c17uJudge(c, u, ms[i], defs[i], outs[i], verbose)
	}
}

func c17uJudge(c *ctx, u *c17ucase, m *c17uModel, d *c17def, o *c17uOut, verbose bool) {
	caseLine := fmt.Sprintf("c17user %d", u.seed)
	form := []string{"bytes", "file", "url"}[u.form]
	c.res.Case(caseLine, true)
	c.res.InDomain++
	c.res.Count("user-def:" + u.driverType + ":" + form)
	if u.useVariant {
		c.res.Count("user-def:variant")
	}
	if u.malformed != "" {
		c.res.Count("user-def:malformed:" + u.malformed)
	}
	for _, op := range u.opts {
		c.res.Count("user-def:option:" + op.name)
	}
	if verbose {
		fmt.Printf("%s type=%s form=%s variant=%v malformed=%q model block=%s\n%s\nload err=%v panic=%q wrongGetter=%v landing=%v\nstage=%s openErr=%v cmdErr=%v closeErr=%v sessPanic=%q hang=%v maxRead=%d\nlines: %s\nmodel gOpen=%v nOpen=%v nClose=%v gClose=%v\n",
			caseLine, u.driverType, form, u.useVariant, u.malformed, m.block, u.yaml, o.loadErr, o.loadPanic, o.wrongGetterErr, o.landing,
			o.stage, o.openErr, o.cmdErr, o.closeErr, o.sessPanic, o.hang, o.maxRead, c17fmtLines(o.lines), m.gOpen, m.nOpen, m.nClose, m.gClose)
	}
	fail := func(kind, sig, f string, a ...any) {
		c.res.Fail(kind, caseLine, fmt.Sprintf("user definition (%s driver, given as %s, variant=%v, malformed=%q): ", u.driverType, form, u.useVariant, u.malformed)+
			fmt.Sprintf(f, a...)+"\n device log: "+c17fmtLines(o.lines)+"\n yaml:\n"+u.yaml, sig)
	}
	// --- load outcome
	switch {
	case u.malformed == "yaml" || u.malformed == "missing-source":
		if o.loadPanic != "" || o.loadErr == nil {
			fail("oracle", "user-def-bad-source-accepted", "an unreadable definition must be refused with an error: err=%v panic=%q", o.loadErr, o.loadPanic)
		}
		return
	case m.block == "p":
		if o.loadPanic == "" {
			fail("correspondence", "user-def-options-outcome", "model: the options block panics; implementation: err=%v", o.loadErr)
		}
		return
	case m.block == "b":
		if o.loadPanic != "" || !errors.Is(o.loadErr, util.ErrBadOption) {
			fail("correspondence", "user-def-options-outcome", "model: the constructor refuses the options block (ErrBadOption); implementation: err=%v panic=%q", o.loadErr, o.loadPanic)
		}
		return
	}
	if o.loadPanic != "" || o.loadErr != nil {
		fail("oracle", "user-def-does-not-load", "a well-formed definition does not load: err=%v panic=%q", o.loadErr, o.loadPanic)
		return
	}
	// --- the right driver, and an error for the wrong one
	if o.wrongGetterErr == nil || !errors.Is(o.wrongGetterErr, util.ErrPlatformError) {
		fail("oracle", "wrong-driver-getter", "asking a %s definition for the other driver type must fail with ErrPlatformError, got %v", u.driverType, o.wrongGetterErr)
	}
	if len(o.landing) > 0 {
		fail("oracle", "user-def-option-not-applied", "the driver does not carry the definition's values: %s", strings.Join(o.landing, "; "))
	}
	if o.sessPanic == "" && o.hang {
		fail("oracle", "user-def-session-hang", "no return within 20 s (stage %s)", o.stage)
		return
	}
	// --- the device-side log
	secret := c17secret
	var openActs, closeActs []c17act
	rd := u.effDD()
	if u.driverType == "network" {
		openActs = append(append([]c17act{}, m.gOpen...), m.nOpen...)    // generic.Open runs first
		closeActs = append(append([]c17act{}, m.nClose...), m.gClose...) // network OnClose, then generic Close
	} else {
		openActs, closeActs = m.gOpen, m.gClose
		d = &c17def{byKey: map[string]*c17level{}, class: map[string]int{}}
	}
	start := ""
	if len(o.lines) > 0 {
		start = o.lines[0].Mode
	} else if u.driverType == "network" {
		start = d.levels[int(u.seed>>7)%len(d.levels)].key
	}
	expOpen, modeAfterOpen, cacheAfterOpen, stop := d.expectedLines(openActs, start, "", rd, secret)
	opened := nonEmptyLines(o.lines[:c17min(o.nOpen, len(o.lines))])
	switch stop {
	case 'p':
		if o.sessPanic == "" {
			fail("correspondence", "user-def-onx-outcome", "model: a non-string operation panics at Open; implementation: openErr=%v", o.openErr)
		}
		return
	case 'e':
		if o.sessPanic != "" || !errors.Is(o.openErr, util.ErrBadOption) {
			fail("correspondence", "user-def-onx-outcome", "model: a step without its argument stops Open with ErrBadOption; implementation: openErr=%v panic=%q", o.openErr, o.sessPanic)
		}
		if strings.Join(opened, "\x00") != strings.Join(expOpen, "\x00") {
			fail("oracle", "user-def-open-log", "before the bad step Open sent %q, expected %q", opened, expOpen)
		}
		return
	}
	if o.sessPanic != "" {
		fail("oracle", "user-def-session-panic", "panic %s (stage %s)", o.sessPanic, o.stage)
		return
	}
	if o.openErr != nil {
		fail("oracle", "user-def-open-error", "Open failed: %v", o.openErr)
		return
	}
	if strings.Join(opened, "\x00") != strings.Join(expOpen, "\x00") {
		fail("oracle", "user-def-open-log", "Open sent %q, the on-open lists (generic first, then network) and the tree path prescribe %q", opened, expOpen)
	}
	if u.driverType == "network" && o.modeOpen != modeAfterOpen {
		fail("oracle", "user-def-open-level", "after Open the device is in %s, expected %s", o.modeOpen, modeAfterOpen)
	}
	// the command in between runs at the default desired level
	if o.cmdErr != nil {
		fail("oracle", "user-def-command-error", "SendCommand failed: %v", o.cmdErr)
		return
	}
	cmdLines := nonEmptyLines(o.lines[c17min(o.nOpen, len(o.lines)):c17min(o.nCmd, len(o.lines))])
	expCmd, modeAfterCmd, cacheAfterCmd, _ := d.expectedLines([]c17act{{kind: 'c', arg: "show c17"}}, modeAfterOpen, cacheAfterOpen, rd, secret)
	if u.driverType == "generic" {
		expCmd = []string{"show c17"}
	}
	if strings.Join(cmdLines, "\x00") != strings.Join(expCmd, "\x00") {
		fail("oracle", "user-def-command-log", "SendCommand sent %q, expected %q (commands run at the default desired level %s)", cmdLines, expCmd, rd)
	}
	if o.closeErr != nil {
		fail("oracle", "user-def-close-error", "Close failed: %v", o.closeErr)
	}
	if sc := u.staleCmd(); sc != "" {
		// the device moved behind the driver: Close starts from where the device is
		c.res.Count("user-def:stale-command-before-close")
		if o.staleErr != nil {
			fail("oracle", "user-def-command-error", "SendCommand(%q) failed: %v", sc, o.staleErr)
			return
		}
		if o.modeCmd == modeAfterCmd {
			fail("machinery", "user-def-stale-setup", "the transition command %q did not move the device from %s", sc, modeAfterCmd)
		}
		modeAfterCmd = o.modeCmd
	}
	closed := nonEmptyLines(o.lines[c17min(o.nStale, len(o.lines)):])
	expClose, _, _, cstop := d.expectedLines(closeActs, modeAfterCmd, cacheAfterCmd, rd, secret)
	// a pending write at the end of Close never gets its return; an erroring step ends the list
	_ = cstop
	if strings.Join(closed, "\x00") != strings.Join(expClose, "\x00") {
		fail("oracle", "user-def-close-log", "Close sent %q, the on-close lists (network first, then generic) prescribe %q", closed, expClose)
	}
	if o.closeCalls < 1 {
		fail("oracle", "user-def-transport-not-closed", "Close returned without closing the transport")
	}
	if v, ok := u.opt("read-size"); ok && o.maxRead > v.(int) {
		fail("oracle", "user-def-read-size", "read-size %d, but a transport read carried %d bytes", v.(int), o.maxRead)
	}
}
