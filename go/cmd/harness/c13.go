package main

// C13 — failure marking, aggregation and stop-on-failed.
//
// Real generic.Driver / network.Driver sessions over the causal CLI simulator. The device answers
// the i-th line of an operation with a generated output in which failure strings are embedded at
// generated places; the harness observes the per-response Failed values, the aggregate and its
// member list, and the device's line log, and compares them with the Lean model of the code
// (correspondence) and with the declarative statement of the property (oracle).

import (
	"errors"
	"fmt"
	"os"
	"strconv"
	"strings"
	"sync"
	"time"

	"github.com/scrapli/scrapligo/driver/generic"
	"github.com/scrapli/scrapligo/driver/network"
	"github.com/scrapli/scrapligo/driver/opoptions"
	"github.com/scrapli/scrapligo/driver/options"
	"github.com/scrapli/scrapligo/platform"
	"github.com/scrapli/scrapligo/response"
	"github.com/scrapli/scrapligo/util"

	"verifgo/sim"
	"verifgo/vlib"
)

func init() { props["C13"] = runC13 }

// ---------------------------------------------------------------------------------------------
// device

type c13dev struct {
	*sim.CLI
	// everything below is guarded by the pipe lock (Handle runs with it held)
	network  bool
	outs     []string
	faultAt  int
	started  bool   // user lines of the current operation have begun
	first    string // first user line of the operation (network: marks the end of privilege navigation)
	target   string // mode in which the operation's lines are expected
	user     []string
	userMode []string
	stray    []string // lines that are neither privilege navigation nor part of the operation
}

var c13PrivCmds = map[string]bool{"enable": true, "disable": true, "configure terminal": true, "end": true}

func c13Prompt(c *sim.CLI) string {
	switch c.Mode {
	case "exec":
		return "router>"
	case "privilege-exec":
		return "router#"
	case "configuration":
		return "router(config)#"
	}
	return "router#"
}

func newC13Dev(networkDrv bool, mode string, seg int) *c13dev {
	d := &c13dev{CLI: sim.NewCLI(), network: networkDrv, faultAt: -1}
	d.Mode = mode
	d.Prompt = c13Prompt
	if seg > 0 {
		d.Seg = sim.SegFixed(seg)
	}
	d.Handle = func(c *sim.CLI, line string) string {
		if !d.started && d.network {
			if line == d.first && c.Mode == d.target && !c13PrivCmds[line] && line != "" {
				d.started = true
			} else {
				switch {
				case line == "":
					return ""
				case line == "enable" && c.Mode == "exec":
					c.Mode = "privilege-exec"
					return ""
				case line == "disable" && c.Mode == "privilege-exec":
					c.Mode = "exec"
					return ""
				case line == "configure terminal" && c.Mode == "privilege-exec":
					c.Mode = "configuration"
					return "Enter configuration commands, one per line.  End with CNTL/Z.\n"
				case line == "end" && c.Mode == "configuration":
					c.Mode = "privilege-exec"
					return ""
				}
				d.stray = append(d.stray, c.Mode+"|"+line)
				return "% Unknown command\n"
			}
		}
		i := len(d.user)
		d.user = append(d.user, line)
		d.userMode = append(d.userMode, c.Mode)
		if i == d.faultAt {
			c.Hidden = true // from here on: no output, no prompt, no echo
			return ""
		}
		out := ""
		if i < len(d.outs) {
			out = d.outs[i]
		}
		if out == "" {
			return ""
		}
		return out + "\n"
	}
	return d
}

func c13Levels() map[string]*network.PrivilegeLevel {
	return map[string]*network.PrivilegeLevel{
		"exec":           {Name: "exec", Pattern: `(?im)^[\w.\-@/:]{1,63}>$`},
		"privilege-exec": {Name: "privilege-exec", Pattern: `(?im)^[\w.\-@/:]{1,63}#$`, PreviousPriv: "exec", Deescalate: "disable", Escalate: "enable", EscalateAuth: true, EscalatePrompt: `(?im)^(?:enable\s){0,1}password:\s?$`},
		"configuration":  {Name: "configuration", Pattern: `(?im)^[\w.\-@/:]{1,63}\([\+\w.\-@/:+]{0,32}\)#$`, NotContains: []string{"tcl)"}, PreviousPriv: "privilege-exec", Deescalate: "end", Escalate: "configure terminal"},
	}
}

// ---------------------------------------------------------------------------------------------
// cases

type c13op struct {
	api      string    // g.cmd g.cmds g.file n.cmd n.cmds n.file n.cfgs n.cfgfile n.cfg
	opF      *[]string // nil: opoptions.WithFailedWhenContains not given (else: the list of the LAST one in toks)
	toks     []c13tok  // the operation options of the call, in call order
	stop     bool
	cmds     []string // n.cfg: the config's lines
	outs     []string
	crlf     bool // file variants: CRLF line ends
	trail    bool // file variants: newline after the last line
	noFile   bool // file variants: the file does not exist
	class    string
	pattern  string
	// observations
	errClass string
	errText  string
	panicked string
	obsModel string // same format as the Lean model answer
	obsSpec  string // same format as the Lean spec answer
	straddle bool   // a failure string with LF was laid across two consecutive outputs
	shape    []string // from-file variants: what is special about the file
	faultAt  int    // the device never answers this line of the operation (-1: answers all)
	derived  string // kind of failure string derived from the command / the prompt, if any
	twinDiff string // n.cfg: SendConfig vs SendConfigs on an identical device
	native   []string
	user     []string
	userMode []string
	stray    []string
	dur      time.Duration
}

type c13sess struct {
	direct   bool   // no session: response.NewResponse / Record / AppendResponse called directly
	platform string // built by platform.NewPlatform(<platform>) / NewPlatformVariant; its failure list must flow in
	variant  string
	network  bool
	drvGiven bool
	drv      []string
	seg      int
	mode     string
	ops      []*c13op
}

// c13tok is one operation option of a call: "s" WithFailedWhenContains(strs), "t" WithStopOnFailed,
// "b" an option that returns an error, and operation options of other layers, which
// generic.NewOperation must skip: "xn" WithNoStripPrompt, "xt" WithTimeoutOps, "xm"
// WithExactMatchInput (channel), "xp" WithPrivilegeLevel (network), "xf" WithFilterType (netconf).
// (WithEager is left out: it returns before the device has answered, which desynchronises every
// later command of the session; not C13's subject.)
type c13tok struct {
	kind string
	strs []string
}

var errC13BadOption = errors.New("c13: option refuses")

func (o *c13op) hasTok(kind string) bool {
	for _, k := range o.toks {
		if k.kind == kind {
			return true
		}
	}
	return false
}

// setToks derives what the caller asked for from the option list: the last failure list, any stop
func (o *c13op) setToks(toks []c13tok) {
	o.toks, o.opF, o.stop = toks, nil, false
	for _, k := range toks {
		switch k.kind {
		case "s":
			l := append([]string{}, k.strs...)
			o.opF = &l
		case "t":
			o.stop = true
		}
	}
}

func (o *c13op) goOpts() []util.Option {
	var oo []util.Option
	for _, k := range o.toks {
		switch k.kind {
		case "s":
			oo = append(oo, opoptions.WithFailedWhenContains(append([]string{}, k.strs...)))
		case "t":
			oo = append(oo, opoptions.WithStopOnFailed())
		case "xn":
			oo = append(oo, opoptions.WithNoStripPrompt())
		case "xt":
			oo = append(oo, opoptions.WithTimeoutOps(6*time.Second))
		case "xs": // short, for operations in which the device stops answering
			oo = append(oo, opoptions.WithTimeoutOps(400*time.Millisecond))
		case "xm":
			oo = append(oo, opoptions.WithExactMatchInput())
		case "xp":
			oo = append(oo, opoptions.WithPrivilegeLevel("configuration"))
		case "xf":
			oo = append(oo, opoptions.WithFilterType("subtree"))
		case "b":
			oo = append(oo, func(interface{}) error { return errC13BadOption })
		}
	}
	return oo
}

// prompt the device shows while the operation's lines are answered
func (o *c13op) prompt() string {
	if o.isNet() && o.target() == "configuration" {
		return "router(config)#"
	}
	return "router#"
}

// recOuts: what the channel hands to Record for each device output. With WithNoStripPrompt the
// prompt that follows the output stays in it.
func (o *c13op) recOuts() []string {
	if !o.hasTok("xn") {
		return o.outs
	}
	out := make([]string, len(o.outs))
	for i, x := range o.outs {
		if x == "" {
			out[i] = o.prompt()
		} else {
			out[i] = x + "\n" + o.prompt()
		}
	}
	return out
}

// c13BuildToks lays the failure-related options of o (opF, stop) out as a call's option list: in
// random order, sometimes preceded by a second WithFailedWhenContains that must lose, and mixed
// with 0-3 operation options of other layers before / between / after them.
func c13BuildToks(r *vlib.Rng, s *c13sess, o *c13op) {
	var toks []c13tok
	if o.opF != nil {
		if r.Chance(1, 6) {
			toks = append(toks, c13tok{"s", c13Subset(r, r.Range(1, 2))}) // overridden by the later one
		}
		toks = append(toks, c13tok{"s", append([]string{}, *o.opF...)})
	}
	if o.stop {
		at := r.Intn(len(toks) + 1)
		toks = append(toks[:at:at], append([]c13tok{{kind: "t"}}, toks[at:]...)...)
		if r.Chance(1, 10) { // given twice
			toks = append(toks, c13tok{kind: "t"})
		}
	}
	kinds := []string{"xn", "xt", "xf"}
	hasEmpty := false
	for _, c := range o.cmds {
		hasEmpty = hasEmpty || c == ""
	}
	if !hasEmpty {
		// with WithExactMatchInput the channel waits for the echo of the input; for an empty input
		// nothing is ever echoed and the call times out (observed on the unchanged tree; C01's subject)
		kinds = append(kinds, "xm")
	}
	if s.network {
		kinds = append(kinds, "xp", "xp")
	}
	nf := []int{0, 0, 1, 1, 1, 2, 2, 3}[r.Intn(8)]
	for i := 0; i < nf; i++ {
		at := r.Intn(len(toks) + 1)
		if len(toks) > 0 && r.Chance(1, 2) {
			at = 0 // a foreign option in front is what hides everything behind it when the loop stops early
		}
		toks = append(toks[:at:at], append([]c13tok{{kind: kinds[r.Intn(len(kinds))]}}, toks[at:]...)...)
	}
	o.setToks(toks)
}

// resetObs clears what a run recorded, so the operation can be run again
func (o *c13op) resetObs() {
	o.errClass, o.errText, o.panicked, o.obsModel, o.obsSpec, o.twinDiff = "", "", "", "", "", ""
	o.native, o.user, o.userMode, o.stray = nil, nil, nil, nil
}

func (o *c13op) isCfg() bool  { return o.api == "n.cfg" }
func (o *c13op) isOne() bool  { return o.api == "g.cmd" || o.api == "n.cmd" }
func (o *c13op) isFile() bool { return o.api == "g.file" || o.api == "n.file" || o.api == "n.cfgfile" }
func (o *c13op) isNet() bool  { return strings.HasPrefix(o.api, "n.") }
func (o *c13op) target() string {
	if o.api == "n.cfg" || o.api == "n.cfgs" || o.api == "n.cfgfile" {
		return "configuration"
	}
	return "privilege-exec"
}

func strsB(l []string) [][]byte {
	out := make([][]byte, len(l))
	for i, s := range l {
		out[i] = []byte(s)
	}
	return out
}

func (s *c13sess) line(o *c13op) string {
	op := "n"
	if len(o.toks) > 0 {
		var l []string
		for _, k := range o.toks {
			if k.kind == "s" {
				l = append(l, "s"+vlib.HexList(strsB(k.strs)))
			} else {
				l = append(l, k.kind)
			}
		}
		op = strings.Join(l, "/")
	}
	cmds := vlib.HexList(strsB(o.cmds))
	if o.isCfg() {
		cmds = vlib.HexList([][]byte{[]byte(strings.Join(o.cmds, "\n"))})
	}
	b := func(x bool) string {
		if x {
			return "1"
		}
		return "0"
	}
	drv := []string{}
	if s.drvGiven {
		drv = s.drv
	}
	outs := vlib.HexList(strsB(o.recOuts()))
	if o.faultAt >= 0 && o.faultAt < len(o.outs) {
		parts := strings.Split(outs, ",")
		parts[o.faultAt] = "!"
		outs = strings.Join(parts, ",")
	}
	plat := ""
	if s.platform != "" {
		plat = "," + s.platform + ":" + s.variant
	}
	// field 4 is the old spelling of a trailing stop option: always 0 now (stop is a token)
	return fmt.Sprintf("c13 %s %s %s 0 %s %s x%d,%s,%s,%s,%s%s", o.api, vlib.HexList(strsB(drv)), op,
		cmds, outs, s.seg, b(o.crlf), b(o.trail), b(o.noFile), s.mode, plat)
}

func c13ParseLine(line string) (*c13sess, error) {
	f := strings.Fields(line)
	if len(f) < 7 || f[0] != "c13" {
		return nil, fmt.Errorf("not a c13 case line")
	}
	unlist := func(s string) ([]string, error) {
		if s == "." {
			return []string{}, nil
		}
		var out []string
		for _, p := range strings.Split(s, ",") {
			b, err := vlib.UnHex(p)
			if err != nil {
				return nil, err
			}
			out = append(out, string(b))
		}
		return out, nil
	}
	o := &c13op{api: f[1], class: "replay", pattern: "replay", faultAt: -1}
	if strings.Contains(f[6], "!") {
		parts := strings.Split(f[6], ",")
		for i, x := range parts {
			if x == "!" {
				o.faultAt = i
				parts[i] = "-"
			}
		}
		f[6] = strings.Join(parts, ",")
	}
	s := &c13sess{network: strings.HasPrefix(f[1], "n."), direct: strings.HasPrefix(f[1], "d."), ops: []*c13op{o}}
	var err error
	if s.drv, err = unlist(f[2]); err != nil {
		return nil, err
	}
	s.drvGiven = true
	var toks []c13tok
	if f[3] != "n" {
		for _, tk := range strings.Split(f[3], "/") {
			if strings.HasPrefix(tk, "s") {
				l, err := unlist(tk[1:])
				if err != nil {
					return nil, err
				}
				toks = append(toks, c13tok{"s", l})
			} else {
				toks = append(toks, c13tok{kind: tk})
			}
		}
	}
	if f[4] == "1" {
		toks = append(toks, c13tok{kind: "t"})
	}
	o.setToks(toks)
	if o.cmds, err = unlist(f[5]); err != nil {
		return nil, err
	}
	if o.isCfg() && len(o.cmds) == 1 {
		o.cmds = strings.Split(o.cmds[0], "\n")
	}
	if o.outs, err = unlist(f[6]); err != nil {
		return nil, err
	}
	if o.hasTok("xn") { // the line carries the recorded outputs: take the kept prompt off again
		for i, x := range o.outs {
			o.outs[i] = strings.TrimSuffix(strings.TrimSuffix(x, o.prompt()), "\n")
		}
	}
	x := strings.Split(strings.TrimPrefix(f[7], "x"), ",")
	if len(x) >= 5 {
		s.seg, _ = strconv.Atoi(x[0])
		o.crlf, o.trail, o.noFile, s.mode = x[1] == "1", x[2] == "1", x[3] == "1", x[4]
	}
	if len(x) >= 6 {
		pv := strings.SplitN(x[5], ":", 2)
		s.platform = pv[0]
		if len(pv) == 2 {
			s.variant = pv[1]
		}
		s.network = strings.HasPrefix(f[1], "n.")
	}
	if s.mode == "" {
		s.mode = "privilege-exec"
	}
	return s, nil
}

// ---------------------------------------------------------------------------------------------
// generator

var c13Pool = []string{"% Invalid input", "% Invalid", "% Ambiguous command", "Error:", "^", "é✗ failed",
	"aab", "bad\ncmd", "syntax error", "E", "rror", "Error: bad", "% ", "not found", "aaab", " ",
	// anchored to a line start / end, or spanning lines
	"\n% Invalid input", "\n% ", "rror\n", "a\nb", "marker.\n^",
	// would mean something else as regular expressions
	"a.c", ".*", "[ab]+", "(x|y)", "\\d+", "fail?", "e{2}"}

// what the regex reading of a failure string would match although the string itself is not there
var c13RegexNear = map[string]string{"a.c": "abc", ".*": "anything at all", "[ab]+": "abba", "(x|y)": "x or y",
	"\\d+": "12345", "fail?": "fai", "e{2}": "ee", "^": "line start", "marker.\n^": "markerX\nline"}

// c13Straddle rewrites outs[i], outs[i+1] so that s (which contains LF) does not have to occur in
// either but occurs in outs[i] + "\n" + outs[i+1]: suffix of the first, line break, prefix of the second.
func c13Straddle(r *vlib.Rng, s string, x, y *string) {
	var cuts []int
	for k := 0; k < len(s); k++ {
		if s[k] == '\n' {
			cuts = append(cuts, k)
		}
	}
	if len(cuts) == 0 {
		return
	}
	k := cuts[r.Intn(len(cuts))]
	p, q := s[:k], s[k+1:]
	head, tail := c13Clean(r), c13Clean(r)
	switch r.Intn(3) {
	case 0:
		*x = p
	case 1:
		*x = head + "\n" + p
	default:
		*x = head + "\nxx " + p
	}
	switch r.Intn(3) {
	case 0:
		*y = q
	case 1:
		*y = q + "\n" + tail
	default:
		*y = q + " yy\n" + tail
	}
	*x, *y = c13Canon(*x), c13Canon(*y)
}

var c13Filler = []string{"Building configuration...", "interface Loopback0", " description uplink", "ok", "done",
	"aa b aaa", "value 42", "État: prêt ✓", "  indented line", "Current configuration : 1024 bytes", "e r r o r",
	"% invalid INPUT", "a", "error (lower case)", "ba", "d cmd"}

var c13Words = []string{"show version", "show ip route", "interface lo0", "description x", "no shutdown", "ip address 10.0.0.1/32",
	"router bgp 65000", "set system host-name r1", "commit", "x", "show running-config | include foo", "write", "ping 1.1.1.1",
	"afficher é", "bad cmd", "do show clock"}

// canonical output: what processOut leaves of a device output that is followed by a newline and the
// prompt (trailing blanks of every line and leading/trailing newlines are dropped by the channel)
func c13Canon(out string) string {
	ls := strings.Split(out, "\n")
	for i := range ls {
		ls[i] = strings.TrimRight(ls[i], " ")
	}
	return strings.Trim(strings.Join(ls, "\n"), "\n")
}

func c13Subset(r *vlib.Rng, n int) []string {
	var out []string
	for len(out) < n {
		s := r.Pick(c13Pool)
		if s == " " && !r.Chance(1, 6) {
			continue
		}
		dup := false
		for _, x := range out {
			dup = dup || x == s
		}
		if !dup {
			out = append(out, s)
		}
	}
	return out
}

func c13Embed(r *vlib.Rng, s string) string {
	var ls []string
	for i, n := 0, r.Intn(3); i < n; i++ {
		ls = append(ls, r.Pick(c13Filler))
	}
	var piece string
	switch r.Intn(5) {
	case 0:
		piece = s
	case 1:
		piece = s + " at marker"
	case 2:
		piece = "device says " + s
	case 3:
		piece = "xx" + s + "yy"
	default:
		piece = r.Pick(c13Filler) + s + r.Pick(c13Filler)
	}
	at := r.Intn(len(ls) + 1)
	ls = append(ls[:at], append([]string{piece}, ls[at:]...)...)
	return strings.Join(ls, "\n")
}

func c13Near(r *vlib.Rng, s string) string {
	if s == "" {
		return "ok"
	}
	if alt, ok := c13RegexNear[s]; ok && r.Bool() {
		return c13Embed(r, alt)
	}
	switch r.Intn(5) {
	case 0:
		return c13Embed(r, s[:len(s)-1]) // proper prefix (may cut a rune: harmless, bytes are bytes)
	case 1:
		return c13Embed(r, strings.ToLower(s)+strings.ToUpper(s))
	case 2:
		k := len(s) / 2
		return c13Embed(r, s[:k]+"\n"+s[k:]) // split over two lines
	case 3:
		k := len(s) / 2
		return c13Embed(r, s[:k]+"_"+s[k:])
	default:
		return c13Embed(r, s[1:])
	}
}

func c13Clean(r *vlib.Rng) string {
	var ls []string
	for i, n := 0, r.Intn(4); i < n; i++ {
		ls = append(ls, r.Pick(c13Filler))
	}
	return strings.Join(ls, "\n")
}

func c13Eff(drv []string, opF *[]string) []string {
	if opF != nil && len(*opF) > 0 {
		return *opF
	}
	return drv
}

func c13GenOp(r *vlib.Rng, s *c13sess, thorough bool) *c13op {
	o := &c13op{faultAt: -1}
	if s.network {
		o.api = []string{"n.cmd", "n.cmds", "n.cmds", "n.file", "n.cfgs", "n.cfgs", "n.cfgfile", "n.cfg", "n.cfg"}[r.Intn(9)]
	} else {
		o.api = []string{"g.cmd", "g.cmds", "g.cmds", "g.cmds", "g.file"}[r.Intn(5)]
	}
	// operation-level list
	switch r.Intn(10) {
	case 0, 1, 2, 3:
	case 4:
		e := []string{}
		o.opF = &e
	default:
		l := c13Subset(r, r.Range(1, 3))
		o.opF = &l
	}
	emptyStr := false
	if o.opF != nil && len(*o.opF) > 0 && r.Chance(1, 25) { // out of domain: an empty failure string
		l := append([]string{}, *o.opF...)
		at := r.Intn(len(l) + 1)
		l = append(l[:at], append([]string{""}, l[at:]...)...)
		o.opF = &l
		emptyStr = true
	}
	o.stop = r.Bool()
	drv := []string{}
	if s.drvGiven {
		drv = s.drv
	}
	eff := c13Eff(drv, o.opF)
	var other []string // strings configured but not in force, or not configured at all
	if o.opF != nil && len(*o.opF) > 0 {
		other = append(other, drv...)
	}
	other = append(other, c13Subset(r, 2)...)
	// commands
	n := r.Range(1, 7)
	if thorough && r.Chance(1, 10) {
		n = r.Range(8, 14)
	}
	if o.isOne() {
		n = 1
	}
	for i := 0; i < n; i++ {
		c := r.Pick(c13Words)
		if r.Chance(1, 3) {
			c += " " + strconv.Itoa(r.Intn(100))
		}
		// an empty line (just a return); never first: with nothing to wait for in the echo, the
		// channel would take the previous, still unread prompt for the answer (C01's subject)
		if r.Chance(1, 10) && i > 0 {
			c = ""
		}
		o.cmds = append(o.cmds, c)
	}
	// where the failures go
	o.pattern = []string{"none", "first", "middle", "last", "several", "all", "random"}[r.Intn(7)]
	fails := make([]bool, n)
	switch o.pattern {
	case "first":
		fails[0] = true
	case "middle":
		fails[n/2] = true
	case "last":
		fails[n-1] = true
	case "several":
		for k := 0; k < 2+r.Intn(2); k++ {
			fails[r.Intn(n)] = true
		}
	case "all":
		for i := range fails {
			fails[i] = true
		}
	case "random":
		for i := range fails {
			fails[i] = r.Chance(1, 3)
		}
	}
	for i := 0; i < n; i++ {
		var out string
		switch {
		case fails[i] && len(eff) > 0:
			out = c13Embed(r, eff[r.Intn(len(eff))])
			if r.Chance(1, 8) { // two failure strings in one output
				out += "\n" + c13Embed(r, eff[r.Intn(len(eff))])
			}
		case r.Chance(1, 4) && len(other) > 0:
			out = c13Embed(r, other[r.Intn(len(other))]) // a string that is not in force
		case r.Chance(1, 4) && len(eff) > 0:
			out = c13Near(r, eff[r.Intn(len(eff))])
		case r.Chance(1, 8):
			out = ""
		default:
			out = c13Clean(r)
		}
		o.outs = append(o.outs, c13Canon(out))
	}
	// a failure string with a line break straddling the joint of two consecutive outputs
	var lfStrs []string
	for _, s := range eff {
		if strings.Contains(s, "\n") {
			lfStrs = append(lfStrs, s)
		}
	}
	if n >= 2 && len(lfStrs) > 0 && (r.Chance(1, 2) || o.isCfg()) {
		i := r.Intn(n - 1)
		c13Straddle(r, lfStrs[r.Intn(len(lfStrs))], &o.outs[i], &o.outs[i+1])
		o.straddle = true
	}
	// a failure string taken from what surrounds the output on the wire: the echoed command, the
	// joint echo/output, the joint output/prompt, the prompt. Only the recorded output is searched:
	// the echo never is, the prompt only under WithNoStripPrompt.
	if r.Chance(1, 6) {
		i := r.Intn(n)
		c, out := o.cmds[i], o.outs[i]
		tail := func(x string, k int) string {
			if len(x) > k {
				return x[len(x)-k:]
			}
			return x
		}
		head := func(x string, k int) string {
			if len(x) > k {
				return x[:k]
			}
			return x
		}
		d, kind := "", ""
		switch r.Intn(5) {
		case 0:
			d, kind = c, "whole-command"
		case 1:
			if w := strings.Fields(c); len(w) > 0 {
				d, kind = w[r.Intn(len(w))], "word-of-command"
			}
		case 2:
			d, kind = tail(c, 4)+"\n"+head(out, 3), "echo-output-joint"
		case 3:
			d, kind = tail(out, 3)+"\nrout", "output-prompt-joint"
		default:
			d, kind = []string{"router", "uter#", "#", "(config)#", "router(config)"}[r.Intn(5)], "prompt"
		}
		if strings.TrimSpace(d) != "" {
			l := []string{d}
			if o.opF != nil && r.Bool() {
				l = append(append([]string{}, *o.opF...), d)
			}
			o.opF = &l
			o.derived = kind
		}
	}
	if o.isFile() {
		o.crlf = r.Chance(1, 4)
		// FILE SHAPE: the commands transmitted must be the lines of the file, whatever they look like
		if r.Chance(1, 4) { // a long line (bufio.Reader's default buffer is 4096 bytes)
			i := r.Intn(n)
			if o.cmds[i] != "" {
				lens := []int{4095, 4096, 4097, 6000, 8192, 8193}
				if thorough {
					lens = append(lens, 12289, 20000)
				}
				if L := lens[r.Intn(len(lens))]; L > len(o.cmds[i])+1 {
					o.cmds[i] += " " + strings.Repeat("x", L-len(o.cmds[i])-1)
					o.shape = append(o.shape, "long-line:"+strconv.Itoa(L))
					if s.seg > 0 && s.seg < 64 {
						// thousands of 1-7 byte reads of a multi-kilobyte echo only measure the
						// simulator's speed against the operation timeout; keep reads coarse here
						s.seg = 64
					}
				}
			}
		}
		for i := range o.cmds {
			if o.cmds[i] == "" {
				continue
			}
			switch r.Intn(16) {
			case 0:
				o.cmds[i] = "  " + o.cmds[i]
				o.shape = append(o.shape, "leading-spaces")
			case 1:
				o.cmds[i] += " "
				o.shape = append(o.shape, "trailing-space")
			case 2:
				o.cmds[i] = strings.Replace(o.cmds[i], " ", "\t", 1)
				o.shape = append(o.shape, "tab")
			}
		}
		if r.Chance(1, 12) {
			o.cmds[0] = "\xef\xbb\xbf" + o.cmds[0] // a UTF-8 byte order mark is part of the first line
			o.shape = append(o.shape, "bom")
		}
		o.trail = o.cmds[n-1] == "" || r.Chance(2, 3) // bufio.ScanLines drops a final empty line
	}
	o.class = "valid"
	if emptyStr {
		o.class = "empty-failure-string"
	}
	c13BuildToks(r, s, o)
	return o
}

// malformed / degenerate operations
func c13GenMalformed(r *vlib.Rng, s *c13sess) *c13op {
	o := c13GenOp(r, s, false)
	choice := r.Intn(3)
	if o.isOne() || o.isCfg() {
		choice = 2 // these take a command / a text, never an empty list or a file
	}
	switch choice {
	case 0: // no commands at all
		o.cmds, o.outs, o.class = nil, nil, "malformed-empty-list"
		o.trail = false
	case 1:
		if o.isFile() {
			o.noFile, o.class = true, "malformed-no-file"
			o.cmds, o.outs = nil, nil
		} else {
			o.cmds, o.outs, o.class = nil, nil, "malformed-empty-list"
		}
	default: // only empty failure strings in force
		e := []string{""}
		if r.Bool() {
			e = []string{"", r.Pick(c13Pool)}
		}
		o.opF = &e
		o.class = "empty-failure-string"
		c13BuildToks(r, s, o)
	}
	if len(o.cmds) > 0 && !o.noFile && (r.Chance(1, 3) || ((o.isOne() || o.isCfg()) && r.Bool())) { // an option that returns an error: the call fails, nothing is sent
		at := r.Intn(len(o.toks) + 1)
		o.setToks(append(o.toks[:at:at], append([]c13tok{{kind: "b"}}, o.toks[at:]...)...))
		o.class = "malformed-bad-option"
	}
	return o
}

func c13GenSession(r *vlib.Rng, thorough bool, malformed bool) *c13sess {
	s := &c13sess{network: r.Chance(1, 2), mode: "privilege-exec"}
	s.seg = []int{0, 0, 0, 1, 3, 7, 64}[r.Intn(7)]
	switch r.Intn(6) {
	case 0: // options.WithFailedWhenContains not given: the driver default (empty)
	case 1:
		s.drvGiven, s.drv = true, []string{}
	default:
		s.drvGiven, s.drv = true, c13Subset(r, r.Range(1, 3))
	}
	if malformed && r.Chance(1, 3) && len(s.drv) > 0 {
		at := r.Intn(len(s.drv) + 1)
		s.drv = append(s.drv[:at:at], append([]string{""}, s.drv[at:]...)...)
	}
	if s.network {
		s.mode = []string{"privilege-exec", "privilege-exec", "exec", "configuration"}[r.Intn(4)]
	}
	for i, n := 0, r.Range(1, 4); i < n; i++ {
		if malformed && (i == 0 || r.Bool()) {
			s.ops = append(s.ops, c13GenMalformed(r, s))
		} else {
			s.ops = append(s.ops, c13GenOp(r, s, thorough))
		}
	}
	// the device stops answering in the middle of the session's last operation: the channel's error
	// must be handed up, no response object, nothing transmitted after the unanswered line
	if !malformed && r.Chance(1, 25) {
		o := s.ops[len(s.ops)-1]
		if len(o.cmds) > 0 && !o.noFile {
			o.faultAt = r.Intn(len(o.cmds))
			o.class = "device-stops-answering"
			at := r.Intn(len(o.toks) + 1)
			var keep []c13tok
			for _, k := range o.toks {
				if k.kind != "xt" { // a later WithTimeoutOps would override the short one
					keep = append(keep, k)
				}
			}
			if at > len(keep) {
				at = len(keep)
			}
			o.setToks(append(keep[:at:at], append([]c13tok{{kind: "xs"}}, keep[at:]...)...))
		}
	}
	if s.drvGiven {
		for _, x := range s.drv {
			if x == "" {
				for _, o := range s.ops {
					if o.opF == nil || len(*o.opF) == 0 {
						if o.class == "valid" {
							o.class = "empty-failure-string"
						}
					}
				}
			}
		}
	}
	return s
}

// ---------------------------------------------------------------------------------------------
// running the real code

func c13ErrClass(err error) string {
	switch {
	case err == nil:
		return "nil"
	case errors.Is(err, util.ErrNoOp):
		return "noop"
	case errors.Is(err, util.ErrTimeoutError):
		return "timeout"
	case errors.Is(err, util.ErrConnectionError):
		return "connection"
	case errors.Is(err, util.ErrAuthError):
		return "auth"
	case errors.Is(err, util.ErrPrivilegeError):
		return "privilege"
	case errors.Is(err, util.ErrOperationError):
		return "operation"
	case errors.Is(err, util.ErrBadOption):
		return "badoption"
	case errors.Is(err, util.ErrFileNotFoundError):
		return "nofile"
	case errors.Is(err, util.ErrIgnoredOption):
		return "ignored"
	}
	return "other"
}

func c13JoinOr(sep string, l []string) string {
	if len(l) == 0 {
		return "."
	}
	return strings.Join(l, sep)
}

func c13Hex(s string) string { return vlib.Hex([]byte(s)) }

func c13ShowErr(e *response.OperationError) string {
	if e == nil {
		return "nil-operation-error"
	}
	return c13Hex(e.Input) + ";" + c13Hex(e.Output) + ";" + c13Hex(e.ErrorString) + ";" + c13Hex(e.Error())
}

func c13ShowFailure(err error) string {
	if err == nil {
		return "0"
	}
	var oe *response.OperationError
	var me *response.MultiOperationError
	switch x := err.(type) {
	case *response.OperationError:
		oe = x
		return "1~" + c13ShowErr(oe)
	case *response.MultiOperationError:
		me = x
		if me == nil {
			return "2~nil"
		}
		var l []string
		for _, e := range me.Operations {
			l = append(l, c13ShowErr(e))
		}
		return "2~" + c13JoinOr(",", l) + "~" + c13Hex(me.Error())
	}
	return fmt.Sprintf("9~%T", err)
}

func c13ShowResp(r *response.Response) string {
	if r == nil {
		return "nil-response"
	}
	var fwc []string
	for _, s := range r.FailedWhenContains {
		fwc = append(fwc, c13Hex(s))
	}
	return c13Hex(r.Input) + ";" + c13Hex(r.Result) + ";" + c13JoinOr("+", fwc) + ";" + c13ShowFailure(r.Failed)
}

func c13ShowSent(l []string) string {
	var h []string
	for _, s := range l {
		h = append(h, c13Hex(s))
	}
	return "S" + c13JoinOr(",", h)
}

func c13Members(err error) string {
	if err == nil {
		return "."
	}
	me, ok := err.(*response.MultiOperationError)
	if !ok || me == nil {
		return fmt.Sprintf("?%T", err)
	}
	var l []string
	for _, e := range me.Operations {
		if e == nil {
			l = append(l, "nil")
			continue
		}
		l = append(l, c13Hex(e.Input)+";"+c13Hex(e.Output))
	}
	return c13JoinOr(",", l)
}

func c13Bit(b bool) string {
	if b {
		return "1"
	}
	return "0"
}

type c13api interface {
	SendCommand(string, ...util.Option) (*response.Response, error)
	SendCommands([]string, ...util.Option) (*response.MultiResponse, error)
	SendCommandsFromFile(string, ...util.Option) (*response.MultiResponse, error)
}

func c13ContainsAny(s string, l []string) bool {
	for _, x := range l {
		if strings.Contains(s, x) {
			return true
		}
	}
	return false
}

// native (Go-side, Lean-independent) checks of the property's per-object clauses
func (o *c13op) nativeResp(r *response.Response, eff []string, dom bool) {
	if r == nil {
		o.native = append(o.native, "nil response in result")
		return
	}
	if oe, ok := r.Failed.(*response.OperationError); ok && oe != nil {
		// theorem op_error_text_names: the text names the input, the matched string and the output
		txt := oe.Error()
		if !strings.Contains(txt, oe.Input) || !strings.Contains(txt, oe.ErrorString) || !strings.Contains(txt, oe.Output) {
			o.native = append(o.native, fmt.Sprintf("error text %q does not name input %q, matched string %q and output %q", txt, oe.Input, oe.ErrorString, oe.Output))
		}
	}
	if dom && (r.Failed != nil) != c13ContainsAny(r.Result, eff) {
		o.native = append(o.native, fmt.Sprintf("response to %q: Failed=%v but output %q contains-one-of %q = %v",
			r.Input, r.Failed != nil, r.Result, eff, c13ContainsAny(r.Result, eff)))
	}
}

func (o *c13op) nativeMulti(m *response.MultiResponse, eff []string, dom bool) {
	var want []*response.OperationError
	for _, r := range m.Responses {
		o.nativeResp(r, eff, dom)
		if r != nil && r.Failed != nil {
			oe, _ := r.Failed.(*response.OperationError)
			want = append(want, oe)
		}
	}
	if (m.Failed != nil) != (len(want) > 0) {
		o.native = append(o.native, fmt.Sprintf("MultiResponse.Failed=%v but %d member(s) failed", m.Failed != nil, len(want)))
		return
	}
	if m.Failed != nil {
		me, ok := m.Failed.(*response.MultiOperationError)
		if !ok || me == nil {
			o.native = append(o.native, fmt.Sprintf("MultiResponse.Failed has type %T", m.Failed))
			return
		}
		same := len(me.Operations) == len(want)
		for i := 0; same && i < len(want); i++ {
			same = me.Operations[i] == want[i]
		}
		if !same {
			o.native = append(o.native, fmt.Sprintf("MultiOperationError lists %d operations, the failed members are %d (or order/identity differs)", len(me.Operations), len(want)))
		}
		// theorem multi_error_text: one failed member -> that member's own text; otherwise the text
		// states how many members failed
		txt := me.Error()
		if len(want) == 1 && want[0] != nil && txt != want[0].Error() {
			o.native = append(o.native, fmt.Sprintf("multi error text %q is not the single failed member's text %q", txt, want[0].Error()))
		}
		if len(want) != 1 && !strings.Contains(txt, strconv.Itoa(len(want))) {
			o.native = append(o.native, fmt.Sprintf("multi error text %q does not state the number of failed members (%d)", txt, len(want)))
		}
	}
}

// c13RunDirect drives the response package alone: one Response per (command, output) pair is
// recorded and appended to a MultiResponse. Outputs are arbitrary bytes here (no channel in between).
func c13RunDirect(s *c13sess) {
	for _, o := range s.ops {
		func() {
			defer func() {
				if p := recover(); p != nil {
					o.panicked = fmt.Sprint(p)
					o.errClass, o.errText = "panic", o.panicked
					o.obsModel, o.obsSpec = "Epanic", "Epanic"
				}
			}()
			eff := s.drv
			dom := !c13ContainsAny("", eff)
			m := response.NewMultiResponse("h")
			for i, c := range o.cmds {
				r := response.NewResponse(c, "h", 22, append([]string{}, eff...))
				r.Record([]byte(o.outs[i]))
				m.AppendResponse(r)
			}
			o.errClass = "nil"
			o.user = o.cmds
			o.nativeMulti(m, eff, dom)
			var rs, bits []string
			for _, r := range m.Responses {
				rs = append(rs, c13ShowResp(r))
				bits = append(bits, c13Bit(r != nil && r.Failed != nil))
			}
			sent := c13ShowSent(o.cmds)
			o.obsModel = sent + "|R" + c13JoinOr("/", rs) + "|F" + c13ShowFailure(m.Failed) + "|J" + c13Hex(m.JoinedResult())
			o.obsSpec = sent + "|B" + c13JoinOr("", bits) + "|M" + c13Bit(m.Failed != nil) + "|I" + c13Members(m.Failed)
		}()
	}
}

func c13GenDirect(r *vlib.Rng) *c13sess {
	alpha := []byte("aab\n ")
	s := &c13sess{direct: true, drvGiven: true, mode: "privilege-exec"}
	for i, n := 0, r.Intn(4); i < n; i++ {
		s.drv = append(s.drv, string(r.Bytes(r.Range(1, 3), alpha)))
	}
	o := &c13op{api: "d.multi", class: "direct", pattern: "random", faultAt: -1}
	if len(s.drv) > 0 && r.Chance(1, 20) {
		s.drv[r.Intn(len(s.drv))] = ""
		o.class = "empty-failure-string"
	}
	for i, n := 0, r.Range(1, 5); i < n; i++ {
		o.cmds = append(o.cmds, "c"+strconv.Itoa(i))
		o.outs = append(o.outs, string(r.Bytes(r.Intn(9), alpha)))
	}
	s.ops = []*c13op{o}
	return s
}

// every needle of 1-3 bytes over {a,b} against every haystack of 0-5 bytes over {a,b}
func c13ExhaustiveDirect() []*c13sess {
	var words func(n int) []string
	words = func(n int) []string {
		if n == 0 {
			return []string{""}
		}
		var out []string
		for _, w := range words(n - 1) {
			out = append(out, w+"a", w+"b")
		}
		return out
	}
	var out []*c13sess
	for nl := 1; nl <= 3; nl++ {
		for _, needle := range words(nl) {
			for hl := 0; hl <= 5; hl++ {
				for _, hay := range words(hl) {
					out = append(out, &c13sess{direct: true, drvGiven: true, drv: []string{needle}, mode: "privilege-exec",
						ops: []*c13op{{api: "d.multi", class: "direct-exhaustive", pattern: "exhaustive", cmds: []string{"c"}, outs: []string{hay}, faultAt: -1}}})
				}
			}
		}
	}
	return out
}

type c13plat struct {
	name, variant string
	fwc           []string
}

// c13PlatformList asks the model driver for the embedded platform definitions as the translator
// read them from the YAML assets (file, variant, failed-when-contains)
func c13PlatformList(c *ctx) []c13plat {
	var out []c13plat
	ans := c.ask([]string{"c13 platlist"})
	if len(ans) != 1 || ans[0] == "." || ans[0] == "bad-op" {
		c.res.Fail("machinery", "c13 platlist", "no platform list from the model driver: "+strings.Join(ans, " "), "platlist")
		return nil
	}
	for _, e := range strings.Split(ans[0], "|") {
		f := strings.Split(e, ":")
		if len(f) != 3 {
			continue
		}
		v, _ := vlib.UnHex(f[1])
		pl := c13plat{name: strings.TrimSuffix(f[0], ".yaml"), variant: string(v)}
		if f[2] != "." {
			for _, h := range strings.Split(f[2], ",") {
				b, _ := vlib.UnHex(h)
				pl.fwc = append(pl.fwc, string(b))
			}
		}
		out = append(out, pl)
	}
	return out
}

func c13GenPlatformSession(r *vlib.Rng, pl c13plat, thorough bool) *c13sess {
	// network or generic flavour: ask the library
	var p *platform.Platform
	var err error
	probe := []util.Option{options.WithCustomTransport(sim.NewCLI()), options.WithAuthBypass()}
	if pl.variant == "" {
		p, err = platform.NewPlatform(pl.name, "h", probe...)
	} else {
		p, err = platform.NewPlatformVariant(pl.name, pl.variant, "h", probe...)
	}
	if err != nil {
		return nil // loading the embedded definitions is C17's subject
	}
	_, nerr := p.GetNetworkDriver()
	s := &c13sess{platform: pl.name, variant: pl.variant, network: nerr == nil, mode: "privilege-exec",
		drvGiven: true, drv: append([]string{}, pl.fwc...)}
	s.seg = []int{0, 0, 7, 64}[r.Intn(4)]
	if s.network {
		s.mode = []string{"privilege-exec", "exec", "configuration"}[r.Intn(3)]
	}
	for i, n := 0, r.Range(2, 4); i < n; i++ {
		o := c13GenOp(r, s, thorough)
		s.ops = append(s.ops, o)
	}
	return s
}

func c13RunSession(s *c13sess) {
	if s.direct {
		c13RunDirect(s)
		return
	}
	dev := newC13Dev(s.network, s.mode, s.seg)
	dev.Start()
	opts := []util.Option{options.WithCustomTransport(dev), options.WithAuthBypass(),
		options.WithTimeoutOps(3 * time.Second), options.WithReadDelay(50 * time.Microsecond)}
	if s.platform != "" {
		c13RunPlatformSession(s, dev, opts)
		return
	}
	if s.drvGiven {
		opts = append(opts, options.WithFailedWhenContains(append([]string{}, s.drv...)))
	}
	var api c13api
	var nd *network.Driver
	var closer func() error
	if s.network {
		opts = append(opts, options.WithPrivilegeLevels(c13Levels()), options.WithDefaultDesiredPriv("privilege-exec"))
		d, err := network.NewDriver("h", opts...)
		if err != nil {
			for _, o := range s.ops {
				o.errClass, o.errText = "setup", err.Error()
			}
			return
		}
		api, nd, closer = d, d, d.Close
		if err := d.Open(); err != nil {
			for _, o := range s.ops {
				o.errClass, o.errText = "setup", err.Error()
			}
			return
		}
	} else {
		d, err := generic.NewDriver("h", opts...)
		if err != nil {
			for _, o := range s.ops {
				o.errClass, o.errText = "setup", err.Error()
			}
			return
		}
		api, closer = d, d.Close
		if err := d.Open(); err != nil {
			for _, o := range s.ops {
				o.errClass, o.errText = "setup", err.Error()
			}
			return
		}
	}
	defer closer()
	c13RunOps(s, dev, api, nd)
}

// c13RunPlatformSession: the driver comes from platform.NewPlatform / NewPlatformVariant for an
// embedded definition; its failed-when-contains list must be the one in force. Prompts, privilege
// levels and on-open/on-close of the definition are replaced by the simulator's (loading and driving
// the platforms themselves is C17's subject).
func c13RunPlatformSession(s *c13sess, dev *c13dev, opts []util.Option) {
	fail := func(err error) {
		for _, o := range s.ops {
			o.errClass, o.errText = "setup", err.Error()
		}
	}
	if s.network {
		opts = append(opts, options.WithPrivilegeLevels(c13Levels()), options.WithDefaultDesiredPriv("privilege-exec"))
	}
	var p *platform.Platform
	var err error
	if s.variant == "" {
		p, err = platform.NewPlatform(s.platform, "h", opts...)
	} else {
		p, err = platform.NewPlatformVariant(s.platform, s.variant, "h", opts...)
	}
	if err != nil {
		fail(err)
		return
	}
	var api c13api
	var nd *network.Driver
	var closer func() error
	if s.network {
		d, err := p.GetNetworkDriver()
		if err != nil {
			fail(err)
			return
		}
		d.OnOpen, d.OnClose, d.Driver.OnOpen, d.Driver.OnClose = nil, nil, nil, nil
		api, nd, closer = d, d, d.Close
		if err := d.Open(); err != nil {
			fail(err)
			return
		}
	} else {
		d, err := p.GetGenericDriver()
		if err != nil {
			fail(err)
			return
		}
		d.OnOpen, d.OnClose = nil, nil
		api, closer = d, d.Close
		if err := d.Open(); err != nil {
			fail(err)
			return
		}
	}
	defer closer()
	c13RunOps(s, dev, api, nd)
}

func c13RunOps(s *c13sess, dev *c13dev, api c13api, nd *network.Driver) {
	drv := []string{}
	if s.drvGiven {
		drv = s.drv
	}
	for _, o := range s.ops {
		first := ""
		if len(o.cmds) > 0 {
			first = o.cmds[0]
		}
		dev.Snapshot(func() {
			dev.outs, dev.first, dev.target = o.outs, first, o.target()
			dev.faultAt = o.faultAt
			dev.started = !s.network
			dev.user, dev.userMode, dev.stray = nil, nil, nil
		})
		oo := o.goOpts()
		eff := c13Eff(drv, o.opF)
		dom := !c13ContainsAny("", eff) // no empty failure string in force
		path := ""
		if o.isFile() {
			if o.noFile {
				path = fmt.Sprintf("%s/verif-c13-missing-%d-%p", os.TempDir(), os.Getpid(), o)
			} else {
				nl := "\n"
				if o.crlf {
					nl = "\r\n"
				}
				txt := strings.Join(o.cmds, nl)
				if o.trail && len(o.cmds) > 0 {
					txt += nl
				}
				f, err := os.CreateTemp("", "verif-c13-*")
				if err != nil {
					o.errClass, o.errText = "setup", err.Error()
					continue
				}
				f.WriteString(txt)
				f.Close()
				path = f.Name()
			}
		}
		t0 := time.Now()
		var err error
		var one *response.Response
		var multi *response.MultiResponse
		func() {
			// a panic in the calling goroutine (e.g. indexing an empty response list) is an observation
			defer func() {
				if p := recover(); p != nil {
					o.panicked = fmt.Sprint(p)
				}
			}()
			switch o.api {
			case "g.cmd", "n.cmd":
				one, err = api.SendCommand(o.cmds[0], oo...)
			case "g.cmds", "n.cmds":
				multi, err = api.SendCommands(o.cmds, oo...)
			case "g.file", "n.file":
				multi, err = api.SendCommandsFromFile(path, oo...)
			case "n.cfgs":
				multi, err = nd.SendConfigs(o.cmds, oo...)
			case "n.cfgfile":
				multi, err = nd.SendConfigsFromFile(path, oo...)
			case "n.cfg":
				one, err = nd.SendConfig(strings.Join(o.cmds, "\n"), oo...)
			}
		}()
		o.dur = time.Since(t0)
		if path != "" && !o.noFile {
			os.Remove(path)
		}
		dev.Snapshot(func() {
			o.user = append([]string{}, dev.user...)
			o.userMode = append([]string{}, dev.userMode...)
			o.stray = append([]string{}, dev.stray...)
		})
		o.errClass = c13ErrClass(err)
		if o.panicked != "" {
			o.errClass, o.errText = "panic", o.panicked
			o.obsModel, o.obsSpec = "Epanic", "Epanic"
			continue
		}
		if err != nil {
			o.errText = err.Error()
			o.obsModel, o.obsSpec = "E"+o.errClass, "E"+o.errClass
			if o.faultAt >= 0 && o.errClass == "timeout" {
				// which error the channel reports is C05/C06's subject; here: that it is handed up and
				// what had been transmitted by then
				o.obsModel = "Echan|" + c13ShowSent(o.user)
			}
			if one != nil || multi != nil {
				o.native = append(o.native, "a result was returned together with an error")
				o.obsModel += "|a-result-was-returned-together-with-the-error"
			}
			continue
		}
		sent := c13ShowSent(o.user)
		switch {
		case o.isOne():
			o.nativeResp(one, eff, dom)
			o.obsModel = sent + "|R" + c13ShowResp(one)
			o.obsSpec = sent + "|B" + c13Bit(one != nil && one.Failed != nil)
		case o.isCfg():
			o.obsModel = sent + "|R" + c13ShowResp(one)
			if one != nil {
				o.obsSpec = sent + "|M" + c13Bit(one.Failed != nil) + "|I" + c13Members(one.Failed)
				// the collapsed response is itself a response: failed iff its own output contains a
				// failure string in force (theorem sendConfig_failed_iff; needs LF-free strings)
				if dom && !strings.Contains(strings.Join(eff, ""), "\n") && (one.Failed != nil) != c13ContainsAny(one.Result, eff) {
					o.native = append(o.native, fmt.Sprintf("collapsed response: Failed=%v but its output %q contains-one-of %q = %v",
						one.Failed != nil, one.Result, eff, c13ContainsAny(one.Result, eff)))
				}
				// "a collapsed config response reports the same": run SendConfigs with the same lines and
				// options against an identical device and compare the verdicts (every failure list)
				dev.Snapshot(func() {
					dev.outs, dev.first, dev.target = o.outs, first, o.target()
					dev.started = false
					dev.user, dev.userMode, dev.stray = nil, nil, nil
				})
				oo2 := o.goOpts()
				twin, terr := nd.SendConfigs(o.cmds, oo2...)
				var twinUser []string
				dev.Snapshot(func() { twinUser = append([]string{}, dev.user...) })
				switch {
				case terr != nil || twin == nil:
					o.twinDiff = fmt.Sprintf("SendConfigs on the same lines failed: %v", terr)
				default:
					a := sent + "|M" + c13Bit(one.Failed != nil) + "|I" + c13Members(one.Failed) + "|J" + c13Hex(one.Result)
					b := c13ShowSent(twinUser) + "|M" + c13Bit(twin.Failed != nil) + "|I" + c13Members(twin.Failed) + "|J" + c13Hex(twin.JoinedResult())
					if a != b {
						var rs []string
						for _, x := range twin.Responses {
							rs = append(rs, fmt.Sprintf("%q->%q failed=%v", x.Input, x.Result, x.Failed != nil))
						}
						o.twinDiff = fmt.Sprintf("failure strings in force %q\n SendConfig : Failed=%v (%v) result %q\n SendConfigs: Failed=%v members %s\n collapsed %s\n multi     %s",
							eff, one.Failed != nil, one.Failed, one.Result, twin.Failed != nil, strings.Join(rs, " ; "), a, b)
					}
				}
			}
		default:
			if multi == nil {
				o.native = append(o.native, "nil MultiResponse without an error")
				o.obsModel, o.obsSpec = "nil", "nil"
				continue
			}
			o.nativeMulti(multi, eff, dom)
			var rs, bits []string
			for _, r := range multi.Responses {
				rs = append(rs, c13ShowResp(r))
				bits = append(bits, c13Bit(r != nil && r.Failed != nil))
			}
			o.obsModel = sent + "|R" + c13JoinOr("/", rs) + "|F" + c13ShowFailure(multi.Failed) + "|J" + c13Hex(multi.JoinedResult())
			o.obsSpec = sent + "|B" + c13JoinOr("", bits) + "|M" + c13Bit(multi.Failed != nil) + "|I" + c13Members(multi.Failed)
		}
	}
}

// the spec answer without its per-member flag section (SendConfig hides the members)
func c13DropBits(spec string) string {
	parts := strings.Split(spec, "|")
	var out []string
	for _, p := range parts {
		if !strings.HasPrefix(p, "B") {
			out = append(out, p)
		}
	}
	return strings.Join(out, "|")
}

// c13RefLines: the lines of a file, by the definition the property uses (cut at LF, one trailing CR
// of a line dropped, nothing for the empty remainder after the last LF)
func c13RefLines(content string) []string {
	ls := strings.Split(content, "\n")
	if ls[len(ls)-1] == "" {
		ls = ls[:len(ls)-1]
	}
	for i := range ls {
		ls[i] = strings.TrimSuffix(ls[i], "\r")
	}
	return ls
}

func c13GenFile(r *vlib.Rng, big bool) (string, []string) {
	alpha := []byte("abcxyz  \t-/.0123456789")
	var b strings.Builder
	var shape []string
	if r.Chance(1, 8) {
		b.WriteString("\xef\xbb\xbf")
		shape = append(shape, "bom")
	}
	n := r.Intn(7)
	for i := 0; i < n; i++ {
		L := []int{0, 0, 1, 1, 2, 7, 20, 60}[r.Intn(8)]
		if r.Chance(1, 5) {
			ls := []int{4095, 4096, 4097, 6000, 8192, 12288, 12289}
			if big {
				ls = []int{65534, 65535, 65536, 65537, 70000, 131072}
			}
			L = ls[r.Intn(len(ls))]
			shape = append(shape, "line:"+strconv.Itoa(L))
		}
		line := string(r.Bytes(L, alpha))
		if L > 2 && r.Chance(1, 10) {
			line = line[:L/2] + "\r" + line[L/2+1:] // a CR inside a line stays
			shape = append(shape, "inner-cr")
		}
		b.WriteString(line)
		last := i == n-1
		switch {
		case last && r.Chance(1, 3):
			shape = append(shape, "no-trailing-newline")
			if r.Chance(1, 4) {
				b.WriteString("\r")
				shape = append(shape, "cr-at-eof")
			}
		case r.Chance(1, 3):
			b.WriteString("\r\n")
			shape = append(shape, "crlf")
		default:
			b.WriteString("\n")
		}
	}
	if n == 0 {
		shape = append(shape, "empty-file")
	}
	return b.String(), shape
}

// c13FileLines ties util.LoadFileLines (behind every ...FromFile variant) directly: file content ->
// lines, against the model (FileLines.lean) and, for files all of whose lines fit the scanner's
// buffer, against the definition of "the lines of the file".
func c13FileLines(c *ctx) {
	res := c.res
	type fc struct {
		content string
		shape   []string
	}
	var cases []fc
	if c.replay != "" {
		f := strings.Fields(c.replay)
		b, _ := vlib.UnHex(f[2])
		cases = append(cases, fc{content: string(b)})
	} else {
		for i, n := 0, c.n(400, 6000); i < n; i++ {
			s, sh := c13GenFile(c.rng, false)
			cases = append(cases, fc{s, sh})
		}
		for i, n := 0, c.n(24, 200); i < n; i++ {
			s, sh := c13GenFile(c.rng, true)
			cases = append(cases, fc{s, sh})
		}
	}
	var lines []string
	for _, x := range cases {
		lines = append(lines, "c13 f.lines "+vlib.Hex([]byte(x.content)))
	}
	ans := c.ask(lines)
	for i, x := range cases {
		line := lines[i]
		short := line
		if len(short) > 300 {
			short = short[:300] + "…"
		}
		res.Count("api:f.lines")
		for _, sh := range x.shape {
			res.Count("file-shape:" + sh)
		}
		a := strings.Fields(ans[i])
		if len(a) != 2 {
			res.Fail("machinery", short, "driver answered "+ans[i][:min(len(ans[i]), 200)], "driver")
			continue
		}
		dom := a[0] == "1"
		f, err := os.CreateTemp("", "verif-c13-lines-*")
		if err != nil {
			res.Fail("machinery", short, err.Error(), "setup")
			continue
		}
		f.WriteString(x.content)
		f.Close()
		got, lerr := util.LoadFileLines(f.Name())
		os.Remove(f.Name())
		res.Case(line, dom && strings.Count(x.content, "\n") >= 2)
		lens := func(l []string) string {
			var p []string
			for _, s := range l {
				p = append(p, strconv.Itoa(len(s)))
			}
			return "[" + strings.Join(p, " ") + "]"
		}
		if lerr != nil {
			res.Fail("oracle", line, "LoadFileLines failed on a readable file: "+lerr.Error(), "file-lines:error")
			continue
		}
		if dom {
			res.InDomain++
			want := c13RefLines(x.content)
			if strings.Join(got, "\x00") != strings.Join(want, "\x00") || len(got) != len(want) {
				res.Fail("oracle", line, fmt.Sprintf("the file has %d lines of lengths %s; LoadFileLines returned %d of lengths %s (shape %v)",
					len(want), lens(want), len(got), lens(got), x.shape), "file-lines-differ")
				continue
			}
		} else {
			res.Count("file-shape:line-beyond-scanner-buffer")
		}
		if vlib.HexList(strsB(got)) != a[1] {
			res.Fail("correspondence", line, fmt.Sprintf("LoadFileLines returned %d lines of lengths %s; the model differs (shape %v)", len(got), lens(got), x.shape), "impl-vs-model:f.lines")
		}
	}
}

func runC13(c *ctx) {
	res := c.res
	res.Rule = "sessions of 1-4 operations on real generic/network drivers over the CLI simulator: SendCommand(s)/FromFile, SendConfigs/FromFile, SendConfig x driver-level list (absent/empty/1-3 strings) x operation-level list (absent/empty/1-3 strings) x stop-on-failed x 1-7 (thorough -14) commands (some empty) x failure placement none/first/middle/last/several/all/random x outputs embedding in-force strings, not-in-force strings, near misses (prefix, case, split over lines), failure strings containing LF laid across the joint of two consecutive outputs x read segmentation; every SendConfig is re-run as SendConfigs on an identical device and verdicts and JoinedResult compared; failure strings with regex metacharacters (and outputs only their regex reading would match), failure strings taken from the echoed command / the echo-output joint / the output-prompt joint / the prompt (with and without WithNoStripPrompt); Error() texts of every OperationError / MultiOperationError compared with the model; drivers built by platform.NewPlatform(Variant) for every embedded definition (its failed-when-contains list in force); a device that stops answering in the middle of the last operation; FILE SHAPE of the from-file variants: lines of 4095/4096/4097/6000/8192/8193 bytes, leading/trailing spaces, tabs, a UTF-8 BOM, CRLF, no trailing newline, blank lines (transmitted commands = lines of the file); direct tie of util.LoadFileLines on generated files incl. lines of 65534..131072 bytes (beyond bufio.Scanner's buffer: out of domain, compared with the model); every call's operation options are a list in random order (a losing earlier WithFailedWhenContains, WithStopOnFailed twice) mixed with 0-3 operation options of other layers (WithNoStripPrompt, WithTimeoutOps, WithExactMatchInput, netconf WithFilterType, network WithPrivilegeLevel) before/between/after them; malformed stream: empty lists/files, missing files, empty failure strings, an option that returns an error; direct tie of response.NewResponse/Record/AppendResponse on arbitrary byte outputs over {a,b,LF,space} (random) and every needle of 1-3 bytes x every output of 0-5 bytes over {a,b} (exhaustive). non-trivial = in-domain operation with >= 2 commands or any failed response; distinct by case line"
	if c.replay == "" || strings.HasPrefix(c.replay, "c13 f.lines ") {
		c13FileLines(c)
		if c.replay != "" {
			return
		}
	}
	var sessions []*c13sess
	if c.replay != "" {
		s, err := c13ParseLine(c.replay)
		if err != nil {
			res.Fail("machinery", c.replay, "cannot parse replay line: "+err.Error(), "replay-parse")
			return
		}
		sessions = append(sessions, s)
	} else {
		for i, n := 0, c.n(2000, 40000); i < n; i++ {
			sessions = append(sessions, c13GenSession(c.rng, c.thorough(), false))
		}
		for i, n := 0, c.n(200, 3000); i < n; i++ {
			sessions = append(sessions, c13GenSession(c.rng, c.thorough(), true))
		}
		// every embedded platform definition (and variant): its failure list must be the one in force
		for _, pl := range c13PlatformList(c) {
			for k, n := 0, c.n(3, 8); k < n; k++ {
				if s := c13GenPlatformSession(c.rng, pl, c.thorough()); s != nil {
					sessions = append(sessions, s)
				}
			}
		}
		sessions = append(sessions, c13ExhaustiveDirect()...)
		for i, n := 0, c.n(3000, 100000); i < n; i++ {
			sessions = append(sessions, c13GenDirect(c.rng))
		}
	}
	// run the real code, sessions in parallel (each session is independent and deterministic)
	var wg sync.WaitGroup
	sem := make(chan struct{}, vlib.Conc(12))
	for _, s := range sessions {
		wg.Add(1)
		sem <- struct{}{}
		go func(s *c13sess) {
			defer wg.Done()
			defer func() { <-sem }()
			c13RunSession(s)
		}(s)
	}
	wg.Wait()
	// the model and the spec
	var lines []string
	for _, s := range sessions {
		for _, o := range s.ops {
			lines = append(lines, s.line(o))
		}
	}
	ans := c.ask(lines)
	// A timeout is the one observation here that the machine's load can produce by itself (a healthy
	// command not answered within the operation's time limit while 12 sessions share the CPUs). A
	// session in which a timed-out operation differs from the model is re-run alone, up to twice; a
	// defect in the code shows again, a starved session does not.
	retimed := 0
	{
		k := 0
		for _, s := range sessions {
			k0 := k
			k += len(s.ops)
			if s.direct {
				continue
			}
			suspect := func() bool {
				for i, o := range s.ops {
					a := strings.Fields(ans[k0+i])
					if o.errClass == "timeout" && (len(a) != 5 || o.obsModel != a[3]) {
						return true
					}
				}
				return false
			}
			for attempt := 0; attempt < 2 && suspect(); attempt++ {
				for _, o := range s.ops {
					o.resetObs()
				}
				c13RunSession(s)
				retimed++
			}
		}
	}
	if retimed > 0 {
		res.Note("%d session run(s) repeated alone after a timeout that the model does not predict", retimed)
	}
	k := 0
	var slowest time.Duration
	for _, s := range sessions {
		for _, o := range s.ops {
			line := lines[k]
			a := strings.Fields(ans[k])
			k++
			if o.dur > slowest {
				slowest = o.dur
			}
			drvKind := "generic"
			if s.network {
				drvKind = "network"
			}
			if s.direct {
				drvKind = "response-package"
			}
			res.Count("api:" + o.api)
			res.Count("class:" + o.class)
			res.Count("placement:" + o.pattern)
			res.Count("commands:" + strconv.Itoa(len(o.cmds)))
			res.Count("stop-on-failed:" + c13Bit(o.stop))
			if !s.direct {
				nf, seenForeign, hidden := 0, false, false
				for _, k := range o.toks {
					switch {
					case strings.HasPrefix(k.kind, "x"):
						nf++
						seenForeign = true
						res.Count("foreign-option:" + k.kind)
					case k.kind == "s" || k.kind == "t":
						hidden = hidden || seenForeign
					}
				}
				res.Count("foreign-options-in-call:" + strconv.Itoa(nf))
				if hidden {
					res.Count("options:failure-option-after-a-foreign-option")
				}
			}
			if o.hasTok("b") && len(o.user) > 0 {
				res.Fail("correspondence", line, fmt.Sprintf("an operation option returned an error, yet lines were sent: %q", o.user), "bad-option-sent")
			}
			switch {
			case o.opF == nil:
				res.Count("op-list:absent")
			case len(*o.opF) == 0:
				res.Count("op-list:empty")
			default:
				res.Count("op-list:given")
			}
			switch {
			case !s.drvGiven:
				res.Count("driver-list:absent")
			case len(s.drv) == 0:
				res.Count("driver-list:empty")
			default:
				res.Count("driver-list:given")
			}
			res.Count("seg:" + strconv.Itoa(s.seg))
			if len(a) != 5 {
				res.Fail("machinery", line, "driver answered "+ans[k-1], "driver")
				continue
			}
			dom, spec, model, agree := a[0] == "1", a[2], a[3], a[4] == "1"
			if o.noFile {
				// the model does not cover file access; the property says nothing either
				res.Case(line, false)
				if o.errClass == "nil" {
					res.Fail("correspondence", line, "a missing file did not produce an error", "missing-file-accepted")
				}
				if len(o.user) > 0 {
					res.Fail("correspondence", line, fmt.Sprintf("lines were sent for a missing file: %q", o.user), "missing-file-sent")
				}
				continue
			}
			failedAny := strings.Contains(spec, "|M1") || strings.HasSuffix(spec, "|B1")
			res.Case(line, dom && (len(o.cmds) >= 2 || failedAny))
			if dom {
				res.InDomain++
				res.Count("in-domain:" + drvKind)
				if strings.Contains(spec, "|M1") || strings.HasSuffix(spec, "|B1") {
					res.Count("outcome:some-failed")
					if o.stop && !o.isOne() && strings.Count(strings.SplitN(spec, "|", 2)[0], ",")+1 < len(o.cmds) {
						res.Count("outcome:stopped-early")
					}
				} else {
					res.Count("outcome:none-failed")
				}
			}
			if k%401 == 0 {
				res.Sample(map[string]any{"case": line, "driver": drvKind, "api": o.api, "commands": o.cmds, "outputs": o.outs,
					"device_received": o.user, "impl": o.obsModel, "spec": spec})
			}
			if o.errClass == "setup" {
				res.Fail("machinery", line, "session setup failed: "+o.errText, "setup")
				continue
			}
			if len(o.stray) > 0 {
				res.Fail("machinery", line, fmt.Sprintf("device received unexpected lines outside the operation: %q", o.stray), "stray-lines")
			}
			for i, m := range o.userMode {
				if o.isNet() && m != o.target() {
					res.Fail("machinery", line, fmt.Sprintf("line %d %q arrived in mode %s, expected %s", i, o.user[i], m, o.target()), "wrong-mode")
					break
				}
			}
			if o.straddle {
				res.Count("outputs:failure-string-straddles-two-outputs")
			}
			if o.derived != "" {
				res.Count("failure-string-from:" + o.derived)
			}
			for _, sh := range o.shape {
				res.Count("file-shape:" + sh)
			}
			if o.isFile() && !o.noFile {
				if o.crlf {
					res.Count("file-shape:crlf")
				}
				if !o.trail {
					res.Count("file-shape:no-trailing-newline")
				}
			}
			if s.platform != "" {
				res.Count("platform-built-driver")
				res.Count("platform:" + s.platform)
			}
			if o.faultAt >= 0 {
				res.Count("device-stops-answering:" + o.errClass)
			}
			// the collapsed response must report what the multi-response reports, for every failure list
			if o.twinDiff != "" {
				res.Fail("oracle", line, "SendConfig disagrees with SendConfigs on an identical device: "+o.twinDiff, "collapsed-differs-from-multi")
				continue
			}
			specCmp := spec
			if o.isCfg() {
				specCmp = c13DropBits(spec)
			}
			// oracle: the property's statement on the implementation (in-domain only)
			if dom {
				if o.errClass != "nil" && spec != "E"+o.errClass {
					res.Fail("oracle", line, fmt.Sprintf("operation failed with %s (%s); the property demands %s; device received %q", o.errClass, o.errText, spec, o.user), "unexpected-error:"+o.errClass)
					continue
				}
				if o.obsSpec != specCmp {
					res.Fail("oracle", line, c13Explain(o, specCmp), c13Sig(o, o.obsSpec, specCmp))
					continue
				}
				if len(o.native) > 0 {
					res.Fail("oracle", line, strings.Join(o.native, "; "), "object-clause:"+o.api)
					continue
				}
			}
			// theorem sanity: the implementation satisfies the property on this in-domain case; the
			// model of the code must do so too (a difference is a bug in the model or the theorems)
			if dom && !agree {
				res.Fail("machinery", line, "the model does not satisfy the spec on an in-domain case the implementation satisfies: spec "+spec+" model "+model, "model-vs-spec")
			}
			// correspondence: implementation vs model of the code, in and out of domain
			if o.obsModel != model {
				res.Fail("correspondence", line, fmt.Sprintf("impl  %s\nmodel %s\ncommands %q outputs %q", o.obsModel, model, o.cmds, o.outs), "impl-vs-model:"+o.api)
			}
		}
	}
	res.TracesVsImpl = k
	res.Note("slowest operation %v", slowest.Round(time.Millisecond))
	res.Note("empty failure strings (out of the property's domain) are compared with the model for information: the code marks nothing for them and they hide later entries (theorem empty_failure_string_masks)")
	res.Note("an empty command is never generated as the first command of an operation: with no echo to wait for, the channel takes a still unread earlier prompt for the answer (observed on the unchanged tree; C01's subject, not C13's)")
}

// c13Sig classifies an oracle failure by the first section of the observation that differs
func c13Sig(o *c13op, got, want string) string {
	g, w := strings.Split(got, "|"), strings.Split(want, "|")
	name := map[byte]string{'S': "transmitted-commands", 'B': "failed-flags", 'M': "aggregate-failed", 'I': "aggregate-members", 'E': "error"}
	for i := 0; i < len(g) && i < len(w); i++ {
		if g[i] != w[i] {
			n := name[w[i][0]]
			if n == "transmitted-commands" {
				if len(g[i]) > len(w[i]) {
					n += "-too-many"
				} else {
					n += "-too-few"
				}
			}
			st := "nostop"
			if o.stop {
				st = "stop"
			}
			return n + ":" + st
		}
	}
	return "shape"
}

func c13Explain(o *c13op, want string) string {
	return fmt.Sprintf("api %s stop-on-failed=%v commands %q device outputs %q\n observed %s\n demanded %s\n (S transmitted lines, B per-response failed flags, M aggregate failed, I members listed by the aggregate error as input;output)\n device received %q",
		o.api, o.stop, o.cmds, o.outs, o.obsSpec, want, o.user)
}
