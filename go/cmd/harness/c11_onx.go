package main

import (
	"encoding/json"
	"fmt"
	"strconv"
	"strings"
	"time"

	"gopkg.in/yaml.v3"

	"github.com/scrapli/scrapligo/channel"
	"github.com/scrapli/scrapligo/driver/generic"
	"github.com/scrapli/scrapligo/driver/network"
	"github.com/scrapli/scrapligo/driver/opoptions"
	"github.com/scrapli/scrapligo/driver/options"
	"github.com/scrapli/scrapligo/platform"
	"github.com/scrapli/scrapligo/util"

	"verifgo/sim"
	"verifgo/vlib"
)

// Failing sessions whose ERROR is what the driver logs (C11, error values):
//
// onx-generic / onx-network: a platform definition whose on-open or on-close sequence (generic
// layer `on-open`/`on-close`, or `network-on-open`/`network-on-close`) first unlocks the console
// with a proper redacted string secret A and then contains one operation that is spelled in an
// unusual or plainly wrong way: a `channel.write` with `redacted: true` whose input B is not a YAML
// string (integer, hex integer, float, bool, null, list, map, timestamp, missing), or an
// operation with a missing / wrongly typed field. The operation is rejected, on-open fails (or
// on-close reports) and the driver logs the returned error at critical level.
//
// hidden-onopen: the on-open / on-close FUNCTION runs a SendInteractive dialogue with a hidden
// event and returns its error (write fault, dropped session, timeout after a rejected secret):
// again the driver logs that error.
//
// Oracle (both): neither A nor any rendering of B (nor the hidden input) occurs in any message
// handed to the logger, nor in the channel log. The text of the error RETURNED to the caller is
// not a log: it is only counted (bucket `returned-error-carries-secret`).

const c11onxPrivLevels = `  privilege-levels:
    exec:
      name: 'exec'
      pattern: '(?im)^[\w.\-@()/: ]{1,63}>\s?$'
      previous-priv:
      deescalate:
      escalate:
      escalate-auth: false
      escalate-prompt:
    privilege-exec:
      name: 'privilege-exec'
      pattern: '(?im)^[\w.\-@/: ]{1,63}#\s?$'
      previous-priv: 'exec'
      deescalate: 'disable'
      escalate: 'enable'
      escalate-auth: false
      escalate-prompt:
  default-desired-privilege-level: 'exec'
`

var c11onxShapes = []string{"int", "int", "hexint", "float", "bool", "null", "missing-input", "list-str", "list-int", "map", "map-nested", "timestamp", "string-ok", "string-ok-digits",
	"sendcmd-badtype", "sendcmd-missing", "acquire-bad-target", "acquire-target-badtype", "unknown-op", "redacted-badtype-nonstring-input"}

// c11digits returns n random decimal digits, the first one non-zero
func c11digits(r *vlib.Rng, n int) string {
	b := []byte{byte('1' + r.Intn(9))}
	for len(b) < n {
		b = append(b, byte('0'+r.Intn(10)))
	}
	return string(b)
}

type c11needles struct {
	exact    []string // searched as they are
	squeezed []string // searched in the text with everything but letters and digits removed
}

func c11squeeze(s string) string {
	var b strings.Builder
	for _, c := range s {
		if c >= '0' && c <= '9' || c >= 'a' && c <= 'z' || c >= 'A' && c <= 'Z' {
			b.WriteRune(c)
		}
	}
	return b.String()
}

func (n *c11needles) hit(text string) bool {
	for _, x := range n.exact {
		if strings.Contains(text, x) {
			return true
		}
	}
	if len(n.squeezed) > 0 {
		sq := c11squeeze(text)
		for _, x := range n.squeezed {
			if strings.Contains(sq, x) {
				return true
			}
		}
	}
	return false
}

// c11shape builds the failing (or, for string-ok*, succeeding) operation as YAML fields (without
// the leading "- ") and the needles that betray its secret in a text. fails: the op is rejected.
func c11shape(r *vlib.Rng, shape string) (fields []string, nd c11needles, fails bool) {
	lit := ""
	core := ""
	fails = true
	switch shape {
	case "int":
		core = c11digits(r, 15)
		lit = core
	case "hexint":
		core = c11digits(r, 15)
		n, _ := strconv.ParseUint(core, 10, 64)
		lit = fmt.Sprintf("0x%X", n)
		nd.exact = append(nd.exact, lit[2:], strings.ToLower(lit[2:]))
	case "float":
		a, b := c11digits(r, 5), c11digits(r, 5)
		if b[4] == '0' {
			b = b[:4] + "7"
		}
		lit = a + "." + b
		core = a + b
		nd.exact = append(nd.exact, lit)
	case "bool":
		lit = r.Pick([]string{"true", "false"})
	case "null":
		lit = r.Pick([]string{"", "~", "null"})
	case "missing-input":
	case "list-str":
		core = "LS" + "Zq" + c11digits(r, 7)
		lit = "['" + core + "', 'x']"
	case "list-int":
		core = c11digits(r, 14)
		lit = "[" + core + "]"
	case "map":
		core = "MP" + "Zq" + c11digits(r, 7)
		lit = "{pin: '" + core + "'}"
	case "map-nested":
		core = "MN" + "Zq" + c11digits(r, 7)
		lit = "{a: {b: ['" + core + "']}}"
	case "timestamp":
		lit = fmt.Sprintf("2%d-%02d-%02d", 100+r.Intn(899), 1+r.Intn(12), 1+r.Intn(28))
		nd.exact = append(nd.exact, lit)
	case "string-ok":
		core = "SO" + "Zq" + c11digits(r, 7)
		lit = "'" + core + r.Pick([]string{"%s", "%v", ".*", "(", "\\"}) + "'"
		fails = false
	case "string-ok-digits":
		core = c11digits(r, 15)
		q := r.Pick([]string{"'", "\""})
		lit = q + core + q
		fails = false
	case "redacted-badtype-nonstring-input":
		// both fields wrong: the flag is not a bool and the input is not a string
		core = c11digits(r, 15)
		return []string{"operation: 'channel.write'", "input: " + core, "redacted: " + r.Pick([]string{"'true'", "1", "[true]"})},
			c11needles{exact: []string{core}, squeezed: []string{core}}, true
	case "sendcmd-badtype":
		core = c11digits(r, 15)
		return []string{"operation: 'driver.send-command'", "command: " + r.Pick([]string{core, "[" + core + "]", "{c: " + core + "}"})}, c11needles{}, true
	case "sendcmd-missing":
		return []string{"operation: 'driver.send-command'"}, c11needles{}, true
	case "acquire-bad-target":
		return []string{"operation: 'acquire-priv'", "target: 'nonexistent-level'"}, c11needles{}, true
	case "acquire-target-badtype": // a non-string target falls back to the default level: succeeds
		return []string{"operation: 'acquire-priv'", "target: 17"}, c11needles{}, false
	case "unknown-op": // silently skipped by the library
		core = "UO" + "Zq" + c11digits(r, 7)
		return []string{"operation: 'channel.wrote'", "input: '" + core + "'", "redacted: true"}, c11needles{exact: []string{core}}, false
	}
	if core != "" {
		nd.exact = append(nd.exact, core)
		nd.squeezed = append(nd.squeezed, core)
	}
	// every rendering of the parsed value is as much the secret as its spelling
	var v interface{}
	if lit != "" && yaml.Unmarshal([]byte(lit), &v) == nil && v != nil {
		cands := []string{fmt.Sprint(v), fmt.Sprintf("%#v", v), fmt.Sprintf("%+v", v), fmt.Sprintf("%q", v)}
		if j, err := json.Marshal(v); err == nil {
			cands = append(cands, string(j))
		}
		for _, c := range cands {
			if len(c11squeeze(c)) >= 10 {
				nd.exact = append(nd.exact, c)
			}
		}
	}
	fields = []string{"operation: 'channel.write'"}
	if shape != "missing-input" {
		fields = append(fields, "input: "+lit)
	}
	fields = append(fields, "redacted: true")
	if r.Bool() { // key order is irrelevant to the library
		fields[len(fields)-1], fields[1] = fields[1], fields[len(fields)-1]
	}
	return fields, nd, fails
}

func c11yamlOp(fields []string, flow bool) string {
	if !flow {
		return "    - " + strings.Join(fields, "\n      ") + "\n"
	}
	// flow (JSON-like) spelling of the same mapping
	return "    - {" + strings.Join(fields, ", ") + "}\n"
}

type c11env struct {
	r      *vlib.Rng
	common []util.Option
	seg    func(int) int
	fault  func([]byte) (bool, bool)
	note   func(secret, core string)
	extra  *[]c11needles
	retErr *[]string // texts of the errors returned to the caller (counted, not part of the oracle)
	stall  *func()   // how to make the device fall silent (fault silent-secret)
}

// c11unlockDevice: an IOS-like device with a console lock: `unlock console` asks for a key that is
// read without echo (like any password prompt)
func c11unlockDevice(e *c11env, enableSecret string) *sim.CLI {
	dev := sim.NewIOS("router", enableSecret, enableSecret != "")
	orig := dev.Handle
	awaiting := false
	dev.Handle = func(c *sim.CLI, line string) string {
		if awaiting {
			awaiting = false
			c.Hidden = false
			return ""
		}
		// (suffix: after a failed write of a return earlier in the session the line still holds what
		// was typed before; the device must not echo the key because of OUR fault injection)
		if strings.HasSuffix(line, "unlock console") {
			awaiting = true
			c.Hidden = true
			return "Key: "
		}
		return orig(c, line)
	}
	dev.Seg = e.seg
	dev.WriteFault = e.fault
	*e.stall = func() { dev.Pipe.StallAt = dev.Pipe.Emitted }
	dev.Start()
	return dev
}

func runC11onx(e *c11env, networkDriver bool) (info string) {
	r := e.r
	secA, coreA := c11secret(r, "OA")
	e.note(secA, coreA)
	shape := r.Pick(c11onxShapes)
	fields, nd, fails := c11shape(r, shape)
	*e.extra = append(*e.extra, nd)
	where := r.Pick([]string{"open", "open", "close"})
	layer := "generic"
	if networkDriver && r.Bool() {
		layer = "network"
	}
	if layer == "generic" && (strings.HasPrefix(shape, "sendcmd") || strings.HasPrefix(shape, "acquire")) {
		fails = false // the generic layer knows only channel.write / channel.return: skipped
	}
	flow := r.Chance(1, 3)
	unlock := c11yamlOp([]string{"operation: 'channel.write'", "input: 'unlock console'"}, false) +
		c11yamlOp([]string{"operation: 'channel.return'"}, false) +
		c11yamlOp([]string{"operation: 'channel.write'", "input: " + strconv.Quote(secA), "redacted: true"}, flow && r.Bool()) +
		c11yamlOp([]string{"operation: 'channel.return'"}, false)
	bad := c11yamlOp(fields, flow) + c11yamlOp([]string{"operation: 'channel.return'"}, false)
	if strings.HasPrefix(shape, "string-ok") {
		// this one is accepted and reaches the device: it is typed at a key prompt too (the device
		// does not echo secrets)
		bad = c11yamlOp([]string{"operation: 'channel.write'", "input: 'unlock console'"}, false) +
			c11yamlOp([]string{"operation: 'channel.return'"}, false) + bad
	}
	seq := unlock + bad
	switch r.Intn(5) {
	case 0:
		seq = bad + unlock // rejected before the console secret is ever written
	case 1:
		seq = unlock + bad + unlock
	}
	key := map[string]string{"generic-open": "on-open", "generic-close": "on-close", "network-open": "network-on-open", "network-close": "network-on-close"}[layer+"-"+where]
	def := "---\nplatform-type: 'c11onx'\ndefault:\n"
	if networkDriver {
		def += "  driver-type: 'network'\n" + c11onxPrivLevels
	} else {
		def += "  driver-type: 'generic'\n"
	}
	def += "  failed-when-contains: []\n  " + key + ":\n" + seq
	dev := c11unlockDevice(e, "")
	opts := append(append([]util.Option{}, e.common...), options.WithCustomTransport(dev), options.WithAuthBypass())
	p, err := platform.NewPlatform([]byte(def), "h", opts...)
	if err != nil {
		return "platform: " + err.Error()
	}
	var open, cls func() error
	var cmd func(string) error
	if networkDriver {
		d, err := p.GetNetworkDriver()
		if err != nil {
			return "driver: " + err.Error()
		}
		open, cls = d.Open, d.Close
		cmd = func(s string) error { _, err := d.SendCommand(s); return err }
	} else {
		d, err := p.GetGenericDriver()
		if err != nil {
			return "driver: " + err.Error()
		}
		open, cls = d.Open, d.Close
		cmd = func(s string) error { _, err := d.SendCommand(s); return err }
	}
	err = open()
	if err != nil {
		*e.retErr = append(*e.retErr, err.Error())
	}
	info = fmt.Sprintf("%s %s fails=%v open:%s", key, shape, fails, errClass(err))
	if err == nil {
		if where == "close" || r.Bool() {
			info += " cmd:" + errClass(cmd("show version"))
		}
		if err := closeCollect(cls); err != nil {
			*e.retErr = append(*e.retErr, err.Error())
		}
	}
	return info
}

func runC11hiddenOnOpen(e *c11env) (info string) {
	r := e.r
	sec, core := c11secret(r, "HO")
	e.note(sec, core)
	devSecret := sec
	wrong := r.Bool()
	if wrong {
		devSecret = "another-" + sec
	}
	dev := sim.NewIOS("router", devSecret, true)
	dev.Seg = e.seg
	dev.WriteFault = e.fault
	*e.stall = func() { dev.Pipe.StallAt = dev.Pipe.Emitted }
	dev.Start()
	events := []*channel.SendInteractiveEvent{
		{ChannelInput: "enable", ChannelResponse: "(?im)^password:\\s?$", HideInput: false},
		// with a wrong secret the device answers "% Access denied" and shows `router>`: the expected
		// response never comes and the dialogue times out
		{ChannelInput: sec, ChannelResponse: "(?im)^router#$", HideInput: true},
	}
	if r.Chance(1, 3) {
		events[1].ChannelResponse = ""
	}
	where := r.Pick([]string{"open", "open", "close"})
	var cbErr error
	opts := append(append([]util.Option{}, e.common...), options.WithCustomTransport(dev), options.WithAuthBypass())
	if r.Bool() {
		cb := func(d *generic.Driver) error {
			_, cbErr = d.SendInteractive(events)
			return cbErr
		}
		if where == "open" {
			opts = append(opts, options.WithOnOpen(cb))
		} else {
			opts = append(opts, options.WithOnClose(cb))
		}
		d, err := generic.NewDriver("h", opts...)
		if err != nil {
			return "driver: " + err.Error()
		}
		err = d.Open()
		info = "generic on-" + where + " open:" + errClass(err)
		if err != nil {
			*e.retErr = append(*e.retErr, err.Error())
		}
		closeQuietly(func() error { return d.Close() })
	} else {
		cb := func(d *network.Driver) error {
			_, cbErr = d.SendInteractive(events, opoptions.WithPrivilegeLevel("exec"))
			return cbErr
		}
		if where == "open" {
			opts = append(opts, options.WithNetworkOnOpen(cb))
		} else {
			opts = append(opts, options.WithNetworkOnClose(cb))
		}
		opts = append(opts, options.WithDefaultDesiredPriv("exec"))
		p, err := platform.NewPlatform("cisco_iosxe", "h", opts...)
		if err != nil {
			return "platform: " + err.Error()
		}
		d, err := p.GetNetworkDriver()
		if err != nil {
			return "driver: " + err.Error()
		}
		err = d.Open()
		info = "network on-" + where + " open:" + errClass(err)
		if err != nil {
			*e.retErr = append(*e.retErr, err.Error())
		}
		closeQuietly(func() error { return d.Close() })
	}
	info += " callback:" + errClass(cbErr)
	if wrong {
		info += " wrong-secret"
	}
	return info
}

// closeCollect is closeQuietly that hands back the error (nil when Close hangs or panics)
func closeCollect(f func() error) error {
	done := make(chan error, 1)
	go func() {
		defer func() {
			if recover() != nil {
				done <- nil
			}
		}()
		done <- f()
	}()
	select {
	case err := <-done:
		return err
	case <-time.After(2 * time.Second):
		return nil
	}
}
