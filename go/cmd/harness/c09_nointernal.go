//go:build !internaltie

package main

func c09Internal(c *ctx) { c.res.Note("internal tie unavailable (built without overlay exports)") }
