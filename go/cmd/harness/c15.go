package main

import (
	"bytes"
	"errors"
	"fmt"
	"net"
	"strconv"
	"strings"
	"sync"
	"time"

	"github.com/scrapli/scrapligo/driver/options"
	"github.com/scrapli/scrapligo/logging"
	"github.com/scrapli/scrapligo/transport"
	"github.com/scrapli/scrapligo/util"

	"verifgo/vlib"
)

func init() { props["C15"] = runC15 }

// ---------------------------------------------------------------------------------------------
// cases

// c15case is one server opening: the bytes, their TCP segmentation, the pauses before each
// segment, the socket timeout of the client and the text the server sends after the client's
// Open has returned.
type c15case struct {
	class   string
	opening []byte
	cuts    []int
	gaps    []int // milliseconds slept before segment i
	tms     int   // options.WithTimeoutSocket in milliseconds
	rs      int   // options.WithTransportReadSize (0 = leave the default, 8192)
	late    bool  // the server sends the opening only AFTER the client's Open has returned (after the negotiation window)
	big     bool  // too long for the quadratic executable model: the model's answer is taken from the specification (theorem open_total)
	tail    []byte
	public  bool // run against the loopback server (all cases run through the internal tie)
}

func intsStr(xs []int) string {
	if len(xs) == 0 {
		return "."
	}
	p := make([]string, len(xs))
	for i, x := range xs {
		p[i] = strconv.Itoa(x)
	}
	return strings.Join(p, ",")
}

func strInts(s string) []int {
	if s == "." || s == "" {
		return nil
	}
	var out []int
	for _, p := range strings.Split(s, ",") {
		n, _ := strconv.Atoi(p)
		out = append(out, n)
	}
	return out
}

// line is the replayable case; the Lean driver is asked with the first three fields only.
func (cs *c15case) line() string {
	return fmt.Sprintf("c15 open %s cuts=%s gaps=%s T=%d R=%d tail=%s", vlib.Hex(cs.opening), intsStr(cs.cuts), intsStr(cs.gaps), cs.tms, cs.rs, vlib.Hex(cs.tail)) + map[bool]string{true: " late=1", false: ""}[cs.late]
}

func c15parse(line string) (*c15case, error) {
	f := strings.Fields(line)
	if len(f) < 3 || f[0] != "c15" || f[1] != "open" {
		return nil, fmt.Errorf("not a c15 case: %q", line)
	}
	op, err := vlib.UnHex(f[2])
	if err != nil {
		return nil, err
	}
	cs := &c15case{class: "replay", opening: op, tms: 320, public: true}
	for _, kv := range f[3:] {
		switch {
		case strings.HasPrefix(kv, "cuts="):
			cs.cuts = strInts(kv[5:])
		case strings.HasPrefix(kv, "gaps="):
			cs.gaps = strInts(kv[5:])
		case strings.HasPrefix(kv, "T="):
			cs.tms, _ = strconv.Atoi(kv[2:])
		case strings.HasPrefix(kv, "R="):
			cs.rs, _ = strconv.Atoi(kv[2:])
		case kv == "late=1":
			cs.late = true
		case strings.HasPrefix(kv, "tail="):
			cs.tail, _ = vlib.UnHex(kv[5:])
		}
	}
	sum := 0
	for _, c := range cs.cuts {
		sum += c
	}
	if sum != len(op) {
		cs.cuts = nil
		if len(op) > 0 {
			cs.cuts = []int{len(op)}
		}
	}
	if len(cs.gaps) != len(cs.cuts) {
		cs.gaps = make([]int, len(cs.cuts))
	}
	if len(cs.tail) == 0 {
		cs.tail = []byte("login:\x04")
	}
	return cs, nil
}

const (
	c15IAC  = 255
	c15DONT = 254
	c15DO   = 253
	c15WONT = 252
	c15WILL = 251
)

var c15Options = []byte{0, 1, 3, 5, 24, 31, 32, 33, 34, 35, 36, 39}
var c15Text = []byte("abcdefghijklmnopqrstuvwxyzABCDEFGHIJKLMNOPQRSTUVWXYZ0123456789 :>#$%-_.\r\n")

// genOpening: a structured, in-domain opening: negotiations (4 verbs x option codes), two-byte
// commands NOP..GA (241-249), escaped IAC and banner text. Subnegotiation (IAC SB .. IAC SE) is
// not part of the property and is not generated here.
func c15genOpening(r *vlib.Rng) ([]byte, map[string]int) {
	var b []byte
	kinds := map[string]int{}
	n := r.Intn(20)
	if r.Chance(1, 6) {
		n = r.Range(20, 60)
	}
	for i := 0; i < n; i++ {
		switch k := r.Intn(100); {
		case k < 38:
			verb := byte(251 + r.Intn(4))
			opt := c15Options[r.Intn(len(c15Options))]
			if r.Chance(1, 4) {
				opt = byte(r.Intn(256))
			}
			if r.Chance(1, 5) {
				opt = 3
			}
			b = append(b, c15IAC, verb, opt)
			kinds[fmt.Sprintf("neg-verb-%d", verb)]++
			if opt == 3 {
				kinds["neg-opt-sga"]++
			}
		case k < 52:
			b = append(b, c15IAC, byte(241+r.Intn(9)))
			kinds["cmd"]++
		case k < 60:
			b = append(b, c15IAC, c15IAC)
			kinds["escaped-iac"]++
		default:
			m := r.Range(1, 12)
			for j := 0; j < m; j++ {
				switch {
				case r.Chance(1, 12):
					b = append(b, byte(r.Intn(255))) // any non-IAC byte, incl. NUL, 240..254
				default:
					b = append(b, c15Text[r.Intn(len(c15Text))])
				}
			}
			kinds["text-run"]++
		}
	}
	return b, kinds
}

// genMalformed: byte soup rich in IAC and verbs: truncated sequences, SB/SE, IAC followed by
// arbitrary bytes. Mostly outside the property's quantifier; the model still claims to describe
// the parser on it, so implementation vs model is compared.
func c15genMalformed(r *vlib.Rng) []byte {
	alpha := []byte{255, 255, 255, 251, 252, 253, 254, 250, 240, 241, 249, 3, 1, 24, 0, 'a', 'b', '\n'}
	return r.Bytes(r.Intn(16), alpha)
}

func c15genSeg(r *vlib.Rng, cs *c15case) {
	cs.cuts = r.Cuts(len(cs.opening), r.Intn(4))
	cs.gaps = make([]int, len(cs.cuts))
	cs.tms = []int{160, 240, 320}[r.Intn(3)]
	maxGap := cs.tms / 32
	if len(cs.cuts) > 12 { // keep a case short: few pauses when there are many segments
		maxGap = 1
	}
	for i := range cs.gaps {
		if r.Chance(1, 4) {
			cs.gaps[i] = r.Range(1, maxGap)
		}
	}
	// what the server sends once Open has returned: banner text closed by a terminator byte that
	// occurs nowhere in the opening, so the reader knows where to stop without consulting the
	// expected result
	text := []byte(r.Pick([]string{"login", "Username", "\r\nUser Access Verification\r\n\r\nPassword", "router", ""}))
	cands := []byte(":>#$%")
	for b := 1; b < 255; b++ {
		cands = append(cands, byte(b))
	}
	term := byte(0)
	for _, b := range cands {
		if bytes.IndexByte(cs.opening, b) < 0 && bytes.IndexByte(text, b) < 0 {
			term = b
			break
		}
	}
	cs.tail = append(text, term)
}

// ---------------------------------------------------------------------------------------------
// internal tie: the real handleControlCharResponse through the overlay export

// recConn is a net.Conn that records every Write call.
type recConn struct {
	writes [][]byte
}

func (c *recConn) Read(b []byte) (int, error) { return 0, errors.New("recConn: no read") }
func (c *recConn) Write(b []byte) (int, error) {
	c.writes = append(c.writes, append([]byte{}, b...))
	return len(b), nil
}
func (c *recConn) Close() error                       { return nil }
func (c *recConn) LocalAddr() net.Addr                { return &net.TCPAddr{} }
func (c *recConn) RemoteAddr() net.Addr               { return &net.TCPAddr{} }
func (c *recConn) SetDeadline(t time.Time) error      { return nil }
func (c *recConn) SetReadDeadline(t time.Time) error  { return nil }
func (c *recConn) SetWriteDeadline(t time.Time) error { return nil }

type c15state struct {
	ctrl, data string // hex
	replies    string // hex list
}

func (s c15state) String() string { return s.ctrl + " " + s.data + " " + s.replies }

func c15implStep(ctrl []byte, c byte) (st c15state, perr string) {
	defer func() {
		if r := recover(); r != nil {
			perr = fmt.Sprint(r)
		}
	}()
	rc := &recConn{}
	co, do, err := c15Step(rc, append(make([]byte, 0, len(ctrl)), ctrl...), nil, c)
	if err != nil {
		return st, "error: " + err.Error()
	}
	return c15state{vlib.Hex(co), vlib.Hex(do), vlib.HexList(rc.writes)}, ""
}

// c15implStream feeds a whole opening through the real step function, as handleControlChars does.
func c15implStream(op []byte) (st c15state, perr string) {
	defer func() {
		if r := recover(); r != nil {
			perr = fmt.Sprint(r)
		}
	}()
	rc := &recConn{}
	ctrl := make([]byte, 0)
	var data []byte
	var err error
	for _, c := range op {
		ctrl, data, err = c15Step(rc, ctrl, data, c)
		if err != nil {
			return st, "error: " + err.Error()
		}
	}
	return c15state{vlib.Hex(ctrl), vlib.Hex(data), vlib.HexList(rc.writes)}, ""
}

// ---------------------------------------------------------------------------------------------
// public level: the real transport against a loopback TCP server

type c15obs struct {
	openErr   error
	reads     [][]byte
	recv      []byte // every byte the server received (the replies)
	timingBad bool   // the server could not keep its segments inside the negotiation window
	setupErr  string
}

func c15runPublic(cs *c15case, tms int, useGaps bool) (o c15obs) {
	T := time.Duration(tms) * time.Millisecond
	ln, err := net.Listen("tcp", "127.0.0.1:0")
	if err != nil {
		o.setupErr = err.Error()
		return o
	}
	defer ln.Close()
	port := ln.Addr().(*net.TCPAddr).Port
	openDone := make(chan struct{})
	srvDone := make(chan struct{})
	var recv []byte
	var stamps []time.Time
	go func() {
		defer close(srvDone)
		ln.(*net.TCPListener).SetDeadline(time.Now().Add(5 * time.Second))
		conn, err := ln.Accept()
		if err != nil {
			return
		}
		defer conn.Close()
		if tc, ok := conn.(*net.TCPConn); ok {
			tc.SetNoDelay(true)
		}
		rdone := make(chan struct{})
		go func() {
			defer close(rdone)
			buf := make([]byte, 4096)
			conn.SetReadDeadline(time.Now().Add(20 * time.Second))
			for {
				n, err := conn.Read(buf)
				recv = append(recv, buf[:n]...)
				if err != nil {
					return
				}
			}
		}()
		rest := cs.opening
		if cs.late {
			select {
			case <-openDone:
			case <-time.After(20 * time.Second):
			}
		}
		for i, c := range cs.cuts {
			if useGaps && cs.gaps[i] > 0 {
				time.Sleep(time.Duration(cs.gaps[i]) * time.Millisecond)
			}
			conn.Write(rest[:c])
			rest = rest[c:]
			if !cs.late {
				stamps = append(stamps, time.Now())
			}
		}
		select {
		case <-openDone:
		case <-time.After(20 * time.Second):
		}
		conn.Write(cs.tail)
		<-rdone
	}()
	l, _ := logging.NewInstance()
	topts := []util.Option{options.WithPort(port), options.WithTimeoutSocket(T)}
	if cs.rs > 0 {
		topts = append(topts, options.WithTransportReadSize(cs.rs))
	}
	tr, err := transport.NewTransport(l, "127.0.0.1", transport.TelnetTransport, topts...)
	if err != nil {
		o.setupErr = err.Error()
		return o
	}
	t0 := time.Now()
	o.openErr = tr.Open()
	close(openDone)
	if o.openErr != nil {
		if tr.IsAlive() {
			func() { defer func() { recover() }(); tr.Close(true) }()
		}
		ln.Close()
		<-srvDone
		o.recv = recv
		return o
	}
	var reads [][]byte
	rdDone := make(chan struct{})
	limit := len(cs.opening) + len(cs.tail) + 256
	go func() {
		defer close(rdDone)
		var acc []byte
		// bounded: a Read that keeps returning bytes the server never sent must not run away
		for len(reads) < 4*limit && len(acc) <= limit {
			b, err := tr.Read()
			if len(b) > 0 {
				reads = append(reads, append([]byte{}, b...))
				acc = append(acc, b...)
			}
			if err != nil || bytes.IndexByte(acc, cs.tail[len(cs.tail)-1]) >= 0 {
				return
			}
		}
	}()
	select {
	case <-rdDone:
	case <-time.After(3 * time.Second):
	}
	tr.Close(true)
	select {
	case <-rdDone:
	case <-time.After(5 * time.Second):
		o.setupErr = "Read did not return after Close"
		return o
	}
	select {
	case <-srvDone:
	case <-time.After(25 * time.Second):
		o.setupErr = "loopback server did not finish"
		return o
	}
	o.reads, o.recv = reads, recv
	// were all segments written inside the window the client waits for the next byte?
	// (first byte: TimeoutSocket/4 after the dial; then TimeoutSocket/2 after each byte)
	budget := T / 8
	prev := t0
	for _, s := range stamps {
		if s.Sub(prev) > budget+time.Duration(maxInt(cs.gaps))*time.Millisecond {
			o.timingBad = true
		}
		prev = s
	}
	return o
}

func maxInt(xs []int) int {
	m := 0
	for _, x := range xs {
		if x > m {
			m = x
		}
	}
	return m
}

func flat(bs [][]byte) []byte {
	var out []byte
	for _, b := range bs {
		out = append(out, b...)
	}
	return out
}

// ---------------------------------------------------------------------------------------------

type c15lean struct {
	dom                         bool
	pending, specData, specRepl string
	model, asis                 c15state
}

func c15parseLean(ans string) (l c15lean, ok bool) {
	f := strings.Fields(ans)
	if len(f) != 10 {
		return l, false
	}
	l.dom = f[0] == "1"
	l.pending, l.specData, l.specRepl = f[1], f[2], f[3]
	l.model = c15state{f[4], f[5], f[6]}
	l.asis = c15state{f[7], f[8], f[9]}
	return l, true
}

func hexListFlat(s string) string { // "a,b,c" hex list -> hex of the concatenation
	if s == "." {
		return "-"
	}
	out := strings.ReplaceAll(strings.ReplaceAll(s, ",", ""), "-", "")
	if out == "" {
		return "-"
	}
	return out
}

func runC15(c *ctx) {
	res := c.res
	res.Rule = "openings: generated token streams (negotiations 4 verbs x option codes, two-byte commands 241-249, escaped IAC, banner text runs) and IAC-rich byte soup (truncated sequences, SB/SE, IAC+arbitrary byte; outside the property, compared with the model only); every opening goes byte by byte through the real handleControlCharResponse (overlay export, recording net.Conn); a subset is sent by a loopback TCP server in a generated segmentation with pauses to the real telnet transport (NewTransport/Open/Read, socket timeouts 160-320 ms), with transport read sizes 1, 2, 7, 64, 8192 and default (openings whose data part is shorter than / equal to / one more than / several times the read size, incl. > 8192 bytes with the default), observing the bytes the server receives and the concatenation of the Reads up to the end of the post-opening text; histories: one transport object opened 2-4 times in a row against the loopback server (previous opening complete, cut by a server hang-up or by the end of the negotiation phase at every offset of a sequence), each opening judged on its own against the fresh-object model; driver level: generic driver with transport type telnet, in-channel login (user-name prompt inside / after the negotiation window) or auth bypass, judged by the bytes the server receives, the bytes requeued after login, a first command's result, the channel's reads. non-trivial = opening with at least one IAC sequence; distinct by opening bytes + segmentation"
	r := c.rng
	var cases []*c15case
	var hists []*c15hist
	if strings.HasPrefix(c.replay, "c15 hist ") {
		h, err := c15parseHist(c.replay)
		if err != nil {
			res.Fail("machinery", c.replay, err.Error(), "bad-replay")
			return
		}
		runC15History(c, []*c15hist{h})
		return
	}
	if strings.HasPrefix(c.replay, "c15 login ") {
		g, err := c15parseLogin(c.replay)
		if err != nil {
			res.Fail("machinery", c.replay, err.Error(), "bad-replay")
			return
		}
		runC15Login(c, []*c15login{g})
		return
	}
	if c.replay != "" {
		cs, err := c15parse(c.replay)
		if err != nil {
			res.Fail("machinery", c.replay, err.Error(), "bad-replay")
			return
		}
		cases = append(cases, cs)
	} else {
		fixed := []string{
			"fff1616263",                       // IAC NOP a b c  (F8 witness)
			"61fff962",                         // a IAC GA b
			"61ffff62",                         // a IAC IAC b
			"fffd03fffb01fffb036c6f67696e3a20", // DO SGA, WILL ECHO, WILL SGA, "login: "
			"fffd18fffd20fffd23fffd27",         // DO TTYPE, TSPEED, XDISPLOC, NEW-ENVIRON
			"fffe01fffc01",                     // DONT ECHO, WONT ECHO
			"fffdff41",                         // DO 255 (option code 255), A
			"",
			"0d0a0d0a557365723a20",
		}
		for _, h := range fixed {
			op, _ := vlib.UnHex(h)
			if h == "" {
				op = nil
			}
			cs := &c15case{class: "fixed", opening: op, public: true}
			c15genSeg(r, cs)
			cases = append(cases, cs)
		}
		// each verb x each listed option, followed by text, once
		for verb := 251; verb <= 254; verb++ {
			for _, opt := range c15Options {
				cs := &c15case{class: "verb-x-option", opening: []byte{255, byte(verb), opt, 'o', 'k'}, public: true}
				c15genSeg(r, cs)
				cases = append(cases, cs)
			}
		}
		// READ SIZE: the opening's data part shorter than / equal to / one more than / several times the
		// transport read size, for read sizes 1, 2, 7, 64, 8192 and the default (8192), the data arriving
		// inside the negotiation window, with negotiations before, inside and after it
		for _, rs := range []int{1, 2, 7, 64, 8192, 0} {
			eff := rs
			if eff == 0 {
				eff = 8192
			}
			lens := []int{eff - 1, eff, eff + 1, 3*eff + 5}
			if eff == 8192 {
				lens = []int{eff - 1, eff, eff + 1, 2*eff + 5}
				if rs == 0 {
					lens = []int{eff + 1, 2*eff + 5}
				}
			}
			for _, n := range lens {
				text := r.Bytes(n, c15Text)
				op := []byte{c15IAC, c15DO, 3, c15IAC, c15WILL, 1}
				op = append(op, text[:n/2]...)
				switch r.Intn(3) {
				case 0:
					op = append(op, c15IAC, c15DO, 24)
				case 1:
					op = append(op, c15IAC, 241)
				}
				op = append(op, text[n/2:]...)
				if r.Bool() {
					op = append(op, c15IAC, c15WONT, 5)
				}
				cs := &c15case{class: "read-size", opening: op, public: true, rs: rs}
				c15genSeg(r, cs)
				// big openings: large segments, no pauses
				if len(op) > 512 {
					cs.cuts = nil
					for rest := len(op); rest > 0; {
						k := r.Range(1, 4096)
						if k > rest {
							k = rest
						}
						cs.cuts = append(cs.cuts, k)
						rest -= k
					}
				}
				if len(cs.cuts) > 24 || len(op) > 512 {
					cs.gaps = make([]int, len(cs.cuts))
				}
				cs.tms = 320
				cases = append(cases, cs)
			}
		}
		// every option code x every verb at the public level (the step tie has them exhaustively): one
		// opening per verb with all 256 requests
		for verb := 251; verb <= 254; verb++ {
			var op []byte
			for o := 0; o < 256; o++ {
				op = append(op, c15IAC, byte(verb), byte(o))
			}
			op = append(op, 'o', 'k')
			cs := &c15case{class: "all-256-options", opening: op, public: true}
			c15genSeg(r, cs)
			cs.gaps = make([]int, len(cs.cuts))
			cs.tms = 320
			cases = append(cases, cs)
		}
		// very long openings: thousands of requests interleaved with text (about 100 KiB)
		nBig := 1
		if c.thorough() {
			nBig = 3
		}
		for i := 0; i < nBig; i++ {
			var op []byte
			for k := 0; k < 6000; k++ {
				op = append(op, c15IAC, byte(251+r.Intn(4)), byte(r.Intn(256)))
				op = append(op, r.Bytes(r.Range(8, 18), c15Text)...)
				if r.Chance(1, 50) {
					op = append(op, c15IAC, c15IAC)
				}
			}
			cs := &c15case{class: "max-length", opening: op, public: true, big: true}
			c15genSeg(r, cs)
			cs.cuts = nil
			for rest := len(op); rest > 0; {
				k := r.Range(1, 8192)
				if k > rest {
					k = rest
				}
				cs.cuts = append(cs.cuts, k)
				rest -= k
			}
			cs.gaps = make([]int, len(cs.cuts))
			cs.tms = 320
			if i == 1 {
				cs.rs = 64
			}
			cases = append(cases, cs)
		}
		// subnegotiation IAC SB ... IAC SE: not mentioned by the property (outside its domain); what the
		// parser does with it is pinned against the model (theorem subneg_payload_delivered)
		for _, h := range []string{
			"fffb46fffa46014e414d450278fff06c6f67696e", // WILL MSSP, SB MSSP 1 "NAME" 2 "x" SE, "login"
			"fffa1801fff0",             // SB TTYPE SEND SE
			"61fffa2700ffff01fff062",   // a, SB NEW-ENVIRON 0 IAC IAC 1 SE, b
			"fffa1f00500018fff0fffd03", // SB NAWS 80x24 SE, DO SGA
		} {
			op, _ := vlib.UnHex(h)
			cs := &c15case{class: "subnegotiation", opening: op, public: true}
			c15genSeg(r, cs)
			cases = append(cases, cs)
		}
		// socket timeouts from tiny to large. Tiny: the negotiation window (TimeoutSocket/4) is over before
		// anything can arrive; to make that deterministic the server sends its opening only after Open has
		// returned ("late"): the bytes, negotiation included, then reach the reader unparsed and unanswered
		// (the property speaks about the opening phase only; pinned against the model)
		for _, tms := range []int{0, 1, 4, 160} {
			for k := 0; k < 2; k++ {
				op, _ := c15genOpening(r)
				if k == 0 {
					op = append([]byte{c15IAC, c15DO, 24, c15IAC, c15WILL, 1}, []byte("login")...)
				}
				cs := &c15case{class: "late-opening", opening: op, public: true, late: true}
				c15genSeg(r, cs)
				cs.tms = tms
				cs.gaps = make([]int, len(cs.cuts))
				cases = append(cases, cs)
			}
		}
		for _, tms := range []int{1000, 2000} {
			for k := 0; k < nBig; k++ {
				op, _ := c15genOpening(r)
				cs := &c15case{class: "large-timeout", opening: op, public: true}
				c15genSeg(r, cs)
				cs.tms = tms
				cases = append(cases, cs)
			}
		}
		// a negotiation that arrives after the opening phase (in the post-opening text): delivered to the
		// reader as it is and not answered (pinned against the model)
		for k := 0; k < 4; k++ {
			op, _ := c15genOpening(r)
			cs := &c15case{class: "negotiation-after-opening", opening: op, public: true}
			c15genSeg(r, cs)
			term := cs.tail[len(cs.tail)-1]
			cs.tail = append(append([]byte("login"), c15IAC, byte(251+k), 24, 'x', c15IAC, 241), term)
			if bytes.IndexByte(cs.tail[:len(cs.tail)-1], term) >= 0 {
				continue
			}
			cases = append(cases, cs)
		}
		nPub := c.n(800, 6000)
		for i := 0; i < c.n(4000, 100000); i++ {
			op, kinds := c15genOpening(r)
			cs := &c15case{class: "structured", opening: op, public: i < nPub}
			c15genSeg(r, cs)
			if cs.public && r.Chance(1, 3) {
				cs.rs = []int{1, 2, 7, 64}[r.Intn(4)]
			}
			if cs.public {
				for k, v := range kinds {
					res.Distribution["public-token:"+k] += v
				}
			}
			cases = append(cases, cs)
		}
		nPubM := c.n(150, 1500)
		for i := 0; i < c.n(2000, 50000); i++ {
			cs := &c15case{class: "malformed", opening: c15genMalformed(r), public: i < nPubM}
			c15genSeg(r, cs)
			cases = append(cases, cs)
		}
	}

	var logins []*c15login
	if c.replay == "" {
		hists = c15genHistories(c, r.Fork())
		logins = c15genLogins(c, r.Fork())
	}

	// the model and the specification on every opening
	lines := make([]string, len(cases))
	for i, cs := range cases {
		lines[i] = "c15 open " + vlib.Hex(cs.opening)
		if cs.big {
			lines[i] = "c15 spec " + vlib.Hex(cs.opening)
		}
	}
	ans := c.ask(lines)
	leans := make([]c15lean, len(cases))
	for i := range cases {
		if cases[i].big {
			// the executable model appends to initialBuf byte by byte (quadratic); for very long openings
			// its answer is the specification's, which theorem open_total proves equal for every stream
			f := strings.Fields(ans[i])
			if len(f) == 4 {
				ans[i] = strings.Join([]string{f[0], f[1], f[2], f[3], f[1], f[2], f[3], f[1], f[2], f[3]}, " ")
			}
		}
		l, ok := c15parseLean(ans[i])
		if ok && cases[i].late {
			// nothing arrives inside the negotiation window: initialBuf stays empty, nothing is answered, and
			// Read hands the bytes on as the socket delivers them (theorem late_bytes_pass_through)
			l.dom = false
			l.model = c15state{"-", vlib.Hex(cases[i].opening), "."}
			l.asis = l.model
		}
		if !ok {
			res.Fail("machinery", cases[i].line(), "driver answered "+ans[i], "driver")
			return
		}
		leans[i] = l
		if l.dom && (l.model.ctrl != "-" || l.model.data != l.specData || l.model.replies != l.specRepl) {
			res.Fail("machinery", cases[i].line(), "model differs from spec on an in-domain opening: "+ans[i], "model-vs-spec")
		}
	}

	// (a) internal tie, exhaustive: 6 control states x 256 bytes
	res.InternalTie = c15InternalAvailable
	if c15InternalAvailable {
		states := [][]byte{{}, {c15IAC}, {c15IAC, c15DO}, {c15IAC, c15DONT}, {c15IAC, c15WILL}, {c15IAC, c15WONT}}
		if c.thorough() {
			// control buffers the loop cannot produce (the model is stated for them as well)
			for y := 0; y < 251; y++ {
				states = append(states, []byte{c15IAC, byte(y)})
			}
			states = append(states, []byte{'a'}, []byte{'a', c15DO}, []byte{c15IAC, c15DO, 3}, []byte{1, 2, 3, 4})
		}
		var sl []string
		for _, st := range states {
			for b := 0; b < 256; b++ {
				sl = append(sl, fmt.Sprintf("c15 step %s %02x", vlib.Hex(st), b))
			}
		}
		sans := c.ask(sl)
		k := 0
		for _, st := range states {
			for b := 0; b < 256; b++ {
				f := strings.Fields(sans[k])
				line := sl[k]
				k++
				if len(f) != 6 {
					res.Fail("machinery", line, "driver answered "+sans[k-1], "driver")
					continue
				}
				model := c15state{f[0], f[1], f[2]}
				asis := c15state{f[3], f[4], f[5]}
				impl, perr := c15implStep(st, byte(b))
				res.Count("step:state-len-" + strconv.Itoa(len(st)))
				res.Case(line, true)
				if perr != "" {
					res.Fail("correspondence", line, "handleControlCharResponse: "+perr, "step-panic-or-error")
					continue
				}
				if impl != model {
					sig := "step-vs-model"
					if impl == asis {
						sig = "step-vs-model:stays-in-saw-iac-state"
					}
					res.Fail("correspondence", line, fmt.Sprintf("handleControlCharResponse(ctrlBuf=%x, c=%02x) -> ctrlBuf data writes = %s ; model %s", st, b, impl, model), sig)
				}
			}
		}
		res.Exhaustive = true
		res.ExhaustiveOf = "handleControlCharResponse step: 6 reachable control states x 256 input bytes (ctrlBuf', initialBuf', writes)"
		res.Note("exhaustive step correspondence: %d (state, byte) pairs (6 reachable states x 256 bytes first) through the overlay export with a recording net.Conn", len(sl))
	} else {
		res.Note("internal tie unavailable: step correspondence and stream-level internal oracle skipped; public-level tie only")
	}

	// (c) public level
	var pub []int
	for i, cs := range cases {
		if cs.public {
			pub = append(pub, i)
		}
	}
	obs := make([]c15obs, len(cases))
	attempts := make([]int, len(cases))
	judge := func(i int, o c15obs) (kind, detail, sig string) {
		cs, l := cases[i], leans[i]
		if o.setupErr != "" {
			return "setup", o.setupErr, "setup"
		}
		wantRecvSpec := hexListFlat(l.specRepl)
		wantRecvModel := hexListFlat(l.model.replies)
		all := flat(o.reads)
		gotData := "?"
		if bytes.HasSuffix(all, cs.tail) {
			gotData = vlib.Hex(all[:len(all)-len(cs.tail)])
		}
		if l.dom {
			if o.openErr != nil {
				return "oracle", fmt.Sprintf("opening %x: Open failed: %v", cs.opening, o.openErr), "open-error"
			}
			if gotData == "?" {
				return "oracle", fmt.Sprintf("opening %x then %q: reads delivered %x, which does not end with what the server sent after the opening", cs.opening, cs.tail, all), "stream-after-opening-wrong"
			}
			if gotData != l.specData {
				sig := "data-wrong"
				if gotData == l.asis.data {
					sig = "data-swallowed-after-iac-command"
				}
				return "oracle", fmt.Sprintf("server sent opening %s (segments %s, read size %s) then %q: the reads delivered %s before it, the opening's data is %s", c15short(vlib.Hex(cs.opening)), c15short(fmt.Sprint(cs.cuts)), c15rs(cs.rs), cs.tail, c15short(gotData), c15short(l.specData)), sig
			}
			if vlib.Hex(o.recv) != wantRecvSpec {
				return "oracle", fmt.Sprintf("server sent opening %x: it received %s, demanded replies %s", cs.opening, vlib.Hex(o.recv), l.specRepl), "replies-wrong"
			}
		}
		if o.openErr != nil {
			return "correspondence", fmt.Sprintf("opening %x: Open failed: %v (model: opens)", cs.opening, o.openErr), "public-open-error"
		}
		if gotData != l.model.data || vlib.Hex(o.recv) != wantRecvModel {
			return "correspondence", fmt.Sprintf("opening %x: reads delivered %s and server received %s ; model data %s replies %s", cs.opening, gotData, vlib.Hex(o.recv), l.model.data, l.model.replies), "public-vs-model"
		}
		return "", "", ""
	}
	runBatch := func(idx []int, attempt int) {
		var wg sync.WaitGroup
		sem := make(chan struct{}, vlib.Conc(16))
		for _, i := range idx {
			wg.Add(1)
			sem <- struct{}{}
			go func(i int) {
				defer wg.Done()
				defer func() { <-sem }()
				cs := cases[i]
				if attempt == 0 {
					obs[i] = c15runPublic(cs, cs.tms, true)
				} else {
					// re-run of a case that failed or whose timing was off: generous window, no pauses
					w := 640 * attempt
					if cs.late || cs.tms > w {
						w = cs.tms
					}
					obs[i] = c15runPublic(cs, w, false)
				}
				attempts[i] = attempt + 1
			}(i)
		}
		wg.Wait()
	}
	runBatch(pub, 0)
	// A verdict needs the opening to have arrived inside the negotiation window. A case that fails
	// (or whose server-side timing was off) is repeated with a wide window; only a failure that
	// persists is reported. A genuine parser defect is deterministic and persists.
	for attempt := 1; attempt <= 2; attempt++ {
		var again []int
		for _, i := range pub {
			k, _, _ := judge(i, obs[i])
			if k != "" || obs[i].timingBad {
				again = append(again, i)
				if k != "" {
					res.Count("public:failed-attempt-" + strconv.Itoa(attempt))
				} else {
					res.Count("public:server-timing-off-attempt-" + strconv.Itoa(attempt))
				}
			}
		}
		if len(again) == 0 {
			break
		}
		// a genuine defect makes many cases fail and none recover: repeat in chunks and stop at the
		// first chunk in which nothing recovered, so the budget is not spent repeating all of them
		for len(again) > 0 {
			chunk := again
			if len(chunk) > 48 {
				chunk = chunk[:48]
			}
			again = again[len(chunk):]
			for range chunk {
				res.Count("public:repeat-with-wide-window")
			}
			runBatch(chunk, attempt)
			recovered := 0
			for _, i := range chunk {
				if k, _, _ := judge(i, obs[i]); k == "" {
					recovered++
				}
			}
			if recovered == 0 {
				break
			}
		}
	}
	var readLines []string
	var readIdx []int
	for _, i := range pub {
		cs, l, o := cases[i], leans[i], obs[i]
		res.Count("public:" + cs.class)
		res.Count(fmt.Sprintf("public:timeout-socket-%dms", cs.tms))
		res.Count("public:read-size-" + c15rs(cs.rs))
		if cs.class == "read-size" {
			eff := cs.rs
			if eff == 0 {
				eff = 8192
			}
			dl := 0
			if l.specData != "-" {
				dl = len(l.specData) / 2
			}
			switch {
			case dl < eff:
				res.Count("public:read-size:data-shorter-than-read-size")
			case dl == eff:
				res.Count("public:read-size:data-equal-read-size")
			case dl == eff+1:
				res.Count("public:read-size:data-one-more-than-read-size")
			default:
				res.Count("public:read-size:data-several-read-sizes")
			}
		}
		res.Count(fmt.Sprintf("public:segments-%s", bucket(len(cs.cuts))))
		res.Case("p:"+vlib.Hex(cs.opening)+intsStr(cs.cuts), bytes.IndexByte(cs.opening, c15IAC) >= 0)
		if l.dom {
			res.InDomain++
			res.Count("public:in-domain")
		}
		res.TracesVsImpl++
		if i%37 == 0 {
			res.Sample(map[string]any{"class": cs.class, "opening": vlib.Hex(cs.opening), "segments": cs.cuts, "timeout_socket_ms": cs.tms,
				"server_received": vlib.Hex(o.recv), "reads": fmt.Sprintf("%q", o.reads), "in_domain": l.dom})
		}
		kind, detail, sig := judge(i, o)
		switch kind {
		case "":
			if o.openErr == nil && len(o.reads) > 0 {
				// Telnet.Read vs the model's Conn.read: initialBuf first, whole and once, then the socket's chunks
				rest := o.reads
				buf := l.model.data
				if cs.late {
					buf = "-"
				}
				if buf != "-" {
					rest = rest[1:]
				}
				readLines = append(readLines, fmt.Sprintf("c15 reads %s %s %d", buf, vlib.HexList(rest), len(o.reads)))
				readIdx = append(readIdx, i)
			}
		case "setup":
			res.Note("loopback setup failed for one case: %s", detail)
		default:
			res.Fail(kind, cs.line(), detail, sig)
		}
	}
	if len(readLines) > 0 {
		rans := c.ask(readLines)
		for k, i := range readIdx {
			if rans[k] != vlib.HexList(obs[i].reads) {
				res.Fail("correspondence", cases[i].line(), fmt.Sprintf("reads after Open returned %s ; model Conn.reads %s", vlib.HexList(obs[i].reads), rans[k]), "reads-vs-model")
			}
		}
	}
	// (d) history: one transport object opened several times in a row (public level only)
	runC15History(c, hists)

	// (e) end to end through the generic driver: in-channel telnet login / auth bypass after the opening
	runC15Login(c, logins)

	// (b) internal tie, streams: every generated opening through the real step function (after the
	// public level, so that a failing input is reported with its public-level observation first)
	if c15InternalAvailable {
		for i, cs := range cases {
			l := leans[i]
			if cs.late {
				continue
			}
			impl, perr := c15implStream(cs.opening)
			res.Count("internal-stream:" + cs.class)
			if l.dom {
				res.Count("internal-stream:in-domain")
			}
			if !cs.public {
				res.Case("i:"+vlib.Hex(cs.opening), bytes.IndexByte(cs.opening, c15IAC) >= 0)
				if l.dom {
					res.InDomain++
				}
			}
			line := cs.line()
			if perr != "" {
				kind := "correspondence"
				if l.dom {
					kind = "oracle"
				}
				res.Fail(kind, line, "handleControlCharResponse over the opening: "+perr, "stream-panic-or-error")
				continue
			}
			if l.dom {
				if impl.data != l.specData {
					sig := "data-wrong"
					if impl.data == l.asis.data {
						sig = "data-swallowed-after-iac-command"
					}
					res.Fail("oracle", line, fmt.Sprintf("opening %x: initialBuf after negotiation = %s, the opening's data is %s (parser state %s)", cs.opening, impl.data, l.specData, impl.ctrl), sig+":internal")
					continue
				}
				if impl.replies != l.specRepl {
					res.Fail("oracle", line, fmt.Sprintf("opening %x: replies written = %s, demanded %s", cs.opening, impl.replies, l.specRepl), "replies-wrong:internal")
					continue
				}
			}
			if impl != l.model {
				res.Fail("correspondence", line, fmt.Sprintf("opening %x: impl ctrlBuf data writes = %s ; model %s", cs.opening, impl, l.model), "stream-vs-model")
			}
		}
	}
}

// c15short abbreviates long hex strings in messages (the replay file has the full case)
func c15short(h string) string {
	if len(h) <= 160 {
		return h
	}
	return fmt.Sprintf("%s…%s (%d chars)", h[:96], h[len(h)-32:], len(h))
}

func c15rs(rs int) string {
	if rs == 0 {
		return "default"
	}
	return strconv.Itoa(rs)
}

func bucket(n int) string {
	switch {
	case n <= 1:
		return "0-1"
	case n <= 4:
		return "2-4"
	case n <= 16:
		return "5-16"
	default:
		return "17+"
	}
}
