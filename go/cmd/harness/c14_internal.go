//go:build internaltie

package main

import (
	"fmt"

	"github.com/scrapli/scrapligo/transport"
)

// c14Internal: buildOpenArgs itself (overlay export) on arbitrary strings vs the model.
func c14Internal(c *ctx, e *c14env, seeds []uint64) {
	res := c.res
	res.InternalTie = true
	cases := make([]*sysCase, len(seeds))
	lines := make([]string, len(seeds))
	for i, s := range seeds {
		cases[i] = genSys(e, s, true)
		lines[i] = cases[i].leanLine()
	}
	model := c.ask(lines)
	for i, k := range cases {
		line := fmt.Sprintf("int %d", k.seed)
		res.Count("int")
		res.Case(line, false)
		a := &transport.Args{Host: k.host, Port: k.port, User: k.user, Password: k.pw, TimeoutSocket: k.tmo}
		s := &transport.SSHArgs{StrictKey: k.strict, PrivateKeyPath: k.key, ConfigFile: k.cfg, KnownHostsFile: k.kh}
		var pre []string
		if k.shuffle%3 == 0 {
			pre = []string{"stale", "args"}
		}
		got := transport.VerifC14BuildOpenArgs(a, s, k.flatExtra(), pre)
		f := fieldsOf(model[i])
		if len(f) < 6 || f[3] != "ok" {
			res.Fail("machinery", line, "unexpected answer "+model[i]+" for "+lines[i], "c14-int-answer")
			continue
		}
		want, _ := unhexl(f[5])
		same := len(want) == len(got)
		for j := 0; same && j < len(want); j++ {
			same = want[j] == got[j]
		}
		if !same {
			res.Fail("correspondence", line, fmt.Sprintf("buildOpenArgs differs\n impl : %q\n model: %q\n case: %s", got, want, lines[i]), "c14-int-argv-differs")
		}
	}
}
