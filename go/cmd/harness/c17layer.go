package main

// C17 user options layered on embedded definitions: for every advertised name a user option list
// that replaces the privilege levels (renamed / reduced / extended tree, none of whose names is
// the definition's default), the default level, the failure strings, the network on-open /
// on-close functions, the port and the transport type — levels before default and default before
// levels, with the unrelated options in between. The load must succeed, the driver must carry the
// EFFECTIVE configuration (Lean: effective_config_user_over_definition,
// layered_levels_and_default_construct) and drive a device derived from it: Open, a command at the
// effective default, AcquirePriv to every effective level, Close — judged on the device log.

import (
	"fmt"
	"strings"
	"sync"
	"time"

	"github.com/scrapli/scrapligo/driver/network"
	"github.com/scrapli/scrapligo/driver/options"
	"github.com/scrapli/scrapligo/platform"
	"github.com/scrapli/scrapligo/util"

	"verifgo/sim"
)

var c17layerShapes = []string{"renamed", "reduced", "extended"}

// c17layerDef is the effective (user-overridden) configuration as a device/tree view.
func c17layerDef(base *c17def, shape string) *c17def {
	n := map[string]int{"renamed": 3, "reduced": 2, "extended": 4}[shape]
	d := &c17def{file: base.file, variant: base.variant, byKey: map[string]*c17level{}, class: map[string]int{}, kind: "network", c04: "ok"}
	for i := 0; i < n; i++ {
		l := *c17uLevelPool[i]
		l.key, l.name = "u-"+l.key, "u-"+l.name
		if l.previous != "" {
			l.previous = "u-" + l.previous
		}
		l.auth, l.escPrompt, l.authWitness = false, "", ""
		d.levels = append(d.levels, &l)
		d.byKey[l.key] = &l
		d.class[l.key] = i
		d.classes = append(d.classes, []string{l.key})
	}
	d.dd = d.levels[n-1].key
	return d
}

type c17layerOut struct {
	loadErr  error
	panicMsg string
	hang     bool
	fields   string
	errs     []string
	lines    []sim.LineEvent
	marks    []int    // len(lines) after open, command, each acquire
	modes    []string // device mode at the same points
	closed   int
}

func c17runLayer(base, eff *c17def, order string, start string) *c17layerOut {
	out := &c17layerOut{}
	dev := c17newDev(eff, start, "", 0)
	var mu sync.Mutex
	done := make(chan struct{})
	set := func(f func()) { mu.Lock(); f(); mu.Unlock() }
	mark := func() {
		var m string
		var n int
		dev.cli.Snapshot(func() { m, n = dev.cli.Mode, len(dev.cli.Lines) })
		set(func() { out.marks = append(out.marks, n); out.modes = append(out.modes, m) })
	}
	go func() {
		defer close(done)
		defer func() {
			if r := recover(); r != nil {
				set(func() { out.panicMsg = fmt.Sprint(r) })
			}
		}()
		lv := map[string]*network.PrivilegeLevel{}
		for _, l := range eff.levels {
			lv[l.key] = &network.PrivilegeLevel{Name: l.name, Pattern: l.pattern, NotContains: l.notContains, PreviousPriv: l.previous,
				Deescalate: l.deesc, Escalate: l.esc}
		}
		levels := options.WithPrivilegeLevels(lv)
		def := options.WithDefaultDesiredPriv(eff.dd)
		unrelated := []util.Option{
			options.WithFailedWhenContains([]string{"c17 user failure"}),
			options.WithNetworkOnOpen(func(d *network.Driver) error {
				if err := d.AcquirePriv(d.DefaultDesiredPriv); err != nil {
					return err
				}
				_, err := d.SendCommand("user open command")
				return err
			}),
			options.WithNetworkOnClose(func(d *network.Driver) error {
				if err := d.AcquirePriv(d.DefaultDesiredPriv); err != nil {
					return err
				}
				if err := d.Channel.Write([]byte("user-exit"), false); err != nil {
					return err
				}
				return d.Channel.WriteReturn()
			}),
			options.WithPort(2222), options.WithTransportType("telnet"),
		}
		opts := append(c17baseOpts(dev.cli.Pipe), options.WithTimeoutOps(2*time.Second))
		switch order {
		case "levels-first":
			opts = append(append(append(opts, levels), unrelated...), def)
		case "default-first":
			opts = append(append(append(opts, def), unrelated...), levels)
		case "levels-then-default":
			opts = append(append(opts, unrelated...), levels, def)
		default: // default-then-levels, unrelated last
			opts = append(append(opts, def, levels), unrelated...)
		}
		var p *platform.Platform
		var err error
		if base.variant == "" {
			p, err = platform.NewPlatform(c17stem(base.file), "host", opts...)
		} else {
			p, err = platform.NewPlatformVariant(c17stem(base.file), base.variant, "host", opts...)
		}
		if err != nil {
			set(func() { out.loadErr = err })
			return
		}
		nd, err := p.GetNetworkDriver()
		if err != nil {
			set(func() { out.loadErr = err })
			return
		}
		f := "pl=" + c17levelsCanon(nd.PrivilegeLevels) + " dd=" + nd.DefaultDesiredPriv + " fw=" + strings.Join(nd.FailedWhenContains, "|") +
			fmt.Sprintf(" port=%d tt=%s", nd.Transport.Args.Port, nd.TransportType)
		set(func() { out.fields = f })
		dev.cli.Start()
		step := func(name string, err error) bool {
			mark()
			if err != nil {
				set(func() { out.errs = append(out.errs, name+": "+err.Error()) })
				return false
			}
			return true
		}
		if !step("Open", nd.Open()) {
			return
		}
		_, err = nd.SendCommand("show c17")
		if !step("SendCommand", err) {
			return
		}
		for _, l := range eff.levels {
			if !step("AcquirePriv("+l.key+")", nd.AcquirePriv(l.key)) {
				return
			}
		}
		step("Close", nd.Close())
	}()
	select {
	case <-done:
	case <-time.After(20 * time.Second):
		set(func() { out.hang = true })
	}
	mu.Lock()
	res := *out
	res.marks = append([]int{}, out.marks...)
	res.modes = append([]string{}, out.modes...)
	res.errs = append([]string{}, out.errs...)
	mu.Unlock()
	dev.cli.Snapshot(func() {
		res.lines = append([]sim.LineEvent{}, dev.cli.Lines...)
		res.closed = dev.cli.CloseCalls
	})
	return &res
}

func c17layer(c *ctx, base *c17def, shape, order string, verbose bool) {
	v := base.variant
	if v == "" {
		v = "-"
	}
	caseLine := fmt.Sprintf("c17layer %s %s %s %s", base.file, v, shape, order)
	eff := c17layerDef(base, shape)
	start := eff.levels[(len(shape)+len(order))%len(eff.levels)].key
	o := c17runLayer(base, eff, order, start)
	c.res.Case(caseLine, true)
	c.res.InDomain++
	c.res.Count("layered:" + shape + ":" + order)
	if verbose {
		fmt.Printf("%s: loadErr=%v panic=%q hang=%v errs=%v fields=%s\n  lines: %s\n", caseLine, o.loadErr, o.panicMsg, o.hang, o.errs, o.fields, c17fmtLines(o.lines))
	}
	fail := func(sig, f string, a ...any) {
		c.res.Fail("oracle", caseLine, fmt.Sprintf("%s with user options (%s tree %v, default %s, failure strings, on-open/on-close functions, port, transport type; order %s): ",
			base.label(), shape, eff.classes, eff.dd, order)+fmt.Sprintf(f, a...)+"\n device log: "+c17fmtLines(o.lines), sig+":"+base.label())
	}
	if o.panicMsg != "" {
		fail("layered-panic", "panic %s", o.panicMsg)
		return
	}
	if o.loadErr != nil {
		fail("layered-user-options-do-not-load", "the platform does not load: %v (model: the effective configuration constructs — layered_levels_and_default_construct)", o.loadErr)
		return
	}
	lv := map[string]*network.PrivilegeLevel{}
	for _, l := range eff.levels {
		lv[l.key] = &network.PrivilegeLevel{Name: l.name, Pattern: l.pattern, NotContains: l.notContains, PreviousPriv: l.previous, Deescalate: l.deesc, Escalate: l.esc}
	}
	want := "pl=" + c17levelsCanon(lv) + " dd=" + eff.dd + " fw=c17 user failure port=2222 tt=telnet"
	if o.fields != want {
		fail("layered-effective-config", "the driver does not carry the effective configuration (user over definition)\n driver: %s\n model : %s", o.fields, want)
	}
	if o.hang {
		fail("session-hang", "no return within 20 s")
		return
	}
	if len(o.errs) > 0 {
		fail("layered-session-error", "%s", strings.Join(o.errs, "; "))
		return
	}
	// device log: Open = path to the effective default + the user's on-open command; command at the
	// default; every acquisition the tree path; Close = path back to the default + user-exit
	seg := func(i int) []string {
		lo := 0
		if i > 0 {
			lo = o.marks[i-1]
		}
		hi := len(o.lines)
		if i < len(o.marks) {
			hi = o.marks[i]
		}
		return nonEmptyLines(o.lines[c17min(lo, len(o.lines)):c17min(hi, len(o.lines))])
	}
	cmp := func(what string, got, exp []string) {
		if strings.Join(got, "\x00") != strings.Join(exp, "\x00") {
			fail("layered-device-log", "%s sent %q, the effective configuration prescribes %q", what, got, exp)
		}
	}
	cmp("Open", seg(0), append(eff.pathLines(start, eff.dd, ""), "user open command"))
	cmp("SendCommand", seg(1), []string{"show c17"})
	at := eff.dd
	for i, l := range eff.levels {
		cmp("AcquirePriv("+l.key+")", seg(2+i), eff.pathLines(at, l.key, ""))
		if 2+i < len(o.modes) && o.modes[2+i] != l.key {
			fail("layered-acquire-wrong-level", "AcquirePriv(%s) left the device in %s", l.key, o.modes[2+i])
		}
		at = l.key
	}
	closeSeg := nonEmptyLines(o.lines[c17min(o.marks[1+len(eff.levels)], len(o.lines)):])
	cmp("Close", closeSeg, append(eff.pathLines(at, eff.dd, ""), "user-exit"))
	if o.closed < 1 {
		fail("transport-not-closed", "Close returned without closing the transport")
	}
}
