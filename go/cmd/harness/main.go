// Command harness is the correspondence check: it runs the real scrapligo code (built from
// /repo's working tree) and the Lean model driver on the same generated cases, evaluates the
// property oracle on the implementation, and writes a Result JSON for bin/check.
package main

import (
	"flag"
	"fmt"
	"os"
	"strconv"

	"verifgo/vlib"
)

type ctx struct {
	tier   string
	seed   uint64
	driver string
	out    string
	replay string
	scale  int // multiplier on case counts (search mode widens)
	res    *vlib.Result
	rng    *vlib.Rng
}

func (c *ctx) thorough() bool { return c.tier == "thorough" }

// n picks a case count by tier.
func (c *ctx) n(quick, thorough int) int {
	k := quick
	if c.thorough() {
		k = thorough
	}
	return k * c.scale
}

func (c *ctx) ask(lines []string) []string {
	ans, err := vlib.AskLean(c.driver, lines)
	if err != nil {
		fmt.Fprintln(os.Stderr, "harness:", err)
		os.Exit(3)
	}
	return ans
}

var props = map[string]func(*ctx){}

// repoDir is the scrapligo tree the harness was built against (bin/check exports VERIF_REPO).
func repoDir() string {
	if d := os.Getenv("VERIF_REPO"); d != "" {
		return d
	}
	return "/repo"
}

func main() {
	if len(os.Args) < 2 {
		fmt.Fprintln(os.Stderr, "usage: harness <prop> [flags]")
		os.Exit(2)
	}
	prop := os.Args[1]
	fs := flag.NewFlagSet("harness", flag.ExitOnError)
	tier := fs.String("tier", "quick", "quick|thorough")
	seed := fs.String("seed", "1", "PRNG seed")
	driver := fs.String("driver", "/verif/lean/.lake/build/bin/driver", "compiled Lean model driver")
	out := fs.String("out", "", "result json")
	replay := fs.String("replay", "", "replay one case line")
	scale := fs.Int("scale", 1, "case-count multiplier")
	fs.Parse(os.Args[2:])
	f, ok := props[prop]
	if !ok {
		fmt.Fprintln(os.Stderr, "harness: unknown property", prop)
		os.Exit(2)
	}
	s, _ := strconv.ParseUint(*seed, 10, 64)
	c := &ctx{tier: *tier, seed: s, driver: *driver, out: *out, replay: *replay, scale: *scale,
		res: vlib.NewResult(prop), rng: vlib.NewRng(s)}
	f(c)
	if c.out != "" {
		if err := c.res.Write(c.out); err != nil {
			fmt.Fprintln(os.Stderr, "harness:", err)
			os.Exit(3)
		}
	}
	fmt.Printf("harness %s: evaluations=%d distinct=%d findings=%d\n", prop, c.res.Evaluations, c.res.Distinct, len(c.res.Findings))
}
